(** C12 -- proofs about the BIP32 model (Model/Bip32.v) against the specification
    (Model/Bip32Spec.v).  Everything is for ALL groups satisfying [group_laws], ALL oracle
    functions, all roots / chain codes / prefixes and paths of any length. *)
From SL Require Import Lib.Base Lib.Oracle Model.Bip32 Model.Bip32Spec.
Local Open Scope N_scope.

(** SEC1 compressed encodings: 33 bytes, the identity is the single byte 0 (k256) *)
Definition enc_len {G} (O : group_ops G) : Prop :=
  forall P, length (g_enc O P) = if g_eqb O P (g_id O) then 1%nat else 33%nat.

(** output lengths that the Rust types guarantee (GenericArray<u8, U64> / <u8, U20>) *)
Definition oracle_lens (hmac512 : list N -> list N -> list N) (ripemd160 : list N -> list N) : Prop :=
  (forall k d, length (hmac512 k d) = 64%nat) /\ (forall d, length (ripemd160 d) = 20%nat).

Definition zsum (l : list Z) : Z := fold_right Z.add 0%Z l.

Lemma to_le_length n v : length (to_le n v) = n.
Proof. revert v; induction n; intros; cbn [to_le length]; [reflexivity|rewrite IHn; reflexivity]. Qed.
Lemma to_be_length n v : length (to_be n v) = n.
Proof. unfold to_be. rewrite rev_length. apply to_le_length. Qed.

Lemma nth_last {A} (l : list A) d : nth (length l - 1)%nat l d = last l d.
Proof.
  induction l as [|x r IH]; [reflexivity|].
  destruct r as [|y r']; [reflexivity|].
  change (last (x :: y :: r') d) with (last (y :: r') d). rewrite <- IH.
  cbn [length]. replace (S (S (length r')) - 1)%nat with (S (S (length r') - 1)) by lia.
  reflexivity.
Qed.

Lemma last_cons_def {A} (r : list A) : forall i d, last (i :: r) d = last r i.
Proof.
  induction r as [|y r' IH]; intros i d; [reflexivity|].
  change (last (i :: y :: r') d) with (last (y :: r') d). rewrite (IH y d), (IH y i). reflexivity.
Qed.

Arguments N.pow : simpl never.
Arguments N.modulo : simpl never.
Arguments N.div : simpl never.
Arguments Z.modulo : simpl never.
Arguments of_be : simpl never.
Arguments to_be : simpl never.
Arguments firstn : simpl never.
Arguments skipn : simpl never.

Section Proofs.
  Variable G : Type.
  Variable O : group_ops G.
  Variable hmac512 : list N -> list N -> list N.
  Variable sha256 : list N -> list N.
  Variable ripemd160 : list N -> list N.
  Variable q : Z.
  Hypothesis laws : group_laws q O.
  Hypothesis elen : enc_len O.

  Notation add := (g_add O).
  Notation smul := (g_smul O).
  Notation gen := (g_gen O).
  Notation gid := (g_id O).
  Notation dcp := (derive_child_pubkey G O hmac512 q).
  Notation gfp := (get_finger_print G O sha256 ripemd160).
  Notation wlk := (walk G O hmac512 sha256 ripemd160 q).
  Notation dxp := (derive_xpub G O hmac512 sha256 ripemd160 q).
  Notation tostr := (to_string G O sha256).
  Notation offs := (walk_offsets G O hmac512 q).
  Notation ckd := (CKDpub G O hmac512 q).
  Notation ckde := (CKDpub_ext G O hmac512 sha256 ripemd160 q).
  Notation spec := (bip32_spec G O hmac512 sha256 ripemd160 q).
  Notation IL_of := (step_IL G O hmac512).

  Lemma eqb_refl P : g_eqb O P P = true.
  Proof. apply (gl_eqb q O laws). reflexivity. Qed.

  Lemma eqb_false P Q : P <> Q -> g_eqb O P Q = false.
  Proof.
    intros NE. destruct (g_eqb O P Q) eqn:E; [|reflexivity].
    apply (gl_eqb q O laws) in E. contradiction.
  Qed.

  Lemma eqb_false_ne P Q : g_eqb O P Q = false -> P <> Q.
  Proof. intros E ->. rewrite eqb_refl in E. discriminate. Qed.

  (** *** one step *)

  (** the step never panics *)
  Lemma dcp_no_panic P c i : is_panic (dcp P c i) = false.
  Proof.
    unfold derive_child_pubkey. destruct (is_normal i); [|reflexivity].
    destruct (_ >? q)%Z; [reflexivity|]. destruct (g_eqb O _ _); reflexivity.
  Qed.

  (** child = parent + offset * G *)
  Lemma ckd_offset_lem P c i o P' c' :
    dcp P c i = Val (o, P', c') -> P' = add P (smul o gen).
  Proof.
    unfold derive_child_pubkey. destruct (is_normal i); [|discriminate].
    destruct (_ >? q)%Z; [discriminate|]. destruct (g_eqb O _ _); [discriminate|].
    intros E. inversion E; subst. apply (gl_add_comm q O laws).
  Qed.

  Lemma dcp_child_not_id P c i o P' c' : dcp P c i = Val (o, P', c') -> g_eqb O P' gid = false.
  Proof.
    unfold derive_child_pubkey. destruct (is_normal i); [|discriminate].
    destruct (_ >? q)%Z; [discriminate|]. destruct (g_eqb O _ _) eqn:E; [discriminate|].
    intros E'. inversion E'; subst. exact E.
  Qed.

  Lemma dcp_offset_range P c i o P' c' : (0 < q)%Z -> dcp P c i = Val (o, P', c') -> (0 <= o < q)%Z.
  Proof.
    intros Hq. unfold derive_child_pubkey. destruct (is_normal i); [|discriminate].
    destruct (_ >? q)%Z; [discriminate|]. destruct (g_eqb O _ _); [discriminate|].
    intros E. inversion E; subst. apply Z.mod_pos_bound. exact Hq.
  Qed.

  Lemma dcp_hardened P c i : 2 ^ 31 <= i -> dcp P c i = Err E_Hardened.
  Proof.
    intros Hi. unfold derive_child_pubkey, is_normal.
    destruct (i <? 2 ^ 31) eqn:E; [apply N.ltb_lt in E; lia|reflexivity].
  Qed.

  Lemma dcp_chain_code_len P c i o P' c' :
    (forall k d, length (hmac512 k d) = 64%nat) -> dcp P c i = Val (o, P', c') -> length c' = 32%nat.
  Proof.
    intros HL. unfold derive_child_pubkey. destruct (is_normal i); [|discriminate].
    destruct (_ >? q)%Z; [discriminate|]. destruct (g_eqb O _ _); [discriminate|].
    intros E. inversion E; subst. rewrite skipn_length, HL. reflexivity.
  Qed.

  Lemma gfp_val P : g_eqb O P gid = false ->
    gfp P = Val (fingerprint G O sha256 ripemd160 P).
  Proof.
    intros NE. unfold get_finger_print. rewrite (elen P), NE. reflexivity.
  Qed.

  (** the panic sites are real: outside derive_xpub the identity key reaches them *)
  Lemma gfp_identity_panics : gfp gid = Panic P_fp33.
  Proof. unfold get_finger_print. rewrite (elen gid), eqb_refl. reflexivity. Qed.

  (** the step against CKDpub, away from the I_L = n boundary *)
  Lemma ckd_matches_spec_lem P c i :
    Z.of_N (of_be (firstn 32 (hmac512 c (g_enc O P ++ to_be 4 i)))) <> q ->
    dcp P c i =
      match ckd P c i with
      | Some (K, c') => Val ((Z.of_N (of_be (firstn 32 (hmac512 c (g_enc O P ++ to_be 4 i)))) mod q)%Z, K, c')
      | None => dcp P c i
      end
    /\ (ckd P c i = None -> exists e, dcp P c i = Err e).
  Proof.
    intros NB. unfold derive_child_pubkey, CKDpub, is_normal, to_bits, serP, ser32, parse256, point.
    set (I := hmac512 c (g_enc O P ++ to_be 4 i)) in *.
    set (il := Z.of_N (of_be (firstn 32 I))) in *.
    rewrite <- (gl_smul_mod q O laws il gen).
    destruct (2 ^ 31 <=? i) eqn:Eh.
    - apply N.leb_le in Eh. destruct (i <? 2 ^ 31) eqn:E2; [apply N.ltb_lt in E2; lia|].
      split; [reflexivity|]. intros _. eexists; reflexivity.
    - apply N.leb_gt in Eh. destruct (i <? 2 ^ 31) eqn:E2; [|apply N.ltb_ge in E2; lia].
      destruct (q <=? il)%Z eqn:E3.
      + apply Z.leb_le in E3. cbn [orb].
        destruct (il >? q)%Z eqn:E4; [|rewrite Z.gtb_ltb in E4; apply Z.ltb_ge in E4; lia].
        split; [reflexivity|]. intros _. eexists; reflexivity.
      + apply Z.leb_gt in E3. cbn [orb].
        destruct (il >? q)%Z eqn:E4; [rewrite Z.gtb_ltb in E4; apply Z.ltb_lt in E4; lia|].
        destruct (g_eqb O (add (smul il gen) P) gid) eqn:E5.
        * split; [reflexivity|]. intros _. eexists; reflexivity.
        * split; [reflexivity|]. discriminate.
  Qed.

  (** *** the loop against the recursive specification *)

  Definition step_opt (acc : option (ext_pub G)) (i : N) : option (ext_pub G) :=
    match acc with Some par => ckde par i | None => None end.
  Definition spec_from (e : ext_pub G) (p : list N) : option (ext_pub G) := fold_left step_opt p (Some e).

  Lemma fold_none p : fold_left step_opt p None = None.
  Proof. induction p; [reflexivity|exact IHp]. Qed.

  Lemma derive_rev_fold K c p :
    derive_rev G O hmac512 sha256 ripemd160 q K c (rev p) = spec_from (master G K c) p.
  Proof.
    unfold spec_from. induction p as [|i p IH] using rev_ind; [reflexivity|].
    rewrite rev_app_distr. cbn [rev app derive_rev]. rewrite IH.
    rewrite fold_left_app. reflexivity.
  Qed.

  Lemma spec_is_fold K c p : spec K c p = spec_from (master G K c) p.
  Proof. apply derive_rev_fold. Qed.

  (** a successful spec step is exactly one successful iteration of the loop *)
  Lemma step_some e i e1 : g_eqb O (e_key G e) gid = false -> ckde e i = Some e1 ->
    gfp (e_key G e) = Val (e_fingerprint G e1)
    /\ dcp (e_key G e) (e_chain_code G e) i = Val ((IL_of e i mod q)%Z, e_key G e1, e_chain_code G e1)
    /\ g_eqb O (e_key G e1) gid = false
    /\ e_depth G e1 = e_depth G e + 1 /\ e_child_number G e1 = i /\ i < 2 ^ 31
    /\ (IL_of e i < q)%Z.
  Proof.
    intros NE. unfold CKDpub_ext, CKDpub, step_IL.
    unfold derive_child_pubkey, is_normal, to_bits, serP, ser32, parse256, point.
    set (I := hmac512 (e_chain_code G e) (g_enc O (e_key G e) ++ to_be 4 i)).
    set (il := Z.of_N (of_be (firstn 32 I))).
    rewrite <- (gl_smul_mod q O laws il gen).
    destruct (2 ^ 31 <=? i) eqn:Eh; [discriminate|]. apply N.leb_gt in Eh.
    destruct (q <=? il)%Z eqn:E3; [discriminate|]. cbn [orb]. apply Z.leb_gt in E3.
    destruct (g_eqb O (add (smul il gen) (e_key G e)) gid) eqn:E5; [discriminate|].
    intros E. inversion E; subst; clear E. cbn [e_fingerprint e_key e_chain_code e_depth e_child_number].
    rewrite (gfp_val _ NE).
    destruct (i <? 2 ^ 31) eqn:E2; [|apply N.ltb_ge in E2; lia].
    destruct (il >? q)%Z eqn:E4; [rewrite Z.gtb_ltb in E4; apply Z.ltb_lt in E4; lia|].
    repeat split; try reflexivity; assumption.
  Qed.

  (** a failing spec step away from the boundary is an error of the loop body *)
  Lemma step_none e i : g_eqb O (e_key G e) gid = false -> ckde e i = None -> IL_of e i <> q ->
    exists err, dcp (e_key G e) (e_chain_code G e) i = Err err
      /\ (i < 2 ^ 31 -> err = E_InvalidChildScalar \/ err = E_PointAtInfinity).
  Proof.
    intros NE. unfold CKDpub_ext, CKDpub, step_IL.
    unfold derive_child_pubkey, is_normal, to_bits, serP, ser32, parse256, point.
    set (I := hmac512 (e_chain_code G e) (g_enc O (e_key G e) ++ to_be 4 i)).
    set (il := Z.of_N (of_be (firstn 32 I))).
    rewrite <- (gl_smul_mod q O laws il gen).
    destruct (2 ^ 31 <=? i) eqn:Eh.
    - apply N.leb_le in Eh. destruct (i <? 2 ^ 31) eqn:E2; [apply N.ltb_lt in E2; lia|].
      intros _ _. eexists; split; [reflexivity|]. intros; lia.
    - apply N.leb_gt in Eh. destruct (i <? 2 ^ 31) eqn:E2; [|apply N.ltb_ge in E2; lia].
      destruct (q <=? il)%Z eqn:E3.
      + apply Z.leb_le in E3. intros _ NB.
        destruct (il >? q)%Z eqn:E4; [|rewrite Z.gtb_ltb in E4; apply Z.ltb_ge in E4; lia].
        eexists; split; [reflexivity|]. intros _; left; reflexivity.
      + apply Z.leb_gt in E3. cbn [orb].
        destruct (il >? q)%Z eqn:E4; [rewrite Z.gtb_ltb in E4; apply Z.ltb_lt in E4; lia|].
        destruct (g_eqb O (add (smul il gen) (e_key G e)) gid) eqn:E5; [|discriminate].
        intros _ _. eexists; split; [reflexivity|]. intros _; right; reflexivity.
  Qed.

  (** spec Some  ==>  the loop reaches exactly that key *)
  Lemma walk_spec_some p : forall e e', g_eqb O (e_key G e) gid = false ->
    spec_from e p = Some e' ->
    wlk (e_key G e) (e_chain_code G e) (e_fingerprint G e) p
      = Val (e_key G e', e_chain_code G e', e_fingerprint G e')
    /\ e_depth G e' = e_depth G e + N.of_nat (length p)
    /\ e_child_number G e' = last p (e_child_number G e)
    /\ g_eqb O (e_key G e') gid = false
    /\ Forall (fun i => i < 2 ^ 31) p.
  Proof.
    induction p as [|i r IH]; intros e e' NE S.
    - unfold spec_from in S. cbn [fold_left] in S. inversion S; subst.
      cbn [walk length last]. repeat split; auto. cbn. lia.
    - unfold spec_from in S. cbn [fold_left step_opt] in S.
      destruct (ckde e i) as [e1|] eqn:E1; [|rewrite fold_none in S; discriminate].
      destruct (step_some e i e1 NE E1) as (F & D & NE1 & Dp & Cn & Hi & _).
      destruct (IH e1 e' NE1 S) as (W & Dp' & Cn' & NE' & Fa).
      cbn [walk]. rewrite F. cbn [obind]. rewrite D. cbn [obind]. rewrite W.
      repeat split; auto.
      + rewrite Dp', Dp. cbn [length]. lia.
      + rewrite Cn', Cn. symmetry. apply last_cons_def.
  Qed.

  (** spec None, no I_L = n on the way  ==>  the loop returns an error *)
  Lemma walk_spec_none p : forall e, g_eqb O (e_key G e) gid = false ->
    spec_from e p = None ->
    (forall p1 i p2 e', p = p1 ++ i :: p2 -> spec_from e p1 = Some e' -> IL_of e' i <> q) ->
    exists err, wlk (e_key G e) (e_chain_code G e) (e_fingerprint G e) p = Err err
      /\ (Forall (fun i => i < 2 ^ 31) p -> err = E_InvalidChildScalar \/ err = E_PointAtInfinity).
  Proof.
    induction p as [|i r IH]; intros e NE S NB.
    - discriminate.
    - unfold spec_from in S. cbn [fold_left step_opt] in S. cbn [walk].
      rewrite (gfp_val _ NE). cbn [obind].
      destruct (ckde e i) as [e1|] eqn:E1.
      + destruct (step_some e i e1 NE E1) as (F & D & NE1 & _).
        rewrite D. cbn [obind].
        destruct (IH e1 NE1 S) as (err & W & Cl).
        { intros p1 j p2 e' Ep Sp. apply (NB (i :: p1) j p2 e').
          - rewrite Ep. reflexivity.
          - unfold spec_from. cbn [fold_left step_opt]. rewrite E1. exact Sp. }
        rewrite (gfp_val _ NE) in F. inversion F as [F'].
        exists err. split; [rewrite F'; exact W|]. intros Fa. inversion Fa; subst. auto.
      + destruct (step_none e i NE E1) as (err & D & Cl).
        { apply (NB [] i r e); reflexivity. }
        rewrite D. cbn [obind]. exists err. split; [reflexivity|].
        intros Fa. inversion Fa; subst. auto.
  Qed.

  (** the record the specification's key corresponds to *)
  Definition xpub_of_ext (pfx : prefix) (e : ext_pub G) : xpubkey G :=
    {| x_prefix := pfx; x_parent_fingerprint := e_fingerprint G e; x_child_number := e_child_number G e;
       x_pubkey := e_key G e; x_chain_code := e_chain_code G e; x_depth := e_depth G e |}.

  (** some step of the path sits exactly on the boundary I_L = n, where the code ([>]) and the BIP
      ([>=]) differ *)
  Definition boundary_hit (root : G) (cc : list N) (path : list N) : Prop :=
    exists p1 i p2 e, path = p1 ++ i :: p2 /\ spec root cc p1 = Some e /\ IL_of e i = q.

  Lemma final_child_num path : Forall (fun i => i < 2 ^ 31) path ->
    to_u32 (if N.of_nat (length path) =? 0 then 0 else nth (length path - 1)%nat path 0) = last path 0.
  Proof.
    intros Fa. destruct path as [|x r]; [reflexivity|].
    replace (N.of_nat (length (x :: r)) =? 0) with false
      by (symmetry; apply N.eqb_neq; cbn [length]; lia).
    rewrite nth_last. unfold to_u32. apply N.mod_small.
    assert (In (last (x :: r) 0) (x :: r)).
    { clear Fa. revert x. induction r as [|y r' IH]; intros x; [left; reflexivity|].
      right. apply (IH y). }
    rewrite Forall_forall in Fa. apply Fa. assumption.
  Qed.

  Lemma xpub_spec_some pfx root cc path e : root <> gid -> (length path <= 255)%nat ->
    spec root cc path = Some e -> dxp pfx root cc path = Val (xpub_of_ext pfx e).
  Proof.
    intros NE Len S. rewrite spec_is_fold in S.
    assert (NEb := eqb_false _ _ NE).
    destruct (walk_spec_some path (master G root cc) e NEb S) as (W & Dp & Cn & _ & Fa).
    cbn [master e_key e_chain_code e_fingerprint e_depth e_child_number] in W, Dp, Cn.
    unfold derive_xpub. rewrite NEb.
    destruct (255 <? N.of_nat (length path)) eqn:E; [apply N.ltb_lt in E; lia|].
    rewrite W. cbn [obind]. rewrite (final_child_num path Fa).
    unfold xpub_of_ext. rewrite Dp, Cn. rewrite N.add_0_l.
    rewrite N.mod_small by lia. reflexivity.
  Qed.

  Lemma xpub_spec_none pfx root cc path : root <> gid -> (length path <= 255)%nat ->
    spec root cc path = None -> ~ boundary_hit root cc path ->
    exists err, dxp pfx root cc path = Err err
      /\ (Forall (fun i => i < 2 ^ 31) path -> err = E_InvalidChildScalar \/ err = E_PointAtInfinity).
  Proof.
    intros NE Len S NB. rewrite spec_is_fold in S.
    assert (NEb := eqb_false _ _ NE).
    destruct (walk_spec_none path (master G root cc) NEb S) as (err & W & Cl).
    { intros p1 i p2 e' Ep Sp Hit. apply NB. exists p1, i, p2, e'.
      rewrite spec_is_fold. auto. }
    cbn [master e_key e_chain_code e_fingerprint] in W.
    unfold derive_xpub. rewrite NEb.
    destruct (255 <? N.of_nat (length path)) eqn:E; [apply N.ltb_lt in E; lia|].
    rewrite W. cbn [obind]. exists err. auto.
  Qed.

  (** the 78-byte layouts coincide by construction of [xpub_of_ext]; what is left is the length *)
  Lemma serialize_eq pfx e :
    serialize G O (xpub_of_ext pfx e) = serialize_ext G O (prefix_u32 pfx) e.
  Proof. reflexivity. Qed.

  Lemma to_string_spec pfx e b s : e_depth G e < 256 ->
    tostr (xpub_of_ext pfx e) b = Val s -> spec_string G O sha256 (prefix_u32 pfx) e b = Some s.
  Proof.
    intros Dp. unfold to_string, spec_string. rewrite serialize_eq.
    destruct (_ =? 78)%nat; [|discriminate].
    destruct (e_depth G e <? 256) eqn:E; [|apply N.ltb_ge in E; lia].
    unfold base58check, checksum. intros E'. inversion E'. reflexivity.
  Qed.

  Lemma serialize_len (x : xpubkey G) :
    length (x_parent_fingerprint G x) = 4%nat -> length (x_chain_code G x) = 32%nat ->
    g_eqb O (x_pubkey G x) gid = false -> length (serialize G O x) = 78%nat.
  Proof.
    intros L1 L2 NE. unfold serialize. rewrite !app_length, !to_be_length, L1, L2, (elen _), NE.
    reflexivity.
  Qed.

  Lemma to_string_val (x : xpubkey G) b :
    length (x_parent_fingerprint G x) = 4%nat -> length (x_chain_code G x) = 32%nat ->
    g_eqb O (x_pubkey G x) gid = false -> exists s, tostr x b = Val s.
  Proof.
    intros L1 L2 NE. unfold to_string. rewrite (serialize_len x L1 L2 NE). cbn [Nat.eqb].
    eexists; reflexivity.
  Qed.

  Lemma to_string_identity_panics (x : xpubkey G) b :
    length (x_parent_fingerprint G x) = 4%nat -> length (x_chain_code G x) = 32%nat ->
    x_pubkey G x = gid -> tostr x b = Panic P_ser78.
  Proof.
    intros L1 L2 E. unfold to_string, serialize.
    rewrite !app_length, !to_be_length, L1, L2, (elen _), E, eqb_refl. reflexivity.
  Qed.

  (** lengths along the loop *)
  Lemma walk_lens p : oracle_lens hmac512 ripemd160 -> forall P c f P' c' f',
    wlk P c f p = Val (P', c', f') ->
    length c = 32%nat -> length f = 4%nat -> g_eqb O P gid = false ->
    length c' = 32%nat /\ length f' = 4%nat /\ g_eqb O P' gid = false.
  Proof.
    intros [HL RL]. induction p as [|i r IH]; intros P c f P' c' f' W Lc Lf NE.
    - cbn [walk] in W. inversion W; subst. auto.
    - cbn [walk] in W. rewrite (gfp_val _ NE) in W. cbn [obind] in W.
      destruct (dcp P c i) as [[[o P1] c1]|e|s] eqn:D; cbn [obind] in W; try discriminate.
      apply (IH _ _ _ _ _ _ W).
      + apply (dcp_chain_code_len _ _ _ _ _ _ HL D).
      + unfold fingerprint, hash160. rewrite firstn_length, RL. reflexivity.
      + apply (dcp_child_not_id _ _ _ _ _ _ D).
  Qed.

  (** *** additivity *)
  Lemma walk_additive p : forall P c f P' c' f',
    wlk P c f p = Val (P', c', f') ->
    P' = add P (smul (zsum (offs P c p)) gen) /\ length (offs P c p) = length p.
  Proof.
    induction p as [|i r IH]; intros P c f P' c' f' W.
    - cbn [walk] in W. inversion W; subst. cbn [walk_offsets zsum fold_right length].
      rewrite (gl_smul_0 q O laws), (gl_add_id q O laws). auto.
    - cbn [walk] in W. destruct (gfp P) as [fp| |]; cbn [obind] in W; try discriminate.
      cbn [walk_offsets].
      destruct (dcp P c i) as [[[o P1] c1]|e|s] eqn:D; cbn [obind] in W; try discriminate.
      destruct (IH _ _ _ _ _ _ W) as [E L]. split; [|cbn [length]; rewrite L; reflexivity].
      rewrite E. rewrite (ckd_offset_lem _ _ _ _ _ _ D).
      unfold zsum. cbn [fold_right]. fold (zsum (offs P1 c1 r)).
      rewrite (gl_smul_add q O laws). rewrite (gl_add_assoc q O laws). reflexivity.
  Qed.

  Lemma xpub_additive_lem pfx root cc path x : dxp pfx root cc path = Val x ->
    x_pubkey G x = add root (smul (zsum (offs root cc path)) gen)
    /\ length (offs root cc path) = length path.
  Proof.
    unfold derive_xpub. destruct (g_eqb O root gid); [discriminate|].
    destruct (255 <? _); [discriminate|].
    destruct (wlk root cc [0; 0; 0; 0] path) as [[[P' c'] f']|e|s] eqn:W; cbn [obind]; try discriminate.
    intros E. inversion E; subst. cbn [x_pubkey]. apply (walk_additive _ _ _ _ _ _ _ W).
  Qed.

  (** *** error cases and panic freedom *)
  Lemma walk_no_panic p : forall P c f, g_eqb O P gid = false -> is_panic (wlk P c f p) = false.
  Proof.
    induction p as [|i r IH]; intros P c f NE; [reflexivity|].
    cbn [walk]. rewrite (gfp_val _ NE). cbn [obind].
    destruct (dcp P c i) as [[[o P1] c1]|e|s] eqn:D; cbn [obind]; try reflexivity.
    - apply IH. apply (dcp_child_not_id _ _ _ _ _ _ D).
    - pose proof (dcp_no_panic P c i) as NP. rewrite D in NP. discriminate.
  Qed.

  Lemma derive_xpub_no_panic_lem pfx root cc path : is_panic (dxp pfx root cc path) = false.
  Proof.
    unfold derive_xpub. destruct (g_eqb O root gid) eqn:NE; [reflexivity|].
    destruct (255 <? _); [reflexivity|].
    pose proof (walk_no_panic path root cc [0; 0; 0; 0] NE) as NP.
    destruct (wlk root cc [0; 0; 0; 0] path) as [[[P' c'] f']|e|s]; cbn [obind]; try reflexivity.
    discriminate.
  Qed.

  Lemma xpub_fields_ok pfx root cc path x : oracle_lens hmac512 ripemd160 -> length cc = 32%nat ->
    dxp pfx root cc path = Val x ->
    length (x_parent_fingerprint G x) = 4%nat /\ length (x_chain_code G x) = 32%nat
    /\ g_eqb O (x_pubkey G x) gid = false /\ x_depth G x = N.of_nat (length path) /\ x_depth G x < 256.
  Proof.
    intros OL Lc. unfold derive_xpub. destruct (g_eqb O root gid) eqn:NE; [discriminate|].
    destruct (255 <? _) eqn:E; [discriminate|]. apply N.ltb_ge in E.
    destruct (wlk root cc [0; 0; 0; 0] path) as [[[P' c'] f']|e|s] eqn:W; cbn [obind]; try discriminate.
    intros E'. inversion E'; subst. cbn [x_parent_fingerprint x_chain_code x_pubkey x_depth].
    destruct (walk_lens path OL _ _ _ _ _ _ W Lc eq_refl NE) as (L1 & L2 & NE').
    rewrite N.mod_small by lia. repeat split; auto. lia.
  Qed.

  Lemma to_string_no_panic_lem pfx root cc path x b : oracle_lens hmac512 ripemd160 -> length cc = 32%nat ->
    dxp pfx root cc path = Val x -> is_panic (tostr x b) = false.
  Proof.
    intros OL Lc D. destruct (xpub_fields_ok _ _ _ _ _ OL Lc D) as (L1 & L2 & NE & _).
    destruct (to_string_val x b L1 L2 NE) as [s E]. rewrite E. reflexivity.
  Qed.

  Lemma walk_hardened p : forall P c f, g_eqb O P gid = false ->
    Exists (fun i => 2 ^ 31 <= i) p -> exists e, wlk P c f p = Err e.
  Proof.
    induction p as [|i r IH]; intros P c f NE Ex; [inversion Ex|].
    cbn [walk]. rewrite (gfp_val _ NE). cbn [obind].
    destruct (N.le_gt_cases (2 ^ 31) i) as [Hi|Hi].
    - rewrite (dcp_hardened _ _ _ Hi). cbn [obind]. eexists; reflexivity.
    - destruct (dcp P c i) as [[[o P1] c1]|e|s] eqn:D; cbn [obind].
      + apply IH; [apply (dcp_child_not_id _ _ _ _ _ _ D)|].
        inversion Ex; subst; [lia|assumption].
      + eexists; reflexivity.
      + pose proof (dcp_no_panic P c i) as NP. rewrite D in NP. discriminate.
  Qed.

  Lemma hardened_is_error_lem pfx root cc path :
    Exists (fun i => 2 ^ 31 <= i) path -> exists e, dxp pfx root cc path = Err e.
  Proof.
    intros Ex. unfold derive_xpub. destruct (g_eqb O root gid) eqn:NE; [eexists; reflexivity|].
    destruct (255 <? _); [eexists; reflexivity|].
    destruct (walk_hardened path root cc [0; 0; 0; 0] NE Ex) as [e W]. rewrite W. cbn [obind].
    eexists; reflexivity.
  Qed.

  (** sharper: a path whose first hardened component comes after successfully derived normal ones
      fails with HardenedChildNotSupported *)
  Lemma hardened_error_code_lem pfx root cc p1 i p2 e : root <> gid -> (length (p1 ++ i :: p2) <= 255)%nat ->
    spec root cc p1 = Some e -> 2 ^ 31 <= i -> dxp pfx root cc (p1 ++ i :: p2) = Err E_Hardened.
  Proof.
    intros NE Len S Hi. assert (NEb := eqb_false _ _ NE). rewrite spec_is_fold in S.
    unfold derive_xpub. rewrite NEb.
    destruct (255 <? _) eqn:E; [apply N.ltb_lt in E; lia|].
    assert (W : forall p e0 e1, g_eqb O (e_key G e0) gid = false -> spec_from e0 p = Some e1 ->
      wlk (e_key G e0) (e_chain_code G e0) (e_fingerprint G e0) (p ++ i :: p2) = Err E_Hardened).
    { clear -laws elen Hi. induction p as [|j r IH]; intros e0 e1 NE0 S0.
      - cbn [app walk]. rewrite (gfp_val _ NE0). cbn [obind]. rewrite (dcp_hardened _ _ _ Hi). reflexivity.
      - unfold spec_from in S0. cbn [fold_left step_opt] in S0.
        destruct (ckde e0 j) as [e2|] eqn:E2; [|rewrite fold_none in S0; discriminate].
        destruct (step_some e0 j e2 NE0 E2) as (F & D & NE2 & _).
        cbn [app walk]. rewrite F. cbn [obind]. rewrite D. cbn [obind].
        rewrite (gfp_val _ NE0) in F. inversion F as [F'].
        rewrite F'. apply (IH e2 e1 NE2 S0). }
    pose proof (W p1 (master G root cc) e NEb S) as W1.
    cbn [master e_key e_chain_code e_fingerprint] in W1. rewrite W1. reflexivity.
  Qed.

  Lemma identity_is_error_lem pfx cc path : dxp pfx gid cc path = Err E_PointAtInfinity.
  Proof. unfold derive_xpub. rewrite eqb_refl. reflexivity. Qed.

  Lemma derived_key_not_identity_lem pfx root cc path x : dxp pfx root cc path = Val x -> x_pubkey G x <> gid.
  Proof.
    unfold derive_xpub. destruct (g_eqb O root gid) eqn:NE; [discriminate|].
    destruct (255 <? _); [discriminate|].
    destruct (wlk root cc [0; 0; 0; 0] path) as [[[P' c'] f']|e|s] eqn:W; cbn [obind]; try discriminate.
    intros E. inversion E; subst. cbn [x_pubkey]. apply eqb_false_ne.
    clear E. revert W. generalize [0; 0; 0; 0]. revert NE. generalize root cc.
    induction path as [|i r IH]; intros P c NE f W.
    - cbn [walk] in W. inversion W; subst. exact NE.
    - cbn [walk] in W. rewrite (gfp_val _ NE) in W. cbn [obind] in W.
      destruct (dcp P c i) as [[[o P1] c1]|e|s] eqn:D; cbn [obind] in W; try discriminate.
      apply (IH P1 c1 (dcp_child_not_id _ _ _ _ _ _ D) _ W).
  Qed.

  Lemma depth_over_255_is_error_lem pfx root cc path : (255 < length path)%nat ->
    dxp pfx root cc path = Err (if g_eqb O root gid then E_PointAtInfinity else E_PathTooDeep).
  Proof.
    intros L. unfold derive_xpub. destruct (g_eqb O root gid); [reflexivity|].
    destruct (255 <? N.of_nat (length path)) eqn:E; [reflexivity|]. apply N.ltb_ge in E. lia.
  Qed.

  (** *** the headline: derive_xpub against bip32_spec *)
  Lemma xpub_matches_spec_lem pfx root cc path :
    root <> gid -> Forall (fun i => i < 2 ^ 31) path -> (length path <= 255)%nat ->
    (forall e, spec root cc path = Some e ->
       dxp pfx root cc path = Val (xpub_of_ext pfx e)
       /\ e_depth G e = N.of_nat (length path)
       /\ (oracle_lens hmac512 ripemd160 -> length cc = 32%nat -> forall b, exists s,
             tostr (xpub_of_ext pfx e) b = Val s /\ spec_string G O sha256 (prefix_u32 pfx) e b = Some s))
    /\ (spec root cc path = None -> ~ boundary_hit root cc path ->
        exists err, dxp pfx root cc path = Err err /\ (err = E_InvalidChildScalar \/ err = E_PointAtInfinity)).
  Proof.
    intros NE Fa Len. split.
    - intros e S. pose proof (xpub_spec_some pfx root cc path e NE Len S) as D.
      assert (Dp : e_depth G e = N.of_nat (length path)).
      { rewrite spec_is_fold in S.
        destruct (walk_spec_some path (master G root cc) e (eqb_false _ _ NE) S) as (_ & Dp & _).
        rewrite Dp. cbn [master e_depth]. lia. }
      split; [exact D|]. split; [exact Dp|].
      intros OL Lc b. destruct (xpub_fields_ok _ _ _ _ _ OL Lc D) as (L1 & L2 & NEk & _).
      destruct (to_string_val _ b L1 L2 NEk) as [s E]. exists s. split; [exact E|].
      apply to_string_spec; [lia|exact E].
    - intros S NB. destruct (xpub_spec_none pfx root cc path NE Len S NB) as (err & D & Cl).
      exists err. split; [exact D|]. apply Cl. exact Fa.
  Qed.
End Proofs.
