(** C13 composed with C20: the left-inverse premise of [birkhoff_interpolates] & co. is discharged by
    C20's [inverse_correct_list] (Proofs/MatrixListForm.v, proved by the C20 development with MathComp;
    only its list/Z statement is used here).  What remains as hypothesis is the mathematical
    admissibility of the parameters: [prime q] and a non-zero determinant of the Birkhoff matrix
    (stated through the verified determinant function: [bareiss q M n <> Val 0]). *)
From SL Require Import Lib.Base Model.Matrix Model.Poly Model.PolyBirkhoff.
From SL Require Import Proofs.PolyFact Proofs.PolySum Proofs.PolyDeriv Proofs.PolyGroup Proofs.PolyBirkhoff
  Proofs.PolyLagrange.
From SL Require Proofs.MatrixListForm.
From Coq Require Import Znumtheory.
Local Open Scope Z_scope.

Section Compose.
  Variable q : Z.
  Hypothesis Hprime : prime q.

  Lemma birkhoff_matrix_wf params : wf_mat q (length params) (birkhoff_matrix q params).
  Proof.
    assert (Hq : 0 < q) by (destruct Hprime; lia).
    split; [apply map_length|].
    apply Forall_forall. intros row Hrow. unfold birkhoff_matrix in Hrow.
    apply in_map_iff in Hrow. destruct Hrow as ([x r] & <- & _).
    split; [apply multipliers_length|].
    apply Forall_forall. intros e He. unfold polynomial_coeff_multipliers in He.
    apply in_map_iff in He. destruct He as (idx & <- & _).
    destruct (idx <? r)%nat; [lia|]. unfold fmul. apply Z.mod_pos_bound. exact Hq.
  Qed.

  Lemma left_inverse_exists params : params <> [] ->
    bareiss q (birkhoff_matrix q params) (length params) <> Val 0 ->
    exists Minv, matrix_inverse q (birkhoff_matrix q params) (length params) = Val Minv /\
                 mat_mul q Minv (birkhoff_matrix q params) = mat_id (length params).
  Proof.
    intros Hne Hdet.
    destruct (@SL.Proofs.MatrixListForm.inverse_correct_list q Hprime (length params)
                (birkhoff_matrix q params) (length_pos params Hne) (birkhoff_matrix_wf params) Hdet)
      as [Minv [E _ Lm _]].
    exists Minv. split; assumption.
  Qed.

  (** C13 headline: non-singular Birkhoff matrix => sum_i b_i f^(r_i)(x_i) = f(0) *)
  Theorem birkhoff_interpolates_nonsingular params f : params <> [] ->
    Z.of_nat (length params) <= 2 ^ 64 -> length f = length params ->
    bareiss q (birkhoff_matrix q params) (length params) <> Val 0 ->
    exists b, birkhoff_coeffs q params = Val b /\
      bigsum (length params)
        (fun i => nth i b 0 * derivative_at q f (snd (nth i params (0, O))) (fst (nth i params (0, O))))
      mod q = evaluate_at q f 0.
  Proof.
    intros Hne Hn Hf Hdet. destruct (left_inverse_exists params Hne Hdet) as (Minv & E & Lm).
    exact (birkhoff_interpolates q params Hne Minv f Hn Hf E Lm).
  Qed.

  (** all orders zero, distinct nodes: the coefficients are the Lagrange coefficients *)
  Theorem birkhoff_is_lagrange_nonsingular params : params <> [] ->
    Z.of_nat (length params) <= 2 ^ 64 ->
    (forall i, (i < length params)%nat -> snd (nth i params (0, O)) = O) ->
    (forall i j, (i < length params)%nat -> (j < length params)%nat -> i <> j ->
       fst (nth i params (0, O)) mod q <> fst (nth j params (0, O)) mod q) ->
    bareiss q (birkhoff_matrix q params) (length params) <> Val 0 ->
    exists b, birkhoff_coeffs q params = Val b /\
      forall j, (j < length params)%nat ->
        (nth j b 0 * lag_den params j) mod q = lag_num params j mod q /\
        forall lam, (lam * lag_den params j) mod q = lag_num params j mod q -> nth j b 0 mod q = lam mod q.
  Proof.
    intros Hne Hn Hr Hd Hdet. destruct (left_inverse_exists params Hne Hdet) as (Minv & E & Lm).
    exact (birkhoff_is_lagrange q params Hne Hn Hr Hprime Minv Hd E Lm).
  Qed.
End Compose.
