(** C12 -- non-vacuity: an instance of the hypotheses of Proofs/Bip32.v.  [zq_group] of Lib/ZqGroup.v
    has 1-byte encodings for every element, so it does not satisfy [enc_len]; [zq33] is the same
    group Z_q with a SEC1-shaped encoding: [0] for the identity, 02 || 31 zero bytes || value otherwise. *)
From SL Require Import Lib.Base Lib.Oracle Lib.ZqGroup Model.Bip32 Model.Bip32Spec Proofs.Bip32.
Local Open Scope Z_scope.

Section Zq33.
  Variable q : Z.
  Hypothesis q_gt1 : 1 < q.

  Definition enc33 (a : zq q) : list N :=
    if val q a =? 0 then [0%N] else 2%N :: repeat 0%N 31 ++ [Z.to_N (val q a)].
  Definition dec33 (l : list N) : option (zq q) :=
    match l with
    | [x] => if (x =? 0)%N then Some (mk q q_gt1 0) else None
    | x :: r => if ((x =? 2)%N && (length r =? 32)%nat)%bool then Some (mk q q_gt1 (Z.of_N (last r 0%N))) else None
    | [] => None
    end.

  Definition zq33 : group_ops (zq q) := {|
    g_add := g_add (zq_group q q_gt1);
    g_neg := g_neg (zq_group q q_gt1);
    g_smul := g_smul (zq_group q q_gt1);
    g_gen := g_gen (zq_group q q_gt1);
    g_id := g_id (zq_group q q_gt1);
    g_eqb := g_eqb (zq_group q q_gt1);
    g_enc := enc33;
    g_dec := dec33;
  |}.

  Lemma mk_val a : mk q q_gt1 (val q a) = a.
  Proof. apply zq_eq. rewrite val_mk. apply val_red. Qed.

  Lemma zq33_laws : group_laws q zq33.
  Proof.
    pose proof (zq_group_laws q q_gt1) as L.
    constructor.
    - exact (gl_add_assoc _ _ L).
    - exact (gl_add_comm _ _ L).
    - exact (gl_add_id _ _ L).
    - exact (gl_add_neg _ _ L).
    - exact (gl_smul_mod _ _ L).
    - exact (gl_smul_add _ _ L).
    - exact (gl_smul_mul _ _ L).
    - exact (gl_smul_1 _ _ L).
    - exact (gl_smul_0 _ _ L).
    - exact (gl_smul_dist _ _ L).
    - exact (gl_gen_order _ _ L).
    - exact (gl_eqb _ _ L).
    - intros a. cbn [zq33 g_enc g_dec]. unfold enc33. destruct (val q a =? 0) eqn:E.
      + cbn [dec33 N.eqb]. f_equal. apply Z.eqb_eq in E. rewrite <- E. apply mk_val.
      + unfold dec33. cbn [repeat app length Nat.eqb N.eqb Pos.eqb andb last].
        rewrite Z2N.id by (apply val_range; exact q_gt1). f_equal. apply mk_val.
    - intros a b. cbn [zq33 g_enc]. unfold enc33.
      destruct (val q a =? 0) eqn:Ea; destruct (val q b =? 0) eqn:Eb; intros E; try discriminate.
      + apply Z.eqb_eq in Ea, Eb. apply zq_eq. congruence.
      + inversion E as [E'].
        apply zq_eq. apply Z2N.inj; [apply val_range; exact q_gt1|apply val_range; exact q_gt1|exact E'].
  Qed.

  Lemma zq33_enc_len : enc_len zq33.
  Proof.
    intros P. cbn [zq33 g_enc g_eqb g_id zq_group]. unfold enc33.
    rewrite val_mk, Z.mod_0_l by lia. destruct (val q P =? 0); reflexivity.
  Qed.
End Zq33.

(** a concrete run: q = 11, constant oracles with the right output lengths, I_L = 3 at every step *)
Lemma bip32_lt_1_11 : 1 < 11. Proof. reflexivity. Qed.
Definition ex_hmac (_ _ : list N) : list N := repeat 0%N 31 ++ [3%N] ++ repeat 7%N 32.
Definition ex_sha (_ : list N) : list N := repeat 1%N 32.
Definition ex_rip (_ : list N) : list N := repeat 5%N 20.
Definition ex_root : zq 11 := mk 11 bip32_lt_1_11 1.
Definition ex_cc : list N := repeat 9%N 32.
Definition ex_path : list N := [0%N; 2147483647%N; 5%N].

Lemma bip32_nonvacuous_lem :
  group_laws 11 (zq33 11 bip32_lt_1_11) /\ enc_len (zq33 11 bip32_lt_1_11) /\ oracle_lens ex_hmac ex_rip
  /\ ex_root <> g_id (zq33 11 bip32_lt_1_11)
  /\ Forall (fun i => (i < 2 ^ 31)%N) ex_path
  /\ ~ boundary_hit _ (zq33 11 bip32_lt_1_11) ex_hmac ex_sha ex_rip 11 ex_root ex_cc ex_path
  /\ (exists e, bip32_spec _ (zq33 11 bip32_lt_1_11) ex_hmac ex_sha ex_rip 11 ex_root ex_cc ex_path = Some e)
  /\ (exists x, derive_xpub _ (zq33 11 bip32_lt_1_11) ex_hmac ex_sha ex_rip 11 XPub ex_root ex_cc ex_path = Val x
                /\ val 11 (x_pubkey _ x) = 10 /\ x_depth _ x = 3%N /\ x_child_number _ x = 5%N
                /\ is_panic (to_string _ (zq33 11 bip32_lt_1_11) ex_sha x true) = false).
Proof.
  split; [apply zq33_laws|]. split; [apply zq33_enc_len|].
  split; [split; intros; reflexivity|].
  split; [intros E; apply (f_equal (val 11)) in E; vm_compute in E; discriminate|].
  split; [repeat constructor|].
  split.
  { intros (p1 & i & p2 & e & _ & _ & Hit). unfold step_IL, parse256, ex_hmac in Hit.
    vm_compute in Hit. discriminate. }
  split; [eexists; vm_compute; reflexivity|].
  eexists. split; [vm_compute; reflexivity|]. repeat split; vm_compute; reflexivity.
Qed.
