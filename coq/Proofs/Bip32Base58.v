(** C12 -- the Base58 model (Model/Bip32.v) is a bijection onto its image: decoding the encoding of
    any byte string returns that byte string.  This characterises [base58_encode] independently:
    the unique string over the Bitcoin alphabet with one '1' per leading zero byte whose remaining
    digits are the base-58 numeral of the big-endian value. *)
From SL Require Import Lib.Base Model.Bip32.
Local Open Scope N_scope.

Arguments N.pow : simpl never.
Arguments N.modulo : simpl never.
Arguments N.div : simpl never.
Arguments N.mul : simpl never.
Arguments N.add : simpl never.

(** ** digits / undigits for any base >= 2 *)
Section Digits.
  Variable b : N.
  Hypothesis b_ge2 : 2 <= b.

  Notation D f n := (digits_aux b f n []).

  Lemma digits_aux_acc f : forall n acc, digits_aux b f n acc = D f n ++ acc.
  Proof.
    induction f as [|f IH]; intros n acc; [reflexivity|].
    cbn [digits_aux]. destruct (n =? 0); [reflexivity|].
    rewrite (IH (n / b) (n mod b :: acc)), (IH (n / b) [n mod b]).
    rewrite <- app_assoc. reflexivity.
  Qed.

  Lemma D_succ f n : D (S f) n = if n =? 0 then [] else D f (n / b) ++ [n mod b].
  Proof. cbn [digits_aux]. destruct (n =? 0); [reflexivity|]. apply digits_aux_acc. Qed.

  Lemma undigits_app l1 : forall l2 acc, undigits b (l1 ++ l2) acc = undigits b l2 (undigits b l1 acc).
  Proof. induction l1 as [|x r IH]; intros; [reflexivity|]. cbn [app undigits]. apply IH. Qed.

  Lemma div_lt_pow f n : n < 2 ^ N.of_nat (S f) -> n / b < 2 ^ N.of_nat f.
  Proof.
    intros H. rewrite Nat2N.inj_succ, N.pow_succ_r' in H.
    apply N.div_lt_upper_bound; [lia|].
    apply N.lt_le_trans with (2 * 2 ^ N.of_nat f); [exact H|].
    apply N.mul_le_mono_r. exact b_ge2.
  Qed.

  (** the digits of n denote n *)
  Lemma undigits_digits f : forall n, n < 2 ^ N.of_nat f -> undigits b (D f n) 0 = n.
  Proof.
    induction f as [|f IH]; intros n H.
    - cbn [digits_aux undigits]. change (2 ^ N.of_nat 0) with 1 in H. lia.
    - rewrite D_succ. destruct (n =? 0) eqn:E; [apply N.eqb_eq in E; subst; reflexivity|].
      rewrite undigits_app. cbn [undigits]. rewrite (IH _ (div_lt_pow f n H)).
      rewrite N.mul_comm. symmetry. apply N.div_mod'.
  Qed.

  Lemma digits_lt f : forall n, Forall (fun d => d < b) (D f n).
  Proof.
    induction f as [|f IH]; intros n; [constructor|].
    rewrite D_succ. destruct (n =? 0); [constructor|].
    apply Forall_app. split; [apply IH|]. constructor; [|constructor].
    apply N.mod_lt. lia.
  Qed.

  (** canonical numerals: digits below the base, no leading zero digit *)
  Definition canonical (ds : list N) : Prop :=
    Forall (fun d => d < b) ds /\ (match ds with [] => True | d :: _ => d <> 0 end).

  Lemma D_zero f : D f 0 = [].
  Proof. destruct f; reflexivity. Qed.

  Lemma digits_canonical f : forall n, n < 2 ^ N.of_nat f -> canonical (D f n).
  Proof.
    intros n H. split; [apply digits_lt|]. revert n H.
    induction f as [|f IH]; intros n H; [exact I|].
    rewrite D_succ. destruct (n =? 0) eqn:E; [exact I|]. apply N.eqb_neq in E.
    destruct (N.eq_dec (n / b) 0) as [Z|NZ].
    - rewrite Z, D_zero. cbn [app].
      apply N.div_small_iff in Z; [|lia]. rewrite N.mod_small by exact Z. exact E.
    - pose proof (IH _ (div_lt_pow f n H)) as C.
      pose proof (undigits_digits f _ (div_lt_pow f n H)) as V.
      destruct (D f (n / b)) as [|d r]; [cbn [undigits] in V; congruence|exact C].
  Qed.

  Lemma undigits_ge l : forall acc, acc <= undigits b l acc.
  Proof.
    induction l as [|d r IH]; intros acc; cbn [undigits]; [lia|].
    apply N.le_trans with (acc * b + d); [|apply IH]. nia.
  Qed.

  Lemma canonical_nonzero d r : canonical (d :: r) -> undigits b (d :: r) 0 <> 0.
  Proof.
    intros [_ H]. cbn [undigits]. pose proof (undigits_ge r (0 * b + d)). lia.
  Qed.

  (** canonical numerals are exactly the outputs of [digits] *)
  Lemma digits_undigits ds : canonical ds ->
    forall f, undigits b ds 0 < 2 ^ N.of_nat f -> D f (undigits b ds 0) = ds.
  Proof.
    induction ds as [|d ds' IH] using rev_ind; intros C f H.
    - cbn [undigits]. apply D_zero.
    - rewrite undigits_app in *. cbn [undigits] in *.
      set (n' := undigits b ds' 0) in *.
      assert (Hd : d < b).
      { destruct C as [Fa _]. apply Forall_app in Fa. destruct Fa as [_ Fd]. inversion Fd; assumption. }
      assert (C' : canonical ds').
      { destruct C as [Fa Hh]. apply Forall_app in Fa. destruct Fa as [Fa' _]. split; [exact Fa'|].
        destruct ds'; [exact I|exact Hh]. }
      assert (NZ : n' * b + d <> 0).
      { destruct ds' as [|x r].
        - cbn in n'. subst n'. destruct C as [_ Hh]. cbn [app] in Hh. lia.
        - pose proof (canonical_nonzero x r C'). fold n' in H0. nia. }
      destruct f as [|f]; [change (2 ^ N.of_nat 0) with 1 in H; lia|].
      rewrite D_succ. destruct (n' * b + d =? 0) eqn:E; [apply N.eqb_eq in E; contradiction|].
      assert (Q : (n' * b + d) / b = n').
      { rewrite N.div_add_l by lia. rewrite N.div_small by exact Hd. lia. }
      assert (R : (n' * b + d) mod b = d).
      { rewrite N.add_comm, N.mod_add by lia. apply N.mod_small. exact Hd. }
      rewrite Q, R. f_equal. apply (IH C').
      rewrite <- Q. apply div_lt_pow. exact H.
  Qed.

  Lemma undigits_lead_zeros z : forall l, undigits b (repeat 0 z ++ l) 0 = undigits b l 0.
  Proof. induction z as [|z IH]; intros l; [reflexivity|]. cbn [repeat app undigits]. apply IH. Qed.
End Digits.

Lemma size_nat_gt n : n < 2 ^ N.of_nat (N.size_nat n).
Proof.
  destruct n as [|p]; [reflexivity|]. cbn [N.size_nat].
  induction p as [p IH|p IH|]; cbn [Pos.size_nat].
  - rewrite Nat2N.inj_succ, N.pow_succ_r'. change (N.pos p~1) with (2 * N.pos p + 1). lia.
  - rewrite Nat2N.inj_succ, N.pow_succ_r'. change (N.pos p~0) with (2 * N.pos p). lia.
  - reflexivity.
Qed.

Lemma digits_value b n : 2 <= b -> undigits b (digits b n) 0 = n.
Proof. intros Hb. apply undigits_digits; [exact Hb|apply size_nat_gt]. Qed.

Lemma digits_canon b n : 2 <= b -> canonical b (digits b n).
Proof. intros Hb. apply digits_canonical; [exact Hb|apply size_nat_gt]. Qed.

Lemma digits_of_canonical b ds : 2 <= b -> canonical b ds -> digits b (undigits b ds 0) = ds.
Proof. intros Hb C. apply digits_undigits; [exact Hb|exact C|apply size_nat_gt]. Qed.

(** ** big-endian bytes are base-256 numerals *)
Lemma of_be_undigits l : of_be l = undigits 256 l 0.
Proof.
  induction l as [|x r IH] using rev_ind; [reflexivity|].
  rewrite undigits_app. cbn [undigits]. rewrite <- IH.
  unfold of_be. rewrite rev_app_distr. cbn [rev app of_le]. lia.
Qed.

(** ** leading symbols *)
Lemma count_lead_split z l :
  l = repeat z (count_lead z l) ++ skipn (count_lead z l) l
  /\ match skipn (count_lead z l) l with [] => True | x :: _ => x <> z end.
Proof.
  induction l as [|x r [IH1 IH2]]; [split; [reflexivity|exact I]|].
  cbn [count_lead]. destruct (x =? z) eqn:E.
  - apply N.eqb_eq in E. subst x. cbn [repeat skipn app]. split; [f_equal; exact IH1|exact IH2].
  - apply N.eqb_neq in E. cbn [repeat skipn app]. split; [reflexivity|exact E].
Qed.

Lemma count_lead_repeat z k l :
  match l with [] => True | x :: _ => x <> z end -> count_lead z (repeat z k ++ l) = k.
Proof.
  intros H. induction k as [|k IH].
  - cbn [repeat app]. destruct l as [|x r]; [reflexivity|]. cbn [count_lead].
    destruct (x =? z) eqn:E; [apply N.eqb_eq in E; contradiction|reflexivity].
  - cbn [repeat app count_lead]. rewrite N.eqb_refl, IH. reflexivity.
Qed.

(** ** the alphabet *)
Definition all58 : list N := map N.of_nat (seq 0 58).

Lemma in_all58 d : d < 58 -> In d all58.
Proof.
  intros H. unfold all58. apply in_map_iff. exists (N.to_nat d). split; [apply N2Nat.id|].
  apply in_seq. lia.
Qed.

Lemma b58_index_char_all : forallb (fun d => match b58_index (b58_char d) with Some d' => d' =? d | None => false end) all58 = true.
Proof. vm_compute. reflexivity. Qed.

Lemma b58_index_char d : d < 58 -> b58_index (b58_char d) = Some d.
Proof.
  intros H. pose proof (proj1 (forallb_forall _ _) b58_index_char_all d (in_all58 d H)) as E.
  cbv beta in E. destruct (b58_index (b58_char d)) as [d'|]; [|discriminate].
  apply N.eqb_eq in E. subst. reflexivity.
Qed.

Lemma b58_char_one d : d < 58 -> d <> 0 -> b58_char d <> 49.
Proof.
  intros H NZ E. pose proof (b58_index_char d H) as I. rewrite E in I.
  change (b58_index 49) with (Some 0) in I. inversion I. congruence.
Qed.

Lemma b58_indices_chars ds : Forall (fun d => d < 58) ds -> b58_indices (map b58_char ds) = Some ds.
Proof.
  induction 1 as [|d r Hd _ IH]; [reflexivity|].
  cbn [map b58_indices]. rewrite (b58_index_char d Hd), IH. reflexivity.
Qed.

Lemma b58_indices_ones z : forall s ds, b58_indices s = Some ds ->
  b58_indices (repeat 49 z ++ s) = Some (repeat 0 z ++ ds).
Proof.
  induction z as [|z IH]; intros s ds E; [exact E|].
  cbn [repeat app b58_indices]. change (b58_index 49) with (Some 0). rewrite (IH s ds E). reflexivity.
Qed.

(** ** round trip *)
Lemma chars_not_one ds : canonical 58 ds ->
  match map b58_char ds with [] => True | x :: _ => x <> 49 end.
Proof.
  intros [Fa Hh]. destruct ds as [|d r]; [exact I|]. cbn [map].
  inversion Fa as [|? ? Hd Hr]. apply b58_char_one; assumption.
Qed.

Lemma base58_decode_encode_lem (bs : list N) : bytes_ok bs = true ->
  base58_decode (base58_encode bs) = Some bs.
Proof.
  intros OK. unfold base58_encode, base58_decode.
  destruct (count_lead_split 0 bs) as [Split Hd].
  assert (B2 : 2 <= 58) by lia. assert (B3 : 2 <= 256) by lia.
  pose proof (digits_canon 58 (of_be bs) B2) as C.
  pose proof (digits_value 58 (of_be bs) B2) as V.
  rewrite (b58_indices_ones _ _ _ (b58_indices_chars _ (proj1 C))).
  rewrite (count_lead_repeat 49 _ _ (chars_not_one _ C)).
  rewrite undigits_lead_zeros, V.
  assert (T : digits 256 (of_be bs) = skipn (count_lead 0 bs) bs).
  { rewrite of_be_undigits. rewrite Split at 1. rewrite undigits_lead_zeros.
    apply (digits_of_canonical 256 _ B3). split; [|exact Hd].
    unfold bytes_ok in OK. rewrite forallb_forall in OK. apply Forall_forall. intros x Hx.
    assert (In x bs) by (rewrite Split; apply in_or_app; right; exact Hx).
    apply N.ltb_lt. apply (OK x). assumption. }
  rewrite T, <- Split. reflexivity.
Qed.

(** the encoding consists of alphabet characters only and keeps the number of leading zeros *)
Lemma base58_encode_lead bs : count_lead 49 (base58_encode bs) = count_lead 0 bs.
Proof.
  unfold base58_encode. apply count_lead_repeat. apply chars_not_one. apply digits_canon. lia.
Qed.
