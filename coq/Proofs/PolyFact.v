(** C13: the u64 factorial table has no overflow and [factorial_range s e] is the product of the
    integers in (s, e] modulo q -- on both sides of the table boundary, for every e below 2^64. *)
From SL Require Import Lib.Base Model.Poly.
Local Open Scope Z_scope.

(** exact factorial and exact range product over the integers *)
Fixpoint zfact (n : nat) : Z :=
  match n with O => 1 | S k => Z.of_nat (S k) * zfact k end.

Definition zprod (l : list Z) : Z := fold_right Z.mul 1 l.

(** product of the integers k with s < k <= e *)
Definition range_prod (s e : nat) : Z := zprod (map Z.of_nat (seq (S s) (e - s))).

(** the loop of [small_factorial] without the u64 wrap *)
Fixpoint exact_factorial_loop (fuel : nat) (j : Z) (prev : Z) : list Z :=
  match fuel with
  | O => []
  | S k => let v := j * prev in v :: exact_factorial_loop k (j + 1) v
  end.
Definition exact_factorial_table (N : nat) : list Z :=
  match N with O => [] | S k => 1 :: exact_factorial_loop k 1 1 end.

(** No entry of the 21-entry table wraps: the u64 computation equals the exact one ... *)
Lemma FACT_no_overflow : FACT = exact_factorial_table FACT_LEN.
Proof. vm_compute. reflexivity. Qed.

(** ... it is the table of 0! .. 20! ... *)
Lemma FACT_exact : FACT = map zfact (seq 0 21).
Proof. vm_compute. reflexivity. Qed.

Lemma FACT_length : length FACT = 21%nat.
Proof. reflexivity. Qed.

(** ... and 21 entries is the largest table for which this holds (21! does not fit into u64). *)
Lemma FACT_22_overflows : small_factorial 22 <> exact_factorial_table 22.
Proof. vm_compute. discriminate. Qed.

Lemma zprod_app l1 l2 : zprod (l1 ++ l2) = zprod l1 * zprod l2.
Proof. unfold zprod. induction l1 as [|a l IH]; cbn [fold_right app]; [lia|]. rewrite IH. ring. Qed.

Lemma range_prod_refl s : range_prod s s = 1.
Proof. unfold range_prod. rewrite Nat.sub_diag. reflexivity. Qed.

Lemma range_prod_step s e : (s <= e)%nat -> range_prod s (S e) = range_prod s e * Z.of_nat (S e).
Proof.
  intros H. unfold range_prod.
  replace (S e - s)%nat with (S (e - s)) by lia.
  rewrite seq_S, map_app, zprod_app. cbn [map zprod fold_right].
  replace (S s + (e - s))%nat with (S e) by lia. lia.
Qed.

(** [range_prod s e] is e!/s! *)
Lemma range_prod_fact s e : (s <= e)%nat -> range_prod s e * zfact s = zfact e.
Proof.
  induction 1 as [|e H IH].
  - rewrite range_prod_refl. lia.
  - rewrite range_prod_step by exact H. cbn [zfact]. rewrite <- IH. lia.
Qed.

Lemma range_prod_pos s e : 0 < range_prod s e.
Proof.
  unfold range_prod. generalize (e - s)%nat as k. intros k. revert s.
  induction k as [|k IH]; intros s; cbn [seq map zprod fold_right]; [lia|].
  specialize (IH (S s)). fold (zprod (map Z.of_nat (seq (S (S s)) k))). nia.
Qed.

(** the table branch, checked on all 231 pairs s <= e < 21 (the table is finite) *)
Definition table_branch_ok : bool :=
  forallb (fun e => forallb (fun s =>
      (nth e FACT 0 / nth s FACT 0 =? range_prod s e) && (range_prod s e <? 2 ^ 64))
    (seq 0 (S e))) (seq 0 21).

Lemma table_branch_ok_true : table_branch_ok = true.
Proof. vm_compute. reflexivity. Qed.

Lemma table_branch s e : (s <= e)%nat -> (e < 21)%nat ->
  nth e FACT 0 / nth s FACT 0 = range_prod s e /\ range_prod s e < 2 ^ 64.
Proof.
  intros Hse He.
  pose proof table_branch_ok_true as T. unfold table_branch_ok in T.
  rewrite forallb_forall in T. specialize (T e). 
  assert (Ie : In e (seq 0 21)) by (apply in_seq; lia).
  specialize (T Ie). rewrite forallb_forall in T. specialize (T s).
  assert (Is : In s (seq 0 (S e))) by (apply in_seq; lia).
  specialize (T Is). apply andb_true_iff in T. destruct T as [T1 T2].
  apply Z.eqb_eq in T1. apply Z.ltb_lt in T2. split; assumption.
Qed.

Opaque FACT.

Section Spec.
  Variable q : Z.

  Lemma from_u64_small x : 0 <= x < 2 ^ 64 -> from_u64 q x = x mod q.
  Proof. intros H. unfold from_u64, u64_wrap. rewrite (Z.mod_small x) by exact H. reflexivity. Qed.

  Lemma product_branch l : forall A,
    Forall (fun x => Z.of_nat x < 2 ^ 64) l ->
    fold_left (fun acc x => fmul q acc (from_u64 q (Z.of_nat x))) l (A mod q)
    = (A * zprod (map Z.of_nat l)) mod q.
  Proof.
    induction l as [|x l IH]; intros A HF; cbn [fold_left map zprod fold_right].
    - f_equal. lia.
    - inversion HF as [|? ? Hx HF']; subst.
      rewrite from_u64_small by lia. unfold fmul at 2.
      rewrite <- Zmult_mod. rewrite IH by exact HF'.
      fold (zprod (map Z.of_nat l)). f_equal. lia.
  Qed.

  (** C13 factorial_range_spec.  [e < 2^64]: [e] is a usize of a 64-bit target. *)
  Theorem factorial_range_spec s e :
    (s <= e)%nat -> Z.of_nat e < 2 ^ 64 ->
    factorial_range q s e = range_prod s e mod q.
  Proof.
    intros Hse He. unfold factorial_range. rewrite FACT_length.
    destruct (e <? 21)%nat eqn:E.
    - apply Nat.ltb_lt in E. destruct (table_branch s e Hse E) as [T1 T2].
      rewrite T1. apply from_u64_small. pose proof (range_prod_pos s e). lia.
    - rewrite from_u64_small by lia.
      rewrite product_branch.
      + unfold range_prod. f_equal. lia.
      + apply Forall_forall. intros x Hx. apply in_seq in Hx. lia.
  Qed.

  (** both sides of the boundary, explicitly: the last table entry and the first product *)
  Example factorial_range_20 : factorial_range q 0 20 = 2432902008176640000 mod q.
  Proof. rewrite factorial_range_spec by (cbn; lia). reflexivity. Qed.
  Example factorial_range_21 : factorial_range q 0 21 = 51090942171709440000 mod q.
  Proof. rewrite factorial_range_spec by (cbn; lia). reflexivity. Qed.
  Example factorial_range_20_21 : factorial_range q 20 21 = 21 mod q.
  Proof. rewrite factorial_range_spec by (cbn; lia). reflexivity. Qed.

  Lemma factorial_spec n : Z.of_nat n < 2 ^ 64 -> factorial q n = zfact n mod q.
  Proof.
    intros H. unfold factorial. rewrite factorial_range_spec by (try lia; exact H).
    rewrite <- (range_prod_fact 0 n) by lia. cbn [zfact]. f_equal. lia.
  Qed.
End Spec.
