(** A certificate checker for primality (Pocklington's criterion with one large prime factor of N-1),
    used to show that [key_ok] is satisfiable by pairs of 64-bit primes (128- and 127-bit moduli).
    The 33-bit prime factors f of N-1 are themselves certified by the trial-division checker of
    Proofs/PaillierExamples.v; everything is evaluated in the kernel by [vm_compute]. *)
From Coq Require Import ZArith Znumtheory Zpow_facts Lia List.
From SL Require Import Lib.Base Model.Paillier Proofs.PaillierNT Proofs.PaillierExamples.
Local Open Scope Z_scope.

Lemma exists_prime_divisor n : 1 < n -> exists P, prime P /\ (P | n).
Proof.
  intros Hn. assert (H0 : 0 <= n) by lia. revert Hn. revert n H0.
  apply (Z_lt_induction (fun n => 1 < n -> exists P, prime P /\ (P | n))).
  intros n IH Hn.
  destruct (prime_dec n) as [Hp|Hnp].
  - exists n. split; [exact Hp|apply Z.divide_refl].
  - destruct (not_prime_divide n Hn Hnp) as (d & Hd & Hdn).
    destruct (IH d ltac:(lia) ltac:(lia)) as (P & HP & HPd).
    exists P. split; [exact HP|eapply Z.divide_trans; eauto].
Qed.

(** exponents e with a^e = 1 (mod P) are closed under gcd *)
Lemma pow_one_gcd P a x y : 1 < P -> 0 < x -> 0 < y ->
  cong P (a ^ x) 1 -> cong P (a ^ y) 1 -> cong P (a ^ Z.gcd x y) 1.
Proof.
  intros HP Hx Hy Hax Hay.
  destruct (Z.gcd_bezout x y _ eq_refl) as (u & v & Huv).
  pose proof (Z.gcd_nonneg x y) as Hg.
  set (g := Z.gcd x y) in *.
  set (t := Z.abs u + Z.abs v + 1).
  set (u' := u + t * y). set (v' := - v + t * x).
  assert (Hu' : 0 <= u') by (subst u' t; nia).
  assert (Hv' : 0 <= v') by (subst v' t; nia).
  assert (E : x * u' = g + y * v') by (subst u' v'; lia).
  assert (H1 : cong P (a ^ (x * u')) 1) by (apply pow_cong_1; [lia|lia|lia|exact Hax]).
  assert (H2 : cong P (a ^ (y * v')) 1) by (apply pow_cong_1; [lia|lia|lia|exact Hay]).
  rewrite E, Z.pow_add_r in H1 by nia.
  apply cong_trans with (a ^ g * a ^ (y * v')); [|exact H1].
  rewrite <- (Z.mul_1_r (a ^ g)) at 1. apply cong_mul; [lia|apply cong_refl|apply cong_sym; exact H2].
Qed.

Theorem pocklington N f R a :
  1 < N -> prime f -> N - 1 = f * R -> 0 < R -> N < (f + 1) * (f + 1) -> 0 <= a ->
  (a ^ (N - 1)) mod N = 1 -> Z.gcd ((a ^ R) mod N - 1) N = 1 -> prime N.
Proof.
  intros HN Pf HfR HR Hbig Ha Hfer Hgcd. pose proof (prime_ge_2 f Pf) as Hf2.
  (* every prime divisor of N is at least f + 1 *)
  assert (Hdiv : forall P, prime P -> (P | N) -> f + 1 <= P).
  { intros P PP HPN. pose proof (prime_ge_2 P PP) as HP2.
    assert (H1 : cong P (a ^ (N - 1)) 1).
    { apply cong_dvd with N; [lia|lia|exact HPN|]. unfold cong. rewrite Hfer, Z.mod_small by lia. reflexivity. }
    assert (HPa : ~ (P | a)).
    { intros Hd. apply cong_div in H1; [|lia].
      assert (Hd' : (P | a ^ (N - 1))).
      { replace (N - 1) with (Z.succ (N - 2)) by lia. rewrite Z.pow_succ_r by lia. apply Z.divide_mul_l; exact Hd. }
      assert (Hone : (P | 1)).
      { replace 1 with (a ^ (N - 1) - (a ^ (N - 1) - 1)) by ring. apply Z.divide_sub_r; assumption. }
      apply Z.divide_1_r_nonneg in Hone; lia. }
    assert (H2 : cong P (a ^ (P - 1)) 1).
    { unfold cong. rewrite fermat by assumption. rewrite Z.mod_small by lia. reflexivity. }
    pose proof (pow_one_gcd P a (N - 1) (P - 1) ltac:(lia) ltac:(lia) ltac:(lia) H1 H2) as Hg.
    set (g := Z.gcd (N - 1) (P - 1)) in *.
    assert (Hg1 : (g | N - 1)) by apply Z.gcd_divide_l.
    assert (Hg2 : (g | P - 1)) by apply Z.gcd_divide_r.
    assert (Hg0 : 0 < g).
    { pose proof (Z.gcd_nonneg (N - 1) (P - 1)). fold g in H.
      destruct (Z.eq_dec g 0) as [E|E]; [|lia]. rewrite E in Hg1. apply Z.divide_0_l in Hg1. lia. }
    destruct (Zdivide_dec f g) as [Hfg|Hnfg].
    - assert (f | P - 1) by (eapply Z.divide_trans; eauto).
      apply Z.divide_pos_le in H; lia.
    - exfalso.
      assert (Hrel : rel_prime g f) by (apply rel_prime_sym, prime_rel_prime; assumption).
      assert (HgR : (g | R)).
      { apply Gauss with f; [rewrite <- HfR; exact Hg1|exact Hrel]. }
      destruct HgR as [s Hs].
      assert (Hs0 : 0 <= s) by nia.
      assert (HaR : cong P (a ^ R) 1).
      { rewrite Hs, Z.mul_comm. apply pow_cong_1; [lia|lia|lia|exact Hg]. }
      assert (HPd : (P | (a ^ R) mod N - 1)).
      { apply cong_div; [lia|]. apply cong_trans with (a ^ R); [|exact HaR].
        apply cong_dvd with N; [lia|lia|exact HPN|apply cong_mod; lia]. }
      assert (Hone : (P | 1)) by (rewrite <- Hgcd; apply Z.gcd_greatest; assumption).
      apply Z.divide_1_r_nonneg in Hone; lia. }
  destruct (prime_dec N) as [|Hnp]; [assumption|exfalso].
  destruct (not_prime_divide N HN Hnp) as (d & Hd & [e He]).
  assert (He1 : 1 < e) by nia.
  destruct (exists_prime_divisor d ltac:(lia)) as (P1 & PP1 & HP1).
  destruct (exists_prime_divisor e He1) as (P2 & PP2 & HP2).
  assert (f + 1 <= P1) by (apply Hdiv; [assumption|]; eapply Z.divide_trans; [exact HP1|]; exists e; lia).
  assert (f + 1 <= P2) by (apply Hdiv; [assumption|]; eapply Z.divide_trans; [exact HP2|]; exists d; lia).
  apply Z.divide_pos_le in HP1; [|lia]. apply Z.divide_pos_le in HP2; [|lia].
  assert ((f + 1) * (f + 1) <= e * d) by (apply Z.mul_le_mono_nonneg; lia). lia.
Qed.

(** executable certificate check: N - 1 = f * R, f prime by trial division, witness a *)
Definition pock_check (N f R a : Z) : bool :=
  (1 <? N) && prime_check f && (N - 1 =? f * R) && (0 <? R) && (N <? (f + 1) * (f + 1)) && (0 <=? a) &&
  (powmod a (N - 1) N =? 1) && (Z.gcd (powmod a R N - 1) N =? 1).

Theorem pock_check_sound N f R a : pock_check N f R a = true -> prime N.
Proof.
  unfold pock_check. intros H.
  repeat (apply andb_prop in H; destruct H as [H ?]).
  apply Z.ltb_lt in H. apply prime_check_sound in H6. apply Z.eqb_eq in H5. apply Z.ltb_lt in H4.
  apply Z.ltb_lt in H3. apply Z.leb_le in H2. apply Z.eqb_eq in H1. apply Z.eqb_eq in H0.
  rewrite powmod_spec in H1, H0 by lia.
  eapply pocklington; eassumption.
Qed.

Ltac key_ok_cert c1 c2 :=
  unfold key_ok;
  split; [apply (pock_check_sound _ (fst (fst c1)) (snd (fst c1)) (snd c1)); vm_compute; reflexivity|];
  split; [apply (pock_check_sound _ (fst (fst c2)) (snd (fst c2)) (snd c2)); vm_compute; reflexivity|];
  split; [discriminate|];
  split; [vm_compute; reflexivity|]; split; [vm_compute; reflexivity|]; split; [vm_compute; reflexivity|];
  split; [vm_compute; reflexivity|]; split; vm_compute; reflexivity.

(** two pairs of 64-bit primes: p > q with a 128-bit modulus (= 2k bits), p < q with a 127-bit modulus (2k-1 bits).
    Certificates (f, R, a): N - 1 = f * R with f a 33-bit prime, a^(N-1) = 1 and gcd(a^R - 1, N) = 1 modulo N. *)
Example key_ok_64bit_gt : key_ok cfg512 17381996728290903239 16889554716292614701.
Proof. key_ok_cert (6609686879, 2629776122, 2) (6295967681, 2682598700, 2). Qed.

Example key_ok_64bit_lt : key_ok cfg512 9446275134106098649 9873303963077819897.
Proof. key_ok_cert (7935183637, 1190429304, 2) (6099006223, 1618838152, 2). Qed.
