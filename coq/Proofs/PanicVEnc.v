(** C11 for the verifiable-encryption entry points (Model/VEnc.v): no byte string makes [from_bytes]
    reach one of its panic sites (byte_at 10, slice/take 11, copy_from_slice 12), and the object it
    returns has exactly [security_param] slots and open scalars with 128 <= security_param <= 256 --
    which is what keeps [verify] (extract_bit site 2, proofs[i] site 3, open_scalars[i] site 4),
    [decrypt] and [to_bytes] (proofs[0] site 5) away from theirs.  The only remaining site is
    [BigUint % 0] (site 1) for an RSA modulus 0; it is reachable in the model (see [verify_modulus0_panics],
    [decrypt_modulus0_panics] below) and is excluded by the premise [pk_n pk <> 0] / [sk_n sk <> 0]
    (an rsa::RsaPublicKey / RsaPrivateKey never has modulus 0).

    Everything about [from_bytes] holds for ALL point sizes, scalar decoders and byte strings, with no
    hypothesis; [verify] needs only "sha256 returns 32 bytes". *)
From SL Require Import Lib.Base Lib.Oracle Gen.Params Model.VEnc.
Local Open Scope N_scope.

Lemma pv_sec_param : SEC_PARAM = 128%nat.
Proof. reflexivity. Qed.

(** ** the read cursor: [rest] = data[off..], so length rest + off = len *)
Lemma pv_take_ok rest len off n : off + n <= len -> N.of_nat (length rest) + off = len ->
  take rest len off n = Val (firstn (N.to_nat n) rest, skipn (N.to_nat n) rest) /\
  length (firstn (N.to_nat n) rest) = N.to_nat n /\
  N.of_nat (length (skipn (N.to_nat n) rest)) + (off + n) = len.
Proof.
  intros H L. unfold take. destruct (N.leb_spec (off + n) len) as [_|C]; [|lia].
  split; [reflexivity|]. rewrite firstn_length, skipn_length. lia.
Qed.

Definition slots_shape (len : N) (cnt : nat) (r : outcome (list slot * (N * list N))) : Prop :=
  match r with
  | Val (slots, (off', rest')) => length slots = cnt /\ N.of_nat (length rest') + off' = len
  | Err _ => True
  | Panic _ => False
  end.

Lemma pv_read_slots_shape psize len esz : forall cnt rest off,
  N.of_nat (length rest) + off = len ->
  slots_shape len cnt (read_slots psize rest len cnt off (N.of_nat psize) esz).
Proof.
  induction cnt as [|c IH]; intros rest off L; cbn [read_slots].
  - cbn [slots_shape length]. auto.
  - set (gsz := N.of_nat psize).
    destruct (N.ltb_spec len (off + (gsz + 2 * esz))) as [H|H]; [exact I|].
    destruct (pv_take_ok rest len off gsz) as (E1 & L1 & R1); [lia|exact L|].
    rewrite E1. cbn [obind fst snd].
    replace (length (firstn (N.to_nat gsz) rest) =? psize)%nat with true
      by (symmetry; apply Nat.eqb_eq; rewrite L1; unfold gsz; apply Nat2N.id).
    cbn [negb].
    destruct (pv_take_ok (skipn (N.to_nat gsz) rest) len (off + gsz) esz) as (E2 & L2 & R2); [lia|exact R1|].
    rewrite E2. cbn [obind fst snd].
    destruct (pv_take_ok (skipn (N.to_nat esz) (skipn (N.to_nat gsz) rest)) len (off + gsz + esz) esz)
      as (E3 & L3 & R3); [lia|exact R2|].
    rewrite E3. cbn [obind fst snd].
    specialize (IH (skipn (N.to_nat esz) (skipn (N.to_nat esz) (skipn (N.to_nat gsz) rest)))
                   (off + gsz + esz + esz) R3).
    change (N.of_nat psize) with gsz in IH.
    destruct (read_slots psize _ len c (off + gsz + esz + esz) gsz esz) as [[sl [o' r']]|e|s];
      cbn [obind fst snd slots_shape] in *; [|exact I|exact IH].
    destruct IH as [A B]. split; [cbn [length]; lia|exact B].
Qed.

Definition scalars_shape (cnt : nat) (r : outcome (list Z)) : Prop :=
  match r with Val os => length os = cnt | Err _ => True | Panic _ => False end.

Lemma pv_read_scalars_shape from_repr len : forall cnt rest off,
  N.of_nat (length rest) + off = len ->
  scalars_shape cnt (read_scalars from_repr rest len cnt off).
Proof.
  induction cnt as [|c IH]; intros rest off L; cbn [read_scalars].
  - reflexivity.
  - set (ssz := N.of_nat SCALAR_SIZE).
    destruct (N.ltb_spec len (off + ssz)) as [H|H]; [exact I|].
    destruct (pv_take_ok rest len off ssz) as (E1 & L1 & R1); [lia|exact L|].
    rewrite E1. cbn [obind fst snd].
    destruct (decode_scalar from_repr _); [|exact I].
    specialize (IH (skipn (N.to_nat ssz) rest) (off + ssz) R1).
    destruct (read_scalars from_repr _ len c (off + ssz)) as [os|e|s]; cbn [obind scalars_shape] in *;
      [cbn [length]; lia|exact I|exact IH].
Qed.

Lemma pv_u16_at_ok d off : off + 2 <= N.of_nat (length d) -> exists v, u16_at d off = Val v.
Proof.
  intros H. unfold u16_at, byte_at.
  destruct (nth_error d (N.to_nat off)) as [hi|] eqn:E1; [|apply nth_error_None in E1; lia].
  cbn [obind].
  destruct (nth_error d (N.to_nat (off + 1))) as [lo|] eqn:E2; [|apply nth_error_None in E2; lia].
  cbn [obind]. eauto.
Qed.

(** what every successfully parsed object satisfies *)
Definition parsed_shape (p : vproof) : Prop :=
  length (vp_slots p) = vp_sp p /\ length (vp_opens p) = vp_sp p /\ (128 <= vp_sp p <= 256)%nat.

Lemma from_bytes_cases psize from_repr d :
  match from_bytes psize from_repr d with
  | Val p => parsed_shape p
  | Err _ => True
  | Panic _ => False
  end.
Proof.
  unfold from_bytes. set (len := N.of_nat (length d)).
  destruct (N.ltb_spec len (32 + 8)) as [H0|H0]; [exact I|].
  unfold slice. destruct (N.leb_spec 32 len) as [_|C]; [|lia]. change (0 <=? 32) with true. cbn [andb obind].
  destruct (pv_u16_at_ok d 32) as [sp ->]; [fold len; lia|]. cbn [obind].
  destruct (pv_u16_at_ok d 34) as [gsz ->]; [fold len; lia|]. cbn [obind].
  destruct (pv_u16_at_ok d 36) as [esz ->]; [fold len; lia|]. cbn [obind].
  destruct (pv_u16_at_ok d 38) as [ssz ->]; [fold len; lia|]. cbn [obind].
  destruct (negb (ssz =? N.of_nat SCALAR_SIZE)); [exact I|].
  destruct (gsz =? N.of_nat psize) eqn:Eg; cbn [negb]; [|exact I]. apply N.eqb_eq in Eg. subst gsz.
  destruct (N.ltb_spec sp (N.of_nat SEC_PARAM)) as [H1|H1]; [exact I|].
  destruct (N.ltb_spec 256 sp) as [H2|H2]; [exact I|].
  destruct ((len - 40) / (N.of_nat psize + 2 * esz + ssz) =? sp) eqn:E5; cbn [negb]; [|exact I].
  apply N.eqb_eq in E5. rewrite E5.
  destruct (negb ((len - 40) mod (N.of_nat psize + 2 * esz + ssz) =? 0)); [exact I|].
  assert (L40 : N.of_nat (length (skipn 40 d)) + 40 = len) by (rewrite skipn_length; unfold len in *; lia).
  pose proof (pv_read_slots_shape psize len esz (N.to_nat sp) (skipn 40 d) 40 L40) as S1.
  destruct (read_slots psize (skipn 40 d) len (N.to_nat sp) 40 (N.of_nat psize) esz) as [[sl [o' r']]|e|s];
    cbn [obind fst snd slots_shape] in *; [|exact I|exact S1].
  destruct S1 as [A B].
  pose proof (pv_read_scalars_shape from_repr len (N.to_nat sp) r' o' B) as S2.
  destruct (read_scalars from_repr r' len (N.to_nat sp) o') as [os|e|s]; cbn [obind scalars_shape] in *;
    [|exact I|exact S2].
  unfold parsed_shape. cbn [vp_slots vp_opens vp_sp]. rewrite pv_sec_param in H1.
  repeat split; try assumption; lia.
Qed.

(** 1a: [from_bytes] never panics -- every point size, every scalar decoder, every byte string *)
Lemma from_bytes_total psize from_repr d : is_panic (from_bytes psize from_repr d) = false.
Proof.
  pose proof (from_bytes_cases psize from_repr d) as H.
  destruct (from_bytes psize from_repr d); [reflexivity|reflexivity|contradiction].
Qed.

Lemma from_bytes_parsed_shape psize from_repr d p : from_bytes psize from_repr d = Val p -> parsed_shape p.
Proof. intros E. pose proof (from_bytes_cases psize from_repr d) as H. rewrite E in H. exact H. Qed.

(** ** verify, decrypt, to_bytes *)
Lemma pv_extract_bit_ok ch i : length ch = 32%nat -> (i < 256)%nat -> exists b, extract_bit ch i = Val b.
Proof.
  intros L Hi. unfold extract_bit.
  destruct (nth_error ch (i / 8)) eqn:E; [eauto|].
  apply nth_error_None in E. assert (i / 8 < 32)%nat by (apply Nat.div_lt_upper_bound; lia). lia.
Qed.

Section Entry.
  Variable G : Type.
  Variable O : group_ops G.
  Variable q : Z.
  Variable repr : Z -> list N.
  Variable from_repr : list N -> option Z.
  Variable sha256 : list N -> list N.
  Variable PK SK : Type.
  Variable pk_n : PK -> Z.
  Variable sk_n : SK -> Z.
  Variable rsa_enc : list N -> PK -> list N -> option (list N).
  Variable rsa_dec : SK -> list N -> option (list N).

  Lemma pv_enc_label_total m label pk seed : pk_n pk <> 0%Z ->
    is_panic (rsa_encrypt_with_label sha256 PK pk_n rsa_enc m label pk seed) = false.
  Proof.
    intros Hn. unfold rsa_encrypt_with_label.
    destruct (Z.eqb_spec (pk_n pk) 0) as [E|_]; [contradiction|].
    destruct (rsa_enc seed pk _); reflexivity.
  Qed.

  Lemma pv_verify_slot_total Q pk label seed ch i pr s : length ch = 32%nat -> (i < 256)%nat -> pk_n pk <> 0%Z ->
    is_panic (verify_slot G O repr sha256 PK pk_n rsa_enc Q pk label seed ch i pr s) = false.
  Proof.
    intros L Hi Hn. unfold verify_slot.
    destruct (pv_extract_bit_ok ch i L Hi) as [b ->]. cbn [obind].
    pose proof (pv_enc_label_total (repr s) label pk seed Hn) as T.
    destruct (rsa_encrypt_with_label sha256 PK pk_n rsa_enc (repr s) label pk seed) as [enc|e|k];
      cbn [obind]; [|reflexivity|discriminate].
    destruct (g_dec O (s_gr pr)); [|reflexivity].
    destruct (if b then _ else _); reflexivity.
  Qed.

  Lemma pv_verify_slots_total Q pk label seed ch : length ch = 32%nat -> pk_n pk <> 0%Z ->
    forall cnt i ps os, length ps = cnt -> length os = cnt -> (i + cnt <= 256)%nat ->
    is_panic (verify_slots G O repr sha256 PK pk_n rsa_enc Q pk label seed ch cnt i ps os) = false.
  Proof.
    intros L Hn. induction cnt as [|c IH]; intros i ps os Lp Lo Hi; cbn [verify_slots]; [reflexivity|].
    destruct ps as [|pr ps']; [discriminate|]. destruct os as [|s os']; [discriminate|].
    cbn [length] in Lp, Lo.
    pose proof (pv_verify_slot_total Q pk label seed ch i pr s L ltac:(lia) Hn) as T.
    destruct (verify_slot G O repr sha256 PK pk_n rsa_enc Q pk label seed ch i pr s) as [u|e|k];
      cbn [obind]; [|reflexivity|discriminate].
    apply IH; lia.
  Qed.

  (** 1b: [verify] of an object with the parsed shape never panics, for EVERY claimed point, key with a
      non-zero modulus, and label *)
  Lemma verify_total (SHA : forall x, length (sha256 x) = 32%nat) p Q pk label :
    parsed_shape p -> pk_n pk <> 0%Z ->
    is_panic (verify G O repr sha256 PK pk_n rsa_enc p Q pk label) = false.
  Proof.
    intros (L1 & L2 & R) Hn. unfold verify.
    apply pv_verify_slots_total; try assumption; [apply SHA|lia].
  Qed.

  (** 1c: [decrypt] never panics on ANY object (parsed or not) for a key with a non-zero modulus *)
  Lemma pv_dec_scalar_total sk li c : sk_n sk <> 0%Z ->
    is_panic (dec_scalar from_repr SK sk_n rsa_dec sk li c) = false.
  Proof.
    intros Hn. unfold dec_scalar, rsa_decrypt_with_inv.
    destruct (rsa_dec sk c); [|reflexivity]. destruct li; [|reflexivity].
    destruct (Z.eqb_spec (sk_n sk) 0); [contradiction|reflexivity].
  Qed.

  Lemma pv_decrypt_slots_total Q sk li : sk_n sk <> 0%Z -> forall ps,
    is_panic (decrypt_slots G O q from_repr SK sk_n rsa_dec Q sk li ps) = false.
  Proof.
    intros Hn. induction ps as [|pr rest IH]; cbn [decrypt_slots]; [reflexivity|].
    pose proof (pv_dec_scalar_total sk li (s_encr pr) Hn) as T1.
    destruct (dec_scalar from_repr SK sk_n rsa_dec sk li (s_encr pr)) as [[r|]|e|k]; cbn [obind];
      [|exact IH|reflexivity|discriminate].
    pose proof (pv_dec_scalar_total sk li (s_encxr pr) Hn) as T2.
    destruct (dec_scalar from_repr SK sk_n rsa_dec sk li (s_encxr pr)) as [[xr|]|e|k]; cbn [obind];
      [|exact IH|reflexivity|discriminate].
    destruct (g_eqb O _ Q); [reflexivity|exact IH].
  Qed.

  Lemma decrypt_total p Q sk label : sk_n sk <> 0%Z ->
    is_panic (decrypt G O q from_repr sha256 SK sk_n rsa_dec p Q sk label) = false.
  Proof.
    intros Hn. unfold decrypt. destruct (negb _); [reflexivity|]. apply pv_decrypt_slots_total. exact Hn.
  Qed.

  (** [to_bytes] of an object with the parsed shape: proofs[0] exists *)
  Lemma to_bytes_total p : parsed_shape p -> is_panic (to_bytes repr p) = false.
  Proof.
    intros (L1 & _ & R). unfold to_bytes. destruct (vp_slots p); [cbn [length] in L1; lia|reflexivity].
  Qed.
End Entry.

(** ** the same at the level of worlds (the form used by Props/C09.v, C10.v) *)
Definition sha_len_ok (W : venc_world) : Prop := forall x, length (w_sha256 W x) = 32%nat.

Lemma W_from_bytes_total (W : venc_world) d : is_panic (W_from_bytes W d) = false.
Proof. apply from_bytes_total. Qed.

Lemma W_from_bytes_shape (W : venc_world) d p : W_from_bytes W d = Val p ->
  length (vp_slots p) = vp_sp p /\ length (vp_opens p) = vp_sp p /\ (128 <= vp_sp p <= 256)%nat.
Proof. apply from_bytes_parsed_shape. Qed.

Lemma W_verify_total (W : venc_world) : sha_len_ok W -> forall d p (Q : w_G W) (pk : w_PK W) label,
  W_from_bytes W d = Val p -> w_pk_n W pk <> 0%Z -> is_panic (W_verify W p Q pk label) = false.
Proof.
  intros SHA d p Q pk label E Hn. unfold W_verify. apply verify_total; [exact SHA| |exact Hn].
  exact (from_bytes_parsed_shape _ _ _ _ E).
Qed.

Lemma W_decrypt_total (W : venc_world) p (Q : w_G W) (sk : w_SK W) label :
  w_sk_n W sk <> 0%Z -> is_panic (W_decrypt W p Q sk label) = false.
Proof. apply decrypt_total. Qed.

Lemma W_to_bytes_total (W : venc_world) d p : W_from_bytes W d = Val p -> is_panic (W_to_bytes W p) = false.
Proof. intros E. apply to_bytes_total. exact (from_bytes_parsed_shape _ _ _ _ E). Qed.

(** the receiving side as one call chain on raw bytes: parse, verify, decrypt, re-serialise *)
Definition W_receive (W : venc_world) (d : list N) (Q : w_G W) (pk : w_PK W) (sk : w_SK W) (label : list N)
  : outcome (Z * list N) :=
  obind (W_from_bytes W d) (fun p =>
  obind (W_verify W p Q pk label) (fun _ =>
  obind (W_decrypt W p Q sk label) (fun x =>
  obind (W_to_bytes W p) (fun b => Val (x, b))))).

Lemma W_receive_total (W : venc_world) : sha_len_ok W -> forall d (Q : w_G W) pk sk label,
  w_pk_n W pk <> 0%Z -> w_sk_n W sk <> 0%Z -> is_panic (W_receive W d Q pk sk label) = false.
Proof.
  intros SHA d Q pk sk label Hp Hs. unfold W_receive.
  pose proof (W_from_bytes_total W d) as T0.
  destruct (W_from_bytes W d) as [p|e|k] eqn:E; cbn [obind]; [|reflexivity|discriminate].
  pose proof (W_verify_total W SHA d p Q pk label E Hp) as T1.
  destruct (W_verify W p Q pk label) as [u|e|k]; cbn [obind]; [|reflexivity|discriminate].
  pose proof (W_decrypt_total W p Q sk label Hs) as T2.
  destruct (W_decrypt W p Q sk label) as [x|e|k]; cbn [obind]; [|reflexivity|discriminate].
  pose proof (W_to_bytes_total W d p E) as T3.
  destruct (W_to_bytes W p) as [b|e|k]; cbn [obind]; [reflexivity|reflexivity|discriminate].
Qed.

(** ** Non-vacuity of the premises, and why the modulus premise is there *)
From SL Require Import Lib.ZqGroup Proofs.VEncBytes Proofs.VEncCore Proofs.VEncInst.

(** [sha_len_ok] is the length half of [wo_sha]: every [world_ok] world has it *)
Lemma world_ok_sha_len (W : venc_world) : world_ok W -> sha_len_ok W.
Proof. intros WOK x. apply (wo_sha W WOK). Qed.

(** a byte string that parses in the toy world of Proofs/VEncInst.v: zero seed, security_param 128,
    1-byte points, empty ciphertexts, 32-byte scalars, 128 slots and 128 scalars, all bytes zero *)
Definition pv_ex_bytes : list N :=
  repeat 0%N 32 ++ [0; 128; 0; 1; 0; 0; 0; 32]%N ++ repeat 0%N (128 + 128 * 32).

Example pv_premises_satisfiable :
  sha_len_ok toy_world /\ w_pk_n toy_world tt <> 0%Z /\ w_sk_n toy_world tt <> 0%Z /\
  exists p, W_from_bytes toy_world pv_ex_bytes = Val p.
Proof.
  split; [apply world_ok_sha_len, toy_world_ok|].
  split; [cbn [toy_world w_pk_n]; lia|]. split; [cbn [toy_world w_sk_n]; lia|].
  eexists. vm_compute. reflexivity.
Qed.

(** the same world with RSA modulus 0 on both sides: the [BigUint % 0] site IS reached by [verify] and by
    [decrypt] (the label integer of the toy hash is 1, whose "inverse modulo 0" the model's Euclid returns),
    so the premises [pk_n pk <> 0] / [sk_n sk <> 0] cannot be dropped *)
Definition zero_mod_world : venc_world := {|
  w_G := zq 11;
  w_O := zq_group 11 venc_lt_1_11;
  w_q := 11;
  w_psize := 1;
  w_repr := repr_be;
  w_from_repr := from_repr_be 11;
  w_sha256 := toy_hash;
  w_PK := unit;
  w_SK := unit;
  w_pk_n := fun _ => 0%Z;
  w_sk_n := fun _ => 0%Z;
  w_rsa_enc := fun _ _ m => Some m;
  w_rsa_dec := fun _ c => Some c;
|}.

Example verify_modulus0_panics :
  obind (W_from_bytes zero_mod_world pv_ex_bytes)
        (fun p => W_verify zero_mod_world p (W_gen zero_mod_world) tt []) = Panic 1%N.
Proof. vm_compute. reflexivity. Qed.

Example decrypt_modulus0_panics :
  obind (W_from_bytes zero_mod_world pv_ex_bytes)
        (fun p => W_decrypt zero_mod_world p (W_gen zero_mod_world) tt []) = Panic 1%N.
Proof. vm_compute. reflexivity. Qed.

Lemma modulus0_panics :
  obind (W_from_bytes zero_mod_world pv_ex_bytes)
        (fun p => W_verify zero_mod_world p (W_gen zero_mod_world) tt []) = Panic 1%N /\
  obind (W_from_bytes zero_mod_world pv_ex_bytes)
        (fun p => W_decrypt zero_mod_world p (W_gen zero_mod_world) tt []) = Panic 1%N.
Proof. exact (conj verify_modulus0_panics decrypt_modulus0_panics). Qed.
