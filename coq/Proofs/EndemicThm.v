(** C05: the property-level lemmas about the Endemic base-OT model.
    Part 2: group algebra, the honest exchange, other-key / session-binding / substitution
    characterisations, non-vacuity instance. *)
From SL Require Import Lib.Base Lib.Oracle Lib.ZqGroup Gen.Params Model.Endemic Proofs.Endemic.
From Coq Require Import Znumtheory.
Local Open Scope Z_scope.

Section EndemicTheorems.
  Variable G : Type.
  Variable O : group_ops G.
  Variable H : transcript_oracle.
  Variable q : Z.
  Hypothesis laws : group_laws q O.
  Hypothesis dec_enc : enc33_roundtrip G O.

  Notation smul := (g_smul O).
  Notation add := (g_add O).
  Notation neg := (g_neg O).
  Notation gen := (g_gen O).
  Notation gid := (g_id O).
  Notation hf := (h_function G O H).
  Notation h2 := (h_function_2 G O H).
  Notation e33 := (enc33 G O).
  Notation nomsg := (@nil N, @nil N).
  Notation rchoice := (recv_r_choice G O H).
  Notation skp := (skey_point G O H).

  (* ---------------------------------------------------------------- group algebra *)
  Lemma enc33_inj a b : e33 a = e33 b -> a = b.
  Proof.
    intros E. pose proof (dec_enc a) as A. rewrite E in A. rewrite (dec_enc b) in A.
    inversion A; reflexivity.
  Qed.

  Lemma g_eq_dec (a b : G) : a = b \/ a <> b.
  Proof.
    destruct (g_eqb O a b) eqn:E.
    - left. apply (gl_eqb q O laws). exact E.
    - right. intros Eab. apply (gl_eqb q O laws) in Eab. rewrite Eab in E. discriminate.
  Qed.

  Lemma add_neg_cancel a h : add (add a (neg h)) h = a.
  Proof.
    rewrite <- (gl_add_assoc q O laws). rewrite (gl_add_comm q O laws (neg h) h).
    rewrite (gl_add_neg q O laws). apply (gl_add_id q O laws).
  Qed.

  Lemma add_id_l a : add gid a = a.
  Proof. rewrite (gl_add_comm q O laws). apply (gl_add_id q O laws). Qed.

  Lemma add_cancel_l a b c : add a b = add a c -> b = c.
  Proof.
    intros E. assert (E2 : add (neg a) (add a b) = add (neg a) (add a c)) by (rewrite E; reflexivity).
    rewrite !(gl_add_assoc q O laws) in E2.
    rewrite (gl_add_comm q O laws (neg a) a), (gl_add_neg q O laws) in E2.
    rewrite !add_id_l in E2. exact E2.
  Qed.

  Lemma smul_swap k l a : smul k (smul l a) = smul l (smul k a).
  Proof. rewrite <- !(gl_smul_mul q O laws). f_equal. lia. Qed.

  Lemma smul_id k : smul k gid = gid.
  Proof.
    rewrite <- (gl_smul_0 q O laws gen). rewrite <- (gl_smul_mul q O laws).
    replace (k * 0) with 0 by lia. reflexivity.
  Qed.

  Lemma sub_self_smul X : add X (smul (-1) X) = gid.
  Proof.
    transitivity (add (smul 1 X) (smul (-1) X)).
    - f_equal. symmetry. apply (gl_smul_1 q O laws).
    - rewrite <- (gl_smul_add q O laws). change (1 + -1) with 0. apply (gl_smul_0 q O laws).
  Qed.

  (** k*(A - hR + hS) = k*A  ->  k*hS = k*hR *)
  Lemma smul_shift_eq k A hR hS :
    smul k (add (add A (neg hR)) hS) = smul k A -> smul k hS = smul k hR.
  Proof.
    intros E.
    rewrite <- (gl_add_assoc q O laws) in E. rewrite (gl_smul_dist q O laws) in E.
    rewrite <- (gl_add_id q O laws (smul k A)) in E at 2.
    apply add_cancel_l in E. rewrite (gl_smul_dist q O laws) in E.
    assert (E2 : add (smul k hR) (add (smul k (neg hR)) (smul k hS)) = add (smul k hR) gid) by (rewrite E; reflexivity).
    rewrite (gl_add_id q O laws) in E2. rewrite (gl_add_assoc q O laws) in E2.
    rewrite <- (gl_smul_dist q O laws) in E2. rewrite (gl_add_neg q O laws) in E2.
    rewrite smul_id, add_id_l in E2. exact E2.
  Qed.

  (** scalars that are units mod a prime q can be cancelled *)
  Lemma smul_cancel k a b : prime q -> k mod q <> 0 -> smul k a = smul k b -> a = b.
  Proof.
    intros Hp Hk E.
    assert (Hq : 1 < q) by (destruct Hp; lia).
    assert (ND : ~ (q | k)) by (intros D; apply Hk; apply Z.mod_divide; [lia|exact D]).
    pose proof (prime_rel_prime q Hp k ND) as RP.
    apply rel_prime_bezout in RP. destruct RP as [u v B].
    assert (R : forall x, x = smul v (smul k x)).
    { intros x. rewrite <- (gl_smul_mul q O laws). rewrite (gl_smul_mod q O laws).
      replace (v * k) with (1 + (- u) * q) by lia. rewrite Z_mod_plus_full.
      rewrite <- (gl_smul_mod q O laws). symmetry. apply (gl_smul_1 q O laws). }
    rewrite (R a), (R b), E. reflexivity.
  Qed.

  (* ---------------------------------------------------------------- H2 *)
  Lemma h2_query_pk idx P P' : h2_query G O idx P = h2_query G O idx P' -> P = P'.
  Proof.
    unfold h2_query. intros E.
    apply cons_inj in E. destruct E as [_ E].
    apply cons_inj in E. destruct E as [_ E].
    apply cons_inj in E. destruct E as [Ep _]. apply tappend_inj in Ep. apply enc33_inj. exact Ep.
  Qed.

  (** equal keys: either the hashed points are equal, or an explicit H2 collision *)
  Lemma h2_eq_char idx P P' : h2 idx P = h2 idx P' -> P = P' \/ h2_collision G O H idx P P'.
  Proof.
    intros E. destruct (g_eq_dec P P') as [e|n]; [left; exact e|right].
    split; [|exact E]. intros Q. apply n. apply (h2_query_pk idx). exact Q.
  Qed.

  (* ---------------------------------------------------------------- the sender's points *)
  Lemma skp_unfold sid idx b r0 r1 tb0 tb1 :
    skp sid idx b r0 r1 tb0 tb1 =
    smul (if b then tb1 else tb0) (add (if b then r1 else r0) (hf (ro_of_bit b) idx sid (if b then r0 else r1))).
  Proof. destruct b; reflexivity. Qed.

  (** the sender's point on the receiver's chosen side, for message 1 made under [sidR] and processed
      under [sidS] *)
  Lemma skp_chosen sidR sidS idx c ta ro tb0 tb1 :
    let rc := rchoice sidR c idx ta ro in
    skp sidS idx c (if c then ro else rc) (if c then rc else ro) tb0 tb1 =
    smul (if c then tb1 else tb0) (add rc (hf (ro_of_bit c) idx sidS ro)).
  Proof. intros rc. rewrite skp_unfold. destruct c; reflexivity. Qed.

  Lemma skp_other sidR sidS idx c ta ro tb0 tb1 :
    let rc := rchoice sidR c idx ta ro in
    skp sidS idx (negb c) (if c then ro else rc) (if c then rc else ro) tb0 tb1 =
    smul (if c then tb0 else tb1) (add ro (hf (ro_of_bit (negb c)) idx sidS rc)).
  Proof. intros rc. rewrite skp_unfold. destruct c; reflexivity. Qed.

  (** same session id: m_a_c = r_c + Hc(c, idx, sid, r_other) = t_a * gen *)
  Lemma m_a_chosen sid idx c ta ro : add (rchoice sid c idx ta ro) (hf (ro_of_bit c) idx sid ro) = smul ta gen.
  Proof. unfold recv_r_choice. apply add_neg_cancel. Qed.

  (* ---------------------------------------------------------------- honest message 1 *)
  Lemma recv_new_msg1_nth sid bits tas ros idx : (idx < eot_n)%nat ->
    nth idx (snd (eot_receiver_new G O H sid bits tas ros)) nomsg =
    recv_instance G O H sid (bit_at bits idx) (N.of_nat idx) (nth idx tas 0) (nth idx ros gid).
  Proof. intros L. unfold eot_receiver_new. cbn [snd]. rewrite nth_map_seq by exact L. reflexivity. Qed.

  Lemma recv_instance_dec_fst sid c idx ta ro :
    g_dec O (fst (recv_instance G O H sid c idx ta ro)) = Some (if c then ro else rchoice sid c idx ta ro).
  Proof. unfold recv_instance. destruct c; cbn [fst]; apply dec_enc. Qed.

  Lemma recv_instance_dec_snd sid c idx ta ro :
    g_dec O (snd (recv_instance G O H sid c idx ta ro)) = Some (if c then rchoice sid c idx ta ro else ro).
  Proof. unfold recv_instance. destruct c; cbn [snd]; apply dec_enc. Qed.

  (** The exchange with honest messages, the receiver's message 1 made under [sidR], the sender
      running under [sidS], and ANY receiver state [st] processing the sender's message 2:
      nobody fails to decode, and all keys are given in closed form. *)
  Lemma exchange_char sidR bits tas ros sidS tbs st :
    let rn := eot_receiver_new G O H sidR bits tas ros in
    let sp := eot_sender_process G O H sidS (snd rn) tbs in
    exists skeys rkeys,
      snd sp = Val skeys /\ eot_receiver_process G O H st (fst sp) = Val (rs_bits st, rkeys) /\
      forall idx, (idx < eot_n)%nat ->
        let c := bit_at bits idx in
        let ro := nth idx ros gid in
        let rc := rchoice sidR c (N.of_nat idx) (nth idx tas 0) ro in
        let tb0 := fst (nth idx tbs (0, 0)) in
        let tb1 := snd (nth idx tbs (0, 0)) in
        nth idx skeys nomsg =
          (h2 (N.of_nat idx) (skp sidS (N.of_nat idx) false (if c then ro else rc) (if c then rc else ro) tb0 tb1),
           h2 (N.of_nat idx) (skp sidS (N.of_nat idx) true (if c then ro else rc) (if c then rc else ro) tb0 tb1)) /\
        nth idx rkeys [] =
          h2 (N.of_nat idx) (smul (nth idx (rs_ta st) 0) (smul (if bit_at (rs_bits st) idx then tb1 else tb0) gen)).
  Proof.
    intros rn sp.
    destruct (sender_total G O H sidS (snd rn) tbs) as [SE|[skeys [SV SL]]].
    { exfalso. apply sender_err_iff in SE. destruct SE as [i [L D]]. unfold rn in D.
      rewrite (recv_new_msg1_nth sidR bits tas ros i L) in D.
      rewrite recv_instance_dec_fst, recv_instance_dec_snd in D. destruct D; discriminate. }
    destruct (receiver_total G O H st (fst sp)) as [RE|[rkeys [RV RL]]].
    { exfalso. apply receiver_err_iff in RE. destruct RE as [i [L D]]. unfold chosen_side, sp in D.
      rewrite (sender_msg2_nth G O H sidS (snd rn) tbs i L) in D.
      destruct (bit_at (rs_bits st) i); cbn [fst snd] in D; rewrite dec_enc in D; discriminate. }
    exists skeys, rkeys. split; [exact SV|]. split; [exact RV|].
    intros idx L c ro rc tb0 tb1. split.
    - destruct (sender_val_char G O H sidS (snd rn) tbs skeys idx SV L) as [r0 [r1 [D0 [D1 K]]]].
      unfold rn in D0, D1. rewrite (recv_new_msg1_nth sidR bits tas ros idx L) in D0, D1.
      rewrite recv_instance_dec_fst in D0. rewrite recv_instance_dec_snd in D1.
      injection D0 as D0'. injection D1 as D1'. subst r0 r1. exact K.
    - destruct (receiver_val_char G O H st (fst sp) (rs_bits st) rkeys idx RV L) as [_ [mb [D K]]].
      unfold chosen_side, sp in D. rewrite (sender_msg2_nth G O H sidS (snd rn) tbs idx L) in D.
      rewrite K. f_equal. f_equal.
      destruct (bit_at (rs_bits st) idx); cbn [fst snd] in D; rewrite dec_enc in D; injection D as D'; subst mb; reflexivity.
  Qed.

  Lemma recv_new_state sid bits tas ros :
    fst (eot_receiver_new G O H sid bits tas ros) = {| rs_bits := bits; rs_ta := tas |}.
  Proof. reflexivity. Qed.

  Lemma val_inj {A} (a b : A) : Val a = Val b -> a = b.
  Proof. intros E. inversion E. reflexivity. Qed.

  (* ================================================================ the theorems *)

  (** C05, first sentence, chosen half: the honest exchange completes and the receiver's key is the
      sender's key for the receiver's choice bit -- for every oracle, tape, session id. *)
  Lemma endemic_correct_lem sid bits tas ros tbs :
    let rn := eot_receiver_new G O H sid bits tas ros in
    let sp := eot_sender_process G O H sid (snd rn) tbs in
    exists skeys rkeys,
      snd sp = Val skeys /\ eot_receiver_process G O H (fst rn) (fst sp) = Val (bits, rkeys) /\
      forall idx, (idx < 256)%nat ->
        nth idx rkeys [] = (if bit_at bits idx then snd (nth idx skeys nomsg) else fst (nth idx skeys nomsg)).
  Proof.
    intros rn sp.
    destruct (exchange_char sid bits tas ros sid tbs (fst rn)) as [skeys [rkeys [SV [RV K]]]].
    exists skeys, rkeys. split; [exact SV|]. split; [exact RV|].
    intros idx L. rewrite <- eot_n_256 in L. destruct (K idx L) as [KS KR]. clear K.
    rewrite KS, KR. unfold rn. rewrite recv_new_state. cbn [rs_bits rs_ta].
    destruct (bit_at bits idx) eqn:C; cbn [fst snd].
    - rewrite (skp_chosen sid sid (N.of_nat idx) true). cbn zeta. rewrite m_a_chosen. f_equal. apply smul_swap.
    - rewrite (skp_chosen sid sid (N.of_nat idx) false). cbn zeta. rewrite m_a_chosen. f_equal. apply smul_swap.
  Qed.

  (** C05, first sentence, other half (partial in the sense of DESIGN.md 3.3): if the receiver's key
      equals the sender's OTHER key, then either two different H2 queries collide, or the hash-to-curve
      output Hc(1-c, idx, sid, r_c) -- asked on a query different from the one that produced r_c --
      satisfies an explicit group equation with the tapes. *)
  Lemma endemic_other_key_lem sid bits tas ros tbs skeys rkeys idx :
    let rn := eot_receiver_new G O H sid bits tas ros in
    let sp := eot_sender_process G O H sid (snd rn) tbs in
    snd sp = Val skeys -> eot_receiver_process G O H (fst rn) (fst sp) = Val (bits, rkeys) ->
    (idx < 256)%nat ->
    let c := bit_at bits idx in
    let ta := nth idx tas 0 in
    let ro := nth idx ros gid in
    let rc := rchoice sid c (N.of_nat idx) ta ro in
    let tb_c := if c then snd (nth idx tbs (0, 0)) else fst (nth idx tbs (0, 0)) in
    let tb_o := if c then fst (nth idx tbs (0, 0)) else snd (nth idx tbs (0, 0)) in
    let h_fresh := hf (ro_of_bit (negb c)) (N.of_nat idx) sid rc in
    nth idx rkeys [] = (if c then fst (nth idx skeys nomsg) else snd (nth idx skeys nomsg)) ->
    h2_collision G O H (N.of_nat idx) (smul ta (smul tb_c gen)) (smul tb_o (add ro h_fresh)) \/
    (smul tb_o (add ro h_fresh) = smul (ta * tb_c) gen /\
     forall k k', h_query G O (ro_of_bit (negb c)) (N.of_nat idx) sid rc k <>
                  h_query G O (ro_of_bit c) (N.of_nat idx) sid ro k').
  Proof.
    intros rn sp SV RV L c ta ro rc tb_c tb_o h_fresh E.
    destruct (exchange_char sid bits tas ros sid tbs (fst rn)) as [skeys0 [rkeys0 [SV0 [RV0 K]]]].
    fold rn sp in SV0, RV0. rewrite SV in SV0. apply val_inj in SV0. subst skeys0.
    rewrite RV in RV0. apply val_inj in RV0. apply (f_equal snd) in RV0. cbn [snd] in RV0. subst rkeys0.
    rewrite <- eot_n_256 in L. destruct (K idx L) as [KS KR]. clear K.
    unfold rn in KR. rewrite recv_new_state in KR. cbn [rs_bits rs_ta] in KR.
    rewrite KS, KR in E. clear KS KR.
    assert (E' : h2 (N.of_nat idx) (smul ta (smul tb_c gen)) = h2 (N.of_nat idx) (smul tb_o (add ro h_fresh))).
    { unfold tb_c, tb_o, h_fresh, rc, ta, ro. fold c in E. fold c. destruct c eqn:C; cbn [fst snd] in E.
      - rewrite (skp_other sid sid (N.of_nat idx) true) in E. exact E.
      - rewrite (skp_other sid sid (N.of_nat idx) false) in E. exact E. }
    apply h2_eq_char in E'. destruct E' as [EP|Coll]; [right|left; exact Coll].
    split.
    - rewrite <- EP. rewrite (gl_smul_mul q O laws). reflexivity.
    - intros k k' Q. symmetry in Q. revert Q. apply h_query_ro_distinct.
  Qed.

  (** C05, second sentence, the two sides under different session ids (honest message passing): a
      receiver key equal to one of the sender's keys forces an H2 collision, or -- on the chosen side --
      the two hash-to-curve outputs for session ids sidR / sidS (different oracle inputs) to agree up
      to the sender's scalar, or -- on the other side -- the group equation of [endemic_other_key]. *)
  Lemma endemic_session_binding_lem sidR sidS bits tas ros tbs skeys rkeys idx (b : bool) :
    sidR <> sidS ->
    let rn := eot_receiver_new G O H sidR bits tas ros in
    let sp := eot_sender_process G O H sidS (snd rn) tbs in
    snd sp = Val skeys -> eot_receiver_process G O H (fst rn) (fst sp) = Val (bits, rkeys) ->
    (idx < 256)%nat ->
    let c := bit_at bits idx in
    let ta := nth idx tas 0 in
    let ro := nth idx ros gid in
    let rc := rchoice sidR c (N.of_nat idx) ta ro in
    let tb_c := if c then snd (nth idx tbs (0, 0)) else fst (nth idx tbs (0, 0)) in
    let tb_o := if c then fst (nth idx tbs (0, 0)) else snd (nth idx tbs (0, 0)) in
    let hS := hf (ro_of_bit c) (N.of_nat idx) sidS ro in
    let hR := hf (ro_of_bit c) (N.of_nat idx) sidR ro in
    let h_fresh := hf (ro_of_bit (negb c)) (N.of_nat idx) sidS rc in
    nth idx rkeys [] = (if b then snd (nth idx skeys nomsg) else fst (nth idx skeys nomsg)) ->
    (b = c /\ h2_collision G O H (N.of_nat idx) (smul ta (smul tb_c gen)) (smul tb_c (add rc hS))) \/
    (b = c /\ smul tb_c hS = smul tb_c hR /\
       forall k k', h_query G O (ro_of_bit c) (N.of_nat idx) sidS ro k <> h_query G O (ro_of_bit c) (N.of_nat idx) sidR ro k') \/
    (b = negb c /\ h2_collision G O H (N.of_nat idx) (smul ta (smul tb_c gen)) (smul tb_o (add ro h_fresh))) \/
    (b = negb c /\ smul tb_o (add ro h_fresh) = smul (ta * tb_c) gen).
  Proof.
    intros NS rn sp SV RV L c ta ro rc tb_c tb_o hS hR h_fresh E.
    destruct (exchange_char sidR bits tas ros sidS tbs (fst rn)) as [skeys0 [rkeys0 [SV0 [RV0 K]]]].
    fold rn sp in SV0, RV0. rewrite SV in SV0. apply val_inj in SV0. subst skeys0.
    rewrite RV in RV0. apply val_inj in RV0. apply (f_equal snd) in RV0. cbn [snd] in RV0. subst rkeys0.
    rewrite <- eot_n_256 in L. destruct (K idx L) as [KS KR]. clear K.
    unfold rn in KR. rewrite recv_new_state in KR. cbn [rs_bits rs_ta] in KR.
    rewrite KS, KR in E. clear KS KR. fold c in E.
    assert (Bc : b = c \/ b = negb c) by (destruct b, c; auto).
    destruct Bc as [Bc|Bc].
    - (* chosen side *)
      assert (E' : h2 (N.of_nat idx) (smul ta (smul tb_c gen)) = h2 (N.of_nat idx) (smul tb_c (add rc hS))).
      { unfold tb_c, hS, rc, ta, ro. subst b. destruct c eqn:C; cbn [fst snd] in E.
        - rewrite (skp_chosen sidR sidS (N.of_nat idx) true) in E. exact E.
        - rewrite (skp_chosen sidR sidS (N.of_nat idx) false) in E. exact E. }
      apply h2_eq_char in E'. destruct E' as [EP|Coll]; [right; left|left; split; [exact Bc|exact Coll]].
      split; [exact Bc|]. split.
      + apply (smul_shift_eq tb_c (smul ta gen) hR hS). rewrite smul_swap in EP. symmetry. exact EP.
      + intros k k'. apply h_query_sid_distinct. intros Q. apply NS. symmetry. exact Q.
    - (* other side *)
      assert (E' : h2 (N.of_nat idx) (smul ta (smul tb_c gen)) = h2 (N.of_nat idx) (smul tb_o (add ro h_fresh))).
      { unfold tb_c, tb_o, h_fresh, rc, ta, ro. subst b. destruct c eqn:C; cbn [fst snd negb] in E.
        - rewrite (skp_other sidR sidS (N.of_nat idx) true) in E. exact E.
        - rewrite (skp_other sidR sidS (N.of_nat idx) false) in E. exact E. }
      apply h2_eq_char in E'. destruct E' as [EP|Coll]; [right; right; right|right; right; left; split; [exact Bc|exact Coll]].
      split; [exact Bc|]. rewrite <- EP. rewrite (gl_smul_mul q O laws). reflexivity.
  Qed.

  (** for a prime group order and a non-zero sender scalar the chosen-side coincidence is a plain
      collision of hash-to-curve on two different queries *)
  Lemma endemic_session_collision_lem k hS hR : prime q -> k mod q <> 0 -> smul k hS = smul k hR -> hS = hR.
  Proof. apply smul_cancel. Qed.

  (** Arbitrary (adversarial or substituted) message 1 and message 2: whenever both sides return
      keys, a receiver key equal to a sender key forces equality of the two hashed group elements
      (an explicit equation between the tapes, the decoded message points and one hash-to-curve
      output) or an explicit H2 collision. *)
  Lemma endemic_key_equal_char_lem sidS msg1 tbs skeys st msg2 bits rkeys idx (b : bool) :
    snd (eot_sender_process G O H sidS msg1 tbs) = Val skeys ->
    eot_receiver_process G O H st msg2 = Val (bits, rkeys) ->
    (idx < 256)%nat ->
    nth idx rkeys [] = (if b then snd (nth idx skeys nomsg) else fst (nth idx skeys nomsg)) ->
    exists r0 r1 mb,
      g_dec O (fst (nth idx msg1 nomsg)) = Some r0 /\ g_dec O (snd (nth idx msg1 nomsg)) = Some r1 /\
      g_dec O (chosen_side st msg2 idx) = Some mb /\
      let P_R := smul (nth idx (rs_ta st) 0) mb in
      let P_S := smul (if b then snd (nth idx tbs (0, 0)) else fst (nth idx tbs (0, 0)))
                      (add (if b then r1 else r0) (hf (ro_of_bit b) (N.of_nat idx) sidS (if b then r0 else r1))) in
      P_R = P_S \/ h2_collision G O H (N.of_nat idx) P_R P_S.
  Proof.
    intros SV RV L E. rewrite <- eot_n_256 in L.
    destruct (sender_val_char G O H sidS msg1 tbs skeys idx SV L) as [r0 [r1 [D0 [D1 KS]]]].
    destruct (receiver_val_char G O H st msg2 bits rkeys idx RV L) as [_ [mb [D KR]]].
    exists r0, r1, mb. split; [exact D0|]. split; [exact D1|]. split; [exact D|].
    intros P_R P_S. apply h2_eq_char. unfold P_R, P_S. rewrite <- skp_unfold.
    rewrite KS, KR in E. destruct b; cbn [fst snd] in E; exact E.
  Qed.

  (** Message 2 substituted: the receiver of session [sid] gets, instead of its sender's message 2,
      the message 2 of ANY other sender run (session id, message 1 and tape arbitrary).  Its key
      equals a key of its own session's sender only under an H2 collision, a coincidence of the two
      sender tapes (chosen side), or the group equation on a fresh hash-to-curve output.
      NB message 2 does not depend on the session id at all: this half of the binding rests on the
      sender's scalars being fresh per session. *)
  Lemma endemic_msg2_substituted_lem sid bits tas ros tbs sid' msg1' tbs' skeys rkeys idx (b : bool) :
    let rn := eot_receiver_new G O H sid bits tas ros in
    let sp := eot_sender_process G O H sid (snd rn) tbs in
    let sp' := eot_sender_process G O H sid' msg1' tbs' in
    snd sp = Val skeys -> eot_receiver_process G O H (fst rn) (fst sp') = Val (bits, rkeys) ->
    (idx < 256)%nat ->
    let c := bit_at bits idx in
    let ta := nth idx tas 0 in
    let ro := nth idx ros gid in
    let rc := rchoice sid c (N.of_nat idx) ta ro in
    let tb_c := if c then snd (nth idx tbs (0, 0)) else fst (nth idx tbs (0, 0)) in
    let tb_o := if c then fst (nth idx tbs (0, 0)) else snd (nth idx tbs (0, 0)) in
    let tb_c' := if c then snd (nth idx tbs' (0, 0)) else fst (nth idx tbs' (0, 0)) in
    let h_fresh := hf (ro_of_bit (negb c)) (N.of_nat idx) sid rc in
    nth idx rkeys [] = (if b then snd (nth idx skeys nomsg) else fst (nth idx skeys nomsg)) ->
    (exists P P', h2_collision G O H (N.of_nat idx) P P') \/
    (b = c /\ (ta * tb_c' - ta * tb_c) mod q = 0) \/
    (b = negb c /\ smul tb_o (add ro h_fresh) = smul (ta * tb_c') gen).
  Proof.
    intros rn sp sp' SV RV L c ta ro rc tb_c tb_o tb_c' h_fresh E.
    destruct (exchange_char sid bits tas ros sid tbs (fst rn)) as [skeys0 [rkeys0 [SV0 [_ K]]]].
    fold rn sp in SV0. rewrite SV in SV0. apply val_inj in SV0. subst skeys0.
    rewrite <- eot_n_256 in L. destruct (K idx L) as [KS _]. clear K.
    destruct (receiver_val_char G O H (fst rn) (fst sp') bits rkeys idx RV L) as [_ [mb [D KR]]].
    unfold chosen_side, sp' in D. rewrite (sender_msg2_nth G O H sid' msg1' tbs' idx L) in D.
    unfold rn in D, KR. rewrite recv_new_state in D, KR. cbn [rs_bits rs_ta] in D, KR. fold c ta in D, KR.
    assert (Emb : mb = smul tb_c' gen).
    { unfold tb_c'. destruct c; cbn [fst snd] in D; rewrite dec_enc in D; injection D as D'; subst mb; reflexivity. }
    subst mb. rewrite KS, KR in E. clear KS KR D. fold c in E.
    assert (Bc : b = c \/ b = negb c) by (destruct b, c; auto).
    destruct Bc as [Bc|Bc].
    - assert (E' : h2 (N.of_nat idx) (smul ta (smul tb_c' gen)) = h2 (N.of_nat idx) (smul tb_c (smul ta gen))).
      { unfold tb_c, tb_c', rc, ta, ro. subst b. destruct c eqn:C; cbn [fst snd] in E.
        - rewrite (skp_chosen sid sid (N.of_nat idx) true) in E. cbn zeta in E. rewrite m_a_chosen in E. exact E.
        - rewrite (skp_chosen sid sid (N.of_nat idx) false) in E. cbn zeta in E. rewrite m_a_chosen in E. exact E. }
      apply h2_eq_char in E'. destruct E' as [EP|Coll]; [right; left|left; eauto].
      split; [exact Bc|]. apply (gl_gen_order q O laws).
      replace (ta * tb_c' - ta * tb_c) with (ta * tb_c' + (-1) * (tb_c * ta)) by lia.
      rewrite (gl_smul_add q O laws).
      rewrite (gl_smul_mul q O laws ta tb_c'), (gl_smul_mul q O laws (-1) (tb_c * ta)), (gl_smul_mul q O laws tb_c ta).
      rewrite EP. apply sub_self_smul.
    - assert (E' : h2 (N.of_nat idx) (smul ta (smul tb_c' gen)) = h2 (N.of_nat idx) (smul tb_o (add ro h_fresh))).
      { unfold tb_o, tb_c', h_fresh, rc, ta, ro. subst b. destruct c eqn:C; cbn [fst snd negb] in E.
        - rewrite (skp_other sid sid (N.of_nat idx) true) in E. exact E.
        - rewrite (skp_other sid sid (N.of_nat idx) false) in E. exact E. }
      apply h2_eq_char in E'. destruct E' as [EP|Coll]; [right; right|left; eauto].
      split; [exact Bc|]. rewrite <- EP. rewrite (gl_smul_mul q O laws). reflexivity.
  Qed.
  (** Message 1 substituted: the sender of session [sid] is given the message 1 that ANOTHER receiver
      run made (session id [sid'], tape bits'/tas'/ros'); the receiver of session [sid] (state
      bits/tas) processes the sender's answer.  Its key equals a sender key only under an H2
      collision or an explicit group equation tying the sender's hash-to-curve output under [sid]
      to the two receivers' independent tapes. *)
  Lemma endemic_msg1_substituted_lem sid bits tas sid' bits' tas' ros' tbs skeys rkeys idx (b : bool) :
    let st := {| rs_bits := bits; rs_ta := tas |} in
    let rn' := eot_receiver_new G O H sid' bits' tas' ros' in
    let sp := eot_sender_process G O H sid (snd rn') tbs in
    snd sp = Val skeys -> eot_receiver_process G O H st (fst sp) = Val (bits, rkeys) ->
    (idx < 256)%nat ->
    let c := bit_at bits idx in
    let c' := bit_at bits' idx in
    let ta := nth idx tas 0 in
    let ro' := nth idx ros' gid in
    let rc' := rchoice sid' c' (N.of_nat idx) (nth idx tas' 0) ro' in
    let r0 := if c' then ro' else rc' in
    let r1 := if c' then rc' else ro' in
    let tb_c := if c then snd (nth idx tbs (0, 0)) else fst (nth idx tbs (0, 0)) in
    let tb_b := if b then snd (nth idx tbs (0, 0)) else fst (nth idx tbs (0, 0)) in
    nth idx rkeys [] = (if b then snd (nth idx skeys nomsg) else fst (nth idx skeys nomsg)) ->
    (exists P P', h2_collision G O H (N.of_nat idx) P P') \/
    smul tb_b (add (if b then r1 else r0) (hf (ro_of_bit b) (N.of_nat idx) sid (if b then r0 else r1))) =
      smul (ta * tb_c) gen.
  Proof.
    intros st rn' sp SV RV L c c' ta ro' rc' r0 r1 tb_c tb_b E.
    destruct (exchange_char sid' bits' tas' ros' sid tbs st) as [skeys0 [rkeys0 [SV0 [RV0 K]]]].
    fold rn' sp in SV0, RV0. rewrite SV in SV0. apply val_inj in SV0. subst skeys0.
    rewrite RV in RV0. apply val_inj in RV0. apply (f_equal snd) in RV0. cbn [snd] in RV0. subst rkeys0.
    rewrite <- eot_n_256 in L. destruct (K idx L) as [KS KR]. clear K.
    unfold st in KR. cbn [rs_bits rs_ta] in KR.
    rewrite KS, KR in E. clear KS KR.
    assert (E' : h2 (N.of_nat idx) (smul ta (smul tb_c gen)) =
                 h2 (N.of_nat idx) (skp sid (N.of_nat idx) b r0 r1 (fst (nth idx tbs (0, 0))) (snd (nth idx tbs (0, 0))))).
    { unfold ta, tb_c, c. destruct b; cbn [fst snd] in E; exact E. }
    apply h2_eq_char in E'. destruct E' as [EP|Coll]; [right|left; eauto].
    rewrite skp_unfold in EP. unfold tb_b. rewrite <- EP. rewrite (gl_smul_mul q O laws). reflexivity.
  Qed.
End EndemicTheorems.

(* ------------------------------------------------------------------ closed wrappers (no group laws needed) *)
Lemma endemic_query_injective_lem G (O : group_ops G) : enc33_roundtrip G O ->
  forall ro idx sid pk k ro' idx' sid' pk' k',
  (ro < 65536)%N -> (ro' < 65536)%N -> (idx < 65536)%N -> (idx' < 65536)%N ->
  h_query G O ro idx sid pk k = h_query G O ro' idx' sid' pk' k' ->
  ro = ro' /\ idx = idx' /\ sid = sid' /\ pk = pk' /\ k = k'.
Proof.
  intros RT ro idx sid pk k ro' idx' sid' pk' k' L1 L2 L3 L4 E.
  apply h_query_inj in E; auto. destruct E as [A [B [C [D F]]]].
  repeat split; auto. apply (enc33_inj G O RT). exact D.
Qed.

Lemma endemic_sender_total_lem G (O : group_ops G) H sid msg1 tbs :
  let res := snd (eot_sender_process G O H sid msg1 tbs) in
  (res = Err eot_err_decode <-> msg1_undecodable G O msg1) /\
  (res = Err eot_err_decode \/ exists skeys, res = Val skeys /\ length skeys = 256%nat).
Proof.
  intros res. split; [apply sender_err_iff|]. unfold res. rewrite <- eot_n_256. apply sender_total.
Qed.

Lemma endemic_receiver_total_lem G (O : group_ops G) H st msg2 :
  let res := eot_receiver_process G O H st msg2 in
  (res = Err eot_err_decode <-> msg2_undecodable G O st msg2) /\
  (res = Err eot_err_decode \/ exists rkeys, res = Val (rs_bits st, rkeys) /\ length rkeys = 256%nat).
Proof.
  intros res. split; [apply receiver_err_iff|]. unfold res. rewrite <- eot_n_256. apply receiver_total.
Qed.
