(** C01 on the abstract layer (Model/RvoleCore.v): an honest run is accepted and the shares multiply
    out, for every oracle, session id, input vector, random tape and OT-layer output satisfying the
    OT correlation (the conclusion of C03 / C05).  Only ring laws of Z mod q are used. *)
From SL Require Import Lib.Base Lib.Oracle Gen.Params Model.RvoleCore Proofs.RvoleLemmas.
From Coq Require Import Zdiv Setoid Morphisms.
Local Open Scope Z_scope.

Section Generic.
  Variable H : transcript_oracle.
  Variable q : Z.
  Variables xi lb rho : nat.

  Lemma cell_build f j k : (j < xi)%nat -> (k < rv_w lb rho)%nat ->
    cell (build_mat xi lb rho f) j k = f j k.
  Proof.
    intros Lj Lk. unfold cell, build_mat. rewrite nth_map_seq by assumption. apply nth_map_seq. assumption.
  Qed.

  Lemma theta_pre_ext sid at1 at2 :
    (forall j k, (j < xi)%nat -> (k < rv_w lb rho)%nat -> at1 j k = at2 j k) ->
    theta_pre xi lb rho sid at1 = theta_pre xi lb rho sid at2.
  Proof.
    intros E. unfold theta_pre. f_equal. apply flat_map_seq_ext. intros j Lj. f_equal.
    apply map_seq_ext. intros k Lk. f_equal. apply E; lia.
  Qed.

  Lemma thetas_ext sid at1 at2 :
    (forall j k, (j < xi)%nat -> (k < rv_w lb rho)%nat -> at1 j k = at2 j k) ->
    thetas H q xi lb rho sid at1 = thetas H q xi lb rho sid at2.
  Proof. intros E. unfold thetas. rewrite (theta_pre_ext sid at1 at2 E). reflexivity. Qed.

  Lemma items_of_ext f g :
    (forall j k, (j < xi)%nat -> (k < rho)%nat -> f j k = g j k) -> items_of xi rho f = items_of xi rho g.
  Proof.
    intros E. unfold items_of. apply flat_map_seq_ext. intros j Lj. apply map_seq_ext. intros k Lk. apply E; lia.
  Qed.

  Lemma theta_dot_eqmod th k f g :
    (forall i, (i < lb)%nat -> eqmod q (f i) (g i)) -> eqmod q (theta_dot lb th k f) (theta_dot lb th k g).
  Proof. intros E. unfold theta_dot. apply sum_upto_eqmod. intros i Li. rewrite (E i Li). reflexivity. Qed.

  Lemma theta_dot_add th k f g :
    theta_dot lb th k (fun i => f i + g i) = theta_dot lb th k f + theta_dot lb th k g.
  Proof.
    unfold theta_dot. rewrite <- sum_upto_add. apply sum_upto_ext. intros. ring.
  Qed.

  Lemma theta_dot_scale th k c f :
    theta_dot lb th k (fun i => c * f i) = c * theta_dot lb th k f.
  Proof.
    unfold theta_dot. rewrite <- sum_upto_mul_l. apply sum_upto_ext. intros. ring.
  Qed.

  Lemma gadget_dot_eqmod gv f g :
    (forall j, (j < xi)%nat -> eqmod q (f j) (g j)) -> eqmod q (gadget_dot xi gv f) (gadget_dot xi gv g).
  Proof. intros E. unfold gadget_dot. apply sum_upto_eqmod. intros j Lj. rewrite (E j Lj). reflexivity. Qed.

  Lemma gadget_dot_add gv f g :
    gadget_dot xi gv (fun j => f j + g j) = gadget_dot xi gv f + gadget_dot xi gv g.
  Proof. unfold gadget_dot. rewrite <- sum_upto_add. apply sum_upto_ext. intros. ring. Qed.

  Lemma gadget_dot_scale_r gv c f :
    gadget_dot xi gv (fun j => f j * c) = gadget_dot xi gv f * c.
  Proof. unfold gadget_dot. rewrite <- sum_upto_mul_r. apply sum_upto_ext. intros. ring. Qed.

  Lemma ext_in_lo a eta0 i : (i < lb)%nat -> ext_in lb a eta0 i = nth i a 0.
  Proof. intros L. unfold ext_in. destruct (Nat.ltb_spec i lb); [reflexivity|lia]. Qed.

  Lemma ext_in_hi a eta0 k : ext_in lb a eta0 (lb + k) = nth k eta0 0.
  Proof.
    unfold ext_in. destruct (Nat.ltb_spec (lb + k) lb); [lia|]. f_equal. lia.
  Qed.

  (** acceptance / rejection of the receiver *)
  Lemma recv_accept_iff sid beta vx m :
    (exists d, rvole_recv_core H q xi lb rho sid beta vx m = Val d) <->
    m_mu m = recv_mu H q xi lb rho sid beta vx m.
  Proof.
    unfold rvole_recv_core. destruct (bytes_eqb (m_mu m) (recv_mu H q xi lb rho sid beta vx m)) eqn:E.
    - apply bytes_eqb_eq in E. split; [intros _; exact E|intros _; eexists; reflexivity].
    - split; [intros [d D]; discriminate|]. intros E2. apply bytes_eqb_eq in E2. congruence.
  Qed.

  Lemma recv_reject_iff sid beta vx m :
    rvole_recv_core H q xi lb rho sid beta vx m = Err rv_err_check <->
    m_mu m <> recv_mu H q xi lb rho sid beta vx m.
  Proof.
    unfold rvole_recv_core. destruct (bytes_eqb (m_mu m) (recv_mu H q xi lb rho sid beta vx m)) eqn:E.
    - apply bytes_eqb_eq in E. split; [discriminate|intros N; contradiction].
    - split; [|reflexivity]. intros _ E2. apply bytes_eqb_eq in E2. congruence.
  Qed.

  Lemma recv_val sid beta vx m d :
    rvole_recv_core H q xi lb rho sid beta vx m = Val d -> d = recv_shares H q xi lb sid beta vx m.
  Proof.
    unfold rvole_recv_core. destruct (bytes_eqb _ _); [|discriminate]. intros E; inversion E; reflexivity.
  Qed.
End Generic.

Section Honest.
  Variable H : transcript_oracle.
  Variable q : Z.
  Variables xi lb rho : nat.
  Hypothesis q_range : 0 < q <= 2 ^ 256.

  Variable sid : list N.
  Variables v0 v1 vx : mat.
  Variable beta : nat -> bool.
  Variable a : list Z.
  Variable eta_tape : list (list N).
  (** the OT correlation: conclusion of C03 (OT extension) resp. of C05 + re-hashing (base-OT variant) *)
  Hypothesis ot_ok : forall j k, (j < xi)%nat -> (k < rv_w lb rho)%nat ->
    vx j k = if beta j then v1 j k else v0 j k.

  Let eta0 := map (reduce_be q) eta_tape.
  Let M := build_mat xi lb rho (atilde_cell q lb v0 v1 a eta0).
  Let th := thetas H q xi lb rho sid (cell M).
  Let sent := rvole_send_core H q xi lb rho sid v0 v1 a eta_tape.
  Let msg := fst sent.

  Lemma sent_atilde : m_atilde msg = M.
  Proof. reflexivity. Qed.
  Lemma sent_eta : m_eta msg =
    map (fun k => scalar_bytes q (nth k eta0 0 + theta_dot lb th k (fun i => nth i a 0))) (seq 0 rho).
  Proof. reflexivity. Qed.
  Lemma sent_mu : m_mu msg = H (mu_query sid (items_of xi rho (send_item q lb v0 th))).
  Proof. reflexivity. Qed.
  Lemma sent_c : snd sent = send_shares H q xi lb sid v0.
  Proof. reflexivity. Qed.

  (** the receiver's d_dot / d_hat entries in an honest run: alpha_0 + beta_j * (a | eta0) *)
  Lemma dd_honest j k : (j < xi)%nat -> (k < rv_w lb rho)%nat ->
    eqmod q (dd q beta vx (cell M) j k) (alpha q v0 j k + b2z (beta j) * ext_in lb a eta0 k).
  Proof.
    intros Lj Lk. rewrite dd_spec. unfold M, alpha. rewrite cell_build by assumption.
    unfold atilde_cell. rewrite (reduce_scalar_bytes q q_range).
    rewrite (ot_ok j k Lj Lk). unfold alpha.
    destruct (beta j); cbn [b2z]; zmod.
  Qed.

  Lemma theta_dot_dd_honest j k : (j < xi)%nat ->
    eqmod q (theta_dot lb th k (dd q beta vx (cell M) j))
            (theta_dot lb th k (alpha q v0 j) + b2z (beta j) * theta_dot lb th k (fun i => nth i a 0)).
  Proof.
    intros Lj.
    rewrite (theta_dot_eqmod q lb th k _ (fun i => alpha q v0 j i + b2z (beta j) * nth i a 0)).
    - rewrite theta_dot_add, theta_dot_scale. reflexivity.
    - intros i Li. rewrite (dd_honest j i) by (unfold rv_w; lia). rewrite ext_in_lo by assumption. reflexivity.
  Qed.

  Lemma recv_eta_honest k : (k < rho)%nat ->
    eqmod q (reduce_be q (nth k (m_eta msg) []))
            (nth k eta0 0 + theta_dot lb th k (fun i => nth i a 0)).
  Proof.
    intros Lk. rewrite sent_eta. rewrite nth_map_seq by assumption.
    rewrite (reduce_scalar_bytes q q_range). apply eqmod_mod.
  Qed.

  Lemma item_honest j k : (j < xi)%nat -> (k < rho)%nat ->
    recv_item q lb beta vx (cell M) (fun k => nth k (m_eta msg) []) th j k = send_item q lb v0 th j k.
  Proof.
    intros Lj Lk. unfold recv_item, send_item.
    apply scalar_bytes_eqmod. apply eqmod_elim.
    rewrite (dd_honest j (lb + k)) by (unfold rv_w; lia).
    rewrite (theta_dot_dd_honest j k Lj). rewrite ext_in_hi.
    destruct (beta j); cbn [b2z].
    - rewrite (recv_eta_honest k Lk). apply eqmod_ring. ring.
    - apply eqmod_ring. ring.
  Qed.

  Lemma items_honest :
    items_of xi rho (recv_item q lb beta vx (cell M) (fun k => nth k (m_eta msg) []) th) =
    items_of xi rho (send_item q lb v0 th).
  Proof. apply items_of_ext. apply item_honest. Qed.

  Lemma recv_mu_honest : recv_mu H q xi lb rho sid beta vx msg = m_mu msg.
  Proof.
    unfold recv_mu. rewrite sent_atilde. fold th. rewrite items_honest. symmetry. apply sent_mu.
  Qed.

  Lemma rvole_honest_accepted_lem :
    rvole_recv_core H q xi lb rho sid beta vx msg = Val (recv_shares H q xi lb sid beta vx msg).
  Proof.
    unfold rvole_recv_core. rewrite recv_mu_honest.
    replace (bytes_eqb (m_mu msg) (m_mu msg)) with true; [reflexivity|].
    symmetry. apply bytes_eqb_eq. reflexivity.
  Qed.

  Lemma shares_honest i : (i < lb)%nat ->
    (nth i (snd sent) 0 + nth i (recv_shares H q xi lb sid beta vx msg) 0) mod q =
    (nth i a 0 * rvole_b H q xi sid beta) mod q.
  Proof.
    intros Li. rewrite sent_c. unfold send_shares, recv_shares, rvole_b.
    rewrite !nth_map_seq by assumption. rewrite sent_atilde.
    set (gv := gadget H q xi sid).
    assert (E : eqmod q (gadget_dot xi gv (fun j => dd q beta vx (cell M) j i))
                        (gadget_dot xi gv (fun j => alpha q v0 j i) +
                         gadget_dot xi gv (fun j => b2z (beta j)) * nth i a 0)).
    { rewrite <- gadget_dot_scale_r, <- gadget_dot_add. apply gadget_dot_eqmod. intros j Lj.
      rewrite (dd_honest j i) by (unfold rv_w; lia). rewrite ext_in_lo by assumption. reflexivity. }
    set (G2 := gadget_dot xi gv (fun j => dd q beta vx (cell M) j i)) in *.
    set (G1 := gadget_dot xi gv (fun j => alpha q v0 j i)) in *.
    set (G3 := gadget_dot xi gv (fun j => b2z (beta j))) in *.
    clearbody G1 G2 G3. apply eqmod_elim. zmod_strip. rewrite E. apply eqmod_ring. ring.
  Qed.

  (** C01 on the abstract layer *)
  Lemma rvole_correct_lem :
    exists d, rvole_recv_core H q xi lb rho sid beta vx msg = Val d /\
      forall i, (i < lb)%nat -> (nth i (snd sent) 0 + nth i d 0) mod q = (nth i a 0 * rvole_b H q xi sid beta) mod q.
  Proof.
    eexists. split; [apply rvole_honest_accepted_lem|]. apply shares_honest.
  Qed.
End Honest.

(** closed forms (section variables generalised) *)
Definition ot_correlated (xi w : nat) (beta : nat -> bool) (v0 v1 vx : mat) : Prop :=
  forall j k, (j < xi)%nat -> (k < w)%nat -> vx j k = if beta j then v1 j k else v0 j k.

Lemma rvole_correct_core : forall (H : transcript_oracle) (q : Z) (xi lb rho : nat), 0 < q <= 2 ^ 256 ->
  forall (sid : list N) (v0 v1 vx : mat) (beta : nat -> bool) (a : list Z) (eta_tape : list (list N)), ot_correlated xi (lb + rho) beta v0 v1 vx ->
  let sent := rvole_send_core H q xi lb rho sid v0 v1 a eta_tape in
  exists d, rvole_recv_core H q xi lb rho sid beta vx (fst sent) = Val d /\
    forall i, (i < lb)%nat ->
      (nth i (snd sent) 0 + nth i d 0) mod q = (nth i a 0 * rvole_b H q xi sid beta) mod q.
Proof.
  intros H q xi lb rho Q sid v0 v1 vx beta a eta_tape OT.
  exact (rvole_correct_lem H q xi lb rho Q sid v0 v1 vx beta a eta_tape OT).
Qed.

Lemma rvole_honest_accepted_core : forall (H : transcript_oracle) (q : Z) (xi lb rho : nat), 0 < q <= 2 ^ 256 ->
  forall (sid : list N) (v0 v1 vx : mat) (beta : nat -> bool) (a : list Z) (eta_tape : list (list N)), ot_correlated xi (lb + rho) beta v0 v1 vx ->
  exists d, rvole_recv_core H q xi lb rho sid beta vx (fst (rvole_send_core H q xi lb rho sid v0 v1 a eta_tape)) = Val d.
Proof.
  intros H q xi lb rho Q sid v0 v1 vx beta a eta_tape OT. eexists.
  exact (rvole_honest_accepted_lem H q xi lb rho Q sid v0 v1 vx beta a eta_tape OT).
Qed.

(** base-OT variant: the correlation of the base-OT keys (conclusion of C05) gives the correlation of
    the re-hashed rows, for every oracle. *)
Lemma ot_rows_correlated H xi lb rho sid (beta : nat -> bool) (keys0 keys1 keysx : nat -> list N) :
  (forall j, (j < xi)%nat -> keysx j = if beta j then keys1 j else keys0 j) ->
  ot_correlated xi (lb + rho) beta (cell (ot_rows H xi lb rho sid keys0)) (cell (ot_rows H xi lb rho sid keys1))
                (cell (ot_rows H xi lb rho sid keysx)).
Proof.
  intros K j k Lj Lk. unfold cell, ot_rows. rewrite !nth_map_seq by assumption. rewrite (K j Lj).
  destruct (beta j); reflexivity.
Qed.

Lemma rvole_ot_variant_correct_core : forall (H : transcript_oracle) (q : Z) (xi lb rho : nat), 0 < q <= 2 ^ 256 ->
  forall (sid : list N) (keys0 keys1 keysx : nat -> list N) (beta : nat -> bool) (a : list Z) (eta_tape : list (list N)),
  (forall j, (j < xi)%nat -> keysx j = if beta j then keys1 j else keys0 j) ->
  let sent := rvole_ot_send_core H q xi lb rho sid keys0 keys1 a eta_tape in
  exists d, rvole_ot_recv_core H q xi lb rho sid beta keysx (fst sent) = Val d /\
    forall i, (i < lb)%nat ->
      (nth i (snd sent) 0 + nth i d 0) mod q = (nth i a 0 * rvole_b H q xi sid beta) mod q.
Proof.
  intros H q xi lb rho Q sid keys0 keys1 keysx beta a eta_tape K.
  unfold rvole_ot_send_core, rvole_ot_recv_core.
  apply rvole_correct_core; [exact Q|]. apply ot_rows_correlated. exact K.
Qed.
