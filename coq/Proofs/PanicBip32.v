(** C11 for the BIP32 entry points (Model/Bip32.v): [derive_xpub] followed by [XPubKey::to_string] on a
    peer- or caller-supplied root key, chain code, prefix and path never reaches one of the two [expect]
    panic sites (P_fp33 in get_finger_print, P_ser78 in to_string) -- for EVERY root (the identity
    included), every prefix (custom versions included), paths of every length with arbitrary components
    (hardened ones included), and arbitrary hash oracles of the right output lengths.
    The per-function facts are proved in Proofs/Bip32.v (C12); this file states the blanket call chain. *)
From SL Require Import Lib.Base Lib.Oracle Lib.ZqGroup Model.Bip32 Proofs.Bip32 Proofs.Bip32NonVac.
Local Open Scope N_scope.

Section PanicBip32.
  Variable G : Type.
  Variable O : group_ops G.
  Variable hmac512 : list N -> list N -> list N.
  Variable sha256 : list N -> list N.
  Variable ripemd160 : list N -> list N.
  Variable q : Z.
  Hypothesis elen : enc_len O.

  (** derive_xpub(prefix, root, chain_code, path)?.to_string(encoded) *)
  Definition xpub_string (pfx : prefix) (root : G) (cc : list N) (path : list N) (encoded : bool)
    : outcome (list N) :=
    obind (derive_xpub G O hmac512 sha256 ripemd160 q pfx root cc path)
          (fun x => to_string G O sha256 x encoded).

  Lemma derive_child_total P c i : is_panic (derive_child_pubkey G O hmac512 q P c i) = false.
  Proof.
    unfold derive_child_pubkey. destruct (is_normal i); [|reflexivity].
    destruct (_ >? q)%Z; [reflexivity|]. destruct (g_eqb O _ _); reflexivity.
  Qed.

  Lemma derive_xpub_total pfx root cc path :
    is_panic (derive_xpub G O hmac512 sha256 ripemd160 q pfx root cc path) = false.
  Proof. apply derive_xpub_no_panic_lem. exact elen. Qed.

  Lemma xpub_string_total pfx root cc path b :
    oracle_lens hmac512 ripemd160 -> length cc = 32%nat ->
    is_panic (xpub_string pfx root cc path b) = false.
  Proof.
    intros OL Lc. unfold xpub_string.
    pose proof (derive_xpub_total pfx root cc path) as T.
    destruct (derive_xpub G O hmac512 sha256 ripemd160 q pfx root cc path) as [x|e|s] eqn:D; cbn [obind];
      [|reflexivity|discriminate].
    exact (to_string_no_panic_lem G O hmac512 sha256 ripemd160 q elen pfx root cc path x b OL Lc D).
  Qed.

  (** the two refusals that keep the identity and the depth byte away from the panic sites are errors *)
  Lemma xpub_string_identity_root pfx root cc path b : g_eqb O root (g_id O) = true ->
    xpub_string pfx root cc path b = Err E_PointAtInfinity.
  Proof. intros E. unfold xpub_string, derive_xpub. rewrite E. reflexivity. Qed.

  Lemma xpub_string_too_deep pfx root cc path b : (255 < length path)%nat ->
    exists e, xpub_string pfx root cc path b = Err e.
  Proof.
    intros H. unfold xpub_string, derive_xpub. destruct (g_eqb O root (g_id O)); [eexists; reflexivity|].
    destruct (N.ltb_spec 255 (N.of_nat (length path))) as [_|C]; [eexists; reflexivity|lia].
  Qed.
End PanicBip32.

(** Non-vacuity: the hypotheses hold in Z_11 with a SEC1-shaped encoding and constant oracles; there the chain
    returns a string for a 3-level path, and errors for the identity root *)
Example pb_hyps_satisfiable :
  enc_len (zq33 11 bip32_lt_1_11) /\ oracle_lens ex_hmac ex_rip /\ length ex_cc = 32%nat /\
  (exists s, xpub_string _ (zq33 11 bip32_lt_1_11) ex_hmac ex_sha ex_rip 11 XPub ex_root ex_cc ex_path true = Val s) /\
  xpub_string _ (zq33 11 bip32_lt_1_11) ex_hmac ex_sha ex_rip 11 XPub (g_id (zq33 11 bip32_lt_1_11)) ex_cc ex_path true
    = Err E_PointAtInfinity.
Proof.
  split; [apply zq33_enc_len|]. split; [split; intros; reflexivity|]. split; [reflexivity|].
  split; [eexists; vm_compute; reflexivity|vm_compute; reflexivity].
Qed.
