(** SoftSpoken: bit-level characterisation of [transpose_bool_matrix] and [packed_nabla]. *)
From SL Require Import Lib.Base Lib.Oracle Gen.Params Model.Gf128 Model.SoftSpoken.
From SL Require Import Proofs.ByteLangLin Proofs.Gf128Spec Proofs.SoftSpokenBytes.
Local Open Scope nat_scope.

Lemma nth_map_lt {A B} (f : A -> B) (l : list A) i d d' : i < length l -> nth i (map f l) d' = f (nth i l d).
Proof.
  intros H. rewrite (nth_indep _ d' (f d)) by (rewrite map_length; exact H). apply map_nth.
Qed.

Lemma testbit_shiftl_b2n (c : bool) (s k : N) : N.testbit (N.shiftl (N.b2n c) s) k = c && (k =? s)%N.
Proof.
  destruct c; cbn [N.b2n andb].
  - rewrite N.shiftl_1_l, N.pow2_bits_eqb, N.eqb_sym. reflexivity.
  - rewrite N.shiftl_0_l. apply N.bits_0.
Qed.

(* ------------------------------------------------------------------ pack8 *)
Lemma pack_fold_bits (cbit : N) : forall (grp : list N) (s : nat) (acc k : N),
  N.testbit (fold_left (fun acc kb => let '(row_bit, byte) := kb in
                          N.lor acc (N.shiftl (N.land (N.shiftr byte cbit) 1) row_bit))
                       (combine (map N.of_nat (seq s (length grp))) grp) acc) k
  = N.testbit acc k ||
    ((N.of_nat s <=? k)%N && (k <? N.of_nat (s + length grp))%N && N.testbit (nth (N.to_nat k - s) grp 0%N) cbit).
Proof.
  induction grp as [|g grp IH]; intros s acc k.
  - cbn [length seq map combine fold_left]. rewrite Nat.add_0_r.
    destruct (N.leb_spec (N.of_nat s) k), (N.ltb_spec k (N.of_nat s)); try lia; cbn; rewrite orb_false_r; reflexivity.
  - cbn [length seq map combine fold_left]. rewrite IH. rewrite N.lor_spec, land_shiftr_1, testbit_shiftl_b2n.
    rewrite <- orb_assoc. f_equal.
    destruct (N.eqb_spec k (N.of_nat s)) as [E|NE].
    + subst k. rewrite Nat2N.id, Nat.sub_diag. cbn [nth]. rewrite andb_true_r.
      destruct (N.leb_spec (N.of_nat (S s)) (N.of_nat s)); [lia|].
      destruct (N.leb_spec (N.of_nat s) (N.of_nat s)); [|lia].
      destruct (N.ltb_spec (N.of_nat s) (N.of_nat (s + S (length grp)))); [|lia].
      cbn. rewrite orb_false_r. reflexivity.
    + rewrite andb_false_r. cbn [orb].
      replace (S s + length grp) with (s + S (length grp)) by lia.
      destruct (N.lt_ge_cases k (N.of_nat s)) as [Hlt|Hge].
      * rewrite (proj2 (N.leb_gt (N.of_nat (S s)) k)) by lia.
        rewrite (proj2 (N.leb_gt (N.of_nat s) k)) by lia. reflexivity.
      * rewrite (proj2 (N.leb_le (N.of_nat (S s)) k)) by lia.
        rewrite (proj2 (N.leb_le (N.of_nat s) k)) by lia.
        replace (N.to_nat k - s) with (S (N.to_nat k - S s)) by lia. reflexivity.
Qed.

Lemma ss_pack8_testbit cbit grp k : length grp = 8 ->
  N.testbit (ss_pack8 cbit grp) k = (k <? 8)%N && N.testbit (nth (N.to_nat k) grp 0%N) cbit.
Proof.
  intros L. unfold ss_pack8, Nseq. rewrite <- L at 1. rewrite pack_fold_bits, L.
  rewrite N.bits_0. cbn [orb N.of_nat]. rewrite Nat.sub_0_r.
  destruct (N.leb_spec 0 k); [|lia]. reflexivity.
Qed.

(* ------------------------------------------------------------------ transpose_bool_matrix *)
Lemma transpose_length m : length (transpose_bool_matrix m) = ssLPB * 8.
Proof.
  unfold transpose_bool_matrix. rewrite flat_map_concat_map.
  rewrite (concat_length_const _ 8).
  - rewrite map_length, seq_length. reflexivity.
  - intros l Hl. apply in_map_iff in Hl. destruct Hl as (cb & <- & _). rewrite map_length. apply Nseq_length.
Qed.

Lemma transpose_nth m c : c < ssLPB * 8 ->
  nth c (transpose_bool_matrix m) [] =
  map (ss_pack8 (N.of_nat (c mod 8))) (chunks 8 ssLCB (map (fun row => nth (c / 8) row 0%N) m)).
Proof.
  intros Hc. unfold transpose_bool_matrix.
  rewrite (Nat.div_mod c 8) at 1 by discriminate. rewrite (Nat.mul_comm 8).
  rewrite (flat_map_nth_const _ _ 8); [| intros cb; rewrite map_length; apply Nseq_length | apply Nat.mod_upper_bound; discriminate].
  assert (Hd : c / 8 < ssLPB) by (apply Nat.div_lt_upper_bound; lia).
  rewrite (nth_map_lt _ _ _ 0) by (rewrite seq_length; exact Hd).
  rewrite seq_nth by exact Hd. cbn [Nat.add].
  rewrite (nth_map_lt _ _ _ 0%N) by (rewrite Nseq_length; apply Nat.mod_upper_bound; discriminate).
  rewrite Nseq_nth by (apply Nat.mod_upper_bound; discriminate). reflexivity.
Qed.

Lemma transpose_row_length m c : c < ssLPB * 8 -> length (nth c (transpose_bool_matrix m) []) = ssLCB.
Proof. intros Hc. rewrite transpose_nth by exact Hc. rewrite map_length. apply chunks_length. Qed.

(** bit k of byte rb of output row c  =  bit (c mod 8) of byte c/8 of input row 8*rb+k *)
Theorem transpose_testbit m c rb k : length m = ssLC -> c < ssLPB * 8 -> rb < ssLCB ->
  N.testbit (nth rb (nth c (transpose_bool_matrix m) []) 0%N) k =
  (k <? 8)%N && N.testbit (nth (c / 8) (nth (8 * rb + N.to_nat k) m []) 0%N) (N.of_nat (c mod 8)).
Proof.
  intros Lm Hc Hrb. rewrite transpose_nth by exact Hc.
  rewrite (nth_map_lt _ _ _ []) by (rewrite chunks_length; exact Hrb).
  rewrite chunks_nth by exact Hrb.
  rewrite ssLCB_val in Hrb. rewrite ssLC_val in Lm.
  rewrite ss_pack8_testbit.
  2:{ rewrite firstn_length, skipn_length, map_length, Lm. lia. }
  destruct (N.ltb_spec k 8) as [Hk|Hk]; cbn [andb]; [|reflexivity].
  rewrite nth_firstn_skipn by lia.
  rewrite (nth_map_lt _ _ _ []) by lia.
  rewrite (Nat.mul_comm rb 8). reflexivity.
Qed.

Lemma transpose_row_bytes m c : length m = ssLC -> c < ssLPB * 8 -> Forall byteP (nth c (transpose_bool_matrix m) []).
Proof.
  intros Lm Hc. apply Forall_forall. intros x Hx.
  destruct (In_nth _ _ 0%N Hx) as (rb & Hrb & <-). rewrite transpose_row_length in Hrb by exact Hc.
  unfold byteP. change 256%N with (2 ^ 8)%N.
  destruct (N.eq_dec (nth rb (nth c (transpose_bool_matrix m) []) 0%N) 0) as [->|NZ]; [reflexivity|].
  apply N.log2_lt_pow2; [lia|].
  destruct (N.lt_ge_cases (N.log2 (nth rb (nth c (transpose_bool_matrix m) []) 0%N)) 8) as [|Hge]; [assumption|].
  exfalso. pose proof (N.bit_log2 _ NZ) as Hb.
  rewrite transpose_testbit in Hb by assumption.
  destruct (N.ltb_spec (N.log2 (nth rb (nth c (transpose_bool_matrix m) []) 0%N)) 8); [lia|discriminate].
Qed.

(** in terms of [bitat]: the transposed matrix has the transposed bits *)
Theorem transpose_bitat m c r : length m = ssLC -> c < ssLPB * 8 -> r < ssLC ->
  bitat (nth c (transpose_bool_matrix m) []) r = bitat (nth r m []) c.
Proof.
  intros Lm Hc Hr. unfold bitat.
  rewrite transpose_testbit; try assumption.
  2:{ rewrite ssLC_val in Hr. rewrite ssLCB_val. apply Nat.div_lt_upper_bound; lia. }
  assert (Hm : r mod 8 < 8) by (apply Nat.mod_upper_bound; discriminate).
  destruct (N.ltb_spec (N.of_nat (r mod 8)) 8); [|lia]. cbn [andb].
  rewrite Nat2N.id. rewrite <- Nat.div_mod by discriminate. reflexivity.
Qed.

(* ------------------------------------------------------------------ packed_nabla *)
Lemma ss_upd_length l i x : length (ss_upd l i x) = length l.
Proof. revert i; induction l as [|y r IH]; intros [|i]; cbn; try reflexivity; rewrite IH; reflexivity. Qed.

Lemma ss_upd_nth l i x j : i < length l -> nth j (ss_upd l i x) 0%N = if j =? i then x else nth j l 0%N.
Proof.
  revert i j; induction l as [|y r IH]; intros i j Hi; [cbn in Hi; lia|].
  destruct i as [|i], j as [|j]; cbn [ss_upd nth Nat.eqb]; try reflexivity.
  apply IH. cbn in Hi. lia.
Qed.

(** [acc] is a packed bit string of 32 bytes whose bit p is [f p] *)
Definition NB (f : nat -> bool) (acc : list N) : Prop :=
  length acc = 32 /\
  forall rb k, rb < 32 -> N.testbit (nth rb acc 0%N) k = (k <? 8)%N && f (8 * rb + N.to_nat k).

Lemma NB_ext f g acc : (forall p, p < 256 -> f p = g p) -> NB f acc -> NB g acc.
Proof.
  intros E [L H]. split; [exact L|]. intros rb k Hrb. rewrite H by exact Hrb.
  destruct (N.ltb_spec k 8); cbn [andb]; [|reflexivity]. apply E. lia.
Qed.

(** one iteration: packed_nabla[pos/8] ^= bit << (pos % 8) *)
Definition nabla_step (acc : list N) (pos : nat) (bit : N) : list N :=
  ss_upd acc (pos / 8) (N.lxor (nth (pos / 8) acc 0%N) (N.shiftl bit (N.of_nat (pos mod 8)))).

Lemma nabla_step_NB f acc pos (c : bool) : NB f acc -> pos < 256 -> f pos = false ->
  NB (fun p => if p =? pos then c else f p) (nabla_step acc pos (N.b2n c)).
Proof.
  intros [L H] Hpos Hf. unfold nabla_step.
  assert (Hd : pos / 8 < 32) by (apply Nat.div_lt_upper_bound; lia).
  assert (Hm : pos mod 8 < 8) by (apply Nat.mod_upper_bound; discriminate).
  pose proof (Nat.div_mod pos 8 ltac:(discriminate)) as Hdm.
  split; [rewrite ss_upd_length; exact L|].
  intros rb k Hrb. rewrite ss_upd_nth by (rewrite L; exact Hd).
  destruct (Nat.eqb_spec rb (pos / 8)) as [E|NE].
  - rewrite N.lxor_spec, testbit_shiftl_b2n, H by exact Hd. subst rb.
    destruct (N.ltb_spec k 8) as [Hk|Hk]; cbn [andb].
    + destruct (N.eqb_spec k (N.of_nat (pos mod 8))) as [Ek|NEk].
      * subst k. rewrite Nat2N.id, <- Hdm, Nat.eqb_refl, Hf, andb_true_r. apply xorb_false_l.
      * rewrite andb_false_r, xorb_false_r.
        destruct (Nat.eqb_spec (8 * (pos / 8) + N.to_nat k) pos) as [E2|]; [|reflexivity].
        exfalso. apply NEk. lia.
    + destruct (N.eqb_spec k (N.of_nat (pos mod 8))) as [Ek|NEk]; [lia|]. rewrite andb_false_r. reflexivity.
  - rewrite H by exact Hrb. destruct (N.ltb_spec k 8) as [Hk|Hk]; cbn [andb]; [|reflexivity].
    destruct (Nat.eqb_spec (8 * rb + N.to_nat k) pos) as [E2|]; [|reflexivity].
    exfalso. apply NE. subst pos. rewrite Nat.mul_comm, Nat.div_add_l by discriminate.
    rewrite Nat.div_small by lia. lia.
Qed.

(** bit p of the packed nabla: bit (p mod 4) of delta_(p / 4) *)
Definition nabla_bit (deltas : list N) (p : nat) : bool :=
  N.testbit (nth (p / 4) deltas 0%N) (N.of_nat (p mod 4)).

Definition nabla_upto (deltas : list N) (n b : nat) (p : nat) : bool := (p <? 4 * n + b) && nabla_bit deltas p.

Definition nabla_inner (i : nat) (delta : N) (acc : list N) : list N :=
  fold_left (fun acc bit_index =>
               let delta_i := N.land (N.shiftr delta (N.of_nat bit_index)) 1 in
               let byte_index := ((i * ssK + bit_index) / 8)%nat in
               let bit_index2 := ((i * ssK + bit_index) mod 8)%nat in
               ss_upd acc byte_index (N.lxor (nth byte_index acc 0%N) (N.shiftl delta_i (N.of_nat bit_index2))))
            (seq 0 ssK) acc.

Lemma fold_left_ext_all {A B} (f g : A -> B -> A) (l : list B) :
  (forall a x, f a x = g a x) -> forall a, fold_left f l a = fold_left g l a.
Proof. intros H. induction l as [|x r IH]; intros a; [reflexivity|]. cbn. rewrite H. apply IH. Qed.

Lemma packed_nabla_fold deltas :
  packed_nabla deltas =
  fold_left (fun acc id => nabla_inner (fst id) (snd id) acc) (combine (seq 0 ssTrees) deltas) (zbytes ssLCB).
Proof.
  unfold packed_nabla. apply fold_left_ext_all. intros acc [i d]. reflexivity.
Qed.

Lemma div_mod_4 n b : b < 4 -> (4 * n + b) / 4 = n /\ (4 * n + b) mod 4 = b.
Proof.
  intros Hb. split; symmetry.
  - apply (Nat.div_unique _ 4 n b Hb). reflexivity.
  - apply (Nat.mod_unique _ 4 n b Hb). reflexivity.
Qed.

Lemma nabla_upto_step deltas n b p : b < 4 ->
  (if p =? 4 * n + b then N.testbit (nth n deltas 0%N) (N.of_nat b) else nabla_upto deltas n b p)
  = nabla_upto deltas n (S b) p.
Proof.
  intros Hb. unfold nabla_upto, nabla_bit.
  destruct (Nat.eqb_spec p (4 * n + b)) as [E|NE].
  - subst p. destruct (Nat.ltb_spec (4 * n + b) (4 * n + S b)); [|lia]. cbn [andb].
    destruct (div_mod_4 n b Hb) as [-> ->]. reflexivity.
  - destruct (Nat.ltb_spec p (4 * n + b)), (Nat.ltb_spec p (4 * n + S b)); try lia; reflexivity.
Qed.

Lemma nabla_inner_NB deltas n acc : n < 64 -> NB (nabla_upto deltas n 0) acc ->
  NB (nabla_upto deltas (S n) 0) (nabla_inner n (nth n deltas 0%N) acc).
Proof.
  intros Hn H0. unfold nabla_inner. rewrite ssK_val. cbn [seq fold_left].
  set (d := nth n deltas 0%N).
  assert (step : forall b acc', b < 4 -> NB (nabla_upto deltas n b) acc' ->
     NB (nabla_upto deltas n (S b))
        (ss_upd acc' ((n * 4 + b) / 8)
           (N.lxor (nth ((n * 4 + b) / 8) acc' 0%N)
              (N.shiftl (N.land (N.shiftr d (N.of_nat b)) 1) (N.of_nat ((n * 4 + b) mod 8)))))).
  { intros b acc' Hb HN. rewrite land_shiftr_1.
    apply (NB_ext _ _ _ (fun p _ => nabla_upto_step deltas n b p Hb)).
    replace (n * 4 + b) with (4 * n + b) by lia.
    apply (nabla_step_NB _ acc' (4 * n + b) (N.testbit d (N.of_nat b))); [exact HN|lia|].
    unfold nabla_upto. rewrite Nat.ltb_irrefl. reflexivity. }
  apply (NB_ext (nabla_upto deltas n 4)).
  { intros p _. unfold nabla_upto. f_equal. f_equal. lia. }
  apply (step 3); [lia|]. apply (step 2); [lia|]. apply (step 1); [lia|]. apply (step 0); [lia|]. exact H0.
Qed.

Lemma packed_nabla_outer deltas : forall ds s acc,
  (forall k, k < length ds -> nth k ds 0%N = nth (s + k) deltas 0%N) -> s + length ds <= 64 ->
  NB (nabla_upto deltas s 0) acc ->
  NB (nabla_upto deltas (s + length ds) 0)
     (fold_left (fun acc id => nabla_inner (fst id) (snd id) acc) (combine (seq s (length ds)) ds) acc).
Proof.
  induction ds as [|d ds IH]; intros s acc Hs Hle HN.
  - cbn. rewrite Nat.add_0_r. exact HN.
  - cbn [length seq combine fold_left fst snd].
    replace (s + S (length ds)) with (S s + length ds) by lia.
    apply IH.
    + intros k Hk. replace (S s + k) with (s + S k) by lia. rewrite <- Hs by (cbn; lia). reflexivity.
    + cbn in Hle. lia.
    + pose proof (Hs 0 ltac:(cbn; lia)) as H0. cbn [nth] in H0. rewrite Nat.add_0_r in H0. rewrite H0.
      apply nabla_inner_NB; [cbn in Hle; lia|exact HN].
Qed.

Lemma zbytes_nth n i : nth i (zbytes n) 0%N = 0%N.
Proof. revert i; induction n as [|n IH]; intros [|i]; cbn; try reflexivity. apply IH. Qed.

(** [packed_nabla] is the packed bit string of the nabla bits *)
Theorem packed_nabla_NB deltas : length deltas = ssTrees -> NB (nabla_bit deltas) (packed_nabla deltas).
Proof.
  intros L. rewrite packed_nabla_fold. rewrite <- L. rewrite ssTrees_val in L.
  apply (NB_ext (nabla_upto deltas (0 + length deltas) 0)).
  { intros p Hp. unfold nabla_upto. rewrite L. destruct (Nat.ltb_spec p (4 * (0 + 64) + 0)); [reflexivity|lia]. }
  apply packed_nabla_outer.
  - intros k _. reflexivity.
  - lia.
  - split; [rewrite ssLCB_val; apply zbytes_length|].
    intros rb k _. rewrite zbytes_nth, N.bits_0. unfold nabla_upto. cbn. rewrite andb_false_r. reflexivity.
Qed.

Lemma packed_nabla_length deltas : length deltas = ssTrees -> length (packed_nabla deltas) = ssLCB.
Proof. intros L. rewrite ssLCB_val. apply (packed_nabla_NB deltas L). Qed.

Lemma NB_bitat f acc p : NB f acc -> p < 256 -> bitat acc p = f p.
Proof.
  intros [L H] Hp. unfold bitat. rewrite H by (apply Nat.div_lt_upper_bound; lia).
  assert (Hm : p mod 8 < 8) by (apply Nat.mod_upper_bound; discriminate).
  destruct (N.ltb_spec (N.of_nat (p mod 8)) 8); [|lia]. cbn [andb].
  rewrite Nat2N.id, <- Nat.div_mod by discriminate. reflexivity.
Qed.

Lemma NB_bytes f acc : NB f acc -> Forall byteP acc.
Proof.
  intros [L H]. apply Forall_forall. intros x Hx.
  destruct (In_nth _ _ 0%N Hx) as (rb & Hrb & <-). rewrite L in Hrb.
  unfold byteP. change 256%N with (2 ^ 8)%N.
  destruct (N.eq_dec (nth rb acc 0%N) 0) as [->|NZ]; [reflexivity|].
  apply N.log2_lt_pow2; [lia|].
  destruct (N.lt_ge_cases (N.log2 (nth rb acc 0%N)) 8) as [|Hge]; [assumption|].
  exfalso. pose proof (N.bit_log2 _ NZ) as Hb. rewrite H in Hb by exact Hrb.
  destruct (N.ltb_spec (N.log2 (nth rb acc 0%N)) 8); [lia|discriminate].
Qed.

Theorem packed_nabla_bitat deltas p : length deltas = ssTrees -> p < ssLC ->
  bitat (packed_nabla deltas) p = nabla_bit deltas p.
Proof. intros L Hp. rewrite ssLC_val in Hp. apply (NB_bitat _ _ _ (packed_nabla_NB deltas L) Hp). Qed.
