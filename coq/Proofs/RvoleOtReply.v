(** C02, base-OT variant: corruption confined to the embedded base-OT replies (ot_msg2_a / ot_msg2_b).

    Full statement planned in DESIGN.md ([rvole_ot_reply_tamper]):
      an undecodable point on a side the receiver reads            => Err (unconditional);
      a change confined to sides the receiver does not read        => same verdict, same shares;
      a decodable DIFFERENT point on a side the receiver reads (instance j) changes key j, hence row j of
      v_x, and then acceptance implies an H2 collision / a mu-hash collision.
    Proved here: the first two sentences ([rvole_ot_reply_tamper_partial]).  NOT proved: the third
    sentence (it needs the key-inequality lemmas of C05 composed with a per-row version of
    [tamper_atilde_lem]); it is covered by fault enumeration against the real receiver and by the model
    correspondence in checks/c02.py (kinds ot-point-read-side, bit-ot-reply, cross-*-ot-replies). *)
From SL Require Import Lib.Base Lib.Oracle Gen.Params Model.Endemic Model.RvoleCore Model.Rvole Proofs.Endemic.
Local Open Scope Z_scope.

Section OtReply.
  Variable G : Type.
  Variable O : group_ops G.
  Variable H : transcript_oracle.
  Variable q : Z.

  (** the side of instance idx that the receiver reads *)
  Definition read_side (st : recv_state) (msg2 : list (list N * list N)) (idx : nat) : list N :=
    chosen_side st msg2 idx.

  Lemma eot_recv_read_sides_only st m2 m2' :
    (forall idx, (idx < eot_n)%nat -> read_side st m2' idx = read_side st m2 idx) ->
    eot_receiver_process G O H st m2' = eot_receiver_process G O H st m2.
  Proof.
    intros E. unfold eot_receiver_process.
    assert (R : recv_all G O H st m2' = recv_all G O H st m2).
    { unfold recv_all. apply map_ext_in. intros idx I. apply in_seq in I.
      unfold recv_process_instance. pose proof (E idx ltac:(lia)) as E1.
      unfold read_side, chosen_side in E1. rewrite E1. reflexivity. }
    rewrite R. reflexivity.
  Qed.

  Lemma rvole_ot_unread_side_lem (st : rvo_state) m2a m2b m2a' m2b' (m : rmsg) :
    (forall idx, (idx < eot_n)%nat -> read_side (ro_a st) m2a' idx = read_side (ro_a st) m2a idx) ->
    (forall idx, (idx < eot_n)%nat -> read_side (ro_b st) m2b' idx = read_side (ro_b st) m2b idx) ->
    rvole_ot_recv_process H q G O st m2a' m2b' m = rvole_ot_recv_process H q G O st m2a m2b m.
  Proof.
    intros EA EB. unfold rvole_ot_recv_process.
    rewrite (eot_recv_read_sides_only (ro_a st) m2a m2a' EA).
    rewrite (eot_recv_read_sides_only (ro_b st) m2b m2b' EB). reflexivity.
  Qed.

  Lemma rvole_ot_undecodable_lem (st : rvo_state) m2a m2b (m : rmsg) :
    (exists idx, (idx < eot_n)%nat /\ g_dec O (read_side (ro_a st) m2a idx) = None) \/
    ((forall idx, (idx < eot_n)%nat -> g_dec O (read_side (ro_a st) m2a idx) <> None) /\
     exists idx, (idx < eot_n)%nat /\ g_dec O (read_side (ro_b st) m2b idx) = None) ->
    rvole_ot_recv_process H q G O st m2a m2b m = Err rv_err_decode.
  Proof.
    intros [UA|[DA UB]]; unfold rvole_ot_recv_process.
    - assert (E : eot_receiver_process G O H (ro_a st) m2a = Err eot_err_decode)
        by (apply receiver_err_iff; exact UA).
      rewrite E. reflexivity.
    - assert (E : eot_receiver_process G O H (ro_b st) m2b = Err eot_err_decode)
        by (apply receiver_err_iff; exact UB).
      destruct (eot_receiver_process G O H (ro_a st) m2a) as [[ba ka]|e|p] eqn:EA.
      + rewrite E. reflexivity.
      + reflexivity.
      + exfalso. unfold eot_receiver_process in EA.
        destruct (existsb snd (recv_all G O H (ro_a st) m2a)); discriminate.
  Qed.
End OtReply.

Lemma rvole_ot_reply_tamper_partial_lem : forall G (O : group_ops G) (H : transcript_oracle) (q : Z)
  (st : rvo_state) m2a m2b (m : rmsg),
  (* (1) a change confined to the sides the receiver does not read: same verdict, same shares *)
  (forall m2a' m2b',
     (forall idx, (idx < eot_n)%nat -> read_side (ro_a st) m2a' idx = read_side (ro_a st) m2a idx) ->
     (forall idx, (idx < eot_n)%nat -> read_side (ro_b st) m2b' idx = read_side (ro_b st) m2b idx) ->
     rvole_ot_recv_process H q G O st m2a' m2b' m = rvole_ot_recv_process H q G O st m2a m2b m) /\
  (* (2) an undecodable point on a side the receiver reads: Err("Decode error"), whatever the rest is *)
  ((exists idx, (idx < eot_n)%nat /\ g_dec O (read_side (ro_a st) m2a idx) = None) \/
   ((forall idx, (idx < eot_n)%nat -> g_dec O (read_side (ro_a st) m2a idx) <> None) /\
    exists idx, (idx < eot_n)%nat /\ g_dec O (read_side (ro_b st) m2b idx) = None) ->
   rvole_ot_recv_process H q G O st m2a m2b m = Err rv_err_decode).
Proof.
  intros G O H q st m2a m2b m. split.
  - intros m2a' m2b'. apply rvole_ot_unread_side_lem.
  - apply rvole_ot_undecodable_lem.
Qed.
