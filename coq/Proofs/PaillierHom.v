(** Property-level lemmas of C07/C08 in the form quoted by Props/C07.v and Props/C08.v:
    everything is stated about [from_pq w p q] for arbitrary widths and keys with [widths_ok], [key_ok]. *)
From Coq Require Import ZArith Znumtheory Zpow_facts Lia List.
From SL Require Import Lib.Base Model.Paillier Proofs.PaillierNT Proofs.PaillierWidth Proofs.PaillierDec.
Local Open Scope Z_scope.

Opaque modinv powmod Z.pow.

Section Key.
  Variable w : widths.
  Variables p q : Z.
  Hypothesis Hw : widths_ok w.
  Hypothesis Hk : key_ok w p q.

  Let n := p * q.
  Let sk := from_pq w p q.
  Let pk := sk_pk sk.

  Ltac facts :=
    destruct (key_basic w p q Hw Hk) as (Pp & Pq & Hne & Hp3 & Hq3 & Hp & Hq & Hn & Hpp & Hqq & Hnn & HP & HM & HC & Hphi & Hrel & Hg1 & Hg2);
    pose proof (sk_pk_is_from_n w p q Hw Hk) as Epk; fold n in Hn, Hnn, Hphi, Hg1, Hg2, Epk; fold sk in Epk; fold pk in Epk;
    assert (Hn0 : 0 < n) by (subst n; nia).

  Lemma enc_closed m r : 0 <= m < n -> encrypt w pk m r = ((1 + m * n) * r ^ n) mod (n * n).
  Proof. intros Hm. facts. rewrite Epk. apply encrypt_closed; try lia. Qed.

  Lemma enc_range m r : 0 <= m < n -> 0 <= encrypt w pk m r < n * n.
  Proof. intros Hm. facts. rewrite enc_closed by assumption. apply Z.mod_pos_bound. nia. Qed.

  Lemma enc_form m r : 0 <= m < n -> cong (n * n) (encrypt w pk m r) ((1 + m * n) * r ^ n).
  Proof. intros Hm. facts. rewrite enc_closed by assumption. apply cong_mod. nia. Qed.

  (** a ciphertext of the form (1+mN) r^N with r a unit is a unit *)
  Lemma form_coprime c m r : rel_prime r n -> cong (n * n) c ((1 + m * n) * r ^ n) -> rel_prime c n.
  Proof.
    intros Hrn Hform. facts.
    assert (Hcr : cong n c (r ^ n)).
    { apply cong_trans with ((1 + m * n) * r ^ n).
      - apply cong_dvd with (n * n); [lia|nia|exists n; ring|exact Hform].
      - apply cong_div; [lia|]. exists (m * r ^ n). ring. }
    apply cong_div in Hcr; [|lia]. destruct Hcr as [z Hz].
    assert (Hrn' : rel_prime (r ^ n) n).
    { apply rel_prime_sym. apply rel_prime_Zpower_r; [lia|apply rel_prime_sym; exact Hrn]. }
    apply Zgcd_1_rel_prime. apply Zgcd_1_rel_prime in Hrn'.
    replace c with (r ^ n + z * n) by lia. rewrite Z.gcd_comm, Z.gcd_add_mult_diag_r, Z.gcd_comm. exact Hrn'.
  Qed.

  Lemma dec_form c m r : 0 <= c -> 0 <= r -> Z.gcd r n = 1 -> 0 <= m < n ->
    cong (n * n) c ((1 + m * n) * r ^ n) ->
    decrypt w sk c = m /\ decrypt_fast w sk c = m.
  Proof.
    intros Hc Hr Hg Hm Hform. apply Zgcd_1_rel_prime in Hg.
    assert (D : decrypt w sk c = m).
    { unfold sk, n in *. rewrite (decrypt_form w p q Hw Hk c m r) by assumption. apply Z.mod_small; assumption. }
    split; [exact D|]. unfold sk, n in *. rewrite paths_agree; try assumption.
    eapply form_coprime; eassumption.
  Qed.

  Lemma dec_form_mod c m r : 0 <= c -> 0 <= r -> Z.gcd r n = 1 ->
    cong (n * n) c ((1 + m * n) * r ^ n) ->
    decrypt w sk c = m mod n /\ decrypt_fast w sk c = m mod n.
  Proof.
    intros Hc Hr Hg Hform. facts.
    apply dec_form with r; try assumption; [apply Z.mod_pos_bound; lia|].
    eapply cong_trans; [exact Hform|]. apply cong_mul; [nia| |apply cong_refl].
    apply cong_div; [nia|]. exists (m / n). pose proof (Z.div_mod m n ltac:(lia)). nia.
  Qed.

  Lemma dec_enc_both m r : 0 <= m < n -> 0 <= r -> Z.gcd r n = 1 ->
    decrypt w sk (encrypt w pk m r) = m /\ decrypt_fast w sk (encrypt w pk m r) = m.
  Proof.
    intros Hm Hr Hg. apply dec_form with r; try assumption; [apply enc_range; assumption|apply enc_form; assumption].
  Qed.

  Lemma paths c : 0 <= c -> Z.gcd c n = 1 -> decrypt w sk c = decrypt_fast w sk c.
  Proof.
    intros Hc Hg. apply Zgcd_1_rel_prime in Hg. symmetry. unfold sk, n in *. apply paths_agree; assumption.
  Qed.

  Lemma nroot_gcd r : 0 <= r < n -> Z.gcd r n = 1 -> extract_n_root w sk (r ^ n mod n) = r.
  Proof. intros Hr Hg. apply Zgcd_1_rel_prime in Hg. unfold sk, n in *. apply nroot; assumption. Qed.

  (** C08 *)
  Lemma add_closed_k c1 c2 : add w pk c1 c2 = (c1 * c2) mod (n * n).
  Proof. facts. rewrite Epk. apply add_closed; lia. Qed.

  Lemma mul_closed_k c k : 0 <= k < 2 ^ wM w -> mul w pk c k = (c ^ k) mod (n * n).
  Proof. intros Hkk. facts. rewrite Epk. apply mul_closed; lia. Qed.

  Lemma mul_vartime_eq c k : 0 <= k < 2 ^ wM w -> mul_vartime w pk c k = mul w pk c k.
  Proof. intros Hkk. facts. rewrite Epk. apply mul_vartime_eq_mul_n; lia. Qed.

  Lemma add_hom_both m1 r1 m2 r2 :
    0 <= m1 < n -> 0 <= m2 < n -> 0 <= r1 -> 0 <= r2 -> Z.gcd r1 n = 1 -> Z.gcd r2 n = 1 ->
    let c := add w pk (encrypt w pk m1 r1) (encrypt w pk m2 r2) in
    decrypt w sk c = (m1 + m2) mod n /\ decrypt_fast w sk c = (m1 + m2) mod n.
  Proof.
    intros Hm1 Hm2 Hr1 Hr2 Hg1' Hg2'. cbv zeta. facts.
    apply dec_form_mod with (r1 * r2).
    - rewrite add_closed_k. apply Z.mod_pos_bound; nia.
    - nia.
    - apply Zgcd_1_rel_prime. apply rel_prime_sym. apply rel_prime_mult; apply rel_prime_sym; apply Zgcd_1_rel_prime; assumption.
    - rewrite add_closed_k. eapply cong_trans; [apply cong_mod; nia|].
      eapply cong_trans; [apply cong_mul; [nia|apply enc_form; assumption|apply enc_form; assumption]|].
      rewrite Z.pow_mul_l.
      replace ((1 + m1 * n) * r1 ^ n * ((1 + m2 * n) * r2 ^ n)) with (((1 + m1 * n) * (1 + m2 * n)) * (r1 ^ n * r2 ^ n)) by ring.
      apply cong_mul; [nia| |apply cong_refl].
      apply cong_div; [nia|]. exists (m1 * m2). ring.
  Qed.

  Lemma mul_hom_both m r k :
    0 <= m < n -> 0 <= k < 2 ^ wM w -> 0 <= r -> Z.gcd r n = 1 ->
    let c := mul w pk (encrypt w pk m r) k in
    decrypt w sk c = (k * m) mod n /\ decrypt_fast w sk c = (k * m) mod n.
  Proof.
    intros Hm Hkk Hr Hg. cbv zeta. facts.
    apply dec_form_mod with (r ^ k).
    - rewrite mul_closed_k by assumption. apply Z.mod_pos_bound; nia.
    - apply Z.pow_nonneg; lia.
    - apply Zgcd_1_rel_prime. apply rel_prime_sym. apply rel_prime_Zpower_r; [lia|]. apply rel_prime_sym, Zgcd_1_rel_prime; assumption.
    - rewrite mul_closed_k by assumption. eapply cong_trans; [apply cong_mod; nia|].
      eapply cong_trans; [apply cong_pow; [nia|apply enc_form; assumption]|].
      rewrite Z.pow_mul_l. rewrite <- !Z.pow_mul_r by lia. rewrite (Z.mul_comm n k).
      apply cong_mul; [nia| |apply cong_refl].
      eapply cong_trans; [apply one_plus_pow; lia|]. replace (k * m * n) with (k * m * n) by ring. apply cong_refl.
  Qed.
End Key.

(** * The statements quoted by Props/C07.v and Props/C08.v *)
Section Statements.
  Variable w : widths.
  Variables p q : Z.
  Hypothesis Hw : widths_ok w.
  Hypothesis Hk : key_ok w p q.
  Let n := p * q.
  Let sk := from_pq w p q.
  Let pk := sk_pk sk.

  Lemma S_dec_enc m r : 0 <= m < n -> 0 <= r -> Z.gcd r n = 1 -> decrypt w sk (encrypt w pk m r) = m.
  Proof. intros; apply (dec_enc_both w p q Hw Hk); assumption. Qed.

  Lemma S_dec_fast_enc m r : 0 <= m < n -> 0 <= r -> Z.gcd r n = 1 -> decrypt_fast w sk (encrypt w pk m r) = m.
  Proof. intros; apply (dec_enc_both w p q Hw Hk); assumption. Qed.

  Lemma S_paths c : 0 <= c < 2 ^ wC w -> Z.gcd c n = 1 -> decrypt w sk c = decrypt_fast w sk c.
  Proof. intros [Hc _] Hg; apply (paths w p q Hw Hk); assumption. Qed.

  Lemma S_add_hom m1 r1 m2 r2 :
    0 <= m1 < n -> 0 <= m2 < n -> 0 <= r1 -> 0 <= r2 -> Z.gcd r1 n = 1 -> Z.gcd r2 n = 1 ->
    decrypt w sk (add w pk (encrypt w pk m1 r1) (encrypt w pk m2 r2)) = (m1 + m2) mod n.
  Proof. intros; apply (add_hom_both w p q Hw Hk); assumption. Qed.

  Lemma S_add_hom_fast m1 r1 m2 r2 :
    0 <= m1 < n -> 0 <= m2 < n -> 0 <= r1 -> 0 <= r2 -> Z.gcd r1 n = 1 -> Z.gcd r2 n = 1 ->
    decrypt_fast w sk (add w pk (encrypt w pk m1 r1) (encrypt w pk m2 r2)) = (m1 + m2) mod n.
  Proof. intros; apply (add_hom_both w p q Hw Hk); assumption. Qed.

  Lemma S_mul_hom m r k : 0 <= m < n -> 0 <= k < n -> 0 <= r -> Z.gcd r n = 1 ->
    decrypt w sk (mul w pk (encrypt w pk m r) k) = (k * m) mod n.
  Proof.
    intros Hm Hkk Hr Hg. destruct (key_basic w p q Hw Hk) as (_ & _ & _ & _ & _ & _ & _ & Hn & _).
    apply (mul_hom_both w p q Hw Hk); try assumption. fold n in Hn. lia.
  Qed.

  Lemma S_mul_hom_fast m r k : 0 <= m < n -> 0 <= k < n -> 0 <= r -> Z.gcd r n = 1 ->
    decrypt_fast w sk (mul w pk (encrypt w pk m r) k) = (k * m) mod n.
  Proof.
    intros Hm Hkk Hr Hg. destruct (key_basic w p q Hw Hk) as (_ & _ & _ & _ & _ & _ & _ & Hn & _).
    apply (mul_hom_both w p q Hw Hk); try assumption. fold n in Hn. lia.
  Qed.

  Lemma S_mul_vartime_hom m r k : 0 <= m < n -> 0 <= k < n -> 0 <= r -> Z.gcd r n = 1 ->
    decrypt w sk (mul_vartime w pk (encrypt w pk m r) k) = (k * m) mod n.
  Proof.
    intros Hm Hkk Hr Hg. destruct (key_basic w p q Hw Hk) as (_ & _ & _ & _ & _ & _ & _ & Hn & _). fold n in Hn.
    unfold pk, sk. rewrite (mul_vartime_eq w p q Hw Hk) by lia. apply S_mul_hom; assumption.
  Qed.

  Lemma S_message_admits bytes m :
    message w pk bytes = Some m <-> le_value bytes < n /\ m = le_value bytes.
  Proof.
    destruct (key_basic w p q Hw Hk) as (_ & _ & _ & Hp3 & Hq3 & _ & _ & Hn & _ & _ & _ & HP & HM & _).
    destruct Hw as (_ & H8 & EM & _).
    unfold pk, sk. rewrite (sk_pk_is_from_n w p q Hw Hk). apply message_admits_iff_n.
    - lia.
    - rewrite EM. rewrite Z.mul_comm, Z.mul_mod, H8 by lia. reflexivity.
    - fold n in Hn. unfold n in *. nia.
  Qed.

  (** a key restored from its serialised (minimal) form IS the key: Deserialize = validation + from_pq/from_n *)
  Lemma S_restore_sk : deser_sk w (fst (to_minimal sk)) (snd (to_minimal sk)) = Val sk.
  Proof. apply deser_sk_valid; assumption. Qed.

  Lemma S_restore_pk : deser_pk w (pk_to_minimal pk) = Val pk.
  Proof.
    unfold pk, sk. rewrite (sk_pk_is_from_n w p q Hw Hk). unfold pk_to_minimal, from_n at 1. cbn [pk_n].
    apply deser_pk_valid; assumption.
  Qed.
End Statements.
