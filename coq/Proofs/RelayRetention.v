(** C16 over arbitrary histories: a stored publication is kept until its own expiry, waiters until the
    maximum expiry of the asks that joined, nothing dead is left after an operation, and the store is
    never larger than the heap. *)
From SL Require Import Lib.Base Model.Relay Proofs.RelayMap Proofs.RelayCleanup Proofs.RelayInv.
From Coq Require Import Permutation.
Local Open Scope N_scope.

(** [o] is a publication of frame [f] at clock [t] (through a connection's sink or SimpleMessageRelay::send) *)
Definition is_publish (o : op) (f : frame) (t : time) : Prop :=
  (HDR_SIZE < length f)%nat /\ ((exists c, o = OSend c f t) \/ o = ORelaySend f t).

(** [o] publishes under [id] *)
Definition publishes (id : msgid) (o : op) : Prop := exists f t, is_publish o f t /\ hdr_id f = id.

(** every clock value read during [h] is before [e] *)
Definition times_before (e : time) (h : list op) : Prop :=
  forall o t, In o h -> op_time o = Some t -> t < e.

Lemma times_before_cons e o h : times_before e (o :: h) ->
  (forall t, op_time o = Some t -> t < e) /\ times_before e h.
Proof.
  intros H. split.
  - intros t Ht. apply (H o t); [left; reflexivity|exact Ht].
  - intros o' t I Ht. apply (H o' t); [right; exact I|exact Ht].
Qed.

(** ** lookups after the post-cleanup parts *)

Lemma send_post_lookup_other f now s1 id : hdr_id f <> id ->
  lookup id (msgs (send_post f now s1)) = lookup id (msgs s1).
Proof.
  intros N. unfold send_post. destruct (lookup (hdr_id f) (msgs s1)) as [[? ?|? ?]|]; cbn [msgs];
    rewrite ?lookup_insert_neq by exact N; reflexivity.
Qed.

Lemma send_post_ready f now s1 e m : lookup (hdr_id f) (msgs s1) = Some (Ready e m) -> send_post f now s1 = s1.
Proof. intros L. unfold send_post. rewrite L. reflexivity. Qed.

Lemma send_post_stores f now s1 :
  (forall e m, lookup (hdr_id f) (msgs s1) <> Some (Ready e m)) ->
  lookup (hdr_id f) (msgs (send_post f now s1)) = Some (Ready (now + hdr_ttl f) f).
Proof.
  intros H. unfold send_post. destruct (lookup (hdr_id f) (msgs s1)) as [[e m|? ?]|] eqn:L; cbn [msgs].
  - exfalso. apply (H e m). reflexivity.
  - apply lookup_insert_eq.
  - apply lookup_insert_eq.
Qed.

Lemma recv_post_lookup_other c id2 ttl now s1 id : id2 <> id ->
  lookup id (msgs (recv_post c id2 ttl now s1)) = lookup id (msgs s1).
Proof.
  intros N. unfold recv_post. destruct (lookup id2 (msgs s1)) as [[? ?|? ?]|]; cbn [msgs];
    rewrite ?lookup_insert_neq by exact N; reflexivity.
Qed.

Lemma recv_post_ready c id ttl now s1 e m : lookup id (msgs s1) = Some (Ready e m) ->
  recv_post c id ttl now s1 = mkState (msgs s1) (heap s1) ((c, m) :: queue s1) (chan s1).
Proof. intros L. unfold recv_post. rewrite L. reflexivity. Qed.

Lemma cleanup_lookup T s now id v : Inv T s ->
  lookup id (msgs (cleanup now s)) = Some v <-> lookup id (msgs s) = Some v /\ now < expiry v.
Proof.
  intros I. rewrite (cleanup_live T s now I). cbn [msgs]. apply lookup_live_some. exact (inv_nodup _ _ I).
Qed.

(** the three shapes of a step, under the invariant *)
Lemma step_send_short s c f t : hdr_ok f = false -> step s (OSend c f t) = (s, [ObsSend false]).
Proof. intros H. cbn [step]. rewrite H. reflexivity. Qed.

Lemma step_ask s c a t : length a = HDR_SIZE ->
  step s (OSend c a t) = (recv_post c (hdr_id a) (hdr_ttl a) t (cleanup t s), [ObsSend true]).
Proof.
  intros L. cbn [step]. unfold hdr_ok. rewrite L, Nat.leb_refl, Nat.eqb_refl. reflexivity.
Qed.

Lemma step_publish_sink s c f t : (HDR_SIZE < length f)%nat ->
  step s (OSend c f t) = (send_post f t (cleanup t s), [ObsSend true]).
Proof.
  intros L. cbn [step]. unfold hdr_ok.
  replace (Nat.leb HDR_SIZE (length f)) with true by (symmetry; apply Nat.leb_le; lia).
  replace (Nat.eqb (length f) HDR_SIZE) with false by (symmetry; apply Nat.eqb_neq; lia).
  cbn [negb]. rewrite inner_send_unfold.
  replace (Nat.leb (length f) HDR_SIZE) with false by (symmetry; apply Nat.leb_gt; lia). reflexivity.
Qed.

Lemma step_publish_relay s f t : (HDR_SIZE < length f)%nat ->
  step s (ORelaySend f t) = (send_post f t (cleanup t s), []).
Proof.
  intros L. cbn [step]. rewrite inner_send_unfold.
  replace (Nat.leb (length f) HDR_SIZE) with false by (symmetry; apply Nat.leb_gt; lia). reflexivity.
Qed.

Lemma step_relay_ignored s f t : (length f <= HDR_SIZE)%nat -> step s (ORelaySend f t) = (s, []).
Proof.
  intros L. cbn [step]. rewrite inner_send_unfold.
  replace (Nat.leb (length f) HDR_SIZE) with true by (symmetry; apply Nat.leb_le; lia). reflexivity.
Qed.

Lemma is_publish_step s o f t : is_publish o f t -> fst (step s o) = send_post f t (cleanup t s).
Proof.
  intros [L [[c ->]| ->]]; [rewrite step_publish_sink by exact L|rewrite step_publish_relay by exact L]; reflexivity.
Qed.

(** operations that take the relay lock and run [cleanup]: asks and publications; [Some T] = their clock *)
Definition cleans (o : op) : option time :=
  match o with
  | OSend _ f t => if hdr_ok f then Some t else None
  | ORelaySend f t => if Nat.leb (length f) HDR_SIZE then None else Some t
  | _ => None
  end.

(** the frame carried by an operation *)
Definition op_frame (o : op) : frame :=
  match o with OSend _ f _ => f | ORelaySend f _ => f | _ => [] end.

(** case analysis of an arbitrary operation *)
Lemma op_cases (o : op) :
  (exists c a t, o = OSend c a t /\ length a = HDR_SIZE) \/
  (exists f t, is_publish o f t) \/
  (cleans o = None /\ forall s, msgs (fst (step s o)) = msgs s /\ heap (fst (step s o)) = heap s).
Proof.
  destruct o as [c f t|f t|c|].
  - destruct (Nat.ltb (length f) HDR_SIZE) eqn:A.
    + apply Nat.ltb_lt in A. right; right.
      assert (Hok : hdr_ok f = false) by (unfold hdr_ok; apply Nat.leb_gt; exact A).
      split; [cbn [cleans]; rewrite Hok; reflexivity|].
      intros s. rewrite step_send_short; [split; reflexivity|exact Hok].
    + apply Nat.ltb_ge in A. destruct (Nat.eqb (length f) HDR_SIZE) eqn:B.
      * apply Nat.eqb_eq in B. left. exists c, f, t. auto.
      * apply Nat.eqb_neq in B. right; left. exists f, t. split; [lia|left; exists c; reflexivity].
  - destruct (Nat.leb (length f) HDR_SIZE) eqn:A.
    + right; right. split; [cbn [cleans]; rewrite A; reflexivity|]. apply Nat.leb_le in A.
      intros s. rewrite step_relay_ignored by exact A. split; reflexivity.
    + apply Nat.leb_gt in A. right; left. exists f, t. split; [exact A|right; reflexivity].
  - right; right. split; [reflexivity|]. intros s. split; reflexivity.
  - right; right. split; [reflexivity|]. intros s. split; reflexivity.
Qed.

(** ** a stored publication is kept until its own expiry *)

Lemma step_ready_kept T s o id e m :
  Inv T s -> lookup id (msgs s) = Some (Ready e m) ->
  (forall t, op_time o = Some t -> t < e) ->
  lookup id (msgs (fst (step s o))) = Some (Ready e m).
Proof.
  intros I L Ht.
  destruct (op_cases o) as [(c & a & t & -> & La)|[(f & t & P)|[_ Idle]]].
  - rewrite step_ask by exact La. cbn [fst].
    assert (L1 : lookup id (msgs (cleanup t s)) = Some (Ready e m)).
    { apply (cleanup_lookup T); [exact I|]. split; [exact L|]. cbn [expiry]. apply Ht. reflexivity. }
    destruct (id_eqb_spec (hdr_id a) id) as [E|N].
    + subst id. rewrite (recv_post_ready _ _ _ _ _ _ _ L1). exact L1.
    + rewrite recv_post_lookup_other by exact N. exact L1.
  - rewrite (is_publish_step s o f t P).
    assert (Hto : op_time o = Some t) by (destruct P as [_ [[c ->]| ->]]; reflexivity).
    assert (L1 : lookup id (msgs (cleanup t s)) = Some (Ready e m)).
    { apply (cleanup_lookup T); [exact I|]. split; [exact L|]. cbn [expiry]. apply Ht. exact Hto. }
    destruct (id_eqb_spec (hdr_id f) id) as [E|N].
    + subst id. rewrite (send_post_ready _ _ _ _ _ L1). exact L1.
    + rewrite send_post_lookup_other by exact N. exact L1.
  - destruct (Idle s) as [-> _]. exact L.
Qed.

Theorem exec_ready_kept h : forall T s id e m,
  Inv T s -> lookup id (msgs s) = Some (Ready e m) -> times_before e h ->
  lookup id (msgs (exec s h)) = Some (Ready e m).
Proof.
  induction h as [|o r IH]; intros T s id e m I L Hb; cbn [exec fold_left]; [exact L|].
  destruct (times_before_cons _ _ _ Hb) as [Ho Hr].
  apply (IH (clean_time T o)); [apply step_inv; exact I| |exact Hr].
  eapply step_ready_kept; eassumption.
Qed.

(** a publication that finds no live publication under its id is stored, with its own expiry *)
Lemma publish_stores T s o f t :
  Inv T s -> is_publish o f t ->
  (forall e m, lookup (hdr_id f) (msgs s) = Some (Ready e m) -> e <= t) ->
  lookup (hdr_id f) (msgs (fst (step s o))) = Some (Ready (t + hdr_ttl f) f).
Proof.
  intros I P Hn. rewrite (is_publish_step s o f t P). apply send_post_stores.
  intros e m L. apply (cleanup_lookup T) in L; [|exact I]. destruct L as [L Lt]. cbn [expiry] in Lt.
  specialize (Hn e m L). lia.
Qed.

Theorem ready_kept_until_own_ttl_proof : forall h1 o f t h2,
  is_publish o f t ->
  (forall e m, lookup (hdr_id f) (msgs (exec init h1)) = Some (Ready e m) -> e <= t) ->
  times_before (t + hdr_ttl f) h2 ->
  lookup (hdr_id f) (msgs (exec init (h1 ++ o :: h2))) = Some (Ready (t + hdr_ttl f) f).
Proof.
  intros h1 o f t h2 P Hn Hb. rewrite exec_app. cbn [exec fold_left].
  pose proof (reachable_inv h1) as I1.
  eapply exec_ready_kept; [apply step_inv; exact I1| |exact Hb].
  eapply publish_stores; eassumption.
Qed.

(** general form: ANY stored publication (with own expiry [e]) survives every extension of the history whose
    clock values are before [e] -- whatever asks or other publications expire meanwhile *)
Theorem ready_entry_kept_proof : forall h1 h2 id e m,
  lookup id (msgs (exec init h1)) = Some (Ready e m) -> times_before e h2 ->
  lookup id (msgs (exec init (h1 ++ h2))) = Some (Ready e m).
Proof.
  intros h1 h2 id e m L Hb. rewrite exec_app. eapply exec_ready_kept; [apply reachable_inv|exact L|exact Hb].
Qed.

(** ... and it is gone after any cleaning operation at or after its expiry (unless re-published) *)
Lemma ready_forgotten T s now id e m :
  Inv T s -> lookup id (msgs s) = Some (Ready e m) -> e <= now ->
  lookup id (msgs (cleanup now s)) = None.
Proof.
  intros I L Hle. rewrite (cleanup_live T s now I). cbn [msgs].
  rewrite lookup_live by exact (inv_nodup _ _ I). rewrite L. cbn [expiry].
  replace (now <? e) with false by (symmetry; apply N.ltb_ge; exact Hle). reflexivity.
Qed.

(** ** waiters are kept until the maximum expiry of the asks that joined *)

Lemma step_waiters_kept T s o id E l :
  Inv T s -> lookup id (msgs s) = Some (Waiters E l) ->
  (forall t, op_time o = Some t -> t < E) -> ~ publishes id o ->
  exists E' l', lookup id (msgs (fst (step s o))) = Some (Waiters E' (l ++ l')) /\ E <= E'.
Proof.
  intros I L Ht Np.
  destruct (op_cases o) as [(c & a & t & -> & La)|[(f & t & P)|[_ Idle]]].
  - rewrite step_ask by exact La. cbn [fst].
    assert (L1 : lookup id (msgs (cleanup t s)) = Some (Waiters E l)).
    { apply (cleanup_lookup T); [exact I|]. split; [exact L|]. cbn [expiry]. apply Ht. reflexivity. }
    destruct (id_eqb_spec (hdr_id a) id) as [Eq|N].
    + subst id. unfold recv_post. rewrite L1. cbn [msgs]. rewrite lookup_insert_eq.
      exists (N.max (t + hdr_ttl a) E), [c]. split; [reflexivity|lia].
    + rewrite recv_post_lookup_other by exact N. exists E, []. rewrite app_nil_r. split; [exact L1|lia].
  - rewrite (is_publish_step s o f t P).
    assert (Hto : op_time o = Some t) by (destruct P as [_ [[c ->]| ->]]; reflexivity).
    assert (L1 : lookup id (msgs (cleanup t s)) = Some (Waiters E l)).
    { apply (cleanup_lookup T); [exact I|]. split; [exact L|]. cbn [expiry]. apply Ht. exact Hto. }
    destruct (id_eqb_spec (hdr_id f) id) as [Eq|N].
    + exfalso. apply Np. exists f, t. auto.
    + rewrite send_post_lookup_other by exact N. exists E, []. rewrite app_nil_r. split; [exact L1|lia].
  - destruct (Idle s) as [-> _]. exists E, []. rewrite app_nil_r. split; [exact L|lia].
Qed.

Theorem exec_waiters_kept h : forall T s id E l,
  Inv T s -> lookup id (msgs s) = Some (Waiters E l) -> times_before E h ->
  (forall o, In o h -> ~ publishes id o) ->
  exists E' l', lookup id (msgs (exec s h)) = Some (Waiters E' (l ++ l')) /\ E <= E'.
Proof.
  induction h as [|o r IH]; intros T s id E l I L Hb Np; cbn [exec fold_left].
  - exists E, []. rewrite app_nil_r. split; [exact L|lia].
  - destruct (times_before_cons _ _ _ Hb) as [Ho Hr].
    destruct (step_waiters_kept T s o id E l I L Ho) as (E1 & l1 & L1 & Le1); [apply Np; left; reflexivity|].
    destruct (IH (clean_time T o) (fst (step s o)) id E1 (l ++ l1)) as (E2 & l2 & L2 & Le2).
    + apply step_inv; exact I.
    + exact L1.
    + intros o' t' Io Ht. specialize (Hr o' t' Io Ht). lia.
    + intros o' Io. apply Np. right; exact Io.
    + exists E2, (l1 ++ l2). rewrite app_assoc. split; [exact L2|lia].
Qed.

(** an ask that finds no live publication is registered, under an expiry at least its own *)
Lemma ask_registers T s c a t :
  Inv T s -> length a = HDR_SIZE ->
  (forall e m, lookup (hdr_id a) (msgs s) = Some (Ready e m) -> e <= t) ->
  exists E l, lookup (hdr_id a) (msgs (fst (step s (OSend c a t)))) = Some (Waiters E (l ++ [c])) /\
              t + hdr_ttl a <= E /\
              (E = t + hdr_ttl a \/ exists l0, lookup (hdr_id a) (msgs s) = Some (Waiters E l0)).
Proof.
  intros I La Hn. rewrite step_ask by exact La. cbn [fst]. unfold recv_post.
  destruct (lookup (hdr_id a) (msgs (cleanup t s))) as [[e m|E l]|] eqn:L1; cbn [msgs].
  - exfalso. apply (cleanup_lookup T) in L1; [|exact I]. destruct L1 as [L1 Lt]. cbn [expiry] in Lt.
    specialize (Hn e m L1). lia.
  - rewrite lookup_insert_eq. exists (N.max (t + hdr_ttl a) E), l. split; [reflexivity|]. split; [lia|].
    destruct (N.max_spec (t + hdr_ttl a) E) as [[_ ->]|[_ ->]]; [right|left; reflexivity].
    apply (cleanup_lookup T) in L1; [|exact I]. exists l. tauto.
  - rewrite lookup_insert_eq. exists (t + hdr_ttl a), []. split; [reflexivity|]. split; [lia|left; reflexivity].
Qed.

Theorem waiters_kept_until_max_proof : forall h1 c a t h2,
  length a = HDR_SIZE ->
  (forall e m, lookup (hdr_id a) (msgs (exec init h1)) = Some (Ready e m) -> e <= t) ->
  times_before (t + hdr_ttl a) h2 ->
  (forall o, In o h2 -> ~ publishes (hdr_id a) o) ->
  exists E l, lookup (hdr_id a) (msgs (exec init (h1 ++ OSend c a t :: h2))) = Some (Waiters E l) /\
              t + hdr_ttl a <= E /\ In c l.
Proof.
  intros h1 c a t h2 La Hn Hb Np. rewrite exec_app. cbn [exec fold_left].
  pose proof (reachable_inv h1) as I1.
  destruct (ask_registers _ _ c a t I1 La Hn) as (E & l & L & Le & _).
  destruct (exec_waiters_kept h2 _ _ _ E (l ++ [c]) (step_inv _ _ (OSend c a t) I1) L) as (E2 & l2 & L2 & Le2).
  - intros o t' Io Ht. specialize (Hb o t' Io Ht). lia.
  - exact Np.
  - exists E2, ((l ++ [c]) ++ l2). split; [exact L2|]. split; [lia|].
    apply in_or_app. left. apply in_or_app. right. left. reflexivity.
Qed.

(** general form: ANY waiters entry (stored maximum [E]) survives every extension of the history whose clock
    values are before [E] and that does not publish under the id; its expiry only grows, its list only grows *)
Theorem waiters_entry_kept_proof : forall h1 h2 id E l,
  lookup id (msgs (exec init h1)) = Some (Waiters E l) -> times_before E h2 ->
  (forall o, In o h2 -> ~ publishes id o) ->
  exists E' l', lookup id (msgs (exec init (h1 ++ h2))) = Some (Waiters E' (l ++ l')) /\ E <= E'.
Proof.
  intros h1 h2 id E l L Hb Np. rewrite exec_app.
  eapply exec_waiters_kept; [apply reachable_inv|exact L|exact Hb|exact Np].
Qed.

(** ** no dead entries after an operation *)

Lemma cleans_clean_time T o t : cleans o = Some t -> clean_time T o = t.
Proof.
  destruct o as [c f t'|f t'|c|]; cbn [cleans clean_time]; try discriminate.
  - destruct (hdr_ok f); [intros H; inversion H; reflexivity|discriminate].
  - destruct (Nat.leb (length f) HDR_SIZE); [discriminate|intros H; inversion H; reflexivity].
Qed.

Lemma step_strict T0 s o T :
  Inv T0 s -> cleans o = Some T ->
  let s' := fst (step s o) in
  (forall e, In e (heap s') -> T < h_when e \/ (h_when e = T + hdr_ttl (op_frame o) /\ h_id e = hdr_id (op_frame o))) /\
  (forall id v, lookup id (msgs s') = Some v ->
                T < expiry v \/ (expiry v = T + hdr_ttl (op_frame o) /\ id = hdr_id (op_frame o))).
Proof.
  intros I C. cbv zeta.
  destruct (op_cases o) as [(c & a & t & -> & La)|[(f & t & P)|[Cn _]]].
  - cbn [cleans] in C. unfold hdr_ok in C. rewrite La, Nat.leb_refl in C. inversion C; subst t. clear C.
    rewrite step_ask by exact La. cbn [fst op_frame].
    destruct (cleanup_inv T0 s T I) as (I1 & Hh & Hm).
    unfold recv_post. destruct (lookup (hdr_id a) (msgs (cleanup T s))) as [[e m|E l]|] eqn:L1; cbn [msgs heap].
    + split; [intros e' He; left; auto|intros id v L; left; eauto].
    + split.
      * intros e' [<-|He]; [right; split; reflexivity|left; auto].
      * intros id v. rewrite lookup_insert. destruct (id_eqb_spec (hdr_id a) id) as [<-|N]; intros L.
        -- inversion L; subst v. cbn [expiry]. specialize (Hm _ _ L1). cbn [expiry] in Hm. left. lia.
        -- left. eauto.
    + split.
      * intros e' [<-|He]; [right; split; reflexivity|left; auto].
      * intros id v. rewrite lookup_insert. destruct (id_eqb_spec (hdr_id a) id) as [<-|N]; intros L.
        -- inversion L; subst v. cbn [expiry]. right. split; reflexivity.
        -- left. eauto.
  - assert (Hf : op_frame o = f /\ cleans o = Some t).
    { destruct P as [Hl [[c ->]| ->]]; cbn [op_frame cleans]; unfold hdr_ok.
      - replace (Nat.leb HDR_SIZE (length f)) with true by (symmetry; apply Nat.leb_le; lia). auto.
      - replace (Nat.leb (length f) HDR_SIZE) with false by (symmetry; apply Nat.leb_gt; lia). auto. }
    destruct Hf as [Hf Hc]. rewrite Hc in C. inversion C; subst t. clear C. rewrite Hf.
    rewrite (is_publish_step s o f T P).
    destruct (cleanup_inv T0 s T I) as (I1 & Hh & Hm).
    unfold send_post. destruct (lookup (hdr_id f) (msgs (cleanup T s))) as [[e m|E l]|] eqn:L1; cbn [msgs heap].
    + split; [intros e' He; left; auto|intros id v L; left; eauto].
    + split.
      * intros e' [<-|He]; [right; split; reflexivity|left; auto].
      * intros id v. rewrite lookup_insert. destruct (id_eqb_spec (hdr_id f) id) as [<-|N]; intros L.
        -- inversion L; subst v. cbn [expiry]. right. split; reflexivity.
        -- left. eauto.
    + split.
      * intros e' [<-|He]; [right; split; reflexivity|left; auto].
      * intros id v. rewrite lookup_insert. destruct (id_eqb_spec (hdr_id f) id) as [<-|N]; intros L.
        -- inversion L; subst v. cbn [expiry]. right. split; reflexivity.
        -- left. eauto.
  - congruence.
Qed.

(** After an operation at clock T that took the lock (an ask or a publication), after ANY history:
    no heap entry and no store entry has an expiry before T; and an entry expiring exactly AT T can only be
    the one this very operation inserted, with TTL 0 (it is removed by the next such operation). *)
Theorem no_dead_entries_after_op_proof : forall h o T,
  cleans o = Some T ->
  let s := exec init (h ++ [o]) in
  (forall e, In e (heap s) -> T <= h_when e) /\
  (forall id v, lookup id (msgs s) = Some v -> T <= expiry v) /\
  (forall e, In e (heap s) -> h_when e = T -> hdr_ttl (op_frame o) = 0 /\ h_id e = hdr_id (op_frame o)) /\
  (forall id v, lookup id (msgs s) = Some v -> expiry v = T -> hdr_ttl (op_frame o) = 0 /\ id = hdr_id (op_frame o)).
Proof.
  intros h o T C. cbv zeta. rewrite exec_app. cbn [exec fold_left].
  destruct (step_strict _ _ o T (reachable_inv h) C) as [Hh Hm].
  repeat split.
  - intros e He. destruct (Hh e He) as [?|[? _]]; lia.
  - intros id v L. destruct (Hm id v L) as [?|[? _]]; lia.
  - destruct (Hh e H) as [?|[? ?]]; lia.
  - destruct (Hh e H) as [?|[? ?]]; [lia|assumption].
  - destruct (Hm id v H) as [?|[? ?]]; lia.
  - destruct (Hm id v H) as [?|[? ?]]; [lia|assumption].
Qed.

(** ** the store is never larger than the heap, and all its entries are backed by distinct heap entries *)

Definition backing (kv : msgid * entry) : hentry :=
  match snd kv with
  | Ready e _ => (e, fst kv, KPub)
  | Waiters e _ => (e, fst kv, KAsk)
  end.

Lemma backing_id kv : h_id (backing kv) = fst kv.
Proof. unfold backing. destruct (snd kv); reflexivity. Qed.

Lemma NoDup_map_backing m : NoDup (keys m) -> NoDup (map backing m).
Proof.
  induction m as [|kv r IH]; cbn [keys map]; intros ND; [constructor|].
  inversion ND as [|? ? NI ND']; subst. constructor; [|apply IH; exact ND'].
  intros Hin. apply NI. apply in_map_iff in Hin. destruct Hin as [kv' [E I']].
  apply in_map_iff. exists kv'. split; [|exact I'].
  rewrite <- (backing_id kv'), E. apply backing_id.
Qed.

Theorem store_le_heap_inv T s : Inv T s -> (length (msgs s) <= length (heap s))%nat.
Proof.
  intros I. rewrite <- (map_length backing (msgs s)).
  apply NoDup_incl_length; [apply NoDup_map_backing; exact (inv_nodup _ _ I)|].
  intros x Hx. apply in_map_iff in Hx. destruct Hx as [[k v] [<- Hin]].
  assert (L : lookup k (msgs s) = Some v) by (apply In_lookup; [exact (inv_nodup _ _ I)|exact Hin]).
  unfold backing. cbn [fst snd]. destruct v as [e m|E l].
  - assert (Ip : In (e, k, KPub) (pubs k (heap s))) by (rewrite (inv_ready _ _ I _ _ _ L); left; reflexivity).
    apply in_pubs in Ip. tauto.
  - exact (inv_wait _ _ I _ _ _ L).
Qed.

(** ** statements about reachable states, in the form quoted by Props/C16.v *)

Theorem relay_invariant_proof : forall h,
  let s := exec init h in
  let T := last_clean 0 h in
  NoDup (map fst (msgs s)) /\
  (forall id e m, lookup id (msgs s) = Some (Ready e m) -> filter (is_pub_for id) (heap s) = [(e, id, KPub)]) /\
  (forall id, (forall e m, lookup id (msgs s) <> Some (Ready e m)) -> filter (is_pub_for id) (heap s) = []) /\
  (forall id E l, lookup id (msgs s) = Some (Waiters E l) -> In (E, id, KAsk) (heap s)) /\
  (forall e, In e (heap s) -> T <= h_when e) /\
  (forall id v, lookup id (msgs s) = Some v -> T <= expiry v).
Proof.
  intros h. cbv zeta. destruct (reachable_inv h) as [A B C D E F _ _]. repeat split; assumption.
Qed.

Theorem cleanup_reachable_proof : forall h now,
  cleanup now (exec init h) =
  mkState (filter (fun kv => now <? expiry (snd kv)) (msgs (exec init h)))
          (filter (fun e => now <? h_when e) (heap (exec init h)))
          (queue (exec init h)) (chan (exec init h)).
Proof. intros h now. exact (cleanup_live _ _ now (reachable_inv h)). Qed.

Theorem store_bounded_proof : forall h, (length (msgs (exec init h)) <= length (heap (exec init h)))%nat.
Proof. intros h. exact (store_le_heap_inv _ _ (reachable_inv h)). Qed.

Theorem cleanup_any_pop_order_proof : forall now m h,
  (forall m' h', cleanup_rel now m h m' h' -> m' = swept now h m /\ Permutation h' (later now h)) /\
  cleanup_rel now m h (fst (cleanup_loop (length h) now m h)) (snd (cleanup_loop (length h) now m h)) /\
  cleanup_loop (length h) now m h = (swept now h m, later now h).
Proof.
  intros now m h. split; [|split].
  - intros m' h'. apply cleanup_rel_det.
  - apply cleanup_loop_rel. apply le_n.
  - apply cleanup_loop_exact.
Qed.
