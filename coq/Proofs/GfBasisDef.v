(** Definitions for the 128 x 128 monomial sweep (split over 16 files compiled in parallel). *)
From SL Require Import Lib.Base Model.ByteLang Model.Gf128 Gen.GfProg.

Definition idx128 : list nat := seq 0 128.

Definition basis_row (i : nat) : bool :=
  forallb (fun j => bytes_eqb (gf_prog (mono i) (mono j)) (gf_spec_bytes (mono i) (mono j))) idx128.

Definition basis_chunk (k : nat) : bool := forallb basis_row (seq (8 * k) 8).
