(** Proofs about the model of BufferedMsgRelay (Model/Buffered.v), property C17.
    Everything is by induction over the inner relay's script and over the call sequence with its
    cancellation points; nothing is bounded. *)
From SL Require Import Lib.Base Model.Buffered.
From Coq Require Import Permutation.

(** the proofs never look inside the header codec *)
Opaque HDR IDSZ.
Arguments wf : simpl never.
Arguments hdr_id : simpl never.

(** ** Multisets of frames by counting *)
Definition bytes_dec : forall a b : bytes, {a = b} + {a <> b} := list_eq_dec N.eq_dec.
Definition cnt (x : bytes) (l : list bytes) : nat := count_occ bytes_dec l x.
Definition one (y x : bytes) : nat := if bytes_dec y x then 1 else 0.

Lemma cnt_nil x : cnt x [] = 0.
Proof. reflexivity. Qed.
Lemma cnt_cons x y l : cnt x (y :: l) = one y x + cnt x l.
Proof. unfold cnt, one; cbn. destruct (bytes_dec y x); reflexivity. Qed.
Lemma cnt_app x l1 l2 : cnt x (l1 ++ l2) = cnt x l1 + cnt x l2.
Proof. apply count_occ_app. Qed.
Lemma one_same x : one x x = 1.
Proof. unfold one; destruct (bytes_dec x x); congruence. Qed.
Lemma one_diff y x : y <> x -> one y x = 0.
Proof. unfold one; destruct (bytes_dec y x); congruence. Qed.

Ltac splits := repeat match goal with |- _ /\ _ => split end.
Ltac cnt_norm := repeat (rewrite ?cnt_app, ?cnt_cons, ?cnt_nil in * ).

Lemma perm_of_cnt l1 l2 : (forall x, cnt x l1 = cnt x l2) -> Permutation l1 l2.
Proof. intros H. apply (Permutation_count_occ bytes_dec). exact H. Qed.
Lemma cnt_of_perm l1 l2 : Permutation l1 l2 -> forall x, cnt x l1 = cnt x l2.
Proof. intros H. apply (Permutation_count_occ bytes_dec). exact H. Qed.

Lemma cnt_filter f x l : cnt x (filter f l) = if f x then cnt x l else 0.
Proof.
  induction l as [|y l IH]; cbn [filter].
  - destruct (f x); reflexivity.
  - destruct (f y) eqn:Ey; cnt_norm; rewrite IH.
    + destruct (bytes_dec y x) as [->|Hn].
      * rewrite Ey. reflexivity.
      * rewrite (one_diff _ _ Hn). destruct (f x); reflexivity.
    + destruct (bytes_dec y x) as [->|Hn].
      * rewrite Ey. reflexivity.
      * rewrite (one_diff _ _ Hn). destruct (f x); reflexivity.
Qed.

Lemma cnt_zero_of_Forall (P : bytes -> Prop) x l : Forall P l -> ~ P x -> cnt x l = 0.
Proof.
  induction 1 as [|y l Hy _ IH]; intros Hx; cnt_norm; [reflexivity|].
  rewrite IH by assumption. rewrite one_diff; [reflexivity|]. intros ->. contradiction.
Qed.

(** ** Vec operations *)
Lemma pop_inv {A} (l : list A) y l' : pop l = Some (y, l') -> l = l' ++ [y].
Proof.
  revert y l'; induction l as [|x r IH]; cbn; intros y l' H; [discriminate|].
  destruct (pop r) as [[y' r']|] eqn:E.
  - inversion H; subst. rewrite (IH _ _ eq_refl). reflexivity.
  - inversion H; subst. destruct r as [|z r]; [reflexivity|].
    cbn in E. destruct (pop r) as [[? ?]|]; discriminate.
Qed.

Lemma pop_none {A} (l : list A) : pop l = None -> l = [].
Proof. destruct l as [|x r]; cbn; [reflexivity|]. destruct (pop r) as [[? ?]|]; discriminate. Qed.

Lemma pop_app {A} (l : list A) y : pop (l ++ [y]) = Some (y, l).
Proof.
  induction l as [|x r IH]; cbn; [reflexivity|]. rewrite IH. reflexivity.
Qed.

Lemma position_some {A} (f : A -> bool) l i :
  position f l = Some i -> exists x, nth_error l i = Some x /\ f x = true.
Proof.
  revert i; induction l as [|a r IH]; cbn; intros i H; [discriminate|].
  destruct (f a) eqn:Ea.
  - inversion H; subst. exists a; split; [reflexivity|assumption].
  - destruct (position f r) as [j|]; cbn in H; [|discriminate].
    inversion H; subst. destruct (IH j eq_refl) as [x [Hx Hf]]. exists x; split; assumption.
Qed.

(** the index found is the FIRST match *)
Lemma position_first {A} (f : A -> bool) l i :
  position f l = Some i -> forall j y, (j < i)%nat -> nth_error l j = Some y -> f y = false.
Proof.
  revert i; induction l as [|a r IH]; cbn; intros i H j y Hj Hy; [discriminate|].
  destruct (f a) eqn:Ea.
  - inversion H; subst. lia.
  - destruct (position f r) as [i'|] eqn:E; cbn in H; [|discriminate]. inversion H; subst.
    destruct j as [|j]; cbn in Hy.
    + inversion Hy; subst. assumption.
    + eapply IH; [reflexivity| |eassumption]. lia.
Qed.

Lemma position_none {A} (f : A -> bool) l :
  position f l = None -> forall x, In x l -> f x = false.
Proof.
  induction l as [|a r IH]; cbn; intros H x Hin; [contradiction|].
  destruct (f a) eqn:Ea; [discriminate|].
  destruct (position f r); cbn in H; [discriminate|].
  destruct Hin as [->|Hin]; [assumption|]. apply IH; [reflexivity|assumption].
Qed.

Lemma swap_remove_spec {A} (l : list A) i x l' :
  swap_remove l i = Some (x, l') -> nth_error l i = Some x /\ Permutation l (x :: l').
Proof.
  unfold swap_remove.
  destruct (nth_error l i) as [x0|] eqn:En; [|discriminate].
  destruct (pop l) as [[lst l1]|] eqn:Ep; [|discriminate].
  apply pop_inv in Ep; subst l.
  destruct (Nat.eqb i (length l1)) eqn:Ei; intros H; inversion H; subst; clear H.
  - apply Nat.eqb_eq in Ei; subst i.
    rewrite nth_error_app2, Nat.sub_diag in En by lia. cbn in En. inversion En; subst.
    split; [reflexivity|]. symmetry. apply Permutation_cons_append.
  - apply Nat.eqb_neq in Ei.
    assert (Hlt : (i < length l1)%nat).
    { assert (Hs : nth_error (l1 ++ [lst]) i <> None) by congruence.
      apply nth_error_Some in Hs. rewrite app_length in Hs. cbn in Hs. lia. }
    rewrite nth_error_app1 in En by assumption.
    split; [reflexivity|].
    destruct (nth_error_split _ _ En) as [a1 [a2 [-> Hl]]].
    rewrite firstn_app, Hl, Nat.sub_diag, firstn_all2, app_nil_r by lia.
    change (match a1 ++ x :: a2 with [] => [] | _ :: l => skipn i l end) with (skipn (S i) (a1 ++ x :: a2)).
    rewrite skipn_app, skipn_all2 by lia.
    replace (S i - length a1)%nat with 1%nat by lia. cbn [skipn app].
    rewrite <- app_assoc. cbn [app].
    etransitivity; [symmetry; apply Permutation_middle|].
    constructor. apply Permutation_app_head. symmetry. apply Permutation_cons_append.
Qed.

Lemma swap_remove_some {A} (l : list A) i x :
  nth_error l i = Some x -> exists l', swap_remove l i = Some (x, l').
Proof.
  intros En. unfold swap_remove. rewrite En.
  destruct (pop l) as [[lst l1]|] eqn:Ep.
  - destruct (Nat.eqb i (length l1)); eexists; reflexivity.
  - apply pop_none in Ep; subst. destruct i; discriminate.
Qed.

(** ** Bookkeeping functions *)
Lemma items_app a b : items (a ++ b) = items a ++ items b.
Proof.
  induction a as [|e a IH]; cbn; [reflexivity|]. destruct e; cbn; rewrite IH; reflexivity.
Qed.

Lemma handed_app a b : handed (a ++ b) = handed a ++ handed b.
Proof.
  induction a as [|e a IH]; cbn; [reflexivity|]. destruct e; cbn; rewrite IH; reflexivity.
Qed.

Lemma run_app cs1 cs2 s :
  run (cs1 ++ cs2) s =
  let '(r1, s1) := run cs1 s in let '(r2, s2) := run cs2 s1 in (r1 ++ r2, s2).
Proof.
  revert s; induction cs1 as [|[c k] cs1 IH]; intros s; cbn [run app].
  - destruct (run cs2 s); reflexivity.
  - destruct (run_call c k s) as [x s1]. rewrite IH.
    destruct (run cs1 s1) as [r1 s1']. destruct (run cs2 s1') as [r2 s2]. reflexivity.
Qed.

(** ** The conservation relation between two states *)
Definition short (m : bytes) : Prop := wf m = false.
Definition wellf (m : bytes) : Prop := wf m = true.
Definition buf_wf (s : state) : Prop := Forall wellf (in_buf s).

(** Going from [s] to [s'] while handing [out] to the application: the inner relay's script was
    consumed from the front ([pre]), and every frame of [pre] is in [out], in the buffer, or is a
    short frame that was dropped. *)
Definition conserve (s s' : state) (out : list bytes) : Prop :=
  exists pre dropped,
    i_rx (relay s) = pre ++ i_rx (relay s') /\
    Forall short dropped /\
    forall x, cnt x out + cnt x (in_buf s') + cnt x dropped = cnt x (in_buf s) + cnt x (items pre).

Lemma conserve_same s s' :
  i_rx (relay s) = i_rx (relay s') -> in_buf s = in_buf s' -> conserve s s' [].
Proof.
  intros Hr Hb. exists [], []. rewrite Hr, Hb. split; [reflexivity|split; [constructor|]]. intros x; cnt_norm. lia.
Qed.

Lemma conserve_trans s s1 s2 o1 o2 :
  conserve s s1 o1 -> conserve s1 s2 o2 -> conserve s s2 (o1 ++ o2).
Proof.
  intros (p1 & d1 & H1 & F1 & C1) (p2 & d2 & H2 & F2 & C2).
  exists (p1 ++ p2), (d1 ++ d2). split; [|split].
  - rewrite H1, H2, app_assoc. reflexivity.
  - apply Forall_app; split; assumption.
  - intros x. specialize (C1 x). specialize (C2 x). rewrite items_app. cnt_norm. lia.
Qed.

(** replace the starting state by one with the same buffer and the same rx script *)
Lemma conserve_from s0 s s' out :
  i_rx (relay s0) = i_rx (relay s) -> in_buf s0 = in_buf s -> conserve s s' out -> conserve s0 s' out.
Proof. intros Hr Hb (p & d & H & F & C). exists p, d. rewrite Hr, Hb. auto. Qed.

Definition out_of (r : pollres) : list bytes :=
  match r with Done (Some m) => [m] | _ => [] end.

Ltac fin_cnt := try solve [intros ?x; cbn [out_of items]; cnt_norm; lia].

Definition fut_pred (f : fut) : option (bytes -> bool) :=
  match f with
  | FWait p _ => Some p
  | FAsk id _ => Some (id_pred id)
  | FNext => None
  end.

(** what one poll guarantees; [fp] is the predicate the future is committed to *)
Record step_ok (fp : option (bytes -> bool)) (s : state) (res : pollres) (s' : state) : Prop := {
  ok_cons : conserve s s' (out_of res);
  ok_wf : buf_wf s -> buf_wf s';
  ok_nopanic : res <> Panicked;
  ok_pred : forall m p, res = Done (Some m) -> fp = Some p -> wf m = true /\ p (hdr_id m) = true;
  ok_susp : forall f', res = Suspended f' -> fut_pred f' = fp
}.

(** ** The loop of wait_for *)
Lemma wait_loop_spec p : forall l buf lg res l' buf' lg',
  wait_loop p l buf lg = (res, l', buf', lg') ->
  exists pre dropped,
    l = pre ++ l' /\ Forall short dropped /\
    (forall x, cnt x (out_of res) + cnt x buf' + cnt x dropped = cnt x buf + cnt x (items pre)) /\
    (Forall wellf buf -> Forall wellf buf') /\
    (forall m, res = Done (Some m) -> wf m = true /\ p (hdr_id m) = true) /\
    (forall f, res = Suspended f -> f = FWait p WsNext) /\
    res <> Panicked.
Proof.
  induction l as [|e r IH]; intros buf lg res l' buf' lg' H; cbn [wait_loop] in H.
  - inversion H; subst. exists [], []. splits; try discriminate; auto; fin_cnt.
  - destruct e as [m| |].
    + destruct (wf m) eqn:Ew; [destruct (p (hdr_id m)) eqn:Ep|].
      * inversion H; subst. exists [Item m], []. splits; try discriminate; auto; fin_cnt.
        intros m0 Hm; inversion Hm; subst; split; assumption.
      * apply IH in H. destruct H as (pre & dr & -> & Fd & C & W & Pm & Sf & Np).
        exists (Item m :: pre), dr. splits; auto.
        -- intros x. specialize (C x). unfold push in C. cbn [items]. cnt_norm. lia.
        -- intros Hb. apply W. unfold push. apply Forall_app; split; [assumption|].
           constructor; [exact Ew|constructor].
      * apply IH in H. destruct H as (pre & dr & -> & Fd & C & W & Pm & Sf & Np).
        exists (Item m :: pre), (m :: dr). splits; auto.
        intros x. specialize (C x). cbn [items]. cnt_norm. lia.
    + inversion H; subst. exists [RxPending], []. splits; try discriminate; auto; fin_cnt.
      intros f Hf; inversion Hf; reflexivity.
    + inversion H; subst. exists [RxEnd], []. splits; try discriminate; auto; fin_cnt.
Qed.

Lemma poll_wait_next_ok p s res s' :
  poll_wait_next p s = (res, s') -> step_ok (Some p) s res s'.
Proof.
  unfold poll_wait_next. intros H.
  destruct (wait_loop p (i_rx (relay s)) (in_buf s) (i_log (relay s))) as [[[res0 rx'] buf'] lg'] eqn:E.
  inversion H; subst; clear H.
  apply wait_loop_spec in E. destruct E as (pre & dr & Hl & Fd & C & W & Pm & Sf & Np).
  constructor.
  - exists pre, dr. cbn. auto.
  - exact W.
  - exact Np.
  - intros m q Hr Hq. inversion Hq; subst q. apply Pm; assumption.
  - intros f' Hf. rewrite (Sf _ Hf). reflexivity.
Qed.

Lemma step_ok_from fp s0 s res s' :
  i_rx (relay s0) = i_rx (relay s) -> in_buf s0 = in_buf s ->
  step_ok fp s res s' -> step_ok fp s0 res s'.
Proof.
  intros Hr Hb [C W N Pq S]. constructor; auto.
  - eapply conserve_from; eassumption.
  - unfold buf_wf in *. rewrite Hb. assumption.
Qed.

Lemma step_ok_idle fp s s' res :
  i_rx (relay s) = i_rx (relay s') -> in_buf s = in_buf s' ->
  out_of res = [] -> res <> Panicked ->
  (forall m, res <> Done (Some m)) ->
  (forall f', res = Suspended f' -> fut_pred f' = fp) ->
  step_ok fp s res s'.
Proof.
  intros Hr Hb Ho Np Nd Hs. constructor; auto.
  - rewrite Ho. apply conserve_same; assumption.
  - unfold buf_wf. rewrite Hb. auto.
  - intros m p Hd. exfalso. eapply Nd; eassumption.
Qed.

Lemma poll_wait_flush_ok p s res s' :
  poll_wait_flush p s = (res, s') -> step_ok (Some p) s res s'.
Proof.
  unfold poll_wait_flush, inner_poll_flush.
  destruct (pop_pres (i_fls (relay s))) as [x l]. destruct x; intros H.
  - eapply step_ok_from; [| |eapply poll_wait_next_ok; exact H]; reflexivity.
  - inversion H; subst. apply step_ok_idle; try reflexivity; try discriminate.
    intros f' Hf; inversion Hf; reflexivity.
  - inversion H; subst. apply step_ok_idle; try reflexivity; try discriminate.
Qed.

Lemma poll_wait_start_ok p s res s' :
  poll_wait_start p s = (res, s') -> step_ok (Some p) s res s'.
Proof.
  unfold poll_wait_start.
  destruct (position (matches p) (in_buf s)) as [idx|] eqn:Epos.
  - destruct (position_some _ _ _ Epos) as [m [Hn Hm]].
    destruct (swap_remove_some _ _ _ Hn) as [buf' Hs]. rewrite Hs.
    intros H; inversion H; subst; clear H.
    apply swap_remove_spec in Hs. destruct Hs as [_ Hp].
    constructor.
    + exists [], []. cbn [relay in_buf out_of items app]. repeat split; [constructor|].
      intros x. pose proof (cnt_of_perm _ _ Hp x) as Hc. cnt_norm. lia.
    + unfold buf_wf; cbn [in_buf]. intros Hb.
      apply (Permutation_Forall Hp) in Hb. inversion Hb; assumption.
    + discriminate.
    + intros m0 q Hr Hq. inversion Hr; inversion Hq; subst.
      unfold matches in Hm. apply andb_true_iff in Hm. exact Hm.
    + discriminate.
  - apply poll_wait_flush_ok.
Qed.

Lemma poll_ask_ok id frame s res s' :
  poll_ask id frame s = (res, s') -> step_ok (Some (id_pred id)) s res s'.
Proof.
  unfold poll_ask, inner_poll_ready.
  destruct (pop_pres (i_rdy (relay s))) as [x l]. destruct x.
  - unfold inner_start_send. cbn [i_snd i_rx i_rdy i_fls i_log].
    destruct (pop_bool (i_snd (relay s))) as [ok l2]. destruct ok; intros H.
    + eapply step_ok_from; [| |eapply poll_wait_start_ok; exact H]; reflexivity.
    + inversion H; subst. apply step_ok_idle; try reflexivity; try discriminate.
  - intros H; inversion H; subst. apply step_ok_idle; try reflexivity; try discriminate.
    intros f' Hf; inversion Hf; reflexivity.
  - intros H; inversion H; subst. apply step_ok_idle; try reflexivity; try discriminate.
Qed.

Lemma poll_next_ok s res s' :
  poll_next s = (res, s') -> step_ok None s res s'.
Proof.
  unfold poll_next.
  destruct (pop (in_buf s)) as [[m buf']|] eqn:Ep.
  - intros H; inversion H; subst; clear H. apply pop_inv in Ep.
    constructor; try discriminate.
    + exists [], []. cbn [relay in_buf out_of items app]. repeat split; [constructor|].
      intros x. rewrite Ep. cnt_norm. lia.
    + unfold buf_wf; cbn [in_buf]. rewrite Ep. intros Hb. apply Forall_app in Hb. tauto.
  - destruct (i_rx (relay s)) as [|[m| |] l] eqn:Erx; intros H; inversion H; subst; clear H.
    + apply step_ok_idle; try reflexivity; try discriminate. cbn. assumption.
    + constructor; try discriminate.
      * exists [Item m], []. cbn [relay in_buf i_rx out_of items app]. split; [assumption|split; [apply Forall_nil|]].
        intros x. cnt_norm. lia.
      * unfold buf_wf; cbn [in_buf]. auto.
    + constructor; try discriminate.
      * exists [RxPending], []. cbn [relay in_buf i_rx out_of items app]. split; [assumption|split; [apply Forall_nil|]].
        intros x. cnt_norm. lia.
      * unfold buf_wf; cbn [in_buf]. auto.
      * intros f' Hf; inversion Hf; reflexivity.
    + constructor; try discriminate.
      * exists [RxEnd], []. cbn [relay in_buf i_rx out_of items app]. split; [assumption|split; [apply Forall_nil|]].
        intros x. cnt_norm. lia.
      * unfold buf_wf; cbn [in_buf]. auto.
Qed.

Lemma poll_fut_ok f s res s' :
  poll_fut f s = (res, s') -> step_ok (fut_pred f) s res s'.
Proof.
  destruct f as [p [| |]|id frame|]; cbn [poll_fut fut_pred].
  - apply poll_wait_start_ok.
  - apply poll_wait_flush_ok.
  - apply poll_wait_next_ok.
  - apply poll_ask_ok.
  - apply poll_next_ok.
Qed.

(** ** One call: polled at most k times, then dropped *)
Lemma drive_ok : forall k f s r s',
  drive k f s = (r, s') ->
  conserve s s' (handed [r]) /\
  (buf_wf s -> buf_wf s') /\
  r <> RPanic /\
  (forall m p, r = RSome m -> fut_pred f = Some p -> wf m = true /\ p (hdr_id m) = true).
Proof.
  induction k as [|k IH]; intros f s r s' H; cbn [drive] in H.
  - inversion H; subst. splits; try discriminate; auto.
    apply conserve_same; reflexivity.
  - destruct (poll_fut f s) as [res s1] eqn:Ep. apply poll_fut_ok in Ep.
    destruct Ep as [C W N Pq S].
    destruct res as [[m|]|f'|].
    + inversion H; subst. splits; try discriminate; auto.
      intros m0 p Hr Hp. inversion Hr; subst. eapply Pq; [reflexivity|eassumption].
    + inversion H; subst. splits; try discriminate; auto.
    + apply IH in H. destruct H as (C2 & W2 & N2 & P2).
      splits; auto.
      * change (handed [r]) with ([] ++ handed [r]). eapply conserve_trans; eassumption.
      * intros m p Hr Hp. eapply P2; [eassumption|]. rewrite (S f' eq_refl). assumption.
    + exfalso. apply N. reflexivity.
Qed.

Lemma handed_cons x xs : handed (x :: xs) = handed [x] ++ handed xs.
Proof. destruct x; reflexivity. Qed.

Lemma run_ok : forall cs s rs s',
  run cs s = (rs, s') ->
  conserve s s' (handed rs) /\ (buf_wf s -> buf_wf s') /\ ~ In RPanic rs.
Proof.
  induction cs as [|[c k] cs IH]; intros s rs s' H; cbn [run] in H.
  - inversion H; subst. splits; auto. apply conserve_same; reflexivity.
  - destruct (run_call c k s) as [x s1] eqn:E1. destruct (run cs s1) as [xs s2] eqn:E2.
    inversion H; subst; clear H.
    apply drive_ok in E1. destruct E1 as (C1 & W1 & N1 & _).
    apply IH in E2. destruct E2 as (C2 & W2 & N2).
    splits; auto.
    + rewrite handed_cons. eapply conserve_trans; eassumption.
    + intros [Hx|Hin]; [apply N1; congruence|contradiction].
Qed.

(** ** Property-level lemmas *)

(** Everything that came out of the inner relay is accounted for, short frames included. *)
Lemma conservation_full_lemma : forall r0 cs rs s',
  run cs (init r0) = (rs, s') ->
  exists consumed dropped,
    i_rx r0 = consumed ++ i_rx (relay s') /\
    Forall (fun m => wf m = false) dropped /\
    Forall (fun m => wf m = true) (in_buf s') /\
    Permutation (handed rs ++ in_buf s' ++ dropped) (items consumed).
Proof.
  intros r0 cs rs s' H. apply run_ok in H. destruct H as ((pre & dr & Hr & Fd & C) & W & _).
  exists pre, dr. repeat split; auto.
  - apply W. constructor.
  - apply perm_of_cnt. intros x. specialize (C x). cbn [init in_buf] in C. cnt_norm. lia.
Qed.

(** general form, from any state whose buffer holds well-formed frames only *)
Lemma conservation_from_lemma : forall s cs rs s',
  Forall (fun m => wf m = true) (in_buf s) ->
  run cs s = (rs, s') ->
  exists consumed,
    i_rx (relay s) = consumed ++ i_rx (relay s') /\
    Permutation (filter wf (handed rs) ++ in_buf s') (in_buf s ++ filter wf (items consumed)).
Proof.
  intros s cs rs s' Hb H. apply run_ok in H. destruct H as ((pre & dr & Hr & Fd & C) & W & _).
  exists pre. split; [assumption|].
  apply perm_of_cnt. intros x. specialize (C x). specialize (W Hb).
  cnt_norm. rewrite !cnt_filter.
  destruct (wf x) eqn:Ex.
  - rewrite (cnt_zero_of_Forall short x dr Fd) in C by (unfold short; congruence). lia.
  - rewrite (cnt_zero_of_Forall wellf x (in_buf s')) by (try assumption; unfold wellf; congruence).
    rewrite (cnt_zero_of_Forall wellf x (in_buf s)) by (try assumption; unfold wellf; congruence).
    lia.
Qed.

Lemma buf_conservation_lemma : forall r0 cs rs s',
  run cs (init r0) = (rs, s') ->
  exists consumed,
    i_rx r0 = consumed ++ i_rx (relay s') /\
    Permutation (filter wf (handed rs) ++ in_buf s') (filter wf (items consumed)).
Proof.
  intros r0 cs rs s' H.
  apply (conservation_from_lemma (init r0)) in H; [|constructor]. exact H.
Qed.

Lemma recv_id_matches_lemma : forall id ttl k s m s',
  run_call (CRecv id ttl) k s = (RSome m, s') -> wf m = true /\ hdr_id m = id.
Proof.
  intros id ttl k s m s' H. apply drive_ok in H. destruct H as (_ & _ & _ & P).
  destruct (P m (id_pred id) eq_refl eq_refl) as [Hw Hp].
  split; [assumption|]. unfold id_pred in Hp. apply bytes_eqb_eq. assumption.
Qed.

Lemma wait_for_pred_holds_lemma : forall p k s m s',
  run_call (CWait p) k s = (RSome m, s') -> wf m = true /\ p (hdr_id m) = true.
Proof.
  intros p k s m s' H. apply drive_ok in H. destruct H as (_ & _ & _ & P).
  apply (P m p eq_refl eq_refl).
Qed.

(** What a suspended future holds: no frame. After ANY single poll that ends in Pending, the
    wrapper's state alone accounts for everything consumed from the inner relay. *)
Lemma suspended_holds_nothing_lemma : forall f s f' s',
  poll_fut f s = (Suspended f', s') ->
  exists consumed dropped,
    i_rx (relay s) = consumed ++ i_rx (relay s') /\
    Forall (fun m => wf m = false) dropped /\
    Permutation (in_buf s' ++ dropped) (in_buf s ++ items consumed).
Proof.
  intros f s f' s' H. apply poll_fut_ok in H. destruct H as [(pre & dr & Hr & Fd & C) _ _ _ _].
  exists pre, dr. repeat split; auto. apply perm_of_cnt. intros x. specialize (C x).
  cbn [out_of] in C. cnt_norm. lia.
Qed.

Lemma cancel_safe_lemma : forall r0 cs1 c k cs2 rs1 s1 s2 rs3 s3,
  run cs1 (init r0) = (rs1, s1) ->
  run_call c k s1 = (RCancelled, s2) ->
  run cs2 s2 = (rs3, s3) ->
  (exists consumed, i_rx r0 = consumed ++ i_rx (relay s2) /\
     Permutation (filter wf (handed rs1) ++ in_buf s2) (filter wf (items consumed))) /\
  (exists consumed, i_rx r0 = consumed ++ i_rx (relay s3) /\
     Permutation (filter wf (handed (rs1 ++ rs3)) ++ in_buf s3) (filter wf (items consumed))).
Proof.
  intros r0 cs1 c k cs2 rs1 s1 s2 rs3 s3 H1 H2 H3.
  assert (Ha : run (cs1 ++ [(c, k)]) (init r0) = (rs1 ++ [RCancelled], s2)).
  { rewrite run_app, H1. cbn [run]. rewrite H2. reflexivity. }
  assert (Hb : run ((cs1 ++ [(c, k)]) ++ cs2) (init r0) = ((rs1 ++ [RCancelled]) ++ rs3, s3)).
  { rewrite run_app, Ha, H3. reflexivity. }
  split.
  - apply buf_conservation_lemma in Ha. rewrite handed_app in Ha. cbn [handed] in Ha.
    rewrite app_nil_r in Ha. exact Ha.
  - apply buf_conservation_lemma in Hb. rewrite !handed_app in Hb. cbn [handed] in Hb.
    rewrite app_nil_r in Hb. rewrite handed_app. exact Hb.
Qed.

Lemma next_drains_buffer_first_lemma : forall s l m k,
  in_buf s = l ++ [m] -> run_call CNext (S k) s = (RSome m, mkState l (relay s)).
Proof.
  intros s l m k H. unfold run_call. cbn [fut_of_call drive poll_fut]. unfold poll_next.
  rewrite H, pop_app. reflexivity.
Qed.

Lemma next_drains_whole_buffer_lemma : forall buf r,
  run (repeat (CNext, 1%nat) (length buf)) (mkState buf r) = (map RSome (rev buf), mkState [] r).
Proof.
  induction buf as [|m l IH] using rev_ind; intros r; [reflexivity|].
  rewrite app_length, Nat.add_1_r. cbn [repeat run].
  rewrite (next_drains_buffer_first_lemma (mkState (l ++ [m]) r) l m 0 eq_refl). cbn [relay].
  rewrite IH, rev_app_distr. reflexivity.
Qed.

Lemma no_panic_lemma : forall cs s rs s', run cs s = (rs, s') -> ~ In RPanic rs.
Proof. intros cs s rs s' H. apply run_ok in H. tauto. Qed.

(** wait_for looks into the buffer BEFORE touching the inner relay: a buffered match is returned
    without any inner call (no flush, no poll_next) *)
Lemma wait_for_buffer_hit_lemma : forall p s k m,
  In m (in_buf s) -> wf m = true -> p (hdr_id m) = true ->
  exists m' s', run_call (CWait p) (S k) s = (RSome m', s') /\ relay s' = relay s /\
                In m' (in_buf s) /\ Permutation (in_buf s) (m' :: in_buf s').
Proof.
  intros p s k m Hin Hw Hp. unfold run_call. cbn [fut_of_call drive poll_fut]. unfold poll_wait_start.
  destruct (position (matches p) (in_buf s)) as [idx|] eqn:Epos.
  - destruct (position_some _ _ _ Epos) as [m' [Hn Hm]].
    destruct (swap_remove_some _ _ _ Hn) as [buf' Hs]. rewrite Hs.
    exists m', (mkState buf' (relay s)). repeat split.
    + eapply nth_error_In; eassumption.
    + apply swap_remove_spec in Hs. tauto.
  - pose proof (position_none _ _ Epos m Hin) as Hf. unfold matches in Hf. rewrite Hw, Hp in Hf. discriminate.
Qed.

(** ** Non-vacuity: a concrete run with out-of-order arrival, a short frame, a Pending, a
    cancellation, a duplicate and the stream interface *)
Definition ex_a : bytes := repeat 1%N 32.
Definition ex_b : bytes := repeat 2%N 32.
Definition ex_fa : bytes := ex_a ++ [5; 0; 0; 0; 7]%N.
Definition ex_fb : bytes := ex_b ++ [5; 0; 0; 0]%N.
Definition ex_short : bytes := [1; 2; 3]%N.
Definition ex_inner : inner :=
  mkInner [Item ex_fb; Item ex_short; RxPending; Item ex_fa; Item ex_fa; RxEnd] [] [] [] [].
Definition ex_calls : list (call * nat) :=
  [ (CRecv ex_a 5, 1%nat);          (* parks fb, drops the short frame, hits Pending, is DROPPED *)
    (CRecv ex_a 5, 2%nat);          (* reissued: returns the first fa *)
    (CNext, 1%nat);                 (* the parked fb comes out of the buffer *)
    (CWait (id_pred ex_a), 1%nat);  (* the duplicate fa *)
    (CNext, 1%nat) ].               (* inner relay is at its End *)

Example ex_run :
  fst (run ex_calls (init ex_inner)) = [RCancelled; RSome ex_fa; RSome ex_fb; RSome ex_fa; RNone]
  /\ in_buf (snd (run ex_calls (init ex_inner))) = []
  /\ in_buf (snd (run (firstn 1 ex_calls) (init ex_inner))) = [ex_fb].
Proof. vm_compute. repeat split. Qed.
