(** C20, part 2 (stdlib style): the imperative loops of Model/Matrix.v on a well-shaped n x n matrix,
    described through the entry function [ent m j k].  No arithmetic facts are needed here: every
    lemma says "the loop returns [Val m'], [m'] is well-shaped, and its entries are ... of the
    entries of [m]". *)
From Coq Require Import ZArith Lia List Bool Arith.
From SL Require Import Lib.Base Model.Matrix.
Local Open Scope nat_scope.

Definition ent (m : mat) (j k : nat) : Z := nth k (nth j m []) 0%Z.

Definition wf_shape (n : nat) (m : mat) : Prop :=
  length m = n /\ forall j, j < n -> length (nth j m []) = n.

(** ** list_set *)
Lemma list_set_length {A} (l : list A) i x : length (list_set l i x) = length l.
Proof. revert i; induction l as [|y r IH]; intros [|i]; cbn; auto. Qed.

Lemma nth_list_set {A} (l : list A) i x j d : i < length l ->
  nth j (list_set l i x) d = if j =? i then x else nth j l d.
Proof.
  revert i j; induction l as [|y r IH]; intros i j H; cbn in H; [lia|].
  destruct i as [|i], j as [|j]; cbn; auto.
  apply IH. lia.
Qed.

Lemma nth_error_lt {A} (l : list A) i d : i < length l -> nth_error l i = Some (nth i l d).
Proof. intros; apply nth_error_nth'; auto. Qed.

(** ** cells *)
Lemma mget_wf n m j k : wf_shape n m -> j < n -> k < n -> mget m j k = Val (ent m j k).
Proof.
  intros [L R] Hj Hk. unfold mget, ent.
  rewrite (nth_error_lt m j []) by lia.
  rewrite (nth_error_lt (nth j m []) k 0%Z) by (rewrite R; lia). reflexivity.
Qed.

Lemma mset_wf n m j k x : wf_shape n m -> j < n -> k < n ->
  exists m', mset m j k x = Val m' /\ wf_shape n m' /\
    forall j' k', ent m' j' k' = if (j' =? j) && (k' =? k) then x else ent m j' k'.
Proof.
  intros [L R] Hj Hk. unfold mset.
  rewrite (nth_error_lt m j []) by lia.
  assert (Hl : length (nth j m []) = n) by (apply R; lia).
  assert (Hlt : (k <? length (nth j m [])) = true) by (apply Nat.ltb_lt; lia).
  rewrite Hlt. eexists; split; [reflexivity|]. split.
  - split; [rewrite list_set_length; exact L|].
    intros j' Hj'. rewrite nth_list_set by lia.
    destruct (j' =? j); [rewrite list_set_length; exact Hl|apply R; exact Hj'].
  - intros j' k'. unfold ent. rewrite nth_list_set by lia.
    destruct (Nat.eqb_spec j' j) as [->|NE]; cbn [andb]; [|reflexivity].
    rewrite nth_list_set by lia. reflexivity.
Qed.

Definition swap_idx (i r j : nat) : nat := if j =? r then i else if j =? i then r else j.

Lemma swap_rows_wf n m i r : wf_shape n m -> i < n -> r < n ->
  exists m', swap_rows m i r = Val m' /\ wf_shape n m' /\
    forall j k, ent m' j k = ent m (swap_idx i r j) k.
Proof.
  intros [L R] Hi Hr. unfold swap_rows.
  rewrite (nth_error_lt m i []), (nth_error_lt m r []) by lia.
  eexists; split; [reflexivity|]. split.
  - split; [rewrite !list_set_length; exact L|].
    intros j Hj. rewrite nth_list_set by (rewrite list_set_length; lia).
    destruct (j =? r); [apply R; lia|].
    rewrite nth_list_set by lia. destruct (j =? i); apply R; lia.
  - intros j k. unfold ent, swap_idx.
    rewrite nth_list_set by (rewrite list_set_length; lia).
    destruct (j =? r); [reflexivity|].
    rewrite nth_list_set by lia. destruct (j =? i); reflexivity.
Qed.

(** ** one cell of the elimination *)
Definition scale_apply (q : Z) (sc : scale) (v : Z) : Z :=
  match sc with ScaleBy inv => zq_mul q v inv | _ => v end.
Definition cellv (q : Z) (sc : scale) (mjk mii mji mik : Z) : Z :=
  scale_apply q sc (zq_sub q (zq_mul q mjk mii) (zq_mul q mji mik)).
(* new value of entry (j,k) in step i, as a function of the old entries *)
Definition elimv (q : Z) (sc : scale) (i : nat) (e : nat -> nat -> Z) (j k : nat) : Z :=
  cellv q sc (e j k) (e i i) (e j i) (e i k).

Lemma elim_cell_wf q n i sc m j k : wf_shape n m -> i < n -> j < n -> k < n -> sc <> NoInverse ->
  exists m', elim_cell q i sc m j k = Val m' /\ wf_shape n m' /\
    forall j' k', ent m' j' k' = if (j' =? j) && (k' =? k) then elimv q sc i (ent m) j k else ent m j' k'.
Proof.
  intros W Hi Hj Hk Hsc. unfold elim_cell.
  rewrite !(mget_wf n) by auto. cbn [obind].
  destruct (mset_wf n m j k (zq_sub q (zq_mul q (ent m j k) (ent m i i)) (zq_mul q (ent m j i) (ent m i k))) W Hj Hk)
    as (m1 & E1 & W1 & X1).
  rewrite E1. cbn [obind].
  destruct sc as [| |inv]; [| congruence |].
  - exists m1. split; [reflexivity|]. split; [exact W1|]. exact X1.
  - rewrite (mget_wf n) by auto. cbn [obind].
    destruct (mset_wf n m1 j k (zq_mul q (ent m1 j k) inv) W1 Hj Hk) as (m2 & E2 & W2 & X2).
    exists m2. split; [exact E2|]. split; [exact W2|].
    intros j' k'. rewrite X2, !X1. rewrite !Nat.eqb_refl. cbn [andb].
    destruct ((j' =? j) && (k' =? k)); reflexivity.
Qed.

(** ** the k loop (one row) and the j loop *)
Section Elim.
Variable q : Z.
Variable n i : nat.
Variable sc : scale.
Hypothesis Hi : i < n.
Hypothesis Hsc : sc <> NoInverse.

Lemma elim_row_wf j ks : j < n -> j <> i -> NoDup ks -> (forall k, In k ks -> i < k < n) ->
  forall m, wf_shape n m ->
  exists m', ofold (fun mx k => elim_cell q i sc mx j k) ks m = Val m' /\ wf_shape n m' /\
    (forall k, In k ks -> ent m' j k = elimv q sc i (ent m) j k) /\
    (forall j' k', ~ (j' = j /\ In k' ks) -> ent m' j' k' = ent m j' k').
Proof.
  intros Hj Hji. induction ks as [|k ks IH]; intros ND Hks m W.
  - exists m. cbn [ofold]. split; [reflexivity|]. split; [exact W|]. split; [intros k []|reflexivity].
  - inversion ND as [|? ? Hnin ND']; subst.
    assert (Hk : i < k < n) by (apply Hks; left; reflexivity).
    destruct (elim_cell_wf q n i sc m j k W Hi Hj ltac:(lia) Hsc) as (m1 & E1 & W1 & X1).
    destruct (IH ND' (fun k' H => Hks k' (or_intror H)) m1 W1) as (m' & E' & W' & A & B).
    exists m'. cbn [ofold]. rewrite E1. cbn [obind]. split; [exact E'|]. split; [exact W'|]. split.
    + intros k' [<-|Hin].
      * rewrite B by (intros [_ H]; contradiction). rewrite X1, !Nat.eqb_refl. reflexivity.
      * rewrite A by exact Hin. unfold elimv. rewrite !X1.
        assert (k' <> k) by (intros ->; contradiction).
        assert (i < k' < n) by (apply Hks; right; exact Hin).
        replace (k' =? k) with false by (symmetry; apply Nat.eqb_neq; lia).
        replace (i =? j) with false by (symmetry; apply Nat.eqb_neq; lia).
        replace (i =? k) with false by (symmetry; apply Nat.eqb_neq; lia).
        rewrite !andb_false_r. cbn [andb]. reflexivity.
    + intros j' k' Hn. rewrite B by (intros [? ?]; apply Hn; split; [assumption|right; assumption]).
      rewrite X1. destruct (Nat.eqb_spec j' j) as [->|?]; [|reflexivity].
      destruct (Nat.eqb_spec k' k) as [->|?]; [|reflexivity].
      exfalso. apply Hn. split; [reflexivity|left; reflexivity].
Qed.

Lemma elim_rows_wf ks js : NoDup ks -> (forall k, In k ks -> i < k < n) ->
  NoDup js -> (forall j, In j js -> i < j < n) ->
  forall m, wf_shape n m ->
  exists m', ofold (fun mx j => ofold (fun mx k => elim_cell q i sc mx j k) ks mx) js m = Val m' /\
    wf_shape n m' /\
    (forall j k, In j js -> In k ks -> ent m' j k = elimv q sc i (ent m) j k) /\
    (forall j k, ~ (In j js /\ In k ks) -> ent m' j k = ent m j k).
Proof.
  intros NDk Hks. induction js as [|j js IH]; intros ND Hjs m W.
  - exists m. cbn [ofold]. split; [reflexivity|]. split; [exact W|]. split; [intros j k []|reflexivity].
  - inversion ND as [|? ? Hnin ND']; subst.
    assert (Hj : i < j < n) by (apply Hjs; left; reflexivity).
    destruct (elim_row_wf j ks ltac:(lia) ltac:(lia) NDk Hks m W) as (m1 & E1 & W1 & A1 & B1).
    destruct (IH ND' (fun j' H => Hjs j' (or_intror H)) m1 W1) as (m' & E' & W' & A & B).
    exists m'. cbn [ofold]. rewrite E1. cbn [obind]. split; [exact E'|]. split; [exact W'|]. split.
    + intros j' k [<-|Hin] Hk.
      * rewrite B by (intros [H _]; contradiction). apply A1. exact Hk.
      * rewrite A by assumption. unfold elimv.
        assert (j' <> j) by (intros ->; contradiction).
        assert (i < j' < n) by (apply Hjs; right; exact Hin).
        rewrite !B1; [reflexivity| | | |]; intros [? ?]; lia.
    + intros j' k Hn. rewrite B by (intros [? ?]; apply Hn; split; [right; assumption|assumption]).
      apply B1. intros [-> ?]. apply Hn. split; [left; reflexivity|assumption].
Qed.
End Elim.

Lemma in_range_after i n k : In k (range_after i n) <-> i < k < n.
Proof. unfold range_after. rewrite in_seq. lia. Qed.

Lemma eliminate_wf q n i sc m : wf_shape n m -> i < n -> sc <> NoInverse ->
  exists m', eliminate q n i sc m = Val m' /\ wf_shape n m' /\
    forall j k, ent m' j k =
      if (i <? j) && (j <? n) && ((i <? k) && (k <? n)) then elimv q sc i (ent m) j k else ent m j k.
Proof.
  intros W Hi Hsc. unfold eliminate.
  destruct (elim_rows_wf q n i sc Hi Hsc (range_after i n) (range_after i n)) with (m := m)
    as (m' & E & W' & A & B); try (apply seq_NoDup); try (intros ? H; apply in_range_after in H; exact H); auto.
  exists m'. split; [exact E|]. split; [exact W'|].
  intros j k.
  destruct (Nat.ltb_spec i j), (Nat.ltb_spec j n), (Nat.ltb_spec i k), (Nat.ltb_spec k n); cbn [andb];
    try (apply B; rewrite !in_range_after; lia).
  apply A; apply in_range_after; lia.
Qed.

(** ** pivot search *)
Lemma find_pivot_wf n m i cands : wf_shape n m -> i < n -> (forall r, In r cands -> r < n) ->
  (find_pivot m i cands = Val None /\ forall r, In r cands -> ent m r i = 0%Z) \/
  (exists r, find_pivot m i cands = Val (Some r) /\ In r cands /\ ent m r i <> 0%Z).
Proof.
  intros W Hi. induction cands as [|r rest IH]; intros Hc.
  - left. split; [reflexivity|intros r []].
  - cbn [find_pivot]. rewrite (mget_wf n) by (auto; apply Hc; left; reflexivity). cbn [obind].
    unfold zq_is_zero. destruct (Z.eqb_spec (ent m r i) 0) as [E|NE].
    + destruct (IH (fun r' H => Hc r' (or_intror H))) as [[E' Z']|(r' & E' & I' & N')].
      * left. split; [exact E'|]. intros r' [<-|H]; auto.
      * right. exists r'. split; [exact E'|]. split; [right; exact I'|exact N'].
    + right. exists r. split; [reflexivity|]. split; [left; reflexivity|exact NE].
Qed.

Lemma pivot_wf q n i m s : wf_shape n m -> i < n ->
  exists m' s', pivot q n i m s = Val (m', s') /\ wf_shape n m' /\
    ((m' = m /\ s' = s /\ ent m i i <> 0%Z) \/
     (m' = m /\ s' = s /\ ent m i i = 0%Z /\ forall r, i < r < n -> ent m r i = 0%Z) \/
     (exists r, i < r < n /\ ent m i i = 0%Z /\ ent m r i <> 0%Z /\ s' = zq_neg q s /\
        forall j k, ent m' j k = ent m (swap_idx i r j) k)).
Proof.
  intros W Hi. unfold pivot. rewrite (mget_wf n) by auto. cbn [obind].
  unfold zq_is_zero. destruct (Z.eqb_spec (ent m i i) 0) as [E|NE].
  - destruct (find_pivot_wf n m i (range_after i n) W Hi) as [[E' Z']|(r & E' & I' & N')].
    + intros r H. apply in_range_after in H. lia.
    + rewrite E'. cbn [obind]. exists m, s. split; [reflexivity|]. split; [exact W|].
      right; left. repeat split; auto. intros r H. apply Z'. apply in_range_after. exact H.
    + rewrite E'. cbn [obind]. apply in_range_after in I'.
      destruct (swap_rows_wf n m i r W Hi ltac:(lia)) as (m' & Es & W' & X).
      rewrite Es. cbn [obind]. exists m', (zq_neg q s). split; [reflexivity|]. split; [exact W'|].
      right; right. exists r. repeat split; auto; lia.
  - exists m, s. split; [reflexivity|]. split; [exact W|]. left. auto.
Qed.

(** ** transpose *)
Lemma swap_cell_wf n m a b : wf_shape n m -> a < n -> b < n ->
  exists m', swap_cell m a b = Val m' /\ wf_shape n m' /\
    forall j k, ent m' j k =
      if (j =? b) && (k =? a) then ent m a b
      else if (j =? a) && (k =? b) then ent m b a else ent m j k.
Proof.
  intros W Ha Hb. unfold swap_cell.
  assert (L : (a + 1 <=? length m) = true) by (apply Nat.leb_le; destruct W as [-> _]; lia).
  rewrite L, !(mget_wf n) by auto. cbn [obind].
  destruct (mset_wf n m a b (ent m b a) W Ha Hb) as (m1 & E1 & W1 & X1).
  rewrite E1. cbn [obind].
  destruct (mset_wf n m1 b a (ent m a b) W1 Hb Ha) as (m2 & E2 & W2 & X2).
  exists m2. split; [exact E2|]. split; [exact W2|].
  intros j k. rewrite X2, X1. reflexivity.
Qed.

Lemma transpose_row_wf n a bs : a < n -> NoDup bs -> (forall b, In b bs -> a < b < n) ->
  forall m, wf_shape n m ->
  exists m', ofold (fun v b => swap_cell v a b) bs m = Val m' /\ wf_shape n m' /\
    (forall b, In b bs -> ent m' a b = ent m b a /\ ent m' b a = ent m a b) /\
    (forall j k, ~ (j = a /\ In k bs) -> ~ (k = a /\ In j bs) -> ent m' j k = ent m j k).
Proof.
  intros Ha. induction bs as [|b bs IH]; intros ND Hbs m W.
  - exists m. cbn [ofold]. split; [reflexivity|]. split; [exact W|]. split; [intros b []|reflexivity].
  - inversion ND as [|? ? Hnin ND']; subst.
    assert (Hb : a < b < n) by (apply Hbs; left; reflexivity).
    destruct (swap_cell_wf n m a b W Ha ltac:(lia)) as (m1 & E1 & W1 & X1).
    destruct (IH ND' (fun b' H => Hbs b' (or_intror H)) m1 W1) as (m' & E' & W' & A & B).
    exists m'. cbn [ofold]. rewrite E1. cbn [obind]. split; [exact E'|]. split; [exact W'|]. split.
    + intros b' [<-|Hin].
      * rewrite !B by (intros [? ?]; try contradiction; lia).
        rewrite !X1, !Nat.eqb_refl. cbn [andb].
        replace (a =? b) with false by (symmetry; apply Nat.eqb_neq; lia). cbn [andb]. auto.
      * destruct (A b' Hin) as [A1 A2]. rewrite A1, A2, !X1.
        assert (b' <> b) by (intros ->; contradiction).
        assert (a < b' < n) by (apply Hbs; right; exact Hin).
        replace (b' =? b) with false by (symmetry; apply Nat.eqb_neq; lia).
        replace (a =? b) with false by (symmetry; apply Nat.eqb_neq; lia).
        replace (b' =? a) with false by (symmetry; apply Nat.eqb_neq; lia).
        rewrite ?andb_false_r. cbn [andb]. auto.
    + intros j k H1 H2.
      rewrite B by (intros [? ?]; first [solve [apply H1; split; [assumption|right; assumption]]
                                        |solve [apply H2; split; [assumption|right; assumption]]]).
      rewrite X1.
      destruct (Nat.eqb_spec j b) as [->|?], (Nat.eqb_spec k a) as [->|?]; cbn [andb].
      * exfalso. apply H2. split; [reflexivity|left; reflexivity].
      * destruct (Nat.eqb_spec b a); [lia|]. reflexivity.
      * destruct (Nat.eqb_spec j a) as [->|?], (Nat.eqb_spec a b) as [?|?]; cbn [andb]; try reflexivity; lia.
      * destruct (Nat.eqb_spec j a) as [->|?], (Nat.eqb_spec k b) as [->|?]; cbn [andb]; try reflexivity.
        exfalso. apply H1. split; [reflexivity|left; reflexivity].
Qed.

Definition tr_cond (l : list nat) (j k : nat) : Prop := (j < k /\ In j l) \/ (k < j /\ In k l).

Lemma transpose_rows_wf n l : NoDup l -> (forall a, In a l -> a < n) ->
  forall m, wf_shape n m ->
  exists m', ofold (fun v a => if a + 1 <=? length v
                               then ofold (fun v b => swap_cell v a b) (range_after a n) v
                               else Panic P_INDEX) l m = Val m' /\ wf_shape n m' /\
    forall j k, j < n -> k < n ->
      (tr_cond l j k -> ent m' j k = ent m k j) /\ (~ tr_cond l j k -> ent m' j k = ent m j k).
Proof.
  induction l as [|a l IH]; intros ND Hl m W.
  - exists m. cbn [ofold]. split; [reflexivity|]. split; [exact W|].
    intros j k _ _. split; [|reflexivity]. intros [[_ []]|[_ []]].
  - inversion ND as [|? ? Hnin ND']; subst.
    assert (Ha : a < n) by (apply Hl; left; reflexivity).
    destruct (transpose_row_wf n a (range_after a n) Ha (seq_NoDup _ _)
                (fun b H => proj1 (in_range_after a n b) H) m W) as (m1 & E1 & W1 & A1 & B1).
    destruct (IH ND' (fun a' H => Hl a' (or_intror H)) m1 W1) as (m' & E' & W' & X).
    exists m'. cbn [ofold].
    assert (L : (a + 1 <=? length m) = true) by (apply Nat.leb_le; destruct W as [-> _]; lia).
    rewrite L, E1. cbn [obind]. split; [exact E'|]. split; [exact W'|].
    intros j k Hj Hk. destruct (X j k Hj Hk) as [X1 X2].
    (* facts about m1 *)
    assert (T1 : forall j k, j < n -> k < n -> a < k -> j = a -> ent m1 j k = ent m k j).
    { intros ? ? ? ? ? ->. apply A1. apply in_range_after. lia. }
    assert (T2 : forall j k, j < n -> k < n -> a < j -> k = a -> ent m1 j k = ent m k j).
    { intros ? ? ? ? ? ->. apply A1. apply in_range_after. lia. }
    assert (T3 : forall j k, ~ (j = a /\ a < k < n) -> ~ (k = a /\ a < j < n) -> ent m1 j k = ent m j k).
    { intros ? ? H1 H2. apply B1; rewrite in_range_after; assumption. }
    assert (D : {tr_cond l j k} + {~ tr_cond l j k}).
    { unfold tr_cond.
      destruct (lt_dec j k), (lt_dec k j), (in_dec Nat.eq_dec j l), (in_dec Nat.eq_dec k l);
        try (left; lia || (left; split; assumption) || (right; split; assumption));
        try (left; left; split; assumption); try (left; right; split; assumption);
        right; intros [[? ?]|[? ?]]; try contradiction; lia. }
    split.
    + intros C. destruct D as [C'|NC'].
      * rewrite X1 by exact C'. apply T3; destruct C' as [[? ?]|[? ?]]; intros [? ?]; subst; try lia; contradiction.
      * rewrite X2 by exact NC'.
        destruct C as [[Hlt [<-|Hin]]|[Hlt [<-|Hin]]].
        -- apply T1; auto.
        -- exfalso. apply NC'. left. split; assumption.
        -- apply T2; auto.
        -- exfalso. apply NC'. right. split; assumption.
    + intros NC. rewrite X2.
      * apply T3; intros [-> ?]; apply NC; [left|right]; (split; [lia|left; reflexivity]).
      * intros [[? ?]|[? ?]]; apply NC; [left|right]; (split; [assumption|right; assumption]).
Qed.

Lemma transpose_wf n m : 0 < n -> wf_shape n m ->
  exists m', transpose m = Val m' /\ wf_shape n m' /\
    forall j k, j < n -> k < n -> ent m' j k = ent m k j.
Proof.
  intros Hn W. unfold transpose.
  destruct m as [|r0 rest] eqn:Em; [destruct W as [L _]; cbn in L; lia|].
  assert (L0 : length r0 = n).
  { destruct W as [_ R]. apply (R 0 Hn). }
  rewrite L0. replace (n =? 0) with false by (symmetry; apply Nat.eqb_neq; lia).
  rewrite <- Em in *.
  destruct (transpose_rows_wf n (seq 0 (n - 1)) (seq_NoDup _ _)) with (m := m) as (m' & E & W' & X).
  - intros a H. apply in_seq in H. lia.
  - exact W.
  - exists m'. split; [exact E|]. split; [exact W'|].
    intros j k Hj Hk. destruct (X j k Hj Hk) as [X1 X2].
    destruct (Nat.eq_dec j k) as [->|NE].
    + apply X2. intros [[? _]|[? _]]; lia.
    + apply X1. unfold tr_cond. rewrite !in_seq. lia.
Qed.

(** ** minors, tabulation, maps *)
Definition bump (r j : nat) : nat := if j <? r then j else S j.

Lemma remove_nth_length {A} (l : list A) i : i < length l -> length (remove_nth i l) = length l - 1.
Proof.
  revert i; induction l as [|x r IH]; intros i H; cbn in H; [lia|].
  destruct i as [|i]; cbn; [lia|]. rewrite IH by lia. destruct r; cbn in *; lia.
Qed.

Lemma bump_SS r j : bump (S r) (S j) = S (bump r j).
Proof. unfold bump. destruct (Nat.ltb_spec (S j) (S r)), (Nat.ltb_spec j r); try reflexivity; lia. Qed.

Lemma nth_remove_nth {A} (l : list A) i j d : nth j (remove_nth i l) d = nth (bump i j) l d.
Proof.
  revert i j; induction l as [|x r IH]; intros i j.
  - cbn. destruct i; destruct (bump _ j); destruct j; reflexivity.
  - destruct i as [|i]; cbn [remove_nth].
    + reflexivity.
    + destruct j as [|j]; [reflexivity|]. rewrite bump_SS. cbn [nth]. apply IH.
Qed.

Lemma matrix_minor_wf n m r c : wf_shape (S n) m -> r < S n -> c < S n ->
  wf_shape n (matrix_minor m r c) /\
  forall j k, ent (matrix_minor m r c) j k = ent m (bump r j) (bump c k).
Proof.
  intros [L R] Hr Hc. unfold matrix_minor.
  assert (N : forall j, nth j (map (remove_nth c) (remove_nth r m)) [] = remove_nth c (nth (bump r j) m [])).
  { intros j. assert (E0 : remove_nth c (@nil Z) = []) by (destruct c; reflexivity).
    transitivity (nth j (map (remove_nth c) (remove_nth r m)) (remove_nth c [])); [rewrite E0; reflexivity|].
    rewrite map_nth, nth_remove_nth. reflexivity. }
  split.
  - split.
    + rewrite map_length, remove_nth_length by lia. lia.
    + intros j Hj. rewrite N. rewrite remove_nth_length; rewrite R; try lia; unfold bump; destruct (j <? r); lia.
  - intros j k. unfold ent. rewrite N, nth_remove_nth. reflexivity.
Qed.

Definition mtab (n : nat) (g : nat -> nat -> Z) : mat :=
  map (fun r => map (fun c => g r c) (seq 0 n)) (seq 0 n).

Lemma nth_map_seq {B} (f : nat -> B) n j d : j < n -> nth j (map f (seq 0 n)) d = f j.
Proof.
  intros H. rewrite (nth_indep _ d (f 0)) by (rewrite map_length, seq_length; lia).
  rewrite (map_nth f), seq_nth by lia. reflexivity.
Qed.

Lemma mtab_wf n g : wf_shape n (mtab n g) /\ forall j k, j < n -> k < n -> ent (mtab n g) j k = g j k.
Proof.
  unfold mtab. split; [split|].
  - rewrite map_length, seq_length. reflexivity.
  - intros j Hj. rewrite nth_map_seq by lia. rewrite map_length, seq_length. reflexivity.
  - intros j k Hj Hk. unfold ent. rewrite nth_map_seq by lia. rewrite nth_map_seq by lia. reflexivity.
Qed.

Lemma omapi_val {A B} (f : nat -> A -> outcome B) (g : nat -> B) (d : A) l : forall i0,
  (forall t, t < length l -> f (i0 + t) (nth t l d) = Val (g (i0 + t))) ->
  omapi f i0 l = Val (map g (seq i0 (length l))).
Proof.
  induction l as [|a l IH]; intros i0 H; [reflexivity|].
  cbn [omapi length seq map].
  pose proof (H 0 ltac:(cbn; lia)) as H0. rewrite Nat.add_0_r in H0. cbn [nth] in H0.
  rewrite H0. cbn [obind]. rewrite IH; [reflexivity|].
  intros t Ht. replace (S i0 + t) with (i0 + S t) by lia. apply (H (S t)). cbn; lia.
Qed.

Lemma cofactors_wf q n m g : wf_shape n m ->
  (forall r c, r < n -> c < n -> cofactor_cell q m r c = Val (g r c)) ->
  cofactors q m = Val (mtab n g).
Proof.
  intros [L R] H. unfold cofactors, mtab.
  rewrite (omapi_val _ (fun r => map (fun c => g r c) (seq 0 n)) []), L; [reflexivity|].
  intros t Ht. rewrite L in Ht. cbn [Nat.add].
  rewrite (omapi_val _ (fun c => g t c) 0%Z).
  - rewrite R by lia. reflexivity.
  - intros t' Ht'. rewrite R in Ht' by lia. cbn [Nat.add]. apply H; lia.
Qed.

Lemma map_map_wf n m (f : Z -> Z) : wf_shape n m ->
  wf_shape n (map (map f) m) /\ forall j k, j < n -> k < n -> ent (map (map f) m) j k = f (ent m j k).
Proof.
  intros [L R].
  assert (N : forall j, nth j (map (map f) m) [] = map f (nth j m [])).
  { intros j. change (@nil Z) with (map f (@nil Z)) at 1. apply map_nth. }
  split; [split|].
  - rewrite map_length. exact L.
  - intros j Hj. rewrite N, map_length. apply R. exact Hj.
  - intros j k Hj Hk. unfold ent. rewrite N.
    rewrite (nth_indep _ 0%Z (f 0%Z)) by (rewrite map_length, R; lia).
    apply map_nth.
Qed.

(** ** top level of the determinant *)
Lemma bareiss_unfold q n m : 0 < n -> wf_shape n m ->
  bareiss q m n = bareiss_steps q n (seq 0 (n - 1)) m 1%Z.
Proof.
  intros Hn [L R]. unfold bareiss.
  replace (n =? 0) with false by (symmetry; apply Nat.eqb_neq; lia). cbn [andb].
  rewrite L, Nat.eqb_refl. cbn [negb].
  destruct m as [|r0 rest]; [cbn in L; lia|].
  pose proof (R 0 Hn) as R0. cbn [nth] in R0. rewrite R0, Nat.eqb_refl. reflexivity.
Qed.

Lemma bareiss_empty q m : wf_shape 0 m -> bareiss q m 0 = Val 1%Z.
Proof. intros [L _]. destruct m; [reflexivity|discriminate]. Qed.

Lemma wf_mat_shape q n m : wf_mat q n m -> wf_shape n m.
Proof.
  intros [L F]. split; [exact L|]. intros j Hj.
  rewrite Forall_forall in F. apply (F (nth j m [])). apply nth_In. lia.
Qed.

Lemma wf_mat_range q n m j k : wf_mat q n m -> j < n -> k < n -> (0 <= ent m j k < q)%Z.
Proof.
  intros [L F] Hj Hk. rewrite Forall_forall in F.
  destruct (F (nth j m []) ltac:(apply nth_In; lia)) as [Lr Fr].
  rewrite Forall_forall in Fr. apply Fr. apply nth_In. lia.
Qed.

Lemma wf_mat_intro q n m : wf_shape n m -> (forall j k, j < n -> k < n -> (0 <= ent m j k < q)%Z) ->
  wf_mat q n m.
Proof.
  intros [L R] H. split; [exact L|]. apply Forall_forall. intros r Hr.
  destruct (In_nth m r [] Hr) as (j & Hj & <-).
  split; [apply R; lia|]. apply Forall_forall. intros x Hx.
  destruct (In_nth _ x 0%Z Hx) as (k & Hk & <-). apply H; [lia|]. rewrite R in Hk; lia.
Qed.

(** ** list-level product and identity (for the list form of the inverse theorem) *)
Lemma nth_map_lt {A B} (f : A -> B) l i d d' : i < length l -> nth i (map f l) d' = f (nth i l d).
Proof.
  intros H. rewrite (nth_indep _ d' (f d)) by (rewrite map_length; exact H). apply map_nth.
Qed.

Lemma mat_mul_wf q n a b : 0 < n -> wf_shape n a -> wf_shape n b ->
  wf_shape n (mat_mul q a b) /\
  forall j k, j < n -> k < n -> ent (mat_mul q a b) j k = dot q (nth j a []) (mat_col k b).
Proof.
  intros Hn [La Ra] [Lb Rb]. unfold mat_mul.
  assert (H0 : length (hd [] b) = n).
  { destruct b as [|r0 rest]; [cbn in Lb; lia|]. apply (Rb 0 Hn). }
  rewrite H0. split; [split|].
  - rewrite map_length. exact La.
  - intros j Hj. rewrite (nth_map_lt _ a j []) by lia. rewrite map_length, seq_length. reflexivity.
  - intros j k Hj Hk. unfold ent. rewrite (nth_map_lt _ a j []) by lia.
    rewrite nth_map_seq by lia. reflexivity.
Qed.

Lemma mat_col_nth n b k i : wf_shape n b -> i < n -> nth i (mat_col k b) 0%Z = ent b i k.
Proof.
  intros [L _] Hi. unfold mat_col, ent.
  rewrite (nth_map_lt (fun r => nth k r 0%Z) b i []) by lia. reflexivity.
Qed.

Lemma mat_col_length n b k : wf_shape n b -> length (mat_col k b) = n.
Proof. intros [L _]. unfold mat_col. rewrite map_length. exact L. Qed.

Lemma mat_id_wf n : wf_shape n (mat_id n) /\
  forall j k, j < n -> k < n -> ent (mat_id n) j k = if j =? k then 1%Z else 0%Z.
Proof. apply (mtab_wf n (fun i j => if i =? j then 1%Z else 0%Z)). Qed.

Lemma ent_ext n a b : wf_shape n a -> wf_shape n b ->
  (forall j k, j < n -> k < n -> ent a j k = ent b j k) -> a = b.
Proof.
  intros [La Ra] [Lb Rb] H. apply (nth_ext a b [] []); [lia|].
  intros j Hj. apply (nth_ext _ _ 0%Z 0%Z); [rewrite Ra, Rb; lia|].
  intros k Hk. apply H; [lia|]. rewrite Ra in Hk; lia.
Qed.
