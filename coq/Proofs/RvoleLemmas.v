(** Generic lemmas for the RVOLE proofs: congruences mod q as a setoid, finite sums, byte codecs. *)
From SL Require Import Lib.Base Lib.Oracle Gen.Params Model.RvoleCore.
From Coq Require Import Zdiv Setoid Morphisms.
Local Open Scope Z_scope.

(* ------------------------------------------------------------------ congruence mod q *)
(** An inductive wrapper (not a transparent definition) so that [rewrite] treats it as a setoid
    relation instead of unfolding it to an equation. *)
Inductive eqmod (q a b : Z) : Prop := eqmod_intro : a mod q = b mod q -> eqmod q a b.

Lemma eqmod_elim q a b : eqmod q a b -> a mod q = b mod q.
Proof. intros []; assumption. Qed.
Lemma eqmod_iff q a b : eqmod q a b <-> a mod q = b mod q.
Proof. split; [apply eqmod_elim|apply eqmod_intro]. Qed.

Global Instance eqmod_equiv q : Equivalence (eqmod q).
Proof. split; red; intros *; rewrite ?eqmod_iff; congruence. Qed.
Global Instance eqmod_add q : Proper (eqmod q ==> eqmod q ==> eqmod q) Z.add.
Proof. intros a b E c d F. rewrite eqmod_iff in *. rewrite (Zplus_mod a c), (Zplus_mod b d), E, F. reflexivity. Qed.
Global Instance eqmod_sub q : Proper (eqmod q ==> eqmod q ==> eqmod q) Z.sub.
Proof. intros a b E c d F. rewrite eqmod_iff in *. rewrite (Zminus_mod a c), (Zminus_mod b d), E, F. reflexivity. Qed.
Global Instance eqmod_mul q : Proper (eqmod q ==> eqmod q ==> eqmod q) Z.mul.
Proof. intros a b E c d F. rewrite eqmod_iff in *. rewrite (Zmult_mod a c), (Zmult_mod b d), E, F. reflexivity. Qed.
Global Instance eqmod_opp q : Proper (eqmod q ==> eqmod q) Z.opp.
Proof. intros a b E. change (eqmod q (0 - a) (0 - b)). rewrite E. reflexivity. Qed.
Lemma eqmod_mod q a : eqmod q (a mod q) a.
Proof. apply eqmod_iff. apply Zmod_mod. Qed.
Lemma eqmod_ring q a b : a = b -> eqmod q a b.
Proof. intros ->. reflexivity. Qed.

(** strip every inner [mod q] of a goal [x mod q = y mod q] / [eqmod q x y], then [ring] *)
Ltac zmod_strip := repeat (rewrite_strat (outermost eqmod_mod)).
Ltac zmod := try apply eqmod_elim; zmod_strip; apply eqmod_ring; ring.

(* ------------------------------------------------------------------ lists *)
Lemma nth_map_seq {A} (f : nat -> A) n i d : (i < n)%nat -> nth i (map f (seq 0 n)) d = f i.
Proof.
  intros L. rewrite nth_indep with (d' := f 0%nat) by (rewrite map_length, seq_length; lia).
  rewrite map_nth. rewrite seq_nth by lia. reflexivity.
Qed.

Lemma map_seq_ext {A} (f g : nat -> A) s n :
  (forall i, (s <= i < s + n)%nat -> f i = g i) -> map f (seq s n) = map g (seq s n).
Proof. intros E. apply map_ext_in. intros i I. apply in_seq in I. apply E. lia. Qed.

Lemma flat_map_seq_ext {A} (f g : nat -> list A) s n :
  (forall i, (s <= i < s + n)%nat -> f i = g i) -> flat_map f (seq s n) = flat_map g (seq s n).
Proof. intros E. rewrite !flat_map_concat_map. f_equal. apply map_seq_ext. exact E. Qed.

(* ------------------------------------------------------------------ finite sums *)
Lemma sum_upto_0 f : sum_upto 0 f = 0.
Proof. reflexivity. Qed.

Lemma sumZ_app l1 l2 : sumZ (l1 ++ l2) = sumZ l1 + sumZ l2.
Proof.
  induction l1 as [|x r IH]; [reflexivity|]. cbn [app].
  change (sumZ (x :: r ++ l2)) with (x + sumZ (r ++ l2)). change (sumZ (x :: r)) with (x + sumZ r). lia.
Qed.

Lemma sum_upto_S n f : sum_upto (S n) f = sum_upto n f + f n.
Proof.
  unfold sum_upto. rewrite seq_S, map_app, sumZ_app. cbn [map sumZ fold_right]. rewrite Nat.add_0_l. lia.
Qed.

Lemma sum_upto_ext n f g : (forall j, (j < n)%nat -> f j = g j) -> sum_upto n f = sum_upto n g.
Proof.
  induction n as [|n IH]; intros E; [reflexivity|]. rewrite !sum_upto_S.
  rewrite IH by (intros; apply E; lia). rewrite E by lia. reflexivity.
Qed.

Lemma sum_upto_eqmod q n f g :
  (forall j, (j < n)%nat -> eqmod q (f j) (g j)) -> eqmod q (sum_upto n f) (sum_upto n g).
Proof.
  induction n as [|n IH]; intros E; [reflexivity|]. rewrite !sum_upto_S.
  rewrite IH by (intros; apply E; lia). rewrite (E n) by lia. reflexivity.
Qed.

Lemma sum_upto_add n f g : sum_upto n (fun j => f j + g j) = sum_upto n f + sum_upto n g.
Proof. induction n as [|n IH]; [reflexivity|]. rewrite !sum_upto_S, IH. lia. Qed.

Lemma sum_upto_sub n f g : sum_upto n (fun j => f j - g j) = sum_upto n f - sum_upto n g.
Proof. induction n as [|n IH]; [reflexivity|]. rewrite !sum_upto_S, IH. lia. Qed.

Lemma sum_upto_mul_r n f c : sum_upto n (fun j => f j * c) = sum_upto n f * c.
Proof. induction n as [|n IH]; [reflexivity|]. rewrite !sum_upto_S, IH. lia. Qed.

Lemma sum_upto_mul_l n f c : sum_upto n (fun j => c * f j) = c * sum_upto n f.
Proof. induction n as [|n IH]; [cbn; lia|]. rewrite !sum_upto_S, IH. lia. Qed.

Lemma sum_upto_zero n f : (forall j, (j < n)%nat -> f j = 0) -> sum_upto n f = 0.
Proof.
  induction n as [|n IH]; intros E; [reflexivity|]. rewrite sum_upto_S, IH, E by (intros; try apply E; lia). lia.
Qed.

(* ------------------------------------------------------------------ byte codecs *)
Lemma of_le_to_le n v : of_le (to_le n v) = (v mod 256 ^ N.of_nat n)%N.
Proof.
  revert v. induction n as [|n IH]; intros v.
  - cbn [to_le of_le]. change (256 ^ N.of_nat 0)%N with 1%N. rewrite N.mod_1_r. reflexivity.
  - cbn [to_le of_le]. rewrite IH. rewrite Nnat.Nat2N.inj_succ, N.pow_succ_r'.
    rewrite N.mod_mul_r by (try apply N.pow_nonzero; discriminate). reflexivity.
Qed.

Lemma of_be_to_be n v : of_be (to_be n v) = (v mod 256 ^ N.of_nat n)%N.
Proof. unfold of_be, to_be. rewrite rev_involutive. apply of_le_to_le. Qed.

Lemma to_le_length n v : length (to_le n v) = n.
Proof. revert v; induction n; intros; cbn [to_le length]; [|rewrite IHn]; reflexivity. Qed.
Lemma to_be_length n v : length (to_be n v) = n.
Proof. unfold to_be. rewrite rev_length. apply to_le_length. Qed.

Lemma le_bytes_spec n v : le_bytes n v = to_le n v.
Proof.
  revert v. induction n as [|n IH]; intros v; cbn [le_bytes to_le]; [reflexivity|].
  rewrite IH. f_equal.
  - change 255%N with (N.ones 8). apply N.land_ones.
  - f_equal. apply N.shiftr_div_pow2.
Qed.
Lemma be_bytes_spec n v : be_bytes n v = to_be n v.
Proof. unfold be_bytes, to_be. rewrite le_bytes_spec. reflexivity. Qed.

Lemma fmod_spec q v : fmod q v = v mod q.
Proof.
  unfold fmod.
  destruct (Z.leb_spec 0 v) as [P|Ng].
  - destruct (Z.ltb_spec v q) as [L|G]; [symmetry; apply Z.mod_small; lia|].
    cbv zeta. destruct (Z.ltb_spec (v - q) q) as [L1|G1]; [|reflexivity].
    apply Z.mod_unique with (q := 1); lia.
  - cbv zeta. destruct (Z.leb_spec 0 (v + q)) as [P1|N1]; [|reflexivity].
    apply Z.mod_unique with (q := -1); lia.
Qed.

Lemma of_le_app a b : of_le (a ++ b) = (of_le a + 256 ^ N.of_nat (length a) * of_le b)%N.
Proof.
  induction a as [|x r IH]; cbn [app of_le length].
  - change (256 ^ N.of_nat 0)%N with 1%N. lia.
  - rewrite IH. rewrite Nnat.Nat2N.inj_succ, N.pow_succ_r'. lia.
Qed.

Lemma be_acc_spec l acc : be_acc l acc = (acc * 256 ^ N.of_nat (length l) + of_be l)%N.
Proof.
  revert acc. induction l as [|x r IH]; intros acc; cbn [be_acc length].
  - unfold of_be. cbn [rev of_le]. change (256 ^ N.of_nat 0)%N with 1%N. lia.
  - rewrite IH. unfold of_be. cbn [rev]. rewrite of_le_app. cbn [of_le]. rewrite rev_length.
    rewrite N.shiftl_mul_pow2. change (2 ^ 8)%N with 256%N.
    rewrite Nnat.Nat2N.inj_succ, N.pow_succ_r'. lia.
Qed.

Lemma reduce_be_spec q b : reduce_be q b = Z.of_N (of_be b) mod q.
Proof. unfold reduce_be. rewrite fmod_spec, be_acc_spec. rewrite N.mul_0_l, N.add_0_l. reflexivity. Qed.

Lemma dd_spec q beta vx at_ j k :
  dd q beta vx at_ j k = (alpha q vx j k + (if beta j then alpha q at_ j k else 0)) mod q.
Proof. unfold dd. apply fmod_spec. Qed.
Lemma scalar_bytes_spec q z : scalar_bytes q z = to_be 32 (Z.to_N (z mod q)).
Proof. unfold scalar_bytes. rewrite be_bytes_spec, fmod_spec. reflexivity. Qed.

Section Codec.
  Variable q : Z.
  Hypothesis q_range : 0 < q <= 2 ^ 256.

  Lemma reduce_scalar_bytes z : reduce_be q (scalar_bytes q z) = z mod q.
  Proof.
    rewrite reduce_be_spec, scalar_bytes_spec. rewrite of_be_to_be.
    assert (R : 0 <= z mod q < q) by (apply Z.mod_pos_bound; lia).
    rewrite N.mod_small.
    - rewrite Z2N.id by lia. apply Zmod_mod.
    - change (256 ^ N.of_nat 32)%N with (Z.to_N (2 ^ 256)). apply Z2N.inj_lt; lia.
  Qed.

  Lemma scalar_bytes_inj x y : scalar_bytes q x = scalar_bytes q y -> x mod q = y mod q.
  Proof. intros E. rewrite <- !reduce_scalar_bytes. rewrite E. reflexivity. Qed.

  Lemma reduce_be_range b : 0 <= reduce_be q b < q.
  Proof. rewrite reduce_be_spec. apply Z.mod_pos_bound. lia. Qed.
End Codec.

Lemma scalar_bytes_eqmod q x y : x mod q = y mod q -> scalar_bytes q x = scalar_bytes q y.
Proof. rewrite !scalar_bytes_spec. intros ->. reflexivity. Qed.
