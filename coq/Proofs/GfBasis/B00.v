From SL Require Import Lib.Base Model.ByteLang Model.Gf128 Gen.GfProg Proofs.GfBasisDef.
Lemma chunk_00 : basis_chunk 0 = true.
Proof. vm_compute. reflexivity. Qed.
