From SL Require Import Lib.Base Model.ByteLang Model.Gf128 Gen.GfProg Proofs.GfBasisDef.
Lemma chunk_10 : basis_chunk 10 = true.
Proof. vm_compute. reflexivity. Qed.
