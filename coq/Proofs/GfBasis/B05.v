From SL Require Import Lib.Base Model.ByteLang Model.Gf128 Gen.GfProg Proofs.GfBasisDef.
Lemma chunk_05 : basis_chunk 5 = true.
Proof. vm_compute. reflexivity. Qed.
