From SL Require Import Lib.Base Model.ByteLang Model.Gf128 Gen.GfProg Proofs.GfBasisDef.
Lemma chunk_15 : basis_chunk 15 = true.
Proof. vm_compute. reflexivity. Qed.
