From SL Require Import Lib.Base Model.ByteLang Model.Gf128 Gen.GfProg Proofs.GfBasisDef.
Lemma chunk_06 : basis_chunk 6 = true.
Proof. vm_compute. reflexivity. Qed.
