From SL Require Import Lib.Base Model.ByteLang Model.Gf128 Gen.GfProg Proofs.GfBasisDef.
Lemma chunk_04 : basis_chunk 4 = true.
Proof. vm_compute. reflexivity. Qed.
