From SL Require Import Lib.Base Model.ByteLang Model.Gf128 Gen.GfProg Proofs.GfBasisDef.
Lemma chunk_01 : basis_chunk 1 = true.
Proof. vm_compute. reflexivity. Qed.
