From SL Require Import Lib.Base Model.ByteLang Model.Gf128 Gen.GfProg Proofs.GfBasisDef.
Lemma chunk_02 : basis_chunk 2 = true.
Proof. vm_compute. reflexivity. Qed.
