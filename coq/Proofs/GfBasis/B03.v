From SL Require Import Lib.Base Model.ByteLang Model.Gf128 Gen.GfProg Proofs.GfBasisDef.
Lemma chunk_03 : basis_chunk 3 = true.
Proof. vm_compute. reflexivity. Qed.
