From SL Require Import Lib.Base Model.ByteLang Model.Gf128 Gen.GfProg Proofs.GfBasisDef.
Lemma chunk_07 : basis_chunk 7 = true.
Proof. vm_compute. reflexivity. Qed.
