From SL Require Import Lib.Base Model.ByteLang Model.Gf128 Gen.GfProg Proofs.GfBasisDef.
Lemma chunk_12 : basis_chunk 12 = true.
Proof. vm_compute. reflexivity. Qed.
