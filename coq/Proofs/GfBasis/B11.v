From SL Require Import Lib.Base Model.ByteLang Model.Gf128 Gen.GfProg Proofs.GfBasisDef.
Lemma chunk_11 : basis_chunk 11 = true.
Proof. vm_compute. reflexivity. Qed.
