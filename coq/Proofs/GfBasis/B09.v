From SL Require Import Lib.Base Model.ByteLang Model.Gf128 Gen.GfProg Proofs.GfBasisDef.
Lemma chunk_09 : basis_chunk 9 = true.
Proof. vm_compute. reflexivity. Qed.
