From SL Require Import Lib.Base Model.ByteLang Model.Gf128 Gen.GfProg Proofs.GfBasisDef.
Lemma chunk_13 : basis_chunk 13 = true.
Proof. vm_compute. reflexivity. Qed.
