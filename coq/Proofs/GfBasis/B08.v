From SL Require Import Lib.Base Model.ByteLang Model.Gf128 Gen.GfProg Proofs.GfBasisDef.
Lemma chunk_08 : basis_chunk 8 = true.
Proof. vm_compute. reflexivity. Qed.
