From SL Require Import Lib.Base Model.ByteLang Model.Gf128 Gen.GfProg Proofs.GfBasisDef.
Lemma chunk_14 : basis_chunk 14 = true.
Proof. vm_compute. reflexivity. Qed.
