(** C13 helper: finite sums over Z indexed by [nat], sums of lists, and their reduction modulo q;
    characterisation of the field operations of Model/Poly.v as integer operations modulo q. *)
From SL Require Import Lib.Base Model.Poly.
Local Open Scope Z_scope.

(** sum_{i<n} F i *)
Fixpoint bigsum (n : nat) (F : nat -> Z) : Z :=
  match n with O => 0 | S k => bigsum k F + F k end.

Definition zsum (l : list Z) : Z := fold_right Z.add 0 l.

Lemma bigsum_ext n F G : (forall i, (i < n)%nat -> F i = G i) -> bigsum n F = bigsum n G.
Proof.
  induction n as [|n IH]; intros H; cbn [bigsum]; [reflexivity|].
  rewrite IH by (intros; apply H; lia). rewrite H by lia. reflexivity.
Qed.

Lemma bigsum_zero n F : (forall i, (i < n)%nat -> F i = 0) -> bigsum n F = 0.
Proof.
  induction n as [|n IH]; intros H; cbn [bigsum]; [reflexivity|].
  rewrite IH by (intros; apply H; lia). rewrite H by lia. reflexivity.
Qed.

Lemma bigsum_add n F G : bigsum n (fun i => F i + G i) = bigsum n F + bigsum n G.
Proof. induction n as [|n IH]; cbn [bigsum]; [reflexivity|]. rewrite IH. ring. Qed.

Lemma bigsum_scale_l n c F : bigsum n (fun i => c * F i) = c * bigsum n F.
Proof. induction n as [|n IH]; cbn [bigsum]; [ring|]. rewrite IH. ring. Qed.

Lemma bigsum_scale_r n c F : bigsum n (fun i => F i * c) = bigsum n F * c.
Proof. induction n as [|n IH]; cbn [bigsum]; [ring|]. rewrite IH. ring. Qed.

Lemma bigsum_swap n m (F : nat -> nat -> Z) :
  bigsum n (fun i => bigsum m (fun j => F i j)) = bigsum m (fun j => bigsum n (fun i => F i j)).
Proof.
  induction n as [|n IH]; cbn [bigsum].
  - symmetry. apply bigsum_zero. reflexivity.
  - rewrite IH. rewrite <- bigsum_add. reflexivity.
Qed.

Lemma bigsum_split n m F : bigsum (n + m) F = bigsum n F + bigsum m (fun j => F (n + j)%nat).
Proof.
  induction m as [|m IH]; cbn [bigsum].
  - rewrite Nat.add_0_r. ring.
  - replace (n + S m)%nat with (S (n + m)) by lia. cbn [bigsum]. rewrite IH. ring.
Qed.

(** sum with a single non-zero term *)
Lemma bigsum_single n k F : (k < n)%nat -> (forall i, (i < n)%nat -> i <> k -> F i = 0) ->
  bigsum n F = F k.
Proof.
  induction n as [|n IH]; intros Hk H; [lia|]. cbn [bigsum].
  destruct (Nat.eq_dec k n) as [->|Hne].
  - rewrite bigsum_zero by (intros; apply H; lia). ring.
  - rewrite IH by (try lia; intros; apply H; lia). rewrite (H n) by lia. ring.
Qed.

Lemma zsum_app l1 l2 : zsum (l1 ++ l2) = zsum l1 + zsum l2.
Proof. unfold zsum. induction l1 as [|a l IH]; cbn [fold_right app]; [reflexivity|]. rewrite IH. ring. Qed.

(** list sums as indexed sums *)
Lemma zsum_map_enumerate {A} (g : nat * A -> Z) (d : A) (l : list A) : forall k,
  zsum (map g (enumerate_from k l)) = bigsum (length l) (fun i => g ((k + i)%nat, nth i l d)).
Proof.
  induction l as [|a l IH] using rev_ind; intros k.
  - reflexivity.
  - assert (E : forall k, enumerate_from k (l ++ [a]) = enumerate_from k l ++ [((k + length l)%nat, a)]).
    { clear. induction l as [|b l IH]; intros k; cbn [enumerate_from app length].
      - rewrite Nat.add_0_r. reflexivity.
      - rewrite IH. replace (S k + length l)%nat with (k + S (length l))%nat by lia. reflexivity. }
    rewrite E, map_app, zsum_app, IH, app_length. cbn [length map zsum fold_right].
    rewrite Nat.add_1_r. cbn [bigsum].
    rewrite app_nth2 by lia. rewrite Nat.sub_diag. cbn [nth].
    f_equal; [|ring].
    apply bigsum_ext. intros i Hi. rewrite app_nth1 by lia. reflexivity.
Qed.

Lemma zsum_map_seq (g : nat -> Z) n : forall k,
  zsum (map g (seq k n)) = bigsum n (fun i => g (k + i)%nat).
Proof.
  induction n as [|n IH]; intros k; [reflexivity|].
  rewrite seq_S, map_app, zsum_app, IH. cbn [map zsum fold_right bigsum]. ring.
Qed.

Lemma combine_app_short {A B} (u : list A) : forall (v w : list B),
  (length u <= length v)%nat -> combine u (v ++ w) = combine u v.
Proof.
  induction u as [|a u IH]; intros v w H; [reflexivity|].
  destruct v as [|b v]; cbn [length] in H; [lia|].
  cbn [combine app]. rewrite IH by lia. reflexivity.
Qed.

Lemma combine_app_eq {A B} (u1 : list A) : forall (v1 : list B) u2 v2,
  length u1 = length v1 -> combine (u1 ++ u2) (v1 ++ v2) = combine u1 v1 ++ combine u2 v2.
Proof.
  induction u1 as [|a u IH]; intros [|b v] u2 v2 H; cbn [length] in H; try discriminate; [reflexivity|].
  cbn [combine app]. rewrite IH by lia. reflexivity.
Qed.

Lemma zsum_map_combine (u v : list Z) :
  zsum (map (fun ab => fst ab * snd ab) (combine u v)) = bigsum (length v) (fun i => nth i u 0 * nth i v 0).
Proof.
  revert u. induction v as [|b v IH] using rev_ind; intros u.
  - rewrite combine_nil. reflexivity.
  - rewrite app_length. cbn [length]. rewrite Nat.add_1_r. cbn [bigsum].
    destruct (Nat.le_gt_cases (length u) (length v)) as [Hle|Hgt].
    + (* u is short: the last element of v meets no partner *)
      rewrite (nth_overflow u) by lia. 
      replace (combine u (v ++ [b])) with (combine u v).
      * rewrite IH. rewrite Z.mul_0_l, Z.add_0_r. apply bigsum_ext. intros i Hi.
        rewrite app_nth1 by lia. reflexivity.
      * symmetry. apply combine_app_short. exact Hle.
    + rewrite <- (firstn_skipn (length v) u).
      assert (Lf : length (firstn (length v) u) = length v) by (rewrite firstn_length; lia).
      destruct (skipn (length v) u) as [|a rest] eqn:Es.
      { exfalso. assert (length (skipn (length v) u) = 0%nat) by (rewrite Es; reflexivity).
        rewrite skipn_length in H. lia. }
      rewrite combine_app_eq by exact Lf.
      rewrite map_app, zsum_app, IH. cbn [combine map zsum fold_right fst snd].
      rewrite app_nth2 by lia. rewrite Lf, Nat.sub_diag. cbn [nth].
      rewrite (app_nth2 v) by lia. rewrite Nat.sub_diag. cbn [nth].
      rewrite combine_nil. cbn [map fold_right].
      f_equal; [|ring]. apply bigsum_ext. intros i Hi.
      rewrite !app_nth1 by lia. reflexivity.
Qed.

Section Modq.
  Variable q : Z.

  Lemma bigsum_mod_ext n F G :
    (forall i, (i < n)%nat -> F i mod q = G i mod q) -> bigsum n F mod q = bigsum n G mod q.
  Proof.
    induction n as [|n IH]; intros H; cbn [bigsum]; [reflexivity|].
    rewrite Zplus_mod, IH, (H n), <- Zplus_mod by (try lia; intros; apply H; lia). reflexivity.
  Qed.

  Lemma bigsum_mod_idemp n F : bigsum n (fun i => F i mod q) mod q = bigsum n F mod q.
  Proof. apply bigsum_mod_ext. intros. apply Zmod_mod. Qed.

  (** [fsum] (additive fold from ZERO with reduction at each step) is the integer sum modulo q *)
  Lemma fold_fadd l : forall a,
    fold_left (fadd q) l a = match l with [] => a | _ => (a + zsum l) mod q end.
  Proof.
    induction l as [|x l IH]; intros a; [reflexivity|].
    cbn [fold_left]. rewrite IH. unfold fadd. cbn [zsum fold_right]. fold (zsum l).
    destruct l as [|y l'].
    - cbn [zsum fold_right]. f_equal. ring.
    - rewrite Zplus_mod_idemp_l. f_equal. ring.
  Qed.

  Lemma fsum_spec l : fsum q l = zsum l mod q.
  Proof. unfold fsum. rewrite fold_fadd. destruct l; reflexivity. Qed.

  Lemma fpow_spec x e : fpow q x e = x ^ Z.of_nat e mod q.
  Proof.
    induction e as [|e IH].
    - reflexivity.
    - cbn [fpow]. unfold fmul. rewrite IH, Zmult_mod_idemp_l.
      rewrite Nat2Z.inj_succ, Z.pow_succ_r by lia. f_equal. ring.
  Qed.

  Lemma fmul_mod a b : fmul q a b mod q = (a * b) mod q.
  Proof. unfold fmul. apply Zmod_mod. Qed.

  Lemma fpow_mod x e : fpow q x e mod q = fpow q x e.
  Proof. rewrite fpow_spec. apply Zmod_mod. Qed.
End Modq.
