(** C17 -- the buffering relay wrapper neither loses, duplicates nor misroutes.
    Statements only; proofs live in Proofs/Buffered.v, the model in Model/Buffered.v.
    [run cs s] executes a sequence of application calls (wait_for / recv / next), each given as
    (call, maximal number of polls before the future is DROPPED); the inner relay is an arbitrary
    script of poll results.  All statements quantify over every script, every call sequence and
    every cancellation point. *)
From SL Require Import Lib.Base Model.Buffered Proofs.Buffered.
From Coq Require Import Permutation.

(** Conservation.  Start with an empty buffer on ANY script of the inner relay, make ANY sequence of
    calls (each polled at most k times and then dropped).  Then the script splits into the consumed
    prefix and the rest, and the multiset of well-formed frames handed to the application plus the
    multiset of buffered frames equals the multiset of well-formed frames consumed: every well-formed
    message is handed over exactly once or is still buffered. *)
Theorem buf_conservation : forall (r0 : inner) (cs : list (call * nat)) (rs : list result) (s' : state),
  run cs (init r0) = (rs, s') ->
  exists consumed,
    i_rx r0 = consumed ++ i_rx (relay s') /\
    Permutation (filter wf (handed rs) ++ in_buf s') (filter wf (items consumed)).
Proof. exact buf_conservation_lemma. Qed.
Check buf_conservation : forall (r0 : inner) (cs : list (call * nat)) (rs : list result) (s' : state),
  run cs (init r0) = (rs, s') ->
  exists consumed,
    i_rx r0 = consumed ++ i_rx (relay s') /\
    Permutation (filter wf (handed rs) ++ in_buf s') (filter wf (items consumed)).
Print Assumptions buf_conservation.

(** The same law for ALL frames, which says what happens to frames shorter than a header: they are
    never buffered; wait_for/recv drop them silently ([dropped]); only the stream interface ([next]
    with an empty buffer) hands them to the application. *)
Theorem conservation_full : forall (r0 : inner) (cs : list (call * nat)) (rs : list result) (s' : state),
  run cs (init r0) = (rs, s') ->
  exists consumed dropped,
    i_rx r0 = consumed ++ i_rx (relay s') /\
    Forall (fun m => wf m = false) dropped /\
    Forall (fun m => wf m = true) (in_buf s') /\
    Permutation (handed rs ++ in_buf s' ++ dropped) (items consumed).
Proof. exact conservation_full_lemma. Qed.
Check conservation_full : forall (r0 : inner) (cs : list (call * nat)) (rs : list result) (s' : state),
  run cs (init r0) = (rs, s') ->
  exists consumed dropped,
    i_rx r0 = consumed ++ i_rx (relay s') /\
    Forall (fun m => wf m = false) dropped /\
    Forall (fun m => wf m = true) (in_buf s') /\
    Permutation (handed rs ++ in_buf s' ++ dropped) (items consumed).
Print Assumptions conservation_full.

(** A receive for [id] returns only a well-formed message whose header id is [id] (whatever the
    buffer held, whatever arrives, wherever the Pendings are, however often it is polled). *)
Theorem recv_id_matches : forall (id : bytes) (ttl : N) (k : nat) (s : state) (m : bytes) (s' : state),
  run_call (CRecv id ttl) k s = (RSome m, s') -> wf m = true /\ hdr_id m = id.
Proof. exact recv_id_matches_lemma. Qed.
Check recv_id_matches : forall (id : bytes) (ttl : N) (k : nat) (s : state) (m : bytes) (s' : state),
  run_call (CRecv id ttl) k s = (RSome m, s') -> wf m = true /\ hdr_id m = id.
Print Assumptions recv_id_matches.

(** A predicate wait returns only a well-formed message whose id satisfies the predicate. *)
Theorem wait_for_pred_holds : forall (p : bytes -> bool) (k : nat) (s : state) (m : bytes) (s' : state),
  run_call (CWait p) k s = (RSome m, s') -> wf m = true /\ p (hdr_id m) = true.
Proof. exact wait_for_pred_holds_lemma. Qed.
Check wait_for_pred_holds : forall (p : bytes -> bool) (k : nat) (s : state) (m : bytes) (s' : state),
  run_call (CWait p) k s = (RSome m, s') -> wf m = true /\ p (hdr_id m) = true.
Print Assumptions wait_for_pred_holds.

(** At every suspension point of every future the wrapper's own state accounts for everything
    consumed so far: the future itself holds no frame (this is what makes dropping it safe). *)
Theorem suspended_holds_nothing : forall (f : fut) (s : state) (f' : fut) (s' : state),
  poll_fut f s = (Suspended f', s') ->
  exists consumed dropped,
    i_rx (relay s) = consumed ++ i_rx (relay s') /\
    Forall (fun m => wf m = false) dropped /\
    Permutation (in_buf s' ++ dropped) (in_buf s ++ items consumed).
Proof. exact suspended_holds_nothing_lemma. Qed.
Check suspended_holds_nothing : forall (f : fut) (s : state) (f' : fut) (s' : state),
  poll_fut f s = (Suspended f', s') ->
  exists consumed dropped,
    i_rx (relay s) = consumed ++ i_rx (relay s') /\
    Forall (fun m => wf m = false) dropped /\
    Permutation (in_buf s' ++ dropped) (in_buf s ++ items consumed).
Print Assumptions suspended_holds_nothing.

(** Cancellation.  After any prefix of calls, a call that is dropped while pending (result
    RCancelled, after any number k of polls) leaves the conservation law intact at the moment of the
    drop, and it stays intact after any later calls (in particular a reissued receive). *)
Theorem cancel_safe : forall (r0 : inner) (cs1 : list (call * nat)) (c : call) (k : nat) (cs2 : list (call * nat))
         (rs1 : list result) (s1 s2 : state) (rs3 : list result) (s3 : state),
  run cs1 (init r0) = (rs1, s1) ->
  run_call c k s1 = (RCancelled, s2) ->
  run cs2 s2 = (rs3, s3) ->
  (exists consumed, i_rx r0 = consumed ++ i_rx (relay s2) /\
     Permutation (filter wf (handed rs1) ++ in_buf s2) (filter wf (items consumed))) /\
  (exists consumed, i_rx r0 = consumed ++ i_rx (relay s3) /\
     Permutation (filter wf (handed (rs1 ++ rs3)) ++ in_buf s3) (filter wf (items consumed))).
Proof. exact cancel_safe_lemma. Qed.
Check cancel_safe : forall (r0 : inner) (cs1 : list (call * nat)) (c : call) (k : nat) (cs2 : list (call * nat))
         (rs1 : list result) (s1 s2 : state) (rs3 : list result) (s3 : state),
  run cs1 (init r0) = (rs1, s1) ->
  run_call c k s1 = (RCancelled, s2) ->
  run cs2 s2 = (rs3, s3) ->
  (exists consumed, i_rx r0 = consumed ++ i_rx (relay s2) /\
     Permutation (filter wf (handed rs1) ++ in_buf s2) (filter wf (items consumed))) /\
  (exists consumed, i_rx r0 = consumed ++ i_rx (relay s3) /\
     Permutation (filter wf (handed (rs1 ++ rs3)) ++ in_buf s3) (filter wf (items consumed))).
Print Assumptions cancel_safe.

(** The stream interface hands out a buffered frame (the last one pushed, [Vec::pop]) before it
    polls the inner relay: the inner relay (script and call log) is untouched. *)
Theorem next_drains_buffer_first : forall (s : state) (l : list bytes) (m : bytes) (k : nat),
  in_buf s = l ++ [m] -> run_call CNext (S k) s = (RSome m, mkState l (relay s)).
Proof. exact next_drains_buffer_first_lemma. Qed.
Check next_drains_buffer_first : forall (s : state) (l : list bytes) (m : bytes) (k : nat),
  in_buf s = l ++ [m] -> run_call CNext (S k) s = (RSome m, mkState l (relay s)).
Print Assumptions next_drains_buffer_first.

(** ... and as many [next] calls as there are buffered frames return the whole buffer (newest
    first) without a single call on the inner relay. *)
Theorem next_drains_whole_buffer : forall (buf : list bytes) (r : inner),
  run (repeat (CNext, 1%nat) (length buf)) (mkState buf r) = (map RSome (rev buf), mkState [] r).
Proof. exact next_drains_whole_buffer_lemma. Qed.
Check next_drains_whole_buffer : forall (buf : list bytes) (r : inner),
  run (repeat (CNext, 1%nat) (length buf)) (mkState buf r) = (map RSome (rev buf), mkState [] r).
Print Assumptions next_drains_whole_buffer.

(** A predicate wait (hence a receive, once its ask is sent) that finds a match in the buffer
    returns a buffered frame and removes exactly that one, without any call on the inner relay. *)
Theorem wait_for_buffer_hit : forall (p : bytes -> bool) (s : state) (k : nat) (m : bytes),
  In m (in_buf s) -> wf m = true -> p (hdr_id m) = true ->
  exists m' s', run_call (CWait p) (S k) s = (RSome m', s') /\ relay s' = relay s /\
                In m' (in_buf s) /\ Permutation (in_buf s) (m' :: in_buf s').
Proof. exact wait_for_buffer_hit_lemma. Qed.
Check wait_for_buffer_hit : forall (p : bytes -> bool) (s : state) (k : nat) (m : bytes),
  In m (in_buf s) -> wf m = true -> p (hdr_id m) = true ->
  exists m' s', run_call (CWait p) (S k) s = (RSome m', s') /\ relay s' = relay s /\
                In m' (in_buf s) /\ Permutation (in_buf s) (m' :: in_buf s').
Print Assumptions wait_for_buffer_hit.

(** [swap_remove] is never called out of range: no call sequence reaches the panic outcome. *)
Theorem no_panic : forall (cs : list (call * nat)) (s : state) (rs : list result) (s' : state),
  run cs s = (rs, s') -> ~ In RPanic rs.
Proof. exact no_panic_lemma. Qed.
Check no_panic : forall (cs : list (call * nat)) (s : state) (rs : list result) (s' : state),
  run cs s = (rs, s') -> ~ In RPanic rs.
Print Assumptions no_panic.

(** Non-vacuity: a concrete script (out-of-order arrival, a short frame, a Pending, a duplicate, End)
    and call sequence (a cancelled receive, its reissue, next, wait_for, next) with the computed results. *)
Theorem nonvacuous_example : fst (run ex_calls (init ex_inner)) = [RCancelled; RSome ex_fa; RSome ex_fb; RSome ex_fa; RNone]
  /\ in_buf (snd (run ex_calls (init ex_inner))) = []
  /\ in_buf (snd (run (firstn 1 ex_calls) (init ex_inner))) = [ex_fb].
Proof. exact ex_run. Qed.
Check nonvacuous_example : fst (run ex_calls (init ex_inner)) = [RCancelled; RSome ex_fa; RSome ex_fb; RSome ex_fa; RNone]
  /\ in_buf (snd (run ex_calls (init ex_inner))) = []
  /\ in_buf (snd (run (firstn 1 ex_calls) (init ex_inner))) = [ex_fb].
Print Assumptions nonvacuous_example.
