(** C05 -- Endemic base OT: the receiver gets exactly its chosen key, bound to the session.
    Statements only.  G/O: any group satisfying [group_laws] whose 33-byte point encoding round-trips
    ([enc33_roundtrip]); H: ANY transcript oracle; tapes and session ids (any length) universally
    quantified.  "differs / matches neither" sentences are implications to explicit oracle
    coincidences (DESIGN.md 3.3). *)
From SL Require Import Lib.Base Lib.Oracle Lib.ZqGroup Model.Endemic Proofs.Endemic Proofs.EndemicThm Proofs.EndemicZq.
From Coq Require Import Znumtheory.
Local Open Scope Z_scope.

(** Honest exchange under a common session id: both sides return Val and, for each of the 256 instances,
    the receiver's key is the sender's key for the receiver's choice bit. *)
Theorem endemic_correct : forall G (O : group_ops G) (H : transcript_oracle) q, group_laws q O -> enc33_roundtrip G O ->
  forall sid bits tas ros tbs,
  let rn := eot_receiver_new G O H sid bits tas ros in
  let sp := eot_sender_process G O H sid (snd rn) tbs in
  exists skeys rkeys,
    snd sp = Val skeys /\ eot_receiver_process G O H (fst rn) (fst sp) = Val (bits, rkeys) /\
    forall idx, (idx < 256)%nat ->
      nth idx rkeys [] = (if bit_at bits idx then snd (nth idx skeys ([], [])) else fst (nth idx skeys ([], []))).
Proof. exact endemic_correct_lem. Qed.
Check endemic_correct : forall G (O : group_ops G) (H : transcript_oracle) q, group_laws q O -> enc33_roundtrip G O ->
  forall sid bits tas ros tbs,
  let rn := eot_receiver_new G O H sid bits tas ros in
  let sp := eot_sender_process G O H sid (snd rn) tbs in
  exists skeys rkeys,
    snd sp = Val skeys /\ eot_receiver_process G O H (fst rn) (fst sp) = Val (bits, rkeys) /\
    forall idx, (idx < 256)%nat ->
      nth idx rkeys [] = (if bit_at bits idx then snd (nth idx skeys ([], [])) else fst (nth idx skeys ([], []))).
Print Assumptions endemic_correct.

(** Honest exchange: receiver key = sender's OTHER key  ->  H2 collision on two different queries, or the
    hash-to-curve output on the (different) query (1-c, idx, sid, r_c) satisfies an explicit group equation. *)
Theorem endemic_other_key : forall G (O : group_ops G) (H : transcript_oracle) q, group_laws q O -> enc33_roundtrip G O ->
  forall sid bits tas ros tbs skeys rkeys idx,
  let rn := eot_receiver_new G O H sid bits tas ros in
  let sp := eot_sender_process G O H sid (snd rn) tbs in
  snd sp = Val skeys -> eot_receiver_process G O H (fst rn) (fst sp) = Val (bits, rkeys) ->
  (idx < 256)%nat ->
  let c := bit_at bits idx in
  let ta := nth idx tas 0 in
  let ro := nth idx ros (g_id O) in
  let rc := recv_r_choice G O H sid c (N.of_nat idx) ta ro in
  let tb_c := if c then snd (nth idx tbs (0, 0)) else fst (nth idx tbs (0, 0)) in
  let tb_o := if c then fst (nth idx tbs (0, 0)) else snd (nth idx tbs (0, 0)) in
  let h_fresh := h_function G O H (ro_of_bit (negb c)) (N.of_nat idx) sid rc in
  nth idx rkeys [] = (if c then fst (nth idx skeys ([], [])) else snd (nth idx skeys ([], []))) ->
  h2_collision G O H (N.of_nat idx) (g_smul O ta (g_smul O tb_c (g_gen O))) (g_smul O tb_o (g_add O ro h_fresh)) \/
  (g_smul O tb_o (g_add O ro h_fresh) = g_smul O (ta * tb_c) (g_gen O) /\
   forall k k', h_query G O (ro_of_bit (negb c)) (N.of_nat idx) sid rc k <>
                h_query G O (ro_of_bit c) (N.of_nat idx) sid ro k').
Proof. exact endemic_other_key_lem. Qed.
Check endemic_other_key : forall G (O : group_ops G) (H : transcript_oracle) q, group_laws q O -> enc33_roundtrip G O ->
  forall sid bits tas ros tbs skeys rkeys idx,
  let rn := eot_receiver_new G O H sid bits tas ros in
  let sp := eot_sender_process G O H sid (snd rn) tbs in
  snd sp = Val skeys -> eot_receiver_process G O H (fst rn) (fst sp) = Val (bits, rkeys) ->
  (idx < 256)%nat ->
  let c := bit_at bits idx in
  let ta := nth idx tas 0 in
  let ro := nth idx ros (g_id O) in
  let rc := recv_r_choice G O H sid c (N.of_nat idx) ta ro in
  let tb_c := if c then snd (nth idx tbs (0, 0)) else fst (nth idx tbs (0, 0)) in
  let tb_o := if c then fst (nth idx tbs (0, 0)) else snd (nth idx tbs (0, 0)) in
  let h_fresh := h_function G O H (ro_of_bit (negb c)) (N.of_nat idx) sid rc in
  nth idx rkeys [] = (if c then fst (nth idx skeys ([], [])) else snd (nth idx skeys ([], []))) ->
  h2_collision G O H (N.of_nat idx) (g_smul O ta (g_smul O tb_c (g_gen O))) (g_smul O tb_o (g_add O ro h_fresh)) \/
  (g_smul O tb_o (g_add O ro h_fresh) = g_smul O (ta * tb_c) (g_gen O) /\
   forall k k', h_query G O (ro_of_bit (negb c)) (N.of_nat idx) sid rc k <>
                h_query G O (ro_of_bit c) (N.of_nat idx) sid ro k').
Print Assumptions endemic_other_key.

(** The hash-to-curve oracle input is injective in (ro_index, batch_index, session id, point, retry number):
    dropping or truncating any field of the transcript breaks this. *)
Theorem endemic_query_injective : forall G (O : group_ops G), enc33_roundtrip G O ->
  forall ro idx sid pk k ro' idx' sid' pk' k',
  (ro < 65536)%N -> (ro' < 65536)%N -> (idx < 65536)%N -> (idx' < 65536)%N ->
  h_query G O ro idx sid pk k = h_query G O ro' idx' sid' pk' k' ->
  ro = ro' /\ idx = idx' /\ sid = sid' /\ pk = pk' /\ k = k'.
Proof. exact endemic_query_injective_lem. Qed.
Check endemic_query_injective : forall G (O : group_ops G), enc33_roundtrip G O ->
  forall ro idx sid pk k ro' idx' sid' pk' k',
  (ro < 65536)%N -> (ro' < 65536)%N -> (idx < 65536)%N -> (idx' < 65536)%N ->
  h_query G O ro idx sid pk k = h_query G O ro' idx' sid' pk' k' ->
  ro = ro' /\ idx = idx' /\ sid = sid' /\ pk = pk' /\ k = k'.
Print Assumptions endemic_query_injective.

(** Two hash-to-curve queries under different session ids are different oracle inputs (no assumption at all). *)
Theorem endemic_query_session_distinct : forall G (O : group_ops G) ro idx sid pk k ro' idx' sid' pk' k',
  sid <> sid' -> h_query G O ro idx sid pk k <> h_query G O ro' idx' sid' pk' k'.
Proof. exact h_query_sid_distinct. Qed.
Check endemic_query_session_distinct : forall G (O : group_ops G) ro idx sid pk k ro' idx' sid' pk' k',
  sid <> sid' -> h_query G O ro idx sid pk k <> h_query G O ro' idx' sid' pk' k'.
Print Assumptions endemic_query_session_distinct.

(** Receiver under sidR, sender under sidS <> sidR (honest message passing): a receiver key equal to a sender key
    forces an H2 collision, or tb*Hc(..sidS..) = tb*Hc(..sidR..) on two different queries (chosen side), or the
    group equation of endemic_other_key (other side). *)
Theorem endemic_session_binding : forall G (O : group_ops G) (H : transcript_oracle) q, group_laws q O -> enc33_roundtrip G O ->
  forall sidR sidS bits tas ros tbs skeys rkeys idx (b : bool),
  sidR <> sidS ->
  let rn := eot_receiver_new G O H sidR bits tas ros in
  let sp := eot_sender_process G O H sidS (snd rn) tbs in
  snd sp = Val skeys -> eot_receiver_process G O H (fst rn) (fst sp) = Val (bits, rkeys) ->
  (idx < 256)%nat ->
  let c := bit_at bits idx in
  let ta := nth idx tas 0 in
  let ro := nth idx ros (g_id O) in
  let rc := recv_r_choice G O H sidR c (N.of_nat idx) ta ro in
  let tb_c := if c then snd (nth idx tbs (0, 0)) else fst (nth idx tbs (0, 0)) in
  let tb_o := if c then fst (nth idx tbs (0, 0)) else snd (nth idx tbs (0, 0)) in
  let hS := h_function G O H (ro_of_bit c) (N.of_nat idx) sidS ro in
  let hR := h_function G O H (ro_of_bit c) (N.of_nat idx) sidR ro in
  let h_fresh := h_function G O H (ro_of_bit (negb c)) (N.of_nat idx) sidS rc in
  nth idx rkeys [] = (if b then snd (nth idx skeys ([], [])) else fst (nth idx skeys ([], []))) ->
  (b = c /\ h2_collision G O H (N.of_nat idx) (g_smul O ta (g_smul O tb_c (g_gen O))) (g_smul O tb_c (g_add O rc hS))) \/
  (b = c /\ g_smul O tb_c hS = g_smul O tb_c hR /\
     forall k k', h_query G O (ro_of_bit c) (N.of_nat idx) sidS ro k <> h_query G O (ro_of_bit c) (N.of_nat idx) sidR ro k') \/
  (b = negb c /\ h2_collision G O H (N.of_nat idx) (g_smul O ta (g_smul O tb_c (g_gen O))) (g_smul O tb_o (g_add O ro h_fresh))) \/
  (b = negb c /\ g_smul O tb_o (g_add O ro h_fresh) = g_smul O (ta * tb_c) (g_gen O)).
Proof. exact endemic_session_binding_lem. Qed.
Check endemic_session_binding : forall G (O : group_ops G) (H : transcript_oracle) q, group_laws q O -> enc33_roundtrip G O ->
  forall sidR sidS bits tas ros tbs skeys rkeys idx (b : bool),
  sidR <> sidS ->
  let rn := eot_receiver_new G O H sidR bits tas ros in
  let sp := eot_sender_process G O H sidS (snd rn) tbs in
  snd sp = Val skeys -> eot_receiver_process G O H (fst rn) (fst sp) = Val (bits, rkeys) ->
  (idx < 256)%nat ->
  let c := bit_at bits idx in
  let ta := nth idx tas 0 in
  let ro := nth idx ros (g_id O) in
  let rc := recv_r_choice G O H sidR c (N.of_nat idx) ta ro in
  let tb_c := if c then snd (nth idx tbs (0, 0)) else fst (nth idx tbs (0, 0)) in
  let tb_o := if c then fst (nth idx tbs (0, 0)) else snd (nth idx tbs (0, 0)) in
  let hS := h_function G O H (ro_of_bit c) (N.of_nat idx) sidS ro in
  let hR := h_function G O H (ro_of_bit c) (N.of_nat idx) sidR ro in
  let h_fresh := h_function G O H (ro_of_bit (negb c)) (N.of_nat idx) sidS rc in
  nth idx rkeys [] = (if b then snd (nth idx skeys ([], [])) else fst (nth idx skeys ([], []))) ->
  (b = c /\ h2_collision G O H (N.of_nat idx) (g_smul O ta (g_smul O tb_c (g_gen O))) (g_smul O tb_c (g_add O rc hS))) \/
  (b = c /\ g_smul O tb_c hS = g_smul O tb_c hR /\
     forall k k', h_query G O (ro_of_bit c) (N.of_nat idx) sidS ro k <> h_query G O (ro_of_bit c) (N.of_nat idx) sidR ro k') \/
  (b = negb c /\ h2_collision G O H (N.of_nat idx) (g_smul O ta (g_smul O tb_c (g_gen O))) (g_smul O tb_o (g_add O ro h_fresh))) \/
  (b = negb c /\ g_smul O tb_o (g_add O ro h_fresh) = g_smul O (ta * tb_c) (g_gen O)).
Print Assumptions endemic_session_binding.

(** For a prime group order and a non-zero sender scalar, the chosen-side coincidence of endemic_session_binding
    is a plain collision Hc(..sidS..) = Hc(..sidR..). *)
Theorem endemic_session_collision : forall G (O : group_ops G) q, group_laws q O ->
  forall k hS hR, prime q -> k mod q <> 0 -> g_smul O k hS = g_smul O k hR -> hS = hR.
Proof. exact endemic_session_collision_lem. Qed.
Check endemic_session_collision : forall G (O : group_ops G) q, group_laws q O ->
  forall k hS hR, prime q -> k mod q <> 0 -> g_smul O k hS = g_smul O k hR -> hS = hR.
Print Assumptions endemic_session_collision.

(** ARBITRARY message 1 and message 2 (adversarial, substituted, replayed): whenever both sides return keys, a receiver
    key equal to a sender key forces equality of the two hashed group elements or an explicit H2 collision. *)
Theorem endemic_key_equal_char : forall G (O : group_ops G) (H : transcript_oracle) q, group_laws q O -> enc33_roundtrip G O ->
  forall sidS msg1 tbs skeys st msg2 bits rkeys idx (b : bool),
  snd (eot_sender_process G O H sidS msg1 tbs) = Val skeys ->
  eot_receiver_process G O H st msg2 = Val (bits, rkeys) ->
  (idx < 256)%nat ->
  nth idx rkeys [] = (if b then snd (nth idx skeys ([], [])) else fst (nth idx skeys ([], []))) ->
  exists r0 r1 mb,
    g_dec O (fst (nth idx msg1 ([], []))) = Some r0 /\ g_dec O (snd (nth idx msg1 ([], []))) = Some r1 /\
    g_dec O (chosen_side st msg2 idx) = Some mb /\
    let P_R := g_smul O (nth idx (rs_ta st) 0) mb in
    let P_S := g_smul O (if b then snd (nth idx tbs (0, 0)) else fst (nth idx tbs (0, 0)))
                 (g_add O (if b then r1 else r0)
                    (h_function G O H (ro_of_bit b) (N.of_nat idx) sidS (if b then r0 else r1))) in
    P_R = P_S \/ h2_collision G O H (N.of_nat idx) P_R P_S.
Proof. exact endemic_key_equal_char_lem. Qed.
Check endemic_key_equal_char : forall G (O : group_ops G) (H : transcript_oracle) q, group_laws q O -> enc33_roundtrip G O ->
  forall sidS msg1 tbs skeys st msg2 bits rkeys idx (b : bool),
  snd (eot_sender_process G O H sidS msg1 tbs) = Val skeys ->
  eot_receiver_process G O H st msg2 = Val (bits, rkeys) ->
  (idx < 256)%nat ->
  nth idx rkeys [] = (if b then snd (nth idx skeys ([], [])) else fst (nth idx skeys ([], []))) ->
  exists r0 r1 mb,
    g_dec O (fst (nth idx msg1 ([], []))) = Some r0 /\ g_dec O (snd (nth idx msg1 ([], []))) = Some r1 /\
    g_dec O (chosen_side st msg2 idx) = Some mb /\
    let P_R := g_smul O (nth idx (rs_ta st) 0) mb in
    let P_S := g_smul O (if b then snd (nth idx tbs (0, 0)) else fst (nth idx tbs (0, 0)))
                 (g_add O (if b then r1 else r0)
                    (h_function G O H (ro_of_bit b) (N.of_nat idx) sidS (if b then r0 else r1))) in
    P_R = P_S \/ h2_collision G O H (N.of_nat idx) P_R P_S.
Print Assumptions endemic_key_equal_char.

(** Message 1 made by another receiver run (session sid', independent tape) is given to the sender of session sid;
    the receiver of session sid processes the answer: key equality forces an H2 collision or an explicit group equation. *)
Theorem endemic_msg1_substituted : forall G (O : group_ops G) (H : transcript_oracle) q, group_laws q O -> enc33_roundtrip G O ->
  forall sid bits tas sid' bits' tas' ros' tbs skeys rkeys idx (b : bool),
  let st := {| rs_bits := bits; rs_ta := tas |} in
  let rn' := eot_receiver_new G O H sid' bits' tas' ros' in
  let sp := eot_sender_process G O H sid (snd rn') tbs in
  snd sp = Val skeys -> eot_receiver_process G O H st (fst sp) = Val (bits, rkeys) ->
  (idx < 256)%nat ->
  let c := bit_at bits idx in
  let c' := bit_at bits' idx in
  let ta := nth idx tas 0 in
  let ro' := nth idx ros' (g_id O) in
  let rc' := recv_r_choice G O H sid' c' (N.of_nat idx) (nth idx tas' 0) ro' in
  let r0 := if c' then ro' else rc' in
  let r1 := if c' then rc' else ro' in
  let tb_c := if c then snd (nth idx tbs (0, 0)) else fst (nth idx tbs (0, 0)) in
  let tb_b := if b then snd (nth idx tbs (0, 0)) else fst (nth idx tbs (0, 0)) in
  nth idx rkeys [] = (if b then snd (nth idx skeys ([], [])) else fst (nth idx skeys ([], []))) ->
  (exists P P', h2_collision G O H (N.of_nat idx) P P') \/
  g_smul O tb_b (g_add O (if b then r1 else r0)
                   (h_function G O H (ro_of_bit b) (N.of_nat idx) sid (if b then r0 else r1))) =
    g_smul O (ta * tb_c) (g_gen O).
Proof. exact endemic_msg1_substituted_lem. Qed.
Check endemic_msg1_substituted : forall G (O : group_ops G) (H : transcript_oracle) q, group_laws q O -> enc33_roundtrip G O ->
  forall sid bits tas sid' bits' tas' ros' tbs skeys rkeys idx (b : bool),
  let st := {| rs_bits := bits; rs_ta := tas |} in
  let rn' := eot_receiver_new G O H sid' bits' tas' ros' in
  let sp := eot_sender_process G O H sid (snd rn') tbs in
  snd sp = Val skeys -> eot_receiver_process G O H st (fst sp) = Val (bits, rkeys) ->
  (idx < 256)%nat ->
  let c := bit_at bits idx in
  let c' := bit_at bits' idx in
  let ta := nth idx tas 0 in
  let ro' := nth idx ros' (g_id O) in
  let rc' := recv_r_choice G O H sid' c' (N.of_nat idx) (nth idx tas' 0) ro' in
  let r0 := if c' then ro' else rc' in
  let r1 := if c' then rc' else ro' in
  let tb_c := if c then snd (nth idx tbs (0, 0)) else fst (nth idx tbs (0, 0)) in
  let tb_b := if b then snd (nth idx tbs (0, 0)) else fst (nth idx tbs (0, 0)) in
  nth idx rkeys [] = (if b then snd (nth idx skeys ([], [])) else fst (nth idx skeys ([], []))) ->
  (exists P P', h2_collision G O H (N.of_nat idx) P P') \/
  g_smul O tb_b (g_add O (if b then r1 else r0)
                   (h_function G O H (ro_of_bit b) (N.of_nat idx) sid (if b then r0 else r1))) =
    g_smul O (ta * tb_c) (g_gen O).
Print Assumptions endemic_msg1_substituted.

(** The receiver of session sid gets the message 2 of ANY other sender run instead of its own sender's: key equality with
    its own sender forces an H2 collision, equality of the two sender scalars up to t_a (chosen side), or the group
    equation on a fresh hash-to-curve output (other side).  (Message 2 itself does not depend on the session id.) *)
Theorem endemic_msg2_substituted : forall G (O : group_ops G) (H : transcript_oracle) q, group_laws q O -> enc33_roundtrip G O ->
  forall sid bits tas ros tbs sid' msg1' tbs' skeys rkeys idx (b : bool),
  let rn := eot_receiver_new G O H sid bits tas ros in
  let sp := eot_sender_process G O H sid (snd rn) tbs in
  let sp' := eot_sender_process G O H sid' msg1' tbs' in
  snd sp = Val skeys -> eot_receiver_process G O H (fst rn) (fst sp') = Val (bits, rkeys) ->
  (idx < 256)%nat ->
  let c := bit_at bits idx in
  let ta := nth idx tas 0 in
  let ro := nth idx ros (g_id O) in
  let rc := recv_r_choice G O H sid c (N.of_nat idx) ta ro in
  let tb_c := if c then snd (nth idx tbs (0, 0)) else fst (nth idx tbs (0, 0)) in
  let tb_o := if c then fst (nth idx tbs (0, 0)) else snd (nth idx tbs (0, 0)) in
  let tb_c' := if c then snd (nth idx tbs' (0, 0)) else fst (nth idx tbs' (0, 0)) in
  let h_fresh := h_function G O H (ro_of_bit (negb c)) (N.of_nat idx) sid rc in
  nth idx rkeys [] = (if b then snd (nth idx skeys ([], [])) else fst (nth idx skeys ([], []))) ->
  (exists P P', h2_collision G O H (N.of_nat idx) P P') \/
  (b = c /\ (ta * tb_c' - ta * tb_c) mod q = 0) \/
  (b = negb c /\ g_smul O tb_o (g_add O ro h_fresh) = g_smul O (ta * tb_c') (g_gen O)).
Proof. exact endemic_msg2_substituted_lem. Qed.
Check endemic_msg2_substituted : forall G (O : group_ops G) (H : transcript_oracle) q, group_laws q O -> enc33_roundtrip G O ->
  forall sid bits tas ros tbs sid' msg1' tbs' skeys rkeys idx (b : bool),
  let rn := eot_receiver_new G O H sid bits tas ros in
  let sp := eot_sender_process G O H sid (snd rn) tbs in
  let sp' := eot_sender_process G O H sid' msg1' tbs' in
  snd sp = Val skeys -> eot_receiver_process G O H (fst rn) (fst sp') = Val (bits, rkeys) ->
  (idx < 256)%nat ->
  let c := bit_at bits idx in
  let ta := nth idx tas 0 in
  let ro := nth idx ros (g_id O) in
  let rc := recv_r_choice G O H sid c (N.of_nat idx) ta ro in
  let tb_c := if c then snd (nth idx tbs (0, 0)) else fst (nth idx tbs (0, 0)) in
  let tb_o := if c then fst (nth idx tbs (0, 0)) else snd (nth idx tbs (0, 0)) in
  let tb_c' := if c then snd (nth idx tbs' (0, 0)) else fst (nth idx tbs' (0, 0)) in
  let h_fresh := h_function G O H (ro_of_bit (negb c)) (N.of_nat idx) sid rc in
  nth idx rkeys [] = (if b then snd (nth idx skeys ([], [])) else fst (nth idx skeys ([], []))) ->
  (exists P P', h2_collision G O H (N.of_nat idx) P P') \/
  (b = c /\ (ta * tb_c' - ta * tb_c) mod q = 0) \/
  (b = negb c /\ g_smul O tb_o (g_add O ro h_fresh) = g_smul O (ta * tb_c') (g_gen O)).
Print Assumptions endemic_msg2_substituted.

(** For EVERY message 1 (any bytes, any lengths) the sender returns Val (256 key pairs) or Err, never Panic; Err exactly
    when one of the 512 strings fails to decode.  No assumption on group or oracle. *)
Theorem endemic_decode_total_sender : forall G (O : group_ops G) (H : transcript_oracle) sid msg1 tbs,
  let res := snd (eot_sender_process G O H sid msg1 tbs) in
  (res = Err eot_err_decode <-> msg1_undecodable G O msg1) /\
  (res = Err eot_err_decode \/ exists skeys, res = Val skeys /\ length skeys = 256%nat).
Proof. exact endemic_sender_total_lem. Qed.
Check endemic_decode_total_sender : forall G (O : group_ops G) (H : transcript_oracle) sid msg1 tbs,
  let res := snd (eot_sender_process G O H sid msg1 tbs) in
  (res = Err eot_err_decode <-> msg1_undecodable G O msg1) /\
  (res = Err eot_err_decode \/ exists skeys, res = Val skeys /\ length skeys = 256%nat).
Print Assumptions endemic_decode_total_sender.

(** For EVERY message 2 the receiver returns Val (its choice bits, 256 keys) or Err, never Panic; Err exactly when a
    string on a CHOSEN side fails to decode (the other side is never looked at). *)
Theorem endemic_decode_total_receiver : forall G (O : group_ops G) (H : transcript_oracle) st msg2,
  let res := eot_receiver_process G O H st msg2 in
  (res = Err eot_err_decode <-> msg2_undecodable G O st msg2) /\
  (res = Err eot_err_decode \/ exists rkeys, res = Val (rs_bits st, rkeys) /\ length rkeys = 256%nat).
Proof. exact endemic_receiver_total_lem. Qed.
Check endemic_decode_total_receiver : forall G (O : group_ops G) (H : transcript_oracle) st msg2,
  let res := eot_receiver_process G O H st msg2 in
  (res = Err eot_err_decode <-> msg2_undecodable G O st msg2) /\
  (res = Err eot_err_decode \/ exists rkeys, res = Val (rs_bits st, rkeys) /\ length rkeys = 256%nat).
Print Assumptions endemic_decode_total_receiver.

(** When the retry loop does not exhaust its fuel, h_function's result is the decoding of the oracle's answer to the
    (k+1)-th challenge on the transcript (label, session-id, ro-index, batch-index, pk), all earlier answers undecodable. *)
Theorem endemic_hash_to_curve_oracle_output : forall G (O : group_ops G) (H : transcript_oracle) ro idx sid pk p,
  h_function_opt G O H ro idx sid pk = Some p ->
  h_function G O H ro idx sid pk = p /\
  exists k, (k < h_fuel)%nat /\ g_dec O (fix_byte0 (H (h_query G O ro idx sid pk k))) = Some p /\
    forall j, (j < k)%nat -> g_dec O (fix_byte0 (H (h_query G O ro idx sid pk j))) = None.
Proof. exact h_function_is_oracle_output. Qed.
Check endemic_hash_to_curve_oracle_output : forall G (O : group_ops G) (H : transcript_oracle) ro idx sid pk p,
  h_function_opt G O H ro idx sid pk = Some p ->
  h_function G O H ro idx sid pk = p /\
  exists k, (k < h_fuel)%nat /\ g_dec O (fix_byte0 (H (h_query G O ro idx sid pk k))) = Some p /\
    forall j, (j < k)%nat -> g_dec O (fix_byte0 (H (h_query G O ro idx sid pk j))) = None.
Print Assumptions endemic_hash_to_curve_oracle_output.

(** The model's fuel is exhausted exactly when the first 64 oracle answers are all undecodable. *)
Theorem endemic_fuel_exhausted_iff : forall G (O : group_ops G) (H : transcript_oracle) ro idx sid pk,
  h_function_opt G O H ro idx sid pk = None <->
  forall j, (j < h_fuel)%nat -> g_dec O (fix_byte0 (H (h_query G O ro idx sid pk j))) = None.
Proof. exact h_function_exhausted_iff. Qed.
Check endemic_fuel_exhausted_iff : forall G (O : group_ops G) (H : transcript_oracle) ro idx sid pk,
  h_function_opt G O H ro idx sid pk = None <->
  forall j, (j < h_fuel)%nat -> g_dec O (fix_byte0 (H (h_query G O ro idx sid pk j))) = None.
Print Assumptions endemic_fuel_exhausted_iff.

(** Non-vacuity: Z_11 (zq_group with a 33-byte encoding) satisfies group_laws, enc33_roundtrip, prime q, and the retry
    loop never exhausts its fuel for a concrete oracle. *)
Example endemic_hyps_satisfiable : group_laws 11 (zq33_group 11 eot_lt_1_11) /\
  enc33_roundtrip (zq 11) (zq33_group 11 eot_lt_1_11) /\
  prime 11 /\
  (forall ro idx sid pk, h_function_opt (zq 11) (zq33_group 11 eot_lt_1_11) eot_zero_oracle ro idx sid pk <> None).
Proof. exact endemic_nonvacuous. Qed.
Check endemic_hyps_satisfiable : group_laws 11 (zq33_group 11 eot_lt_1_11) /\
  enc33_roundtrip (zq 11) (zq33_group 11 eot_lt_1_11) /\
  prime 11 /\
  (forall ro idx sid pk, h_function_opt (zq 11) (zq33_group 11 eot_lt_1_11) eot_zero_oracle ro idx sid pk <> None).
Print Assumptions endemic_hyps_satisfiable.

(* ------------------------------------------------------------------ non-zero sender scalars, prime order *)
From SL Require Import Model.Matrix Proofs.MatrixInv Proofs.EndemicNonzero.

(** NON-ZERO sender scalars (the sender draws NonZeroScalar::random) and a PRIME group order.
    Honest exchange, t_b_other <> 0 (mod q): receiver key = sender's OTHER key  ->  H2 collision on two different
    queries, or the hash-to-curve output on the fresh query (1-c, idx, sid, r_c) equals the ONE point
    ((t_a * t_b_c * t_b_o^-1) mod q) * gen - r_o, a function of values fixed before that query was made
    (t_b_o^-1 = zq_invert, the model of Scalar::invert; for t_b_o = 0 the equation of endemic_other_key is trivial). *)
Theorem endemic_other_key_single_point : forall G (O : group_ops G) (H : transcript_oracle) q, group_laws q O -> enc33_roundtrip G O -> prime q ->
  forall sid bits tas ros tbs skeys rkeys idx,
  let rn := eot_receiver_new G O H sid bits tas ros in
  let sp := eot_sender_process G O H sid (snd rn) tbs in
  snd sp = Val skeys -> eot_receiver_process G O H (fst rn) (fst sp) = Val (bits, rkeys) ->
  (idx < 256)%nat ->
  let c := bit_at bits idx in
  let ta := nth idx tas 0 in
  let ro := nth idx ros (g_id O) in
  let rc := recv_r_choice G O H sid c (N.of_nat idx) ta ro in
  let tb_c := if c then snd (nth idx tbs (0, 0)) else fst (nth idx tbs (0, 0)) in
  let tb_o := if c then fst (nth idx tbs (0, 0)) else snd (nth idx tbs (0, 0)) in
  let h_fresh := h_function G O H (ro_of_bit (negb c)) (N.of_nat idx) sid rc in
  tb_o mod q <> 0 ->
  nth idx rkeys [] = (if c then fst (nth idx skeys ([], [])) else snd (nth idx skeys ([], []))) ->
  h2_collision G O H (N.of_nat idx) (g_smul O ta (g_smul O tb_c (g_gen O))) (g_smul O tb_o (g_add O ro h_fresh)) \/
  (exists inv, zq_invert q (tb_o mod q) = Some inv /\ (tb_o * inv) mod q = 1 /\
     h_fresh = g_add O (g_smul O ((ta * tb_c * inv) mod q) (g_gen O)) (g_neg O ro) /\
     forall k k', h_query G O (ro_of_bit (negb c)) (N.of_nat idx) sid rc k <>
                  h_query G O (ro_of_bit c) (N.of_nat idx) sid ro k').
Proof. exact endemic_other_key_single_point_lem. Qed.
Check endemic_other_key_single_point : forall G (O : group_ops G) (H : transcript_oracle) q, group_laws q O -> enc33_roundtrip G O -> prime q ->
  forall sid bits tas ros tbs skeys rkeys idx,
  let rn := eot_receiver_new G O H sid bits tas ros in
  let sp := eot_sender_process G O H sid (snd rn) tbs in
  snd sp = Val skeys -> eot_receiver_process G O H (fst rn) (fst sp) = Val (bits, rkeys) ->
  (idx < 256)%nat ->
  let c := bit_at bits idx in
  let ta := nth idx tas 0 in
  let ro := nth idx ros (g_id O) in
  let rc := recv_r_choice G O H sid c (N.of_nat idx) ta ro in
  let tb_c := if c then snd (nth idx tbs (0, 0)) else fst (nth idx tbs (0, 0)) in
  let tb_o := if c then fst (nth idx tbs (0, 0)) else snd (nth idx tbs (0, 0)) in
  let h_fresh := h_function G O H (ro_of_bit (negb c)) (N.of_nat idx) sid rc in
  tb_o mod q <> 0 ->
  nth idx rkeys [] = (if c then fst (nth idx skeys ([], [])) else snd (nth idx skeys ([], []))) ->
  h2_collision G O H (N.of_nat idx) (g_smul O ta (g_smul O tb_c (g_gen O))) (g_smul O tb_o (g_add O ro h_fresh)) \/
  (exists inv, zq_invert q (tb_o mod q) = Some inv /\ (tb_o * inv) mod q = 1 /\
     h_fresh = g_add O (g_smul O ((ta * tb_c * inv) mod q) (g_gen O)) (g_neg O ro) /\
     forall k k', h_query G O (ro_of_bit (negb c)) (N.of_nat idx) sid rc k <>
                  h_query G O (ro_of_bit c) (N.of_nat idx) sid ro k').
Print Assumptions endemic_other_key_single_point.

(** Receiver under sidR, sender under sidS <> sidR, both sender scalars non-zero: the chosen-side coincidence is a plain
    collision Hc(..sidS..) = Hc(..sidR..) on two different queries, the other-side coincidence a single-point event. *)
Theorem endemic_session_binding_single_point : forall G (O : group_ops G) (H : transcript_oracle) q, group_laws q O -> enc33_roundtrip G O -> prime q ->
  forall sidR sidS bits tas ros tbs skeys rkeys idx (b : bool),
  sidR <> sidS ->
  let rn := eot_receiver_new G O H sidR bits tas ros in
  let sp := eot_sender_process G O H sidS (snd rn) tbs in
  snd sp = Val skeys -> eot_receiver_process G O H (fst rn) (fst sp) = Val (bits, rkeys) ->
  (idx < 256)%nat ->
  let c := bit_at bits idx in
  let ta := nth idx tas 0 in
  let ro := nth idx ros (g_id O) in
  let rc := recv_r_choice G O H sidR c (N.of_nat idx) ta ro in
  let tb_c := if c then snd (nth idx tbs (0, 0)) else fst (nth idx tbs (0, 0)) in
  let tb_o := if c then fst (nth idx tbs (0, 0)) else snd (nth idx tbs (0, 0)) in
  let hS := h_function G O H (ro_of_bit c) (N.of_nat idx) sidS ro in
  let hR := h_function G O H (ro_of_bit c) (N.of_nat idx) sidR ro in
  let h_fresh := h_function G O H (ro_of_bit (negb c)) (N.of_nat idx) sidS rc in
  tb_c mod q <> 0 -> tb_o mod q <> 0 ->
  nth idx rkeys [] = (if b then snd (nth idx skeys ([], [])) else fst (nth idx skeys ([], []))) ->
  (b = c /\ h2_collision G O H (N.of_nat idx) (g_smul O ta (g_smul O tb_c (g_gen O))) (g_smul O tb_c (g_add O rc hS))) \/
  (b = c /\ hS = hR /\
     forall k k', h_query G O (ro_of_bit c) (N.of_nat idx) sidS ro k <> h_query G O (ro_of_bit c) (N.of_nat idx) sidR ro k') \/
  (b = negb c /\ h2_collision G O H (N.of_nat idx) (g_smul O ta (g_smul O tb_c (g_gen O))) (g_smul O tb_o (g_add O ro h_fresh))) \/
  (b = negb c /\ exists inv, zq_invert q (tb_o mod q) = Some inv /\ (tb_o * inv) mod q = 1 /\
     h_fresh = g_add O (g_smul O ((ta * tb_c * inv) mod q) (g_gen O)) (g_neg O ro)).
Proof. exact endemic_session_binding_single_point_lem. Qed.
Check endemic_session_binding_single_point : forall G (O : group_ops G) (H : transcript_oracle) q, group_laws q O -> enc33_roundtrip G O -> prime q ->
  forall sidR sidS bits tas ros tbs skeys rkeys idx (b : bool),
  sidR <> sidS ->
  let rn := eot_receiver_new G O H sidR bits tas ros in
  let sp := eot_sender_process G O H sidS (snd rn) tbs in
  snd sp = Val skeys -> eot_receiver_process G O H (fst rn) (fst sp) = Val (bits, rkeys) ->
  (idx < 256)%nat ->
  let c := bit_at bits idx in
  let ta := nth idx tas 0 in
  let ro := nth idx ros (g_id O) in
  let rc := recv_r_choice G O H sidR c (N.of_nat idx) ta ro in
  let tb_c := if c then snd (nth idx tbs (0, 0)) else fst (nth idx tbs (0, 0)) in
  let tb_o := if c then fst (nth idx tbs (0, 0)) else snd (nth idx tbs (0, 0)) in
  let hS := h_function G O H (ro_of_bit c) (N.of_nat idx) sidS ro in
  let hR := h_function G O H (ro_of_bit c) (N.of_nat idx) sidR ro in
  let h_fresh := h_function G O H (ro_of_bit (negb c)) (N.of_nat idx) sidS rc in
  tb_c mod q <> 0 -> tb_o mod q <> 0 ->
  nth idx rkeys [] = (if b then snd (nth idx skeys ([], [])) else fst (nth idx skeys ([], []))) ->
  (b = c /\ h2_collision G O H (N.of_nat idx) (g_smul O ta (g_smul O tb_c (g_gen O))) (g_smul O tb_c (g_add O rc hS))) \/
  (b = c /\ hS = hR /\
     forall k k', h_query G O (ro_of_bit c) (N.of_nat idx) sidS ro k <> h_query G O (ro_of_bit c) (N.of_nat idx) sidR ro k') \/
  (b = negb c /\ h2_collision G O H (N.of_nat idx) (g_smul O ta (g_smul O tb_c (g_gen O))) (g_smul O tb_o (g_add O ro h_fresh))) \/
  (b = negb c /\ exists inv, zq_invert q (tb_o mod q) = Some inv /\ (tb_o * inv) mod q = 1 /\
     h_fresh = g_add O (g_smul O ((ta * tb_c * inv) mod q) (g_gen O)) (g_neg O ro)).
Print Assumptions endemic_session_binding_single_point.

(** Message 1 of another receiver run (session sid') given to the sender of session sid, sender scalar on side b non-zero:
    key equality forces an H2 collision or the sender's hash-to-curve output on side b to equal one explicit point.
    (For sid = sid' and b = c' that query is the one the other receiver made itself: an equation, not a fresh-query event.) *)
Theorem endemic_msg1_substituted_single_point : forall G (O : group_ops G) (H : transcript_oracle) q, group_laws q O -> enc33_roundtrip G O -> prime q ->
  forall sid bits tas sid' bits' tas' ros' tbs skeys rkeys idx (b : bool),
  let st := {| rs_bits := bits; rs_ta := tas |} in
  let rn' := eot_receiver_new G O H sid' bits' tas' ros' in
  let sp := eot_sender_process G O H sid (snd rn') tbs in
  snd sp = Val skeys -> eot_receiver_process G O H st (fst sp) = Val (bits, rkeys) ->
  (idx < 256)%nat ->
  let c := bit_at bits idx in
  let c' := bit_at bits' idx in
  let ta := nth idx tas 0 in
  let ro' := nth idx ros' (g_id O) in
  let rc' := recv_r_choice G O H sid' c' (N.of_nat idx) (nth idx tas' 0) ro' in
  let r0 := if c' then ro' else rc' in
  let r1 := if c' then rc' else ro' in
  let tb_c := if c then snd (nth idx tbs (0, 0)) else fst (nth idx tbs (0, 0)) in
  let tb_b := if b then snd (nth idx tbs (0, 0)) else fst (nth idx tbs (0, 0)) in
  tb_b mod q <> 0 ->
  nth idx rkeys [] = (if b then snd (nth idx skeys ([], [])) else fst (nth idx skeys ([], []))) ->
  (exists P P', h2_collision G O H (N.of_nat idx) P P') \/
  (exists inv, zq_invert q (tb_b mod q) = Some inv /\ (tb_b * inv) mod q = 1 /\
     h_function G O H (ro_of_bit b) (N.of_nat idx) sid (if b then r0 else r1) =
       g_add O (g_smul O ((ta * tb_c * inv) mod q) (g_gen O)) (g_neg O (if b then r1 else r0))).
Proof. exact endemic_msg1_substituted_single_point_lem. Qed.
Check endemic_msg1_substituted_single_point : forall G (O : group_ops G) (H : transcript_oracle) q, group_laws q O -> enc33_roundtrip G O -> prime q ->
  forall sid bits tas sid' bits' tas' ros' tbs skeys rkeys idx (b : bool),
  let st := {| rs_bits := bits; rs_ta := tas |} in
  let rn' := eot_receiver_new G O H sid' bits' tas' ros' in
  let sp := eot_sender_process G O H sid (snd rn') tbs in
  snd sp = Val skeys -> eot_receiver_process G O H st (fst sp) = Val (bits, rkeys) ->
  (idx < 256)%nat ->
  let c := bit_at bits idx in
  let c' := bit_at bits' idx in
  let ta := nth idx tas 0 in
  let ro' := nth idx ros' (g_id O) in
  let rc' := recv_r_choice G O H sid' c' (N.of_nat idx) (nth idx tas' 0) ro' in
  let r0 := if c' then ro' else rc' in
  let r1 := if c' then rc' else ro' in
  let tb_c := if c then snd (nth idx tbs (0, 0)) else fst (nth idx tbs (0, 0)) in
  let tb_b := if b then snd (nth idx tbs (0, 0)) else fst (nth idx tbs (0, 0)) in
  tb_b mod q <> 0 ->
  nth idx rkeys [] = (if b then snd (nth idx skeys ([], [])) else fst (nth idx skeys ([], []))) ->
  (exists P P', h2_collision G O H (N.of_nat idx) P P') \/
  (exists inv, zq_invert q (tb_b mod q) = Some inv /\ (tb_b * inv) mod q = 1 /\
     h_function G O H (ro_of_bit b) (N.of_nat idx) sid (if b then r0 else r1) =
       g_add O (g_smul O ((ta * tb_c * inv) mod q) (g_gen O)) (g_neg O (if b then r1 else r0))).
Print Assumptions endemic_msg1_substituted_single_point.

(** The receiver gets the message 2 of ANY other sender run, its own sender's other scalar non-zero: the other-side
    coincidence is a single-point event of the fresh hash-to-curve query. *)
Theorem endemic_msg2_substituted_single_point : forall G (O : group_ops G) (H : transcript_oracle) q, group_laws q O -> enc33_roundtrip G O -> prime q ->
  forall sid bits tas ros tbs sid' msg1' tbs' skeys rkeys idx (b : bool),
  let rn := eot_receiver_new G O H sid bits tas ros in
  let sp := eot_sender_process G O H sid (snd rn) tbs in
  let sp' := eot_sender_process G O H sid' msg1' tbs' in
  snd sp = Val skeys -> eot_receiver_process G O H (fst rn) (fst sp') = Val (bits, rkeys) ->
  (idx < 256)%nat ->
  let c := bit_at bits idx in
  let ta := nth idx tas 0 in
  let ro := nth idx ros (g_id O) in
  let rc := recv_r_choice G O H sid c (N.of_nat idx) ta ro in
  let tb_c := if c then snd (nth idx tbs (0, 0)) else fst (nth idx tbs (0, 0)) in
  let tb_o := if c then fst (nth idx tbs (0, 0)) else snd (nth idx tbs (0, 0)) in
  let tb_c' := if c then snd (nth idx tbs' (0, 0)) else fst (nth idx tbs' (0, 0)) in
  let h_fresh := h_function G O H (ro_of_bit (negb c)) (N.of_nat idx) sid rc in
  tb_o mod q <> 0 ->
  nth idx rkeys [] = (if b then snd (nth idx skeys ([], [])) else fst (nth idx skeys ([], []))) ->
  (exists P P', h2_collision G O H (N.of_nat idx) P P') \/
  (b = c /\ (ta * tb_c' - ta * tb_c) mod q = 0) \/
  (b = negb c /\ exists inv, zq_invert q (tb_o mod q) = Some inv /\ (tb_o * inv) mod q = 1 /\
     h_fresh = g_add O (g_smul O ((ta * tb_c' * inv) mod q) (g_gen O)) (g_neg O ro)).
Proof. exact endemic_msg2_substituted_single_point_lem. Qed.
Check endemic_msg2_substituted_single_point : forall G (O : group_ops G) (H : transcript_oracle) q, group_laws q O -> enc33_roundtrip G O -> prime q ->
  forall sid bits tas ros tbs sid' msg1' tbs' skeys rkeys idx (b : bool),
  let rn := eot_receiver_new G O H sid bits tas ros in
  let sp := eot_sender_process G O H sid (snd rn) tbs in
  let sp' := eot_sender_process G O H sid' msg1' tbs' in
  snd sp = Val skeys -> eot_receiver_process G O H (fst rn) (fst sp') = Val (bits, rkeys) ->
  (idx < 256)%nat ->
  let c := bit_at bits idx in
  let ta := nth idx tas 0 in
  let ro := nth idx ros (g_id O) in
  let rc := recv_r_choice G O H sid c (N.of_nat idx) ta ro in
  let tb_c := if c then snd (nth idx tbs (0, 0)) else fst (nth idx tbs (0, 0)) in
  let tb_o := if c then fst (nth idx tbs (0, 0)) else snd (nth idx tbs (0, 0)) in
  let tb_c' := if c then snd (nth idx tbs' (0, 0)) else fst (nth idx tbs' (0, 0)) in
  let h_fresh := h_function G O H (ro_of_bit (negb c)) (N.of_nat idx) sid rc in
  tb_o mod q <> 0 ->
  nth idx rkeys [] = (if b then snd (nth idx skeys ([], [])) else fst (nth idx skeys ([], []))) ->
  (exists P P', h2_collision G O H (N.of_nat idx) P P') \/
  (b = c /\ (ta * tb_c' - ta * tb_c) mod q = 0) \/
  (b = negb c /\ exists inv, zq_invert q (tb_o mod q) = Some inv /\ (tb_o * inv) mod q = 1 /\
     h_fresh = g_add O (g_smul O ((ta * tb_c' * inv) mod q) (g_gen O)) (g_neg O ro)).
Print Assumptions endemic_msg2_substituted_single_point.

(** ARBITRARY message 1 and message 2, the sender's scalar on side b non-zero: key equality forces an H2 collision or the
    sender's hash-to-curve output on side b to equal ((t_a * t_b^-1) mod q) * mb - r_b, mb the point the receiver decoded
    from (possibly adversarial) message 2. *)
Theorem endemic_key_equal_char_nonzero : forall G (O : group_ops G) (H : transcript_oracle) q, group_laws q O -> enc33_roundtrip G O -> prime q ->
  forall sidS msg1 tbs skeys st msg2 bits rkeys idx (b : bool),
  snd (eot_sender_process G O H sidS msg1 tbs) = Val skeys ->
  eot_receiver_process G O H st msg2 = Val (bits, rkeys) ->
  (idx < 256)%nat ->
  let tb_b := if b then snd (nth idx tbs (0, 0)) else fst (nth idx tbs (0, 0)) in
  tb_b mod q <> 0 ->
  nth idx rkeys [] = (if b then snd (nth idx skeys ([], [])) else fst (nth idx skeys ([], []))) ->
  exists r0 r1 mb,
    g_dec O (fst (nth idx msg1 ([], []))) = Some r0 /\ g_dec O (snd (nth idx msg1 ([], []))) = Some r1 /\
    g_dec O (chosen_side st msg2 idx) = Some mb /\
    let ta := nth idx (rs_ta st) 0 in
    let h := h_function G O H (ro_of_bit b) (N.of_nat idx) sidS (if b then r0 else r1) in
    (exists inv, zq_invert q (tb_b mod q) = Some inv /\ (tb_b * inv) mod q = 1 /\
       h = g_add O (g_smul O ((ta * inv) mod q) mb) (g_neg O (if b then r1 else r0))) \/
    h2_collision G O H (N.of_nat idx) (g_smul O ta mb) (g_smul O tb_b (g_add O (if b then r1 else r0) h)).
Proof. exact endemic_key_equal_char_nonzero_lem. Qed.
Check endemic_key_equal_char_nonzero : forall G (O : group_ops G) (H : transcript_oracle) q, group_laws q O -> enc33_roundtrip G O -> prime q ->
  forall sidS msg1 tbs skeys st msg2 bits rkeys idx (b : bool),
  snd (eot_sender_process G O H sidS msg1 tbs) = Val skeys ->
  eot_receiver_process G O H st msg2 = Val (bits, rkeys) ->
  (idx < 256)%nat ->
  let tb_b := if b then snd (nth idx tbs (0, 0)) else fst (nth idx tbs (0, 0)) in
  tb_b mod q <> 0 ->
  nth idx rkeys [] = (if b then snd (nth idx skeys ([], [])) else fst (nth idx skeys ([], []))) ->
  exists r0 r1 mb,
    g_dec O (fst (nth idx msg1 ([], []))) = Some r0 /\ g_dec O (snd (nth idx msg1 ([], []))) = Some r1 /\
    g_dec O (chosen_side st msg2 idx) = Some mb /\
    let ta := nth idx (rs_ta st) 0 in
    let h := h_function G O H (ro_of_bit b) (N.of_nat idx) sidS (if b then r0 else r1) in
    (exists inv, zq_invert q (tb_b mod q) = Some inv /\ (tb_b * inv) mod q = 1 /\
       h = g_add O (g_smul O ((ta * inv) mod q) mb) (g_neg O (if b then r1 else r0))) \/
    h2_collision G O H (N.of_nat idx) (g_smul O ta mb) (g_smul O tb_b (g_add O (if b then r1 else r0) h)).
Print Assumptions endemic_key_equal_char_nonzero.

(** Non-vacuity of the non-zero-scalar corollaries: over Z_11 with a constant oracle there is a run (t_a = 2,
    (t_b_0, t_b_1) = (5, 3) at instance 0) satisfying ALL premises of endemic_other_key_single_point: the exchange
    succeeds, the other scalar 3 is a unit (inverse 4), and the receiver's key equals the sender's other key. *)
Example endemic_single_point_hyps_satisfiable : let O := zq33_group 11 eot_lt_1_11 in
  let H := eot_zero_oracle in
  group_laws 11 O /\ enc33_roundtrip (zq 11) O /\ prime 11 /\
  exists sid bits tas ros tbs skeys rkeys idx,
    let rn := eot_receiver_new (zq 11) O H sid bits tas ros in
    let sp := eot_sender_process (zq 11) O H sid (snd rn) tbs in
    snd sp = Val skeys /\ eot_receiver_process (zq 11) O H (fst rn) (fst sp) = Val (bits, rkeys) /\
    (idx < 256)%nat /\
    let c := bit_at bits idx in
    let tb_o := if c then fst (nth idx tbs (0, 0)) else snd (nth idx tbs (0, 0)) in
    tb_o mod 11 <> 0 /\ zq_invert 11 (tb_o mod 11) = Some 4 /\
    nth idx rkeys [] = (if c then fst (nth idx skeys ([], [])) else snd (nth idx skeys ([], []))).
Proof. exact endemic_single_point_nonvacuous. Qed.
Check endemic_single_point_hyps_satisfiable : let O := zq33_group 11 eot_lt_1_11 in
  let H := eot_zero_oracle in
  group_laws 11 O /\ enc33_roundtrip (zq 11) O /\ prime 11 /\
  exists sid bits tas ros tbs skeys rkeys idx,
    let rn := eot_receiver_new (zq 11) O H sid bits tas ros in
    let sp := eot_sender_process (zq 11) O H sid (snd rn) tbs in
    snd sp = Val skeys /\ eot_receiver_process (zq 11) O H (fst rn) (fst sp) = Val (bits, rkeys) /\
    (idx < 256)%nat /\
    let c := bit_at bits idx in
    let tb_o := if c then fst (nth idx tbs (0, 0)) else snd (nth idx tbs (0, 0)) in
    tb_o mod 11 <> 0 /\ zq_invert 11 (tb_o mod 11) = Some 4 /\
    nth idx rkeys [] = (if c then fst (nth idx skeys ([], [])) else snd (nth idx skeys ([], []))).
Print Assumptions endemic_single_point_hyps_satisfiable.
