(** C08 -- Paillier: ciphertext add / scalar mul are homomorphic modulo N.
    Statements only; same model and premises as Props/C07.v. *)
From Coq Require Import ZArith List.
From SL Require Import Lib.Base Model.Paillier Proofs.PaillierNT Proofs.PaillierWidth Proofs.PaillierDec Proofs.PaillierHom Proofs.PaillierChain Proofs.PaillierExamples.
Local Open Scope Z_scope.

(** add returns c1*c2 mod N^2 *)
Theorem add_closed_form : forall (w : widths) (p q : Z), widths_ok w -> key_ok w p q ->
  forall c1 c2 : Z, add w (sk_pk (from_pq w p q)) c1 c2 = (c1 * c2) mod (p * q * (p * q)).
Proof. exact add_closed_k. Qed.
Check add_closed_form : forall (w : widths) (p q : Z), widths_ok w -> key_ok w p q ->
  forall c1 c2 : Z, add w (sk_pk (from_pq w p q)) c1 c2 = (c1 * c2) mod (p * q * (p * q)).
Print Assumptions add_closed_form.

(** mul returns c^k mod N^2 for every exponent representable at width wM *)
Theorem mul_closed_form : forall (w : widths) (p q : Z), widths_ok w -> key_ok w p q ->
  forall c k : Z, 0 <= k < 2 ^ wM w -> mul w (sk_pk (from_pq w p q)) c k = (c ^ k) mod (p * q * (p * q)).
Proof. exact mul_closed_k. Qed.
Check mul_closed_form : forall (w : widths) (p q : Z), widths_ok w -> key_ok w p q ->
  forall c k : Z, 0 <= k < 2 ^ wM w -> mul w (sk_pk (from_pq w p q)) c k = (c ^ k) mod (p * q * (p * q)).
Print Assumptions mul_closed_form.

(** the variable-time and the constant-time scalar multiplication return the same ciphertext (k = 0 included) *)
Theorem mul_vartime_eq_mul : forall (w : widths) (p q : Z), widths_ok w -> key_ok w p q ->
  forall c k : Z, 0 <= k < 2 ^ wM w -> mul_vartime w (sk_pk (from_pq w p q)) c k = mul w (sk_pk (from_pq w p q)) c k.
Proof. exact mul_vartime_eq. Qed.
Check mul_vartime_eq_mul : forall (w : widths) (p q : Z), widths_ok w -> key_ok w p q ->
  forall c k : Z, 0 <= k < 2 ^ wM w -> mul_vartime w (sk_pk (from_pq w p q)) c k = mul w (sk_pk (from_pq w p q)) c k.
Print Assumptions mul_vartime_eq_mul.

(** decrypt (add (enc m1) (enc m2)) = (m1 + m2) mod N, wrap-around included *)
Theorem add_hom : forall (w : widths) (p q : Z), widths_ok w -> key_ok w p q ->
  forall m1 r1 m2 r2 : Z, 0 <= m1 < p * q -> 0 <= m2 < p * q -> 0 <= r1 -> 0 <= r2 ->
  Z.gcd r1 (p * q) = 1 -> Z.gcd r2 (p * q) = 1 ->
  decrypt w (from_pq w p q) (add w (sk_pk (from_pq w p q)) (encrypt w (sk_pk (from_pq w p q)) m1 r1) (encrypt w (sk_pk (from_pq w p q)) m2 r2)) = (m1 + m2) mod (p * q).
Proof. exact S_add_hom. Qed.
Check add_hom : forall (w : widths) (p q : Z), widths_ok w -> key_ok w p q ->
  forall m1 r1 m2 r2 : Z, 0 <= m1 < p * q -> 0 <= m2 < p * q -> 0 <= r1 -> 0 <= r2 ->
  Z.gcd r1 (p * q) = 1 -> Z.gcd r2 (p * q) = 1 ->
  decrypt w (from_pq w p q) (add w (sk_pk (from_pq w p q)) (encrypt w (sk_pk (from_pq w p q)) m1 r1) (encrypt w (sk_pk (from_pq w p q)) m2 r2)) = (m1 + m2) mod (p * q).
Print Assumptions add_hom.

(** the same through decrypt_fast *)
Theorem add_hom_fast : forall (w : widths) (p q : Z), widths_ok w -> key_ok w p q ->
  forall m1 r1 m2 r2 : Z, 0 <= m1 < p * q -> 0 <= m2 < p * q -> 0 <= r1 -> 0 <= r2 ->
  Z.gcd r1 (p * q) = 1 -> Z.gcd r2 (p * q) = 1 ->
  decrypt_fast w (from_pq w p q) (add w (sk_pk (from_pq w p q)) (encrypt w (sk_pk (from_pq w p q)) m1 r1) (encrypt w (sk_pk (from_pq w p q)) m2 r2)) = (m1 + m2) mod (p * q).
Proof. exact S_add_hom_fast. Qed.
Check add_hom_fast : forall (w : widths) (p q : Z), widths_ok w -> key_ok w p q ->
  forall m1 r1 m2 r2 : Z, 0 <= m1 < p * q -> 0 <= m2 < p * q -> 0 <= r1 -> 0 <= r2 ->
  Z.gcd r1 (p * q) = 1 -> Z.gcd r2 (p * q) = 1 ->
  decrypt_fast w (from_pq w p q) (add w (sk_pk (from_pq w p q)) (encrypt w (sk_pk (from_pq w p q)) m1 r1) (encrypt w (sk_pk (from_pq w p q)) m2 r2)) = (m1 + m2) mod (p * q).
Print Assumptions add_hom_fast.

(** decrypt (mul (enc m) k) = (k * m) mod N, wrap-around included *)
Theorem mul_hom : forall (w : widths) (p q : Z), widths_ok w -> key_ok w p q ->
  forall m r k : Z, 0 <= m < p * q -> 0 <= k < p * q -> 0 <= r -> Z.gcd r (p * q) = 1 ->
  decrypt w (from_pq w p q) (mul w (sk_pk (from_pq w p q)) (encrypt w (sk_pk (from_pq w p q)) m r) k) = (k * m) mod (p * q).
Proof. exact S_mul_hom. Qed.
Check mul_hom : forall (w : widths) (p q : Z), widths_ok w -> key_ok w p q ->
  forall m r k : Z, 0 <= m < p * q -> 0 <= k < p * q -> 0 <= r -> Z.gcd r (p * q) = 1 ->
  decrypt w (from_pq w p q) (mul w (sk_pk (from_pq w p q)) (encrypt w (sk_pk (from_pq w p q)) m r) k) = (k * m) mod (p * q).
Print Assumptions mul_hom.

(** the same through decrypt_fast *)
Theorem mul_hom_fast : forall (w : widths) (p q : Z), widths_ok w -> key_ok w p q ->
  forall m r k : Z, 0 <= m < p * q -> 0 <= k < p * q -> 0 <= r -> Z.gcd r (p * q) = 1 ->
  decrypt_fast w (from_pq w p q) (mul w (sk_pk (from_pq w p q)) (encrypt w (sk_pk (from_pq w p q)) m r) k) = (k * m) mod (p * q).
Proof. exact S_mul_hom_fast. Qed.
Check mul_hom_fast : forall (w : widths) (p q : Z), widths_ok w -> key_ok w p q ->
  forall m r k : Z, 0 <= m < p * q -> 0 <= k < p * q -> 0 <= r -> Z.gcd r (p * q) = 1 ->
  decrypt_fast w (from_pq w p q) (mul w (sk_pk (from_pq w p q)) (encrypt w (sk_pk (from_pq w p q)) m r) k) = (k * m) mod (p * q).
Print Assumptions mul_hom_fast.

(** the same for mul_vartime *)
Theorem mul_vartime_hom : forall (w : widths) (p q : Z), widths_ok w -> key_ok w p q ->
  forall m r k : Z, 0 <= m < p * q -> 0 <= k < p * q -> 0 <= r -> Z.gcd r (p * q) = 1 ->
  decrypt w (from_pq w p q) (mul_vartime w (sk_pk (from_pq w p q)) (encrypt w (sk_pk (from_pq w p q)) m r) k) = (k * m) mod (p * q).
Proof. exact S_mul_vartime_hom. Qed.
Check mul_vartime_hom : forall (w : widths) (p q : Z), widths_ok w -> key_ok w p q ->
  forall m r k : Z, 0 <= m < p * q -> 0 <= k < p * q -> 0 <= r -> Z.gcd r (p * q) = 1 ->
  decrypt w (from_pq w p q) (mul_vartime w (sk_pk (from_pq w p q)) (encrypt w (sk_pk (from_pq w p q)) m r) k) = (k * m) mod (p * q).
Print Assumptions mul_vartime_hom.

(** ---- compositional form: any ciphertext that carries a plaintext, any depth of operations ----
    [carries p q c m] (Proofs/PaillierChain.v): 0 <= c and c = (1 + m N) r^N (mod N^2) for a unit r >= 0;
    m is an unreduced integer.  Fresh encryptions carry their plaintext; the results of add / mul carry the
    sum / product, so the homomorphisms apply again to those results. *)
Theorem fresh_ciphertext_carries : forall (w : widths) (p q : Z), widths_ok w -> key_ok w p q ->
  forall m r : Z, 0 <= m < p * q -> 0 <= r -> Z.gcd r (p * q) = 1 ->
  carries p q (encrypt w (sk_pk (from_pq w p q)) m r) m.
Proof. exact carries_enc. Qed.
Check fresh_ciphertext_carries : forall (w : widths) (p q : Z), widths_ok w -> key_ok w p q ->
  forall m r : Z, 0 <= m < p * q -> 0 <= r -> Z.gcd r (p * q) = 1 ->
  carries p q (encrypt w (sk_pk (from_pq w p q)) m r) m.
Print Assumptions fresh_ciphertext_carries.

Theorem add_hom_any_ciphertext : forall (w : widths) (p q : Z), widths_ok w -> key_ok w p q ->
  forall c1 m1 c2 m2 : Z, carries p q c1 m1 -> carries p q c2 m2 ->
  carries p q (add w (sk_pk (from_pq w p q)) c1 c2) (m1 + m2) /\
  decrypt w (from_pq w p q) (add w (sk_pk (from_pq w p q)) c1 c2) = (m1 + m2) mod (p * q) /\
  decrypt_fast w (from_pq w p q) (add w (sk_pk (from_pq w p q)) c1 c2) = (m1 + m2) mod (p * q).
Proof. exact S_add_hom_any. Qed.
Check add_hom_any_ciphertext : forall (w : widths) (p q : Z), widths_ok w -> key_ok w p q ->
  forall c1 m1 c2 m2 : Z, carries p q c1 m1 -> carries p q c2 m2 ->
  carries p q (add w (sk_pk (from_pq w p q)) c1 c2) (m1 + m2) /\
  decrypt w (from_pq w p q) (add w (sk_pk (from_pq w p q)) c1 c2) = (m1 + m2) mod (p * q) /\
  decrypt_fast w (from_pq w p q) (add w (sk_pk (from_pq w p q)) c1 c2) = (m1 + m2) mod (p * q).
Print Assumptions add_hom_any_ciphertext.

Theorem mul_hom_any_ciphertext : forall (w : widths) (p q : Z), widths_ok w -> key_ok w p q ->
  forall c m k : Z, carries p q c m -> 0 <= k < p * q ->
  carries p q (mul w (sk_pk (from_pq w p q)) c k) (k * m) /\
  mul_vartime w (sk_pk (from_pq w p q)) c k = mul w (sk_pk (from_pq w p q)) c k /\
  decrypt w (from_pq w p q) (mul w (sk_pk (from_pq w p q)) c k) = (k * m) mod (p * q) /\
  decrypt_fast w (from_pq w p q) (mul w (sk_pk (from_pq w p q)) c k) = (k * m) mod (p * q).
Proof. exact S_mul_hom_any. Qed.
Check mul_hom_any_ciphertext : forall (w : widths) (p q : Z), widths_ok w -> key_ok w p q ->
  forall c m k : Z, carries p q c m -> 0 <= k < p * q ->
  carries p q (mul w (sk_pk (from_pq w p q)) c k) (k * m) /\
  mul_vartime w (sk_pk (from_pq w p q)) c k = mul w (sk_pk (from_pq w p q)) c k /\
  decrypt w (from_pq w p q) (mul w (sk_pk (from_pq w p q)) c k) = (k * m) mod (p * q) /\
  decrypt_fast w (from_pq w p q) (mul w (sk_pk (from_pq w p q)) c k) = (k * m) mod (p * q).
Print Assumptions mul_hom_any_ciphertext.

(** every expression tree of encrypt / add / mul / mul_vartime with API-admissible leaves and scalars, of any
    depth: both decryption paths return the tree's integer value mod N; the ciphertext equals the one computed
    with plain products and powers mod N^2; replacing mul_vartime by mul anywhere changes nothing *)
Theorem hom_tree : forall (w : widths) (p q : Z), widths_ok w -> key_ok w p q ->
  forall e : hexpr, hwf (p * q) e ->
  decrypt w (from_pq w p q) (hct w (sk_pk (from_pq w p q)) e) = hval e mod (p * q) /\
  decrypt_fast w (from_pq w p q) (hct w (sk_pk (from_pq w p q)) e) = hval e mod (p * q) /\
  hct w (sk_pk (from_pq w p q)) e = hct_spec (p * q * (p * q)) (encrypt w (sk_pk (from_pq w p q))) e /\
  hct w (sk_pk (from_pq w p q)) (devar e) = hct w (sk_pk (from_pq w p q)) e.
Proof. exact S_tree. Qed.
Check hom_tree : forall (w : widths) (p q : Z), widths_ok w -> key_ok w p q ->
  forall e : hexpr, hwf (p * q) e ->
  decrypt w (from_pq w p q) (hct w (sk_pk (from_pq w p q)) e) = hval e mod (p * q) /\
  decrypt_fast w (from_pq w p q) (hct w (sk_pk (from_pq w p q)) e) = hval e mod (p * q) /\
  hct w (sk_pk (from_pq w p q)) e = hct_spec (p * q * (p * q)) (encrypt w (sk_pk (from_pq w p q))) e /\
  hct w (sk_pk (from_pq w p q)) (devar e) = hct w (sk_pk (from_pq w p q)) e.
Print Assumptions hom_tree.

(** non-vacuity: a depth-4 tree under the key (11,17) whose value 186*(186*(100+150)+186) wraps N = 187 many
    times meets [hwf], and the model computes what the theorem says (the value is 64 mod 187) *)
Theorem hom_tree_nonvacuous :
  let e := HMul (HAdd (HMulV (HAdd (HEnc 100 2) (HEnc 150 3)) 186) (HEnc 186 5)) 186 in
  hwf (11 * 17) e /\ hval e > 1000 * (11 * 17) /\
  decrypt cfg512 (from_pq cfg512 11 17) (hct cfg512 (sk_pk (from_pq cfg512 11 17)) e) = 64.
Proof. exact hom_tree_example. Qed.
Check hom_tree_nonvacuous :
  let e := HMul (HAdd (HMulV (HAdd (HEnc 100 2) (HEnc 150 3)) 186) (HEnc 186 5)) 186 in
  hwf (11 * 17) e /\ hval e > 1000 * (11 * 17) /\
  decrypt cfg512 (from_pq cfg512 11 17) (hct cfg512 (sk_pk (from_pq cfg512 11 17)) e) = 64.
Print Assumptions hom_tree_nonvacuous.

(** non-vacuity of the premises (see Props/C07.v) *)
Theorem key_ok_nonvacuous : widths_ok cfg512 /\ key_ok cfg512 11 17 /\ key_ok cfg512 4294967291 4294967279.
Proof. exact (conj widths_ok_512 (conj key_ok_11_17 key_ok_32bit_gt)). Qed.
Check key_ok_nonvacuous : widths_ok cfg512 /\ key_ok cfg512 11 17 /\ key_ok cfg512 4294967291 4294967279.
Print Assumptions key_ok_nonvacuous.

