(** C08 -- Paillier: ciphertext add / scalar mul are homomorphic modulo N.
    Statements only; same model and premises as Props/C07.v. *)
From Coq Require Import ZArith List.
From SL Require Import Lib.Base Model.Paillier Proofs.PaillierNT Proofs.PaillierWidth Proofs.PaillierDec Proofs.PaillierHom Proofs.PaillierExamples.
Local Open Scope Z_scope.

(** add returns c1*c2 mod N^2 *)
Theorem add_closed_form : forall (w : widths) (p q : Z), widths_ok w -> key_ok w p q ->
  forall c1 c2 : Z, add w (sk_pk (from_pq w p q)) c1 c2 = (c1 * c2) mod (p * q * (p * q)).
Proof. exact add_closed_k. Qed.
Check add_closed_form : forall (w : widths) (p q : Z), widths_ok w -> key_ok w p q ->
  forall c1 c2 : Z, add w (sk_pk (from_pq w p q)) c1 c2 = (c1 * c2) mod (p * q * (p * q)).
Print Assumptions add_closed_form.

(** mul returns c^k mod N^2 for every exponent representable at width wM *)
Theorem mul_closed_form : forall (w : widths) (p q : Z), widths_ok w -> key_ok w p q ->
  forall c k : Z, 0 <= k < 2 ^ wM w -> mul w (sk_pk (from_pq w p q)) c k = (c ^ k) mod (p * q * (p * q)).
Proof. exact mul_closed_k. Qed.
Check mul_closed_form : forall (w : widths) (p q : Z), widths_ok w -> key_ok w p q ->
  forall c k : Z, 0 <= k < 2 ^ wM w -> mul w (sk_pk (from_pq w p q)) c k = (c ^ k) mod (p * q * (p * q)).
Print Assumptions mul_closed_form.

(** the variable-time and the constant-time scalar multiplication return the same ciphertext (k = 0 included) *)
Theorem mul_vartime_eq_mul : forall (w : widths) (p q : Z), widths_ok w -> key_ok w p q ->
  forall c k : Z, 0 <= k < 2 ^ wM w -> mul_vartime w (sk_pk (from_pq w p q)) c k = mul w (sk_pk (from_pq w p q)) c k.
Proof. exact mul_vartime_eq. Qed.
Check mul_vartime_eq_mul : forall (w : widths) (p q : Z), widths_ok w -> key_ok w p q ->
  forall c k : Z, 0 <= k < 2 ^ wM w -> mul_vartime w (sk_pk (from_pq w p q)) c k = mul w (sk_pk (from_pq w p q)) c k.
Print Assumptions mul_vartime_eq_mul.

(** decrypt (add (enc m1) (enc m2)) = (m1 + m2) mod N, wrap-around included *)
Theorem add_hom : forall (w : widths) (p q : Z), widths_ok w -> key_ok w p q ->
  forall m1 r1 m2 r2 : Z, 0 <= m1 < p * q -> 0 <= m2 < p * q -> 0 <= r1 -> 0 <= r2 ->
  Z.gcd r1 (p * q) = 1 -> Z.gcd r2 (p * q) = 1 ->
  decrypt w (from_pq w p q) (add w (sk_pk (from_pq w p q)) (encrypt w (sk_pk (from_pq w p q)) m1 r1) (encrypt w (sk_pk (from_pq w p q)) m2 r2)) = (m1 + m2) mod (p * q).
Proof. exact S_add_hom. Qed.
Check add_hom : forall (w : widths) (p q : Z), widths_ok w -> key_ok w p q ->
  forall m1 r1 m2 r2 : Z, 0 <= m1 < p * q -> 0 <= m2 < p * q -> 0 <= r1 -> 0 <= r2 ->
  Z.gcd r1 (p * q) = 1 -> Z.gcd r2 (p * q) = 1 ->
  decrypt w (from_pq w p q) (add w (sk_pk (from_pq w p q)) (encrypt w (sk_pk (from_pq w p q)) m1 r1) (encrypt w (sk_pk (from_pq w p q)) m2 r2)) = (m1 + m2) mod (p * q).
Print Assumptions add_hom.

(** the same through decrypt_fast *)
Theorem add_hom_fast : forall (w : widths) (p q : Z), widths_ok w -> key_ok w p q ->
  forall m1 r1 m2 r2 : Z, 0 <= m1 < p * q -> 0 <= m2 < p * q -> 0 <= r1 -> 0 <= r2 ->
  Z.gcd r1 (p * q) = 1 -> Z.gcd r2 (p * q) = 1 ->
  decrypt_fast w (from_pq w p q) (add w (sk_pk (from_pq w p q)) (encrypt w (sk_pk (from_pq w p q)) m1 r1) (encrypt w (sk_pk (from_pq w p q)) m2 r2)) = (m1 + m2) mod (p * q).
Proof. exact S_add_hom_fast. Qed.
Check add_hom_fast : forall (w : widths) (p q : Z), widths_ok w -> key_ok w p q ->
  forall m1 r1 m2 r2 : Z, 0 <= m1 < p * q -> 0 <= m2 < p * q -> 0 <= r1 -> 0 <= r2 ->
  Z.gcd r1 (p * q) = 1 -> Z.gcd r2 (p * q) = 1 ->
  decrypt_fast w (from_pq w p q) (add w (sk_pk (from_pq w p q)) (encrypt w (sk_pk (from_pq w p q)) m1 r1) (encrypt w (sk_pk (from_pq w p q)) m2 r2)) = (m1 + m2) mod (p * q).
Print Assumptions add_hom_fast.

(** decrypt (mul (enc m) k) = (k * m) mod N, wrap-around included *)
Theorem mul_hom : forall (w : widths) (p q : Z), widths_ok w -> key_ok w p q ->
  forall m r k : Z, 0 <= m < p * q -> 0 <= k < p * q -> 0 <= r -> Z.gcd r (p * q) = 1 ->
  decrypt w (from_pq w p q) (mul w (sk_pk (from_pq w p q)) (encrypt w (sk_pk (from_pq w p q)) m r) k) = (k * m) mod (p * q).
Proof. exact S_mul_hom. Qed.
Check mul_hom : forall (w : widths) (p q : Z), widths_ok w -> key_ok w p q ->
  forall m r k : Z, 0 <= m < p * q -> 0 <= k < p * q -> 0 <= r -> Z.gcd r (p * q) = 1 ->
  decrypt w (from_pq w p q) (mul w (sk_pk (from_pq w p q)) (encrypt w (sk_pk (from_pq w p q)) m r) k) = (k * m) mod (p * q).
Print Assumptions mul_hom.

(** the same through decrypt_fast *)
Theorem mul_hom_fast : forall (w : widths) (p q : Z), widths_ok w -> key_ok w p q ->
  forall m r k : Z, 0 <= m < p * q -> 0 <= k < p * q -> 0 <= r -> Z.gcd r (p * q) = 1 ->
  decrypt_fast w (from_pq w p q) (mul w (sk_pk (from_pq w p q)) (encrypt w (sk_pk (from_pq w p q)) m r) k) = (k * m) mod (p * q).
Proof. exact S_mul_hom_fast. Qed.
Check mul_hom_fast : forall (w : widths) (p q : Z), widths_ok w -> key_ok w p q ->
  forall m r k : Z, 0 <= m < p * q -> 0 <= k < p * q -> 0 <= r -> Z.gcd r (p * q) = 1 ->
  decrypt_fast w (from_pq w p q) (mul w (sk_pk (from_pq w p q)) (encrypt w (sk_pk (from_pq w p q)) m r) k) = (k * m) mod (p * q).
Print Assumptions mul_hom_fast.

(** the same for mul_vartime *)
Theorem mul_vartime_hom : forall (w : widths) (p q : Z), widths_ok w -> key_ok w p q ->
  forall m r k : Z, 0 <= m < p * q -> 0 <= k < p * q -> 0 <= r -> Z.gcd r (p * q) = 1 ->
  decrypt w (from_pq w p q) (mul_vartime w (sk_pk (from_pq w p q)) (encrypt w (sk_pk (from_pq w p q)) m r) k) = (k * m) mod (p * q).
Proof. exact S_mul_vartime_hom. Qed.
Check mul_vartime_hom : forall (w : widths) (p q : Z), widths_ok w -> key_ok w p q ->
  forall m r k : Z, 0 <= m < p * q -> 0 <= k < p * q -> 0 <= r -> Z.gcd r (p * q) = 1 ->
  decrypt w (from_pq w p q) (mul_vartime w (sk_pk (from_pq w p q)) (encrypt w (sk_pk (from_pq w p q)) m r) k) = (k * m) mod (p * q).
Print Assumptions mul_vartime_hom.

(** non-vacuity of the premises (see Props/C07.v) *)
Theorem key_ok_nonvacuous : widths_ok cfg512 /\ key_ok cfg512 11 17 /\ key_ok cfg512 4294967291 4294967279.
Proof. exact (conj widths_ok_512 (conj key_ok_11_17 key_ok_32bit_gt)). Qed.
Check key_ok_nonvacuous : widths_ok cfg512 /\ key_ok cfg512 11 17 /\ key_ok cfg512 4294967291 4294967279.
Print Assumptions key_ok_nonvacuous.

