(** C12 -- BIP32 public derivation (crates/sl-mpc-mate/src/bip32.rs): the model's derive_xpub / to_string equal
    the BIP32 specification, steps and paths are additive, hardened / identity / too-deep inputs are errors,
    nothing panics.  Statements only.  G/O: any group satisfying [group_laws] whose encoding has the SEC1
    lengths ([enc_len]); hmac512 / sha256 / ripemd160: ANY functions; paths of ANY length.  Each statement
    carries only the hypotheses its proof uses. *)
From SL Require Import Lib.Base Lib.Oracle Lib.ZqGroup Model.Bip32 Model.Bip32Spec Proofs.Bip32 Proofs.Bip32Split Proofs.Bip32Base58 Proofs.Bip32NonVac.
Local Open Scope N_scope.

(** Every field and both strings equal the specification. For a non-hardened path of at most 255 levels from a non-identity
    root: if the BIP32 key exists, derive_xpub returns exactly it (version, depth, parent fingerprint, child number, chain
    code, key), and to_string is the specified hex / Base58Check serialisation; if the BIP32 key is invalid, derive_xpub
    returns InvalidChildScalar or PubkeyPointAtInfinity -- unless some step has I_L = n exactly ([boundary_hit]), the one
    point where the code (`>`) deviates from the BIP (`>=`). *)
Theorem xpub_matches_spec : forall G (O : group_ops G) (hmac512 : list N -> list N -> list N) (sha256 ripemd160 : list N -> list N) q,
  group_laws q O -> enc_len O -> forall pfx root cc path, root <> g_id O -> Forall (fun i => i < 2 ^ 31) path -> (length path <= 255)%nat ->
  (forall e, bip32_spec G O hmac512 sha256 ripemd160 q root cc path = Some e ->
     derive_xpub G O hmac512 sha256 ripemd160 q pfx root cc path = Val (xpub_of_ext G pfx e)
     /\ e_depth G e = N.of_nat (length path)
     /\ (oracle_lens hmac512 ripemd160 -> length cc = 32%nat -> forall b, exists s,
           to_string G O sha256 (xpub_of_ext G pfx e) b = Val s /\ spec_string G O sha256 (prefix_u32 pfx) e b = Some s))
  /\ (bip32_spec G O hmac512 sha256 ripemd160 q root cc path = None ->
      ~ boundary_hit G O hmac512 sha256 ripemd160 q root cc path ->
      exists err, derive_xpub G O hmac512 sha256 ripemd160 q pfx root cc path = Err err
        /\ (err = E_InvalidChildScalar \/ err = E_PointAtInfinity)).
Proof. exact xpub_matches_spec_lem. Qed.
Check xpub_matches_spec : forall G (O : group_ops G) (hmac512 : list N -> list N -> list N) (sha256 ripemd160 : list N -> list N) q,
  group_laws q O -> enc_len O -> forall pfx root cc path, root <> g_id O -> Forall (fun i => i < 2 ^ 31) path -> (length path <= 255)%nat ->
  (forall e, bip32_spec G O hmac512 sha256 ripemd160 q root cc path = Some e ->
     derive_xpub G O hmac512 sha256 ripemd160 q pfx root cc path = Val (xpub_of_ext G pfx e)
     /\ e_depth G e = N.of_nat (length path)
     /\ (oracle_lens hmac512 ripemd160 -> length cc = 32%nat -> forall b, exists s,
           to_string G O sha256 (xpub_of_ext G pfx e) b = Val s /\ spec_string G O sha256 (prefix_u32 pfx) e b = Some s))
  /\ (bip32_spec G O hmac512 sha256 ripemd160 q root cc path = None ->
      ~ boundary_hit G O hmac512 sha256 ripemd160 q root cc path ->
      exists err, derive_xpub G O hmac512 sha256 ripemd160 q pfx root cc path = Err err
        /\ (err = E_InvalidChildScalar \/ err = E_PointAtInfinity)).
Print Assumptions xpub_matches_spec.

(** One step against CKDpub: away from I_L = n, derive_child_pubkey returns the BIP's child key and chain code with offset
    I_L mod n when CKDpub succeeds, and an error when CKDpub fails. *)
Theorem ckd_matches_spec : forall G (O : group_ops G) (hmac512 : list N -> list N -> list N) q,
  group_laws q O -> forall P c i,
  Z.of_N (of_be (firstn 32 (hmac512 c (g_enc O P ++ to_be 4 i)))) <> q ->
  derive_child_pubkey G O hmac512 q P c i =
    match CKDpub G O hmac512 q P c i with
    | Some (K, c') => Val ((Z.of_N (of_be (firstn 32 (hmac512 c (g_enc O P ++ to_be 4 i)))) mod q)%Z, K, c')
    | None => derive_child_pubkey G O hmac512 q P c i
    end
  /\ (CKDpub G O hmac512 q P c i = None -> exists e, derive_child_pubkey G O hmac512 q P c i = Err e).
Proof. exact ckd_matches_spec_lem. Qed.
Check ckd_matches_spec : forall G (O : group_ops G) (hmac512 : list N -> list N -> list N) q,
  group_laws q O -> forall P c i,
  Z.of_N (of_be (firstn 32 (hmac512 c (g_enc O P ++ to_be 4 i)))) <> q ->
  derive_child_pubkey G O hmac512 q P c i =
    match CKDpub G O hmac512 q P c i with
    | Some (K, c') => Val ((Z.of_N (of_be (firstn 32 (hmac512 c (g_enc O P ++ to_be 4 i)))) mod q)%Z, K, c')
    | None => derive_child_pubkey G O hmac512 q P c i
    end
  /\ (CKDpub G O hmac512 q P c i = None -> exists e, derive_child_pubkey G O hmac512 q P c i = Err e).
Print Assumptions ckd_matches_spec.

(** child = parent + offset * G *)
Theorem ckd_offset : forall G (O : group_ops G) (hmac512 : list N -> list N -> list N) q,
  group_laws q O -> forall P c i o P' c',
  derive_child_pubkey G O hmac512 q P c i = Val (o, P', c') -> P' = g_add O P (g_smul O o (g_gen O)).
Proof. exact ckd_offset_lem. Qed.
Check ckd_offset : forall G (O : group_ops G) (hmac512 : list N -> list N -> list N) q,
  group_laws q O -> forall P c i o P' c',
  derive_child_pubkey G O hmac512 q P c i = Val (o, P', c') -> P' = g_add O P (g_smul O o (g_gen O)).
Print Assumptions ckd_offset.

(** final key = root + (sum of the offsets of all levels) * G, one offset per level *)
Theorem xpub_additive : forall G (O : group_ops G) (hmac512 : list N -> list N -> list N) (sha256 ripemd160 : list N -> list N) q,
  group_laws q O -> forall pfx root cc path x,
  derive_xpub G O hmac512 sha256 ripemd160 q pfx root cc path = Val x ->
  x_pubkey G x = g_add O root (g_smul O (zsum (walk_offsets G O hmac512 q root cc path)) (g_gen O))
  /\ length (walk_offsets G O hmac512 q root cc path) = length path.
Proof. exact xpub_additive_lem. Qed.
Check xpub_additive : forall G (O : group_ops G) (hmac512 : list N -> list N -> list N) (sha256 ripemd160 : list N -> list N) q,
  group_laws q O -> forall pfx root cc path x,
  derive_xpub G O hmac512 sha256 ripemd160 q pfx root cc path = Val x ->
  x_pubkey G x = g_add O root (g_smul O (zsum (walk_offsets G O hmac512 q root cc path)) (g_gen O))
  /\ length (walk_offsets G O hmac512 q root cc path) = length path.
Print Assumptions xpub_additive.

(** a hardened component at ANY position makes derive_xpub return an error (never a key, never a panic) *)
Theorem hardened_is_error : forall G (O : group_ops G) (hmac512 : list N -> list N -> list N) (sha256 ripemd160 : list N -> list N) q,
  enc_len O -> forall pfx root cc path,
  Exists (fun i => 2 ^ 31 <= i) path -> exists e, derive_xpub G O hmac512 sha256 ripemd160 q pfx root cc path = Err e.
Proof. exact hardened_is_error_lem. Qed.
Check hardened_is_error : forall G (O : group_ops G) (hmac512 : list N -> list N -> list N) (sha256 ripemd160 : list N -> list N) q,
  enc_len O -> forall pfx root cc path,
  Exists (fun i => 2 ^ 31 <= i) path -> exists e, derive_xpub G O hmac512 sha256 ripemd160 q pfx root cc path = Err e.
Print Assumptions hardened_is_error.

(** ... and it is HardenedChildNotSupported when the components before it derive *)
Theorem hardened_error_code : forall G (O : group_ops G) (hmac512 : list N -> list N -> list N) (sha256 ripemd160 : list N -> list N) q,
  group_laws q O -> enc_len O -> forall pfx root cc p1 i p2 e,
  root <> g_id O -> (length (p1 ++ i :: p2) <= 255)%nat ->
  bip32_spec G O hmac512 sha256 ripemd160 q root cc p1 = Some e -> 2 ^ 31 <= i ->
  derive_xpub G O hmac512 sha256 ripemd160 q pfx root cc (p1 ++ i :: p2) = Err E_Hardened.
Proof. exact hardened_error_code_lem. Qed.
Check hardened_error_code : forall G (O : group_ops G) (hmac512 : list N -> list N -> list N) (sha256 ripemd160 : list N -> list N) q,
  group_laws q O -> enc_len O -> forall pfx root cc p1 i p2 e,
  root <> g_id O -> (length (p1 ++ i :: p2) <= 255)%nat ->
  bip32_spec G O hmac512 sha256 ripemd160 q root cc p1 = Some e -> 2 ^ 31 <= i ->
  derive_xpub G O hmac512 sha256 ripemd160 q pfx root cc (p1 ++ i :: p2) = Err E_Hardened.
Print Assumptions hardened_error_code.

(** the point at infinity as root is an error; a derived key is never the point at infinity *)
Theorem identity_is_error : forall G (O : group_ops G) (hmac512 : list N -> list N -> list N) (sha256 ripemd160 : list N -> list N) q,
  group_laws q O -> forall pfx cc path,
  derive_xpub G O hmac512 sha256 ripemd160 q pfx (g_id O) cc path = Err E_PointAtInfinity.
Proof. exact identity_is_error_lem. Qed.
Check identity_is_error : forall G (O : group_ops G) (hmac512 : list N -> list N -> list N) (sha256 ripemd160 : list N -> list N) q,
  group_laws q O -> forall pfx cc path,
  derive_xpub G O hmac512 sha256 ripemd160 q pfx (g_id O) cc path = Err E_PointAtInfinity.
Print Assumptions identity_is_error.

Theorem derived_key_not_identity : forall G (O : group_ops G) (hmac512 : list N -> list N -> list N) (sha256 ripemd160 : list N -> list N) q,
  group_laws q O -> enc_len O -> forall pfx root cc path x,
  derive_xpub G O hmac512 sha256 ripemd160 q pfx root cc path = Val x -> x_pubkey G x <> g_id O.
Proof. exact derived_key_not_identity_lem. Qed.
Check derived_key_not_identity : forall G (O : group_ops G) (hmac512 : list N -> list N -> list N) (sha256 ripemd160 : list N -> list N) q,
  group_laws q O -> enc_len O -> forall pfx root cc path x,
  derive_xpub G O hmac512 sha256 ripemd160 q pfx root cc path = Val x -> x_pubkey G x <> g_id O.
Print Assumptions derived_key_not_identity.

(** more than 255 levels: PathTooDeep (PubkeyPointAtInfinity for an identity root), never a wrapped depth byte;
    holds for every group and every oracle, no hypotheses *)
Theorem depth_over_255_is_error : forall G (O : group_ops G) (hmac512 : list N -> list N -> list N) (sha256 ripemd160 : list N -> list N) q,
  forall pfx root cc path, (255 < length path)%nat ->
  derive_xpub G O hmac512 sha256 ripemd160 q pfx root cc path
    = Err (if g_eqb O root (g_id O) then E_PointAtInfinity else E_PathTooDeep).
Proof. exact depth_over_255_is_error_lem. Qed.
Check depth_over_255_is_error : forall G (O : group_ops G) (hmac512 : list N -> list N -> list N) (sha256 ripemd160 : list N -> list N) q,
  forall pfx root cc path, (255 < length path)%nat ->
  derive_xpub G O hmac512 sha256 ripemd160 q pfx root cc path
    = Err (if g_eqb O root (g_id O) then E_PointAtInfinity else E_PathTooDeep).
Print Assumptions depth_over_255_is_error.

(** no input makes derive_xpub panic *)
Theorem derive_xpub_no_panic : forall G (O : group_ops G) (hmac512 : list N -> list N -> list N) (sha256 ripemd160 : list N -> list N) q,
  enc_len O -> forall pfx root cc path,
  is_panic (derive_xpub G O hmac512 sha256 ripemd160 q pfx root cc path) = false.
Proof. exact derive_xpub_no_panic_lem. Qed.
Check derive_xpub_no_panic : forall G (O : group_ops G) (hmac512 : list N -> list N -> list N) (sha256 ripemd160 : list N -> list N) q,
  enc_len O -> forall pfx root cc path,
  is_panic (derive_xpub G O hmac512 sha256 ripemd160 q pfx root cc path) = false.
Print Assumptions derive_xpub_no_panic.

(** to_string of anything derive_xpub returns does not panic (64-byte HMAC, 20-byte RIPEMD, 32-byte root chain code: what
    the Rust types guarantee); field lengths, and the depth byte is the true depth *)
Theorem to_string_no_panic : forall G (O : group_ops G) (hmac512 : list N -> list N -> list N) (sha256 ripemd160 : list N -> list N) q,
  enc_len O -> forall pfx root cc path x b,
  oracle_lens hmac512 ripemd160 -> length cc = 32%nat ->
  derive_xpub G O hmac512 sha256 ripemd160 q pfx root cc path = Val x ->
  is_panic (to_string G O sha256 x b) = false.
Proof. exact to_string_no_panic_lem. Qed.
Check to_string_no_panic : forall G (O : group_ops G) (hmac512 : list N -> list N -> list N) (sha256 ripemd160 : list N -> list N) q,
  enc_len O -> forall pfx root cc path x b,
  oracle_lens hmac512 ripemd160 -> length cc = 32%nat ->
  derive_xpub G O hmac512 sha256 ripemd160 q pfx root cc path = Val x ->
  is_panic (to_string G O sha256 x b) = false.
Print Assumptions to_string_no_panic.

Theorem xpub_fields_wellformed : forall G (O : group_ops G) (hmac512 : list N -> list N -> list N) (sha256 ripemd160 : list N -> list N) q,
  enc_len O -> forall pfx root cc path x,
  oracle_lens hmac512 ripemd160 -> length cc = 32%nat ->
  derive_xpub G O hmac512 sha256 ripemd160 q pfx root cc path = Val x ->
  length (x_parent_fingerprint G x) = 4%nat /\ length (x_chain_code G x) = 32%nat
  /\ g_eqb O (x_pubkey G x) (g_id O) = false /\ x_depth G x = N.of_nat (length path) /\ x_depth G x < 256.
Proof. exact xpub_fields_ok. Qed.
Check xpub_fields_wellformed : forall G (O : group_ops G) (hmac512 : list N -> list N -> list N) (sha256 ripemd160 : list N -> list N) q,
  enc_len O -> forall pfx root cc path x,
  oracle_lens hmac512 ripemd160 -> length cc = 32%nat ->
  derive_xpub G O hmac512 sha256 ripemd160 q pfx root cc path = Val x ->
  length (x_parent_fingerprint G x) = 4%nat /\ length (x_chain_code G x) = 32%nat
  /\ g_eqb O (x_pubkey G x) (g_id O) = false /\ x_depth G x = N.of_nat (length path) /\ x_depth G x < 256.
Print Assumptions xpub_fields_wellformed.

(** the two `expect`s are real panic sites outside derive_xpub: the identity key reaches both *)
Theorem fingerprint_of_identity_panics : forall G (O : group_ops G) (sha256 ripemd160 : list N -> list N) q,
  group_laws q O -> enc_len O -> get_finger_print G O sha256 ripemd160 (g_id O) = Panic P_fp33.
Proof. exact gfp_identity_panics. Qed.
Check fingerprint_of_identity_panics : forall G (O : group_ops G) (sha256 ripemd160 : list N -> list N) q,
  group_laws q O -> enc_len O -> get_finger_print G O sha256 ripemd160 (g_id O) = Panic P_fp33.
Print Assumptions fingerprint_of_identity_panics.

Theorem to_string_of_identity_panics : forall G (O : group_ops G) (sha256 : list N -> list N) q,
  group_laws q O -> enc_len O -> forall (x : xpubkey G) b, length (x_parent_fingerprint G x) = 4%nat -> length (x_chain_code G x) = 32%nat ->
  x_pubkey G x = g_id O -> to_string G O sha256 x b = Panic P_ser78.
Proof. exact to_string_identity_panics. Qed.
Check to_string_of_identity_panics : forall G (O : group_ops G) (sha256 : list N -> list N) q,
  group_laws q O -> enc_len O -> forall (x : xpubkey G) b, length (x_parent_fingerprint G x) = 4%nat -> length (x_chain_code G x) = 32%nat ->
  x_pubkey G x = g_id O -> to_string G O sha256 x b = Panic P_ser78.
Print Assumptions to_string_of_identity_panics.

(** Base58 as modelled is injective with an explicit inverse: decoding the encoding of any byte string returns it. *)
Theorem base58_decode_encode : forall bs, bytes_ok bs = true -> base58_decode (base58_encode bs) = Some bs.
Proof. exact base58_decode_encode_lem. Qed.
Check base58_decode_encode : forall bs, bytes_ok bs = true -> base58_decode (base58_encode bs) = Some bs.
Print Assumptions base58_decode_encode.

(** Derivation composes along the path (session 3): for every split p1 ++ p2 with p2 non-empty, deriving the whole path from
    the root returns what deriving p2 from the extended key reached by p1 returns -- same key, chain code, parent
    fingerprint, child number, same error -- with the depth byte counted from the root ([rebase]).  Every group, every
    oracle, no condition on the indices: a hardened or failing component in p2 gives the same error either way. *)
Theorem derive_xpub_splits : forall G (O : group_ops G) (hmac512 : list N -> list N -> list N) (sha256 ripemd160 : list N -> list N) q,
  group_laws q O -> enc_len O -> forall pfx root cc p1 p2 x1, p2 <> [] -> (length (p1 ++ p2) <= 255)%nat ->
  derive_xpub G O hmac512 sha256 ripemd160 q pfx root cc p1 = Val x1 ->
  derive_xpub G O hmac512 sha256 ripemd160 q pfx root cc (p1 ++ p2) =
  rebase G pfx (length (p1 ++ p2)) (derive_xpub G O hmac512 sha256 ripemd160 q pfx (x_pubkey G x1) (x_chain_code G x1) p2).
Proof. exact derive_xpub_split_lem. Qed.
Check derive_xpub_splits : forall G (O : group_ops G) (hmac512 : list N -> list N -> list N) (sha256 ripemd160 : list N -> list N) q,
  group_laws q O -> enc_len O -> forall pfx root cc p1 p2 x1, p2 <> [] -> (length (p1 ++ p2) <= 255)%nat ->
  derive_xpub G O hmac512 sha256 ripemd160 q pfx root cc p1 = Val x1 ->
  derive_xpub G O hmac512 sha256 ripemd160 q pfx root cc (p1 ++ p2) =
  rebase G pfx (length (p1 ++ p2)) (derive_xpub G O hmac512 sha256 ripemd160 q pfx (x_pubkey G x1) (x_chain_code G x1) p2).
Print Assumptions derive_xpub_splits.

(** non-vacuity of the split: the 3-level example path split after its first level, both sides evaluated *)
Theorem derive_xpub_splits_nonvacuous :
  exists x1 x, derive_xpub _ (zq33 11 bip32_lt_1_11) ex_hmac ex_sha ex_rip 11 XPub ex_root ex_cc [0] = Val x1 /\
    derive_xpub _ (zq33 11 bip32_lt_1_11) ex_hmac ex_sha ex_rip 11 XPub ex_root ex_cc ([0] ++ [2147483647; 5]) = Val x /\
    rebase _ XPub 3 (derive_xpub _ (zq33 11 bip32_lt_1_11) ex_hmac ex_sha ex_rip 11 XPub (x_pubkey _ x1) (x_chain_code _ x1) [2147483647; 5]) = Val x /\
    x_depth _ x = 3.
Proof. exact split_example. Qed.
Check derive_xpub_splits_nonvacuous :
  exists x1 x, derive_xpub _ (zq33 11 bip32_lt_1_11) ex_hmac ex_sha ex_rip 11 XPub ex_root ex_cc [0] = Val x1 /\
    derive_xpub _ (zq33 11 bip32_lt_1_11) ex_hmac ex_sha ex_rip 11 XPub ex_root ex_cc ([0] ++ [2147483647; 5]) = Val x /\
    rebase _ XPub 3 (derive_xpub _ (zq33 11 bip32_lt_1_11) ex_hmac ex_sha ex_rip 11 XPub (x_pubkey _ x1) (x_chain_code _ x1) [2147483647; 5]) = Val x /\
    x_depth _ x = 3.
Print Assumptions derive_xpub_splits_nonvacuous.

(** Non-vacuity: Z_11 with a SEC1-shaped encoding satisfies the hypotheses, and a 3-level derivation succeeds in it. *)
Example bip32_hyps_satisfiable :
  group_laws 11 (zq33 11 bip32_lt_1_11) /\ enc_len (zq33 11 bip32_lt_1_11) /\ oracle_lens ex_hmac ex_rip
  /\ ex_root <> g_id (zq33 11 bip32_lt_1_11)
  /\ Forall (fun i => i < 2 ^ 31) ex_path
  /\ ~ boundary_hit _ (zq33 11 bip32_lt_1_11) ex_hmac ex_sha ex_rip 11 ex_root ex_cc ex_path
  /\ (exists e, bip32_spec _ (zq33 11 bip32_lt_1_11) ex_hmac ex_sha ex_rip 11 ex_root ex_cc ex_path = Some e)
  /\ (exists x, derive_xpub _ (zq33 11 bip32_lt_1_11) ex_hmac ex_sha ex_rip 11 XPub ex_root ex_cc ex_path = Val x
                /\ val 11 (x_pubkey _ x) = 10%Z /\ x_depth _ x = 3 /\ x_child_number _ x = 5
                /\ is_panic (to_string _ (zq33 11 bip32_lt_1_11) ex_sha x true) = false).
Proof. exact bip32_nonvacuous_lem. Qed.
Check bip32_hyps_satisfiable :
  group_laws 11 (zq33 11 bip32_lt_1_11) /\ enc_len (zq33 11 bip32_lt_1_11) /\ oracle_lens ex_hmac ex_rip
  /\ ex_root <> g_id (zq33 11 bip32_lt_1_11)
  /\ Forall (fun i => i < 2 ^ 31) ex_path
  /\ ~ boundary_hit _ (zq33 11 bip32_lt_1_11) ex_hmac ex_sha ex_rip 11 ex_root ex_cc ex_path
  /\ (exists e, bip32_spec _ (zq33 11 bip32_lt_1_11) ex_hmac ex_sha ex_rip 11 ex_root ex_cc ex_path = Some e)
  /\ (exists x, derive_xpub _ (zq33 11 bip32_lt_1_11) ex_hmac ex_sha ex_rip 11 XPub ex_root ex_cc ex_path = Val x
                /\ val 11 (x_pubkey _ x) = 10%Z /\ x_depth _ x = 3 /\ x_child_number _ x = 5
                /\ is_panic (to_string _ (zq33 11 bip32_lt_1_11) ex_sha x true) = false).
Print Assumptions bip32_hyps_satisfiable.
