(** C09 -- Verifiable RSA encryption: honest proofs verify, decrypt and round-trip.
    Statements only.  A world W (Model/VEnc.v: venc_world) packs the curve group, the scalar encoding, sha256 and the
    RSA oracle pair; [world_ok] (Proofs/VEncCore.v) are the assumed laws (group_laws, canonical 32-byte scalar encoding,
    32-byte hash, fixed point size); [rsa_pair_ok] is PKCS#1 v1.5 correctness for one key pair -- a HYPOTHESIS. *)
From SL Require Import Lib.Base Lib.Oracle Lib.ZqGroup Model.VEnc Proofs.VEncBytes Proofs.VEncCore Proofs.VEncCodec Proofs.VEncInst.
Local Open Scope Z_scope.

(** Security parameters outside 128..=256 are refused with an error (for every world, key, tape). *)
Theorem venc_param_range :
  forall (W : venc_world) (x : Z) (pk : w_PK W) (label : list N) (sp : nat) (seed : list N) (tape : nat -> Z),
  (sp < 128 \/ 256 < sp)%nat ->
  W_encrypt W x pk label (Some sp) seed tape = Err E_INVALID_SIZE.
Proof. exact venc_param_range_lem. Qed.
Check venc_param_range :
  forall (W : venc_world) (x : Z) (pk : w_PK W) (label : list N) (sp : nat) (seed : list N) (tape : nat -> Z),
  (sp < 128 \/ 256 < sp)%nat ->
  W_encrypt W x pk label (Some sp) seed tape = Err E_INVALID_SIZE.
Print Assumptions venc_param_range.

(** The same at the width of the caller's [usize]: the comparison is made on the full value (a parameter such as
    2^16 + 128, which a narrowing conversion would move into the window, is refused), and on parameters that fit a nat
    the usize-wide entry point IS the function the other theorems speak about. *)
Theorem venc_param_range_usize :
  forall (W : venc_world) (x : Z) (pk : w_PK W) (label : list N) (s : N) (seed : list N) (tape : nat -> Z),
  (s < 128 \/ 256 < s)%N ->
  W_encrypt_usize W x pk label (Some s) seed tape = Err E_INVALID_SIZE.
Proof. exact venc_param_range_usize_lem. Qed.
Check venc_param_range_usize :
  forall (W : venc_world) (x : Z) (pk : w_PK W) (label : list N) (s : N) (seed : list N) (tape : nat -> Z),
  (s < 128 \/ 256 < s)%N ->
  W_encrypt_usize W x pk label (Some s) seed tape = Err E_INVALID_SIZE.
Print Assumptions venc_param_range_usize.

Theorem venc_encrypt_usize_nat :
  forall (W : venc_world) (x : Z) (pk : w_PK W) (label : list N) (sp : option nat) (seed : list N) (tape : nat -> Z),
  W_encrypt_usize W x pk label (option_map N.of_nat sp) seed tape = W_encrypt W x pk label sp seed tape.
Proof. exact encrypt_usize_nat. Qed.
Check venc_encrypt_usize_nat :
  forall (W : venc_world) (x : Z) (pk : w_PK W) (label : list N) (sp : option nat) (seed : list N) (tape : nat -> Z),
  W_encrypt_usize W x pk label (option_map N.of_nat sp) seed tape = W_encrypt W x pk label sp seed tape.
Print Assumptions venc_encrypt_usize_nat.

(** With a working RSA key pair the prover returns a proof for every permitted parameter (None = SECURITY_PARAM = 128), every x, label, seed, tape. *)
Theorem venc_encrypt_succeeds :
  forall W : venc_world, world_ok W ->
  forall (x : Z) (pk : w_PK W) (sk : w_SK W) (label : list N) (sp : option nat) (seed : list N) (tape : nat -> Z),
  rsa_pair_ok W pk sk ->
  (match sp with Some s => 128 <= s <= 256 | None => True end)%nat ->
  exists p : vproof, W_encrypt W x pk label sp seed tape = Val p.
Proof. exact venc_encrypt_succeeds_lem. Qed.
Check venc_encrypt_succeeds :
  forall W : venc_world, world_ok W ->
  forall (x : Z) (pk : w_PK W) (sk : w_SK W) (label : list N) (sp : option nat) (seed : list N) (tape : nat -> Z),
  rsa_pair_ok W pk sk ->
  (match sp with Some s => 128 <= s <= 256 | None => True end)%nat ->
  exists p : vproof, W_encrypt W x pk label sp seed tape = Val p.
Print Assumptions venc_encrypt_succeeds.

(** Every produced proof verifies against Q = x*G: all x (incl. 0), labels, parameters, keys, seeds, tapes, hash and RSA oracles (no RSA hypothesis needed). *)
Theorem venc_honest_verifies :
  forall W : venc_world, world_ok W ->
  forall (x : Z) (pk : w_PK W) (label : list N) (sp : option nat) (seed : list N) (tape : nat -> Z) (p : vproof),
  W_encrypt W x pk label sp seed tape = Val p ->
  W_verify W p (W_smul W x (W_gen W)) pk label = Val tt.
Proof. exact venc_honest_verifies_lem. Qed.
Check venc_honest_verifies :
  forall W : venc_world, world_ok W ->
  forall (x : Z) (pk : w_PK W) (label : list N) (sp : option nat) (seed : list N) (tape : nat -> Z) (p : vproof),
  W_encrypt W x pk label sp seed tape = Val p ->
  W_verify W p (W_smul W x (W_gen W)) pk label = Val tt.
Print Assumptions venc_honest_verifies.

(** decrypt returns x for EVERY tape -- nonces whose encodings have leading or trailing zero bytes included (F2 repaired) -- for every canonical x incl. 0; premises: RSA correctness of the pair, label integer invertible mod n. *)
Theorem venc_honest_decrypts :
  forall W : venc_world, world_ok W ->
  forall (x : Z) (pk : w_PK W) (sk : w_SK W) (label : list N) (sp : option nat) (seed : list N) (tape : nat -> Z) (p : vproof),
  rsa_pair_ok W pk sk ->
  Z.gcd (W_label_int W label) (w_pk_n W pk) = 1 ->
  0 <= x < w_q W ->
  W_encrypt W x pk label sp seed tape = Val p ->
  W_decrypt W p (W_smul W x (W_gen W)) sk label = Val x.
Proof. exact venc_honest_decrypts_lem. Qed.
Check venc_honest_decrypts :
  forall W : venc_world, world_ok W ->
  forall (x : Z) (pk : w_PK W) (sk : w_SK W) (label : list N) (sp : option nat) (seed : list N) (tape : nat -> Z) (p : vproof),
  rsa_pair_ok W pk sk ->
  Z.gcd (W_label_int W label) (w_pk_n W pk) = 1 ->
  0 <= x < w_q W ->
  W_encrypt W x pk label sp seed tape = Val p ->
  W_decrypt W p (W_smul W x (W_gen W)) sk label = Val x.
Print Assumptions venc_honest_decrypts.

(** Whatever decrypt returns is the discrete logarithm of Q, in canonical range -- unconditionally (any proof object, key, label). *)
Theorem venc_decrypt_sound :
  forall W : venc_world, world_ok W ->
  forall (p : vproof) (Q : w_G W) (sk : w_SK W) (label : list N) (y : Z),
  W_decrypt W p Q sk label = Val y ->
  W_smul W y (W_gen W) = Q /\ 0 <= y < w_q W.
Proof. exact venc_decrypt_sound_lem. Qed.
Check venc_decrypt_sound :
  forall W : venc_world, world_ok W ->
  forall (p : vproof) (Q : w_G W) (sk : w_SK W) (label : list N) (y : Z),
  W_decrypt W p Q sk label = Val y ->
  W_smul W y (W_gen W) = Q /\ 0 <= y < w_q W.
Print Assumptions venc_decrypt_sound.

(** Codec: a well-formed proof object serialises, and parsing the bytes gives the object back (hence verify/decrypt of the parsed object are those of the original). *)
Theorem venc_from_to_bytes :
  forall W : venc_world, world_ok W ->
  forall (p : vproof) (esz : nat), codec_wf W p esz ->
  exists d : list N, W_to_bytes W p = Val d /\ W_from_bytes W d = Val p.
Proof. exact venc_from_to_bytes_lem. Qed.
Check venc_from_to_bytes :
  forall W : venc_world, world_ok W ->
  forall (p : vproof) (esz : nat), codec_wf W p esz ->
  exists d : list N, W_to_bytes W p = Val d /\ W_from_bytes W d = Val p.
Print Assumptions venc_from_to_bytes.

(** Codec: a byte string that parses re-serialises to exactly the same bytes (canonical scalars, all length arithmetic of from_bytes). *)
Theorem venc_to_from_bytes :
  forall W : venc_world, world_ok W ->
  forall (d : list N) (p : vproof), bytes_ok d = true -> (N.of_nat (w_psize W) < 65536)%N ->
  W_from_bytes W d = Val p -> W_to_bytes W p = Val d.
Proof. exact venc_to_from_bytes_lem. Qed.
Check venc_to_from_bytes :
  forall W : venc_world, world_ok W ->
  forall (d : list N) (p : vproof), bytes_ok d = true -> (N.of_nat (w_psize W) < 65536)%N ->
  W_from_bytes W d = Val p -> W_to_bytes W p = Val d.
Print Assumptions venc_to_from_bytes.

(** A parsed object satisfies the struct invariant (slot and opening counts = security parameter, canonical openings), as does every produced proof. *)
Theorem venc_from_bytes_wf :
  forall W : venc_world, world_ok W ->
  (forall (d : list N) (p : vproof), bytes_ok d = true -> W_from_bytes W d = Val p -> vproof_wf W p) /\
  (forall (x : Z) (pk : w_PK W) (label : list N) (sp : option nat) (seed : list N) (tape : nat -> Z) (p : vproof),
     W_encrypt W x pk label sp seed tape = Val p -> vproof_wf W p).
Proof. exact venc_wf_both. Qed.
Check venc_from_bytes_wf :
  forall W : venc_world, world_ok W ->
  (forall (d : list N) (p : vproof), bytes_ok d = true -> W_from_bytes W d = Val p -> vproof_wf W p) /\
  (forall (x : Z) (pk : w_PK W) (label : list N) (sp : option nat) (seed : list N) (tape : nat -> Z) (p : vproof),
     W_encrypt W x pk label sp seed tape = Val p -> vproof_wf W p).
Print Assumptions venc_from_bytes_wf.

(** Dividing by the label integer undoes the label multiplication for every message below n (mod_inverse is the model of num-bigint-dig's). *)
Theorem venc_label_roundtrip :
  forall m l n li : Z, 0 < n -> 0 <= m < n -> mod_inverse l n = Some li ->
  ((m * l) mod n * li) mod n = m.
Proof. exact label_roundtrip. Qed.
Check venc_label_roundtrip :
  forall m l n li : Z, 0 < n -> 0 <= m < n -> mod_inverse l n = Some li ->
  ((m * l) mod n * li) mod n = m.
Print Assumptions venc_label_roundtrip.

(** A 32-byte message times the 32-byte label integer never reaches a modulus of at least 2^512 (so PKCS#1 length limits hold for 1024..4096-bit keys), and the label integer has an inverse whenever it is coprime to n. *)
Theorem venc_label_no_wrap :
  (forall m l n : Z, 0 <= m < 2 ^ 256 -> 0 <= l < 2 ^ 256 -> 2 ^ 512 <= n -> 0 <= m * l < n) /\
  (forall g n : Z, 1 < n -> Z.gcd g n = 1 -> exists v : Z, mod_inverse g n = Some v).
Proof. exact venc_label_arith. Qed.
Check venc_label_no_wrap :
  (forall m l n : Z, 0 <= m < 2 ^ 256 -> 0 <= l < 2 ^ 256 -> 2 ^ 512 <= n -> 0 <= m * l < n) /\
  (forall g n : Z, 1 < n -> Z.gcd g n = 1 -> exists v : Z, mod_inverse g n = Some v).
Print Assumptions venc_label_no_wrap.

(** Both scalar encodings of the real curves (big-endian secp256k1, little-endian edwards25519) satisfy the encoding laws assumed by world_ok, for every modulus up to 2^256. *)
Theorem venc_repr_instances :
  forall q : Z, 0 < q <= 2 ^ 256 ->
  repr_laws q repr_be (from_repr_be q) /\ repr_laws q repr_le (from_repr_le q).
Proof. exact venc_repr_both. Qed.
Check venc_repr_instances :
  forall q : Z, 0 < q <= 2 ^ 256 ->
  repr_laws q repr_be (from_repr_be q) /\ repr_laws q repr_le (from_repr_le q).
Print Assumptions venc_repr_instances.

(** Non-vacuity: the toy world (Z_11, constant hash, identity RSA with a 593-bit modulus) satisfies every hypothesis used above, and its prover succeeds. *)
Example venc_hyps_satisfiable :
  world_ok toy_world /\ rsa_pair_ok toy_world tt tt /\
  (forall label : list N, Z.gcd (W_label_int toy_world label) (w_pk_n toy_world tt) = 1) /\
  (forall (x : Z) (label : list N) (sp : option nat) (seed : list N) (tape : nat -> Z),
     (match sp with Some s => 128 <= s <= 256 | None => True end)%nat ->
     exists p : vproof, W_encrypt toy_world x tt label sp seed tape = Val p).
Proof. exact venc_nonvacuous. Qed.
Check venc_hyps_satisfiable :
  world_ok toy_world /\ rsa_pair_ok toy_world tt tt /\
  (forall label : list N, Z.gcd (W_label_int toy_world label) (w_pk_n toy_world tt) = 1) /\
  (forall (x : Z) (label : list N) (sp : option nat) (seed : list N) (tape : nat -> Z),
     (match sp with Some s => 128 <= s <= 256 | None => True end)%nat ->
     exists p : vproof, W_encrypt toy_world x tt label sp seed tape = Val p).
Print Assumptions venc_hyps_satisfiable.
