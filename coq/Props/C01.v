(** C01 -- Random-VOLE output shares always multiply out: c + d = a*b (mod q).
    Statements only.  H: ANY transcript oracle; q: any modulus with 0 < q <= 2^256 (only ring laws of
    Z mod q are used, no primality); xi/lb/rho: any XI, L_BATCH, RHO.  [ot_correlated] is the conclusion
    of the OT layer (C03 resp. C05); the two pipeline theorems discharge it with those theorems for the
    executable composed model of Model/Rvole.v. *)
From SL Require Import Lib.Base Lib.Oracle Lib.ZqGroup Gen.Params Model.Gf128 Model.SoftSpoken Model.Endemic
  Model.RvoleCore Model.Rvole.
From SL Require Import Proofs.Gf128Spec Proofs.SoftSpokenBytes Proofs.SoftSpokenC03 Proofs.Endemic Proofs.EndemicThm.
From SL Require Import Proofs.RvoleLemmas Proofs.RvoleCorrect Proofs.RvoleTamper Proofs.RvolePipeline Proofs.RvoleOtReply Proofs.RvoleClosed.
Local Open Scope Z_scope.

(** Abstract OT layer: for every oracle, session id, input vector a, eta tape and every OT-layer output with v_x = v_beta, the honest message is accepted and c_i + d_i = a_i * b (mod q) for every batch position, b = <g, beta>. *)
Theorem rvole_correct :
 forall (H : transcript_oracle) (q : Z) (xi lb rho : nat), 0 < q <= 2 ^ 256 ->
  forall (sid : list N) (v0 v1 vx : mat) (beta : nat -> bool) (a : list Z) (eta_tape : list (list N)),
  ot_correlated xi (lb + rho) beta v0 v1 vx ->
  let sent := rvole_send_core H q xi lb rho sid v0 v1 a eta_tape in
  exists d, rvole_recv_core H q xi lb rho sid beta vx (fst sent) = Val d /\
    forall i, (i < lb)%nat ->
      (nth i (snd sent) 0 + nth i d 0) mod q = (nth i a 0 * rvole_b H q xi sid beta) mod q.
Proof. exact rvole_correct_closed. Qed.
Check rvole_correct :
 forall (H : transcript_oracle) (q : Z) (xi lb rho : nat), 0 < q <= 2 ^ 256 ->
  forall (sid : list N) (v0 v1 vx : mat) (beta : nat -> bool) (a : list Z) (eta_tape : list (list N)),
  ot_correlated xi (lb + rho) beta v0 v1 vx ->
  let sent := rvole_send_core H q xi lb rho sid v0 v1 a eta_tape in
  exists d, rvole_recv_core H q xi lb rho sid beta vx (fst sent) = Val d /\
    forall i, (i < lb)%nat ->
      (nth i (snd sent) 0 + nth i d 0) mod q = (nth i a 0 * rvole_b H q xi sid beta) mod q.
Print Assumptions rvole_correct.

(** Base-OT variant on the abstract layer: base-OT keys with key_x[j] = key_{beta_j}[j] (conclusion of C05), re-hashed per row with the SoftSpoken randomisation label, give the same conclusion. *)
Theorem rvole_ot_variant_correct :
 forall (H : transcript_oracle) (q : Z) (xi lb rho : nat), 0 < q <= 2 ^ 256 ->
  forall (sid : list N) (keys0 keys1 keysx : nat -> list N) (beta : nat -> bool) (a : list Z) (eta_tape : list (list N)),
  (forall j, (j < xi)%nat -> keysx j = if beta j then keys1 j else keys0 j) ->
  let sent := rvole_ot_send_core H q xi lb rho sid keys0 keys1 a eta_tape in
  exists d, rvole_ot_recv_core H q xi lb rho sid beta keysx (fst sent) = Val d /\
    forall i, (i < lb)%nat ->
      (nth i (snd sent) 0 + nth i d 0) mod q = (nth i a 0 * rvole_b H q xi sid beta) mod q.
Proof. exact rvole_ot_variant_correct_closed. Qed.
Check rvole_ot_variant_correct :
 forall (H : transcript_oracle) (q : Z) (xi lb rho : nat), 0 < q <= 2 ^ 256 ->
  forall (sid : list N) (keys0 keys1 keysx : nat -> list N) (beta : nat -> bool) (a : list Z) (eta_tape : list (list N)),
  (forall j, (j < xi)%nat -> keysx j = if beta j then keys1 j else keys0 j) ->
  let sent := rvole_ot_send_core H q xi lb rho sid keys0 keys1 a eta_tape in
  exists d, rvole_ot_recv_core H q xi lb rho sid beta keysx (fst sent) = Val d /\
    forall i, (i < lb)%nat ->
      (nth i (snd sent) 0 + nth i d 0) mod q = (nth i a 0 * rvole_b H q xi sid beta) mod q.
Print Assumptions rvole_ot_variant_correct.

(** OT-extension variant, composed executable model: RVOLEReceiver::new / RVOLESender::process / RVOLEReceiver::process over the SoftSpoken models, for every seed pair with seeds_ok (C03), all tapes: the sender does not abort, the receiver accepts, c + d = a*b with b the value returned by new. *)
Theorem rvole_pipeline_correct :
 forall (H : transcript_oracle) (q : Z), 0 < q <= 2 ^ 256 ->
  forall sid ss rs beta tape (a : list Z) (eta_tape : list (list N)),
  seeds_ok ss rs -> rowP ssLB beta -> rowP ssSB tape ->
  let new := rvole_recv_new H q sid ss round1_default beta tape in
  let st := fst (fst new) in let b := snd (fst new) in let r1 := snd new in
  exists m c d,
    rvole_send_process H q sid rs a r1 eta_tape = Val (m, c) /\
    rvole_recv_process H q st m = Val d /\
    b = rvole_b H q rv_xi sid (rv_bit beta) /\
    forall i, (i < rv_lb)%nat -> (nth i c 0 + nth i d 0) mod q = (nth i a 0 * b) mod q.
Proof. exact rvole_pipeline_correct_closed. Qed.
Check rvole_pipeline_correct :
 forall (H : transcript_oracle) (q : Z), 0 < q <= 2 ^ 256 ->
  forall sid ss rs beta tape (a : list Z) (eta_tape : list (list N)),
  seeds_ok ss rs -> rowP ssLB beta -> rowP ssSB tape ->
  let new := rvole_recv_new H q sid ss round1_default beta tape in
  let st := fst (fst new) in let b := snd (fst new) in let r1 := snd new in
  exists m c d,
    rvole_send_process H q sid rs a r1 eta_tape = Val (m, c) /\
    rvole_recv_process H q st m = Val d /\
    b = rvole_b H q rv_xi sid (rv_bit beta) /\
    forall i, (i < rv_lb)%nat -> (nth i c 0 + nth i d 0) mod q = (nth i a 0 * b) mod q.
Print Assumptions rvole_pipeline_correct.

(** ... instantiated with the seeds of generate_all_but_one_seed_ot for every rng tape of the generator. *)
Theorem rvole_pipeline_synthetic :
 forall (H : transcript_oracle) (q : Z), 0 < q <= 2 ^ 256 ->
  forall sid keys picks beta tape (a : list Z) (eta_tape : list (list N)),
  length keys = ssTrees -> (forall i, (i < ssTrees)%nat -> length (nth i keys []) = ssQ) ->
  length picks = ssTrees -> (forall i, (i < ssTrees)%nat -> (nth i picks 0 < 16)%N) ->
  rowP ssLB beta -> rowP ssSB tape ->
  let seeds := gen_seed_ot keys picks in
  let new := rvole_recv_new H q sid (fst seeds) round1_default beta tape in
  exists m c d,
    rvole_send_process H q sid (snd seeds) a (snd new) eta_tape = Val (m, c) /\
    rvole_recv_process H q (fst (fst new)) m = Val d /\
    forall i, (i < rv_lb)%nat -> (nth i c 0 + nth i d 0) mod q = (nth i a 0 * snd (fst new)) mod q.
Proof. exact rvole_pipeline_synthetic_closed. Qed.
Check rvole_pipeline_synthetic :
 forall (H : transcript_oracle) (q : Z), 0 < q <= 2 ^ 256 ->
  forall sid keys picks beta tape (a : list Z) (eta_tape : list (list N)),
  length keys = ssTrees -> (forall i, (i < ssTrees)%nat -> length (nth i keys []) = ssQ) ->
  length picks = ssTrees -> (forall i, (i < ssTrees)%nat -> (nth i picks 0 < 16)%N) ->
  rowP ssLB beta -> rowP ssSB tape ->
  let seeds := gen_seed_ot keys picks in
  let new := rvole_recv_new H q sid (fst seeds) round1_default beta tape in
  exists m c d,
    rvole_send_process H q sid (snd seeds) a (snd new) eta_tape = Val (m, c) /\
    rvole_recv_process H q (fst (fst new)) m = Val d /\
    forall i, (i < rv_lb)%nat -> (nth i c 0 + nth i d 0) mod q = (nth i a 0 * snd (fst new)) mod q.
Print Assumptions rvole_pipeline_synthetic.

(** Base-OT variant, composed executable model: two Endemic OTs under the derived session ids + re-hashing + RVOLE, for every group satisfying the group laws, every oracle, session id, input and all tapes. *)
Theorem rvole_ot_pipeline_correct :
  forall G (O : group_ops G) (H : transcript_oracle) (q : Z),
  group_laws q O -> enc33_roundtrip G O -> 0 < q <= 2 ^ 256 ->
  forall sid bits_a tas_a ros_a bits_b tas_b ros_b (a : list Z) tbs_a tbs_b (eta_tape : list (list N)),
  length bits_a = 32%nat -> length bits_b = 32%nat ->
  exists st b m1a m1b m2a m2b m c d,
    rvole_ot_recv_new H q G O sid bits_a tas_a ros_a bits_b tas_b ros_b = Val ((st, b), (m1a, m1b)) /\
    rvole_ot_send_process H q G O sid a m1a m1b tbs_a tbs_b eta_tape = ((m2a, m2b), Val (m, c)) /\
    rvole_ot_recv_process H q G O st m2a m2b m = Val d /\
    b = rvole_b H q rv_xi sid (rv_bit (bits_a ++ bits_b)) /\
    forall i, (i < rv_lb)%nat -> (nth i c 0 + nth i d 0) mod q = (nth i a 0 * b) mod q.
Proof. exact rvole_ot_pipeline_correct_closed. Qed.
Check rvole_ot_pipeline_correct :
  forall G (O : group_ops G) (H : transcript_oracle) (q : Z),
  group_laws q O -> enc33_roundtrip G O -> 0 < q <= 2 ^ 256 ->
  forall sid bits_a tas_a ros_a bits_b tas_b ros_b (a : list Z) tbs_a tbs_b (eta_tape : list (list N)),
  length bits_a = 32%nat -> length bits_b = 32%nat ->
  exists st b m1a m1b m2a m2b m c d,
    rvole_ot_recv_new H q G O sid bits_a tas_a ros_a bits_b tas_b ros_b = Val ((st, b), (m1a, m1b)) /\
    rvole_ot_send_process H q G O sid a m1a m1b tbs_a tbs_b eta_tape = ((m2a, m2b), Val (m, c)) /\
    rvole_ot_recv_process H q G O st m2a m2b m = Val d /\
    b = rvole_b H q rv_xi sid (rv_bit (bits_a ++ bits_b)) /\
    forall i, (i < rv_lb)%nat -> (nth i c 0 + nth i d 0) mod q = (nth i a 0 * b) mod q.
Print Assumptions rvole_ot_pipeline_correct.

(** Non-vacuity: the secp256k1 order is in the allowed range and the OT correlation is satisfiable for every beta, v_0, v_1 (the group-law premise is satisfiable by Lib/ZqGroup.v, see C05). *)
Example rvole_hyps_satisfiable :
  0 < secp256k1_q <= 2 ^ 256 /\
  forall xi w (beta : nat -> bool) (v0 v1 : mat),
    ot_correlated xi w beta v0 v1 (fun j k => if beta j then v1 j k else v0 j k).
Proof. exact rvole_hyps_satisfiable_lem. Qed.
Check rvole_hyps_satisfiable :
  0 < secp256k1_q <= 2 ^ 256 /\
  forall xi w (beta : nat -> bool) (v0 v1 : mat),
    ot_correlated xi w beta v0 v1 (fun j k => if beta j then v1 j k else v0 j k).
Print Assumptions rvole_hyps_satisfiable.

(** The REAL seed pipeline (the synthetic generator replaced by the code's own path): honest Endemic base OT (C05), the Endemic SENDER's keys through build_pprf -> SenderOTSeed (used by RVOLEReceiver::new), the Endemic RECEIVER's bits/keys through eval_pprf on the honest message -> ReceiverOTSeed with random_choices[j] = y_star as u8 (used by RVOLESender::process), then the OT-extension RVOLE. Every group with the group laws, every oracle, three independent session ids, ALL tapes (tt: the zeroed PPRFOutput buffer; beta/tape: [u8;64]/[u8;16]): every stage returns Val and c + d = a*b with b the value returned by new. *)
From SL Require Import Model.Pprf Proofs.Pprf Proofs.PprfMain Proofs.EndemicZq Proofs.RvoleFullPipeline.
Theorem rvole_real_pipeline_correct :
  forall G (O : group_ops G) (H : transcript_oracle) (q : Z),
  group_laws q O -> enc33_roundtrip G O -> 0 < q <= 2 ^ 256 ->
  forall sid_ot sid_pprf sid bits tas ros tbs tt beta tape (a : list Z) (eta_tape : list (list N)),
  tt_zero tt -> rowP ssLB beta -> rowP ssSB tape ->
  let rn := eot_receiver_new G O H sid_ot bits tas ros in
  let sp := eot_sender_process G O H sid_ot (snd rn) tbs in
  exists skeys rkeys r m c d,
    snd sp = Val skeys /\
    eot_receiver_process G O H (fst rn) (fst sp) = Val (bits, rkeys) /\
    eval_pprf H sid_pprf bits rkeys (honest_msgs H sid_pprf skeys tt) = Val r /\
    let ss := pprf_sender_seed (build_pprf H sid_pprf skeys tt) in
    let rs := pprf_receiver_seed r in
    let new := rvole_recv_new H q sid ss round1_default beta tape in
    let st := fst (fst new) in let b := snd (fst new) in let r1 := snd new in
    rvole_send_process H q sid rs a r1 eta_tape = Val (m, c) /\
    rvole_recv_process H q st m = Val d /\
    b = rvole_b H q rv_xi sid (rv_bit beta) /\
    forall i, (i < rv_lb)%nat -> (nth i c 0 + nth i d 0) mod q = (nth i a 0 * b) mod q.
Proof. exact rvole_real_pipeline_correct_lem. Qed.
Check rvole_real_pipeline_correct :
  forall G (O : group_ops G) (H : transcript_oracle) (q : Z),
  group_laws q O -> enc33_roundtrip G O -> 0 < q <= 2 ^ 256 ->
  forall sid_ot sid_pprf sid bits tas ros tbs tt beta tape (a : list Z) (eta_tape : list (list N)),
  tt_zero tt -> rowP ssLB beta -> rowP ssSB tape ->
  let rn := eot_receiver_new G O H sid_ot bits tas ros in
  let sp := eot_sender_process G O H sid_ot (snd rn) tbs in
  exists skeys rkeys r m c d,
    snd sp = Val skeys /\
    eot_receiver_process G O H (fst rn) (fst sp) = Val (bits, rkeys) /\
    eval_pprf H sid_pprf bits rkeys (honest_msgs H sid_pprf skeys tt) = Val r /\
    let ss := pprf_sender_seed (build_pprf H sid_pprf skeys tt) in
    let rs := pprf_receiver_seed r in
    let new := rvole_recv_new H q sid ss round1_default beta tape in
    let st := fst (fst new) in let b := snd (fst new) in let r1 := snd new in
    rvole_send_process H q sid rs a r1 eta_tape = Val (m, c) /\
    rvole_recv_process H q st m = Val d /\
    b = rvole_b H q rv_xi sid (rv_bit beta) /\
    forall i, (i < rv_lb)%nat -> (nth i c 0 + nth i d 0) mod q = (nth i a 0 * b) mod q.
Print Assumptions rvole_real_pipeline_correct.

(** The seed bridge on its own: the (SenderOTSeed, ReceiverOTSeed) records filled by an accepted honest build_pprf / eval_pprf run on consistent base OTs satisfy seeds_ok of the SoftSpoken development (C03), i.e. the premise of rvole_pipeline_correct. *)
Theorem rvole_real_seeds_ok : forall H sid sk cb rk tt r,
  ot_consistent sk cb rk -> tt_zero tt ->
  eval_pprf H sid cb rk (honest_msgs H sid sk tt) = Val r ->
  SoftSpokenC03.seeds_ok (pprf_sender_seed (build_pprf H sid sk tt)) (pprf_receiver_seed r).
Proof. exact pprf_gives_ss_seeds_ok. Qed.
Check rvole_real_seeds_ok : forall H sid sk cb rk tt r,
  ot_consistent sk cb rk -> tt_zero tt ->
  eval_pprf H sid cb rk (honest_msgs H sid sk tt) = Val r ->
  SoftSpokenC03.seeds_ok (pprf_sender_seed (build_pprf H sid sk tt)) (pprf_receiver_seed r).
Print Assumptions rvole_real_seeds_ok.

(** Non-vacuity of the real pipeline: Z_11 (Lib/ZqGroup.v, 33-byte encoding) satisfies the group premises, 11 is an allowed modulus, zero buffers satisfy the tape premises; with them the whole pipeline runs to c + d = a*b for the constant oracle, every session id, scalar tape and input. *)
Example rvole_real_pipeline_satisfiable :
  group_laws 11 (zq33_group 11 eot_lt_1_11) /\ enc33_roundtrip (zq 11) (zq33_group 11 eot_lt_1_11) /\
  0 < 11 <= 2 ^ 256 /\ tt_zero [] /\ rowP ssLB (zbytes ssLB) /\ rowP ssSB (zbytes ssSB) /\
  forall sid_ot sid_pprf sid bits tas ros tbs (a : list Z) (eta_tape : list (list N)),
  let G := zq 11 in let O := zq33_group 11 eot_lt_1_11 in let H := eot_zero_oracle in
  let rn := eot_receiver_new G O H sid_ot bits tas ros in
  let sp := eot_sender_process G O H sid_ot (snd rn) tbs in
  exists skeys rkeys r m c d,
    snd sp = Val skeys /\
    eot_receiver_process G O H (fst rn) (fst sp) = Val (bits, rkeys) /\
    eval_pprf H sid_pprf bits rkeys (honest_msgs H sid_pprf skeys []) = Val r /\
    let new := rvole_recv_new H 11 sid (pprf_sender_seed (build_pprf H sid_pprf skeys [])) round1_default
                              (zbytes ssLB) (zbytes ssSB) in
    rvole_send_process H 11 sid (pprf_receiver_seed r) a (snd new) eta_tape = Val (m, c) /\
    rvole_recv_process H 11 (fst (fst new)) m = Val d /\
    forall i, (i < rv_lb)%nat -> (nth i c 0 + nth i d 0) mod 11 = (nth i a 0 * snd (fst new)) mod 11.
Proof. exact rvole_real_pipeline_nonvacuous. Qed.
Check rvole_real_pipeline_satisfiable :
  group_laws 11 (zq33_group 11 eot_lt_1_11) /\ enc33_roundtrip (zq 11) (zq33_group 11 eot_lt_1_11) /\
  0 < 11 <= 2 ^ 256 /\ tt_zero [] /\ rowP ssLB (zbytes ssLB) /\ rowP ssSB (zbytes ssSB) /\
  forall sid_ot sid_pprf sid bits tas ros tbs (a : list Z) (eta_tape : list (list N)),
  let G := zq 11 in let O := zq33_group 11 eot_lt_1_11 in let H := eot_zero_oracle in
  let rn := eot_receiver_new G O H sid_ot bits tas ros in
  let sp := eot_sender_process G O H sid_ot (snd rn) tbs in
  exists skeys rkeys r m c d,
    snd sp = Val skeys /\
    eot_receiver_process G O H (fst rn) (fst sp) = Val (bits, rkeys) /\
    eval_pprf H sid_pprf bits rkeys (honest_msgs H sid_pprf skeys []) = Val r /\
    let new := rvole_recv_new H 11 sid (pprf_sender_seed (build_pprf H sid_pprf skeys [])) round1_default
                              (zbytes ssLB) (zbytes ssSB) in
    rvole_send_process H 11 sid (pprf_receiver_seed r) a (snd new) eta_tape = Val (m, c) /\
    rvole_recv_process H 11 (fst (fst new)) m = Val d /\
    forall i, (i < rv_lb)%nat -> (nth i c 0 + nth i d 0) mod 11 = (nth i a 0 * snd (fst new)) mod 11.
Print Assumptions rvole_real_pipeline_satisfiable.
