(** C13 -- secret-sharing algebra of crates/sl-mpc-mate/src/math.rs. Statements only. *)
From SL Require Import Lib.Base Model.Poly Proofs.PolyFact.
Local Open Scope Z_scope.

Theorem factorial_range_spec : forall q s e, (s <= e)%nat -> Z.of_nat e < 2 ^ 64 ->
  factorial_range q s e = range_prod s e mod q.
Proof. exact PolyFact.factorial_range_spec. Qed.
Check factorial_range_spec : forall q s e, (s <= e)%nat -> Z.of_nat e < 2 ^ 64 ->
  factorial_range q s e = range_prod s e mod q.
Print Assumptions factorial_range_spec.
