(** C13 -- secret-sharing algebra of crates/sl-mpc-mate/src/math.rs: factorial table, derivatives, evaluation,
    commitments, Birkhoff/Lagrange coefficients, Feldman check.  Statements only; proofs in Proofs/Poly*.v.
    Scalars are integers reduced modulo the parameter q; groups are abstract Z_q-modules (module_laws). *)
From SL Require Import Lib.Base Model.Matrix Model.Poly Model.PolyDlog Model.PolyBirkhoff.
From SL Require Import Proofs.PolyFact Proofs.PolySum Proofs.PolyDeriv Proofs.PolyGroup Proofs.PolyDlog
  Proofs.PolyBirkhoff Proofs.PolyLagrange Proofs.PolyC20.
Local Open Scope Z_scope.

(** The 21-entry u64 table computed by the model of small_factorial (with the u64 wrap written in) equals
    the table computed without wrap: no entry overflows (0! .. 20!). *)
Theorem fact_table_no_overflow :
  FACT = exact_factorial_table FACT_LEN.
Proof. exact FACT_no_overflow. Qed.
Check fact_table_no_overflow :
  FACT = exact_factorial_table FACT_LEN.
Print Assumptions fact_table_no_overflow.

(** factorial_range s e is the product of the integers in (s, e] modulo q, in the table branch (e < 21, u64
    division) and in the product branch (e >= 21) alike; e < 2^64 is the range of usize. *)
Theorem factorial_range_spec :
  forall (q : Z) (s e : nat), (s <= e)%nat -> Z.of_nat e < 2 ^ 64 ->
  factorial_range q s e = range_prod s e mod q.
Proof. exact PolyFact.factorial_range_spec. Qed.
Check factorial_range_spec :
  forall (q : Z) (s e : nat), (s <= e)%nat -> Z.of_nat e < 2 ^ 64 ->
  factorial_range q s e = range_prod s e mod q.
Print Assumptions factorial_range_spec.

(** Polynomial::evaluate_at (power sum with independently computed powers) is integer evaluation modulo q. *)
Theorem evaluate_at_spec :
  forall (q : Z) (f : list Z) (x : Z), evaluate_at q f x = peval f x mod q.
Proof. exact PolyDeriv.evaluate_at_spec. Qed.
Check evaluate_at_spec :
  forall (q : Z) (f : list Z) (x : Z), evaluate_at q f x = peval f x mod q.
Print Assumptions evaluate_at_spec.

(** Polynomial::derivative_at(n, x) is the n-th formal derivative evaluated at x, modulo q -- for every
    number of coefficients (no bound at 24) and every order, including orders above the degree. *)
Theorem derivative_at_spec :
  forall (q : Z) (f : list Z) (n : nat) (x : Z), Z.of_nat (length f) <= 2 ^ 64 ->
  derivative_at q f n x = peval (Nat.iter n pderiv f) x mod q.
Proof. exact PolyDeriv.derivative_at_spec. Qed.
Check derivative_at_spec :
  forall (q : Z) (f : list Z) (n : nat) (x : Z), Z.of_nat (length f) <= 2 ^ 64 ->
  derivative_at q f n x = peval (Nat.iter n pderiv f) x mod q.
Print Assumptions derivative_at_spec.

(** The two evaluation algorithms of the code coincide: the running-power fold of
    GroupPolynomial::evaluate_at / feldman_verify computes the power sum sum_i (x^i) F_i, in every Z_q-module. *)
Theorem eval_agree :
  forall (q : Z) (G : Type) (gadd : G -> G -> G) (gneg : G -> G) (gid : G) (smul : Z -> G -> G)
    (geqb : G -> G -> bool) (gen : G),
  module_laws q G gadd gneg gid smul geqb gen ->
  forall (F : list G) (x : Z),
  g_evaluate_at q G gadd gid smul F x = g_power_sum q G gadd gid smul x 0 F.
Proof. exact PolyGroup.eval_agree. Qed.
Check eval_agree :
  forall (q : Z) (G : Type) (gadd : G -> G -> G) (gneg : G -> G) (gid : G) (smul : Z -> G -> G)
    (geqb : G -> G -> bool) (gen : G),
  module_laws q G gadd gneg gid smul geqb gen ->
  forall (F : list G) (x : Z),
  g_evaluate_at q G gadd gid smul F x = g_power_sum q G gadd gid smul x 0 F.
Print Assumptions eval_agree.

(** Commitment commutes with evaluation: evaluating the committed polynomial in the group gives f(x)*gen. *)
Theorem commit_eval :
  forall (q : Z) (G : Type) (gadd : G -> G -> G) (gneg : G -> G) (gid : G) (smul : Z -> G -> G)
    (geqb : G -> G -> bool) (gen : G),
  module_laws q G gadd gneg gid smul geqb gen ->
  forall (f : list Z) (x : Z),
  g_evaluate_at q G gadd gid smul (commit G smul gen f) x = smul (evaluate_at q f x) gen.
Proof. exact PolyGroup.commit_eval. Qed.
Check commit_eval :
  forall (q : Z) (G : Type) (gadd : G -> G -> G) (gneg : G -> G) (gid : G) (smul : Z -> G -> G)
    (geqb : G -> G -> bool) (gen : G),
  module_laws q G gadd gneg gid smul geqb gen ->
  forall (f : list Z) (x : Z),
  g_evaluate_at q G gadd gid smul (commit G smul gen f) x = smul (evaluate_at q f x) gen.
Print Assumptions commit_eval.

(** Commitment commutes with derivatives: derivative_coeffs(n) of the commitment is the commitment to the n-th
    formal derivative (n <= number of coefficients; beyond that the code's slice panics, next theorem). *)
Theorem commit_derivative :
  forall (q : Z) (G : Type) (gadd : G -> G -> G) (gneg : G -> G) (gid : G) (smul : Z -> G -> G)
    (geqb : G -> G -> bool) (gen : G),
  module_laws q G gadd gneg gid smul geqb gen ->
  forall (f : list Z) (n : nat), (n <= length f)%nat -> Z.of_nat (length f) <= 2 ^ 64 ->
  g_derivative_coeffs q G smul (commit G smul gen f) n = Val (commit G smul gen (Nat.iter n pderiv f)).
Proof. exact PolyGroup.commit_derivative. Qed.
Check commit_derivative :
  forall (q : Z) (G : Type) (gadd : G -> G -> G) (gneg : G -> G) (gid : G) (smul : Z -> G -> G)
    (geqb : G -> G -> bool) (gen : G),
  module_laws q G gadd gneg gid smul geqb gen ->
  forall (f : list Z) (n : nat), (n <= length f)%nat -> Z.of_nat (length f) <= 2 ^ 64 ->
  g_derivative_coeffs q G smul (commit G smul gen f) n = Val (commit G smul gen (Nat.iter n pderiv f)).
Print Assumptions commit_derivative.

(** derivative_coeffs with an order above the number of coefficients panics (slice start out of range). *)
Theorem commit_derivative_panics :
  forall (q : Z) (G : Type) (smul : Z -> G -> G) (gen : G) (f : list Z) (n : nat), (length f < n)%nat ->
  is_panic (g_derivative_coeffs q G smul (commit G smul gen f) n) = true.
Proof. exact PolyGroup.commit_derivative_panics. Qed.
Check commit_derivative_panics :
  forall (q : Z) (G : Type) (smul : Z -> G -> G) (gen : G) (f : list Z) (n : nat), (length f < n)%nat ->
  is_panic (g_derivative_coeffs q G smul (commit G smul gen f) n) = true.
Print Assumptions commit_derivative_panics.

(** Evaluating the group-side derivative coefficients at x gives f^(n)(x)*gen with f^(n)(x) the scalar-side derivative_at. *)
Theorem commit_derivative_eval :
  forall (q : Z) (G : Type) (gadd : G -> G -> G) (gneg : G -> G) (gid : G) (smul : Z -> G -> G)
    (geqb : G -> G -> bool) (gen : G),
  module_laws q G gadd gneg gid smul geqb gen ->
  forall (f : list Z) (n : nat) (x : Z) (D : list G), (n <= length f)%nat -> Z.of_nat (length f) <= 2 ^ 64 ->
  g_derivative_coeffs q G smul (commit G smul gen f) n = Val D ->
  g_evaluate_at q G gadd gid smul D x = smul (derivative_at q f n x) gen.
Proof. exact PolyGroup.commit_derivative_eval. Qed.
Check commit_derivative_eval :
  forall (q : Z) (G : Type) (gadd : G -> G -> G) (gneg : G -> G) (gid : G) (smul : Z -> G -> G)
    (geqb : G -> G -> bool) (gen : G),
  module_laws q G gadd gneg gid smul geqb gen ->
  forall (f : list Z) (n : nat) (x : Z) (D : list G), (n <= length f)%nat -> Z.of_nat (length f) <= 2 ^ 64 ->
  g_derivative_coeffs q G smul (commit G smul gen f) n = Val D ->
  g_evaluate_at q G gadd gid smul D x = smul (derivative_at q f n x) gen.
Print Assumptions commit_derivative_eval.

(** Interpolation identity. If the matrix model returns Minv for the Birkhoff matrix of params and Minv is a left
    inverse (the conclusion of C20's inverse_correct, a premise here), then birkhoff_coeffs returns b = row 0 of
    Minv and sum_i b_i * f^(r_i)(x_i) = f(0) (mod q) for every f with n = |params| coefficients. *)
Theorem birkhoff_interpolates :
  forall (q : Z) (params : list (Z * nat)), params <> [] ->
  forall (Minv : mat) (f : list Z),
  Z.of_nat (length params) <= 2 ^ 64 -> length f = length params ->
  matrix_inverse q (birkhoff_matrix q params) (length params) = Val Minv ->
  mat_mul q Minv (birkhoff_matrix q params) = mat_id (length params) ->
  exists b : list Z,
    birkhoff_coeffs q params = Val b /\
    bigsum (length params)
      (fun i : nat => nth i b 0 * derivative_at q f (snd (nth i params (0, 0%nat))) (fst (nth i params (0, 0%nat))))
    mod q = evaluate_at q f 0.
Proof. exact PolyBirkhoff.birkhoff_interpolates. Qed.
Check birkhoff_interpolates :
  forall (q : Z) (params : list (Z * nat)), params <> [] ->
  forall (Minv : mat) (f : list Z),
  Z.of_nat (length params) <= 2 ^ 64 -> length f = length params ->
  matrix_inverse q (birkhoff_matrix q params) (length params) = Val Minv ->
  mat_mul q Minv (birkhoff_matrix q params) = mat_id (length params) ->
  exists b : list Z,
    birkhoff_coeffs q params = Val b /\
    bigsum (length params)
      (fun i : nat => nth i b 0 * derivative_at q f (snd (nth i params (0, 0%nat))) (fst (nth i params (0, 0%nat))))
    mod q = evaluate_at q f 0.
Print Assumptions birkhoff_interpolates.

(** The same identity in the exponent for the committed polynomial: sum_i b_i * F^(r_i)(x_i) = f(0)*gen = F_0, where
    F^(r)(x) is evaluate_at of derivative_coeffs(r) of the commitment (no call panics when every rank is <= n). *)
Theorem birkhoff_interpolates_exponent :
  forall (q : Z) (G : Type) (gadd : G -> G -> G) (gneg : G -> G) (gid : G) (smul : Z -> G -> G)
    (geqb : G -> G -> bool) (gen : G),
  module_laws q G gadd gneg gid smul geqb gen ->
  forall (params : list (Z * nat)) (Minv : mat) (f : list Z),
  params <> [] -> Z.of_nat (length params) <= 2 ^ 64 -> length f = length params ->
  (forall i : nat, (i < length params)%nat -> (snd (nth i params (0%Z, 0%nat)) <= length params)%nat) ->
  matrix_inverse q (birkhoff_matrix q params) (length params) = Val Minv ->
  mat_mul q Minv (birkhoff_matrix q params) = mat_id (length params) ->
  exists (b : list Z) (D : nat -> G),
    birkhoff_coeffs q params = Val b /\
    (forall i : nat, (i < length params)%nat ->
       g_derivative_at q G gadd gid smul (commit G smul gen f) (snd (nth i params (0, 0%nat)))
         (fst (nth i params (0, 0%nat))) = Val (D i)) /\
    gbig G gadd gid (length params) (fun i : nat => smul (nth i b 0) (D i)) = smul (evaluate_at q f 0) gen /\
    g_get_constant G (commit G smul gen f) = Val (smul (nth 0 f 0) gen) /\
    smul (evaluate_at q f 0) gen = smul (nth 0 f 0) gen.
Proof. exact PolyBirkhoff.birkhoff_interpolates_exponent. Qed.
Check birkhoff_interpolates_exponent :
  forall (q : Z) (G : Type) (gadd : G -> G -> G) (gneg : G -> G) (gid : G) (smul : Z -> G -> G)
    (geqb : G -> G -> bool) (gen : G),
  module_laws q G gadd gneg gid smul geqb gen ->
  forall (params : list (Z * nat)) (Minv : mat) (f : list Z),
  params <> [] -> Z.of_nat (length params) <= 2 ^ 64 -> length f = length params ->
  (forall i : nat, (i < length params)%nat -> (snd (nth i params (0%Z, 0%nat)) <= length params)%nat) ->
  matrix_inverse q (birkhoff_matrix q params) (length params) = Val Minv ->
  mat_mul q Minv (birkhoff_matrix q params) = mat_id (length params) ->
  exists (b : list Z) (D : nat -> G),
    birkhoff_coeffs q params = Val b /\
    (forall i : nat, (i < length params)%nat ->
       g_derivative_at q G gadd gid smul (commit G smul gen f) (snd (nth i params (0, 0%nat)))
         (fst (nth i params (0, 0%nat))) = Val (D i)) /\
    gbig G gadd gid (length params) (fun i : nat => smul (nth i b 0) (D i)) = smul (evaluate_at q f 0) gen /\
    g_get_constant G (commit G smul gen f) = Val (smul (nth 0 f 0) gen) /\
    smul (evaluate_at q f 0) gen = smul (nth 0 f 0) gen.
Print Assumptions birkhoff_interpolates_exponent.

(** All derivative orders zero: the coefficients satisfy the Lagrange equation at 0,
    b_j * prod_{m<>j} (x_m - x_j) = prod_{m<>j} x_m (mod q)  (lag_den / lag_num; again with the left-inverse premise). *)
Theorem birkhoff_lagrange_equation :
  forall (q : Z) (params : list (Z * nat)), params <> [] ->
  Z.of_nat (length params) <= 2 ^ 64 ->
  (forall i : nat, (i < length params)%nat -> snd (nth i params (0%Z, 0%nat)) = 0%nat) ->
  forall Minv : mat,
  matrix_inverse q (birkhoff_matrix q params) (length params) = Val Minv ->
  mat_mul q Minv (birkhoff_matrix q params) = mat_id (length params) ->
  exists b : list Z,
    birkhoff_coeffs q params = Val b /\
    (forall j : nat, (j < length params)%nat -> (nth j b 0 * lag_den params j) mod q = lag_num params j mod q).
Proof. exact PolyLagrange.birkhoff_lagrange_equation. Qed.
Check birkhoff_lagrange_equation :
  forall (q : Z) (params : list (Z * nat)), params <> [] ->
  Z.of_nat (length params) <= 2 ^ 64 ->
  (forall i : nat, (i < length params)%nat -> snd (nth i params (0%Z, 0%nat)) = 0%nat) ->
  forall Minv : mat,
  matrix_inverse q (birkhoff_matrix q params) (length params) = Val Minv ->
  mat_mul q Minv (birkhoff_matrix q params) = mat_id (length params) ->
  exists b : list Z,
    birkhoff_coeffs q params = Val b /\
    (forall j : nat, (j < length params)%nat -> (nth j b 0 * lag_den params j) mod q = lag_num params j mod q).
Print Assumptions birkhoff_lagrange_equation.

(** ... and for prime q and pairwise distinct nodes that equation has b_j as its only solution modulo q:
    b_j = prod_{m<>j} x_m / (x_m - x_j) in the field, the Lagrange coefficient. *)
Theorem birkhoff_is_lagrange :
  forall (q : Z) (params : list (Z * nat)), params <> [] ->
  Z.of_nat (length params) <= 2 ^ 64 ->
  (forall i : nat, (i < length params)%nat -> snd (nth i params (0%Z, 0%nat)) = 0%nat) ->
  Znumtheory.prime q ->
  forall Minv : mat,
  (forall i j : nat, (i < length params)%nat -> (j < length params)%nat -> i <> j ->
     fst (nth i params (0, 0%nat)) mod q <> fst (nth j params (0, 0%nat)) mod q) ->
  matrix_inverse q (birkhoff_matrix q params) (length params) = Val Minv ->
  mat_mul q Minv (birkhoff_matrix q params) = mat_id (length params) ->
  exists b : list Z,
    birkhoff_coeffs q params = Val b /\
    (forall j : nat, (j < length params)%nat ->
       (nth j b 0 * lag_den params j) mod q = lag_num params j mod q /\
       (forall lam : Z, (lam * lag_den params j) mod q = lag_num params j mod q -> nth j b 0 mod q = lam mod q)).
Proof. exact PolyLagrange.birkhoff_is_lagrange. Qed.
Check birkhoff_is_lagrange :
  forall (q : Z) (params : list (Z * nat)), params <> [] ->
  Z.of_nat (length params) <= 2 ^ 64 ->
  (forall i : nat, (i < length params)%nat -> snd (nth i params (0%Z, 0%nat)) = 0%nat) ->
  Znumtheory.prime q ->
  forall Minv : mat,
  (forall i j : nat, (i < length params)%nat -> (j < length params)%nat -> i <> j ->
     fst (nth i params (0, 0%nat)) mod q <> fst (nth j params (0, 0%nat)) mod q) ->
  matrix_inverse q (birkhoff_matrix q params) (length params) = Val Minv ->
  mat_mul q Minv (birkhoff_matrix q params) = mat_id (length params) ->
  exists b : list Z,
    birkhoff_coeffs q params = Val b /\
    (forall j : nat, (j < length params)%nat ->
       (nth j b 0 * lag_den params j) mod q = lag_num params j mod q /\
       (forall lam : Z, (lam * lag_den params j) mod q = lag_num params j mod q -> nth j b 0 mod q = lam mod q)).
Print Assumptions birkhoff_is_lagrange.

(** Headline, composed with C20 (inverse_correct_list): for prime q and a Birkhoff matrix with non-zero determinant
    (as computed by the verified bareiss), birkhoff_coeffs returns b with sum_i b_i * f^(r_i)(x_i) = f(0) (mod q). *)
Theorem birkhoff_interpolates_nonsingular :
  forall q : Z, Znumtheory.prime q ->
  forall (params : list (Z * nat)) (f : list Z), params <> [] ->
  Z.of_nat (length params) <= 2 ^ 64 -> length f = length params ->
  bareiss q (birkhoff_matrix q params) (length params) <> Val 0 ->
  exists b : list Z,
    birkhoff_coeffs q params = Val b /\
    bigsum (length params)
      (fun i : nat => nth i b 0 * derivative_at q f (snd (nth i params (0, 0%nat))) (fst (nth i params (0, 0%nat))))
    mod q = evaluate_at q f 0.
Proof. exact PolyC20.birkhoff_interpolates_nonsingular. Qed.
Check birkhoff_interpolates_nonsingular :
  forall q : Z, Znumtheory.prime q ->
  forall (params : list (Z * nat)) (f : list Z), params <> [] ->
  Z.of_nat (length params) <= 2 ^ 64 -> length f = length params ->
  bareiss q (birkhoff_matrix q params) (length params) <> Val 0 ->
  exists b : list Z,
    birkhoff_coeffs q params = Val b /\
    bigsum (length params)
      (fun i : nat => nth i b 0 * derivative_at q f (snd (nth i params (0, 0%nat))) (fst (nth i params (0, 0%nat))))
    mod q = evaluate_at q f 0.
Print Assumptions birkhoff_interpolates_nonsingular.

(** Lagrange reduction composed with C20: all orders zero, pairwise distinct nodes, non-zero determinant =>
    b_j is the unique solution of b_j * prod_{m<>j}(x_m - x_j) = prod_{m<>j} x_m (mod q). *)
Theorem birkhoff_is_lagrange_nonsingular :
  forall q : Z, Znumtheory.prime q ->
  forall (params : list (Z * nat)), params <> [] ->
  Z.of_nat (length params) <= 2 ^ 64 ->
  (forall i : nat, (i < length params)%nat -> snd (nth i params (0%Z, 0%nat)) = 0%nat) ->
  (forall i j : nat, (i < length params)%nat -> (j < length params)%nat -> i <> j ->
     fst (nth i params (0, 0%nat)) mod q <> fst (nth j params (0, 0%nat)) mod q) ->
  bareiss q (birkhoff_matrix q params) (length params) <> Val 0 ->
  exists b : list Z,
    birkhoff_coeffs q params = Val b /\
    (forall j : nat, (j < length params)%nat ->
       (nth j b 0 * lag_den params j) mod q = lag_num params j mod q /\
       (forall lam : Z, (lam * lag_den params j) mod q = lag_num params j mod q -> nth j b 0 mod q = lam mod q)).
Proof. exact PolyC20.birkhoff_is_lagrange_nonsingular. Qed.
Check birkhoff_is_lagrange_nonsingular :
  forall q : Z, Znumtheory.prime q ->
  forall (params : list (Z * nat)), params <> [] ->
  Z.of_nat (length params) <= 2 ^ 64 ->
  (forall i : nat, (i < length params)%nat -> snd (nth i params (0%Z, 0%nat)) = 0%nat) ->
  (forall i j : nat, (i < length params)%nat -> (j < length params)%nat -> i <> j ->
     fst (nth i params (0, 0%nat)) mod q <> fst (nth j params (0, 0%nat)) mod q) ->
  bareiss q (birkhoff_matrix q params) (length params) <> Val 0 ->
  exists b : list Z,
    birkhoff_coeffs q params = Val b /\
    (forall j : nat, (j < length params)%nat ->
       (nth j b 0 * lag_den params j) mod q = lag_num params j mod q /\
       (forall lam : Z, (lam * lag_den params j) mod q = lag_num params j mod q -> nth j b 0 mod q = lam mod q)).
Print Assumptions birkhoff_is_lagrange_nonsingular.

(** Feldman check: for a non-zero share v, feldman_verify on the commitment of f accepts exactly when v = f(x). *)
Theorem feldman_iff :
  forall (q : Z) (G : Type) (gadd : G -> G -> G) (gneg : G -> G) (gid : G) (smul : Z -> G -> G)
    (geqb : G -> G -> bool) (gen : G),
  module_laws q G gadd gneg gid smul geqb gen ->
  forall (f : list Z) (x v : Z), v mod q <> 0 ->
  (feldman_verify q G gadd gid smul geqb (commit G smul gen f) x v gen = true <-> v mod q = evaluate_at q f x).
Proof. exact PolyGroup.feldman_iff. Qed.
Check feldman_iff :
  forall (q : Z) (G : Type) (gadd : G -> G -> G) (gneg : G -> G) (gid : G) (smul : Z -> G -> G)
    (geqb : G -> G -> bool) (gen : G),
  module_laws q G gadd gneg gid smul geqb gen ->
  forall (f : list Z) (x v : Z), v mod q <> 0 ->
  (feldman_verify q G gadd gid smul geqb (commit G smul gen f) x v gen = true <-> v mod q = evaluate_at q f x).
Print Assumptions feldman_iff.

(** Feldman check, all shares: acceptance <-> (f(x) <> 0 and v = f(x)); in particular the identity point is rejected
    whatever the share (the code's is_identity test). *)
Theorem feldman_accepts_iff :
  forall (q : Z) (G : Type) (gadd : G -> G -> G) (gneg : G -> G) (gid : G) (smul : Z -> G -> G)
    (geqb : G -> G -> bool) (gen : G),
  module_laws q G gadd gneg gid smul geqb gen ->
  forall (f : list Z) (x v : Z),
  feldman_verify q G gadd gid smul geqb (commit G smul gen f) x v gen = true <->
  (evaluate_at q f x <> 0 /\ v mod q = evaluate_at q f x).
Proof. exact PolyGroup.feldman_accepts_iff. Qed.
Check feldman_accepts_iff :
  forall (q : Z) (G : Type) (gadd : G -> G -> G) (gneg : G -> G) (gid : G) (smul : Z -> G -> G)
    (geqb : G -> G -> bool) (gen : G),
  module_laws q G gadd gneg gid smul geqb gen ->
  forall (f : list Z) (x v : Z),
  feldman_verify q G gadd gid smul geqb (commit G smul gen f) x v gen = true <->
  (evaluate_at q f x <> 0 /\ v mod q = evaluate_at q f x).
Print Assumptions feldman_accepts_iff.

(** Non-vacuity of the module_laws hypothesis: the discrete-log instance (Z_q, +, gen = 1) satisfies it for every q. *)
Theorem group_laws_satisfiable :
  forall q : Z, module_laws q (zq q) (dl_add q) (dl_neg q) (dl_id q) (dl_smul q) (dl_eqb q) (dl_gen q).
Proof. exact PolyDlog.dlog_laws. Qed.
Check group_laws_satisfiable :
  forall q : Z, module_laws q (zq q) (dl_add q) (dl_neg q) (dl_id q) (dl_smul q) (dl_eqb q) (dl_gen q).
Print Assumptions group_laws_satisfiable.
