(** C19 -- The 128-bit binary-field product is the GF(2^128) multiplication.
    Statements only; proofs live in Proofs/.  [gf_prog] is the program GENERATED from
    crates/sl-oblivious/src/soft_spoken/mul_poly.rs on every run (tie T1). *)
From SL Require Import Lib.Base Model.ByteLang Model.Gf128 Gen.GfProg Proofs.Gf128Basis.

(** The generated program never panics: every index, shift amount and slice copy is in range
    (indices depend on loop counters only, so this is decided by running the bounds checker). *)
Theorem gf_no_panic : sok gf_arr_lens 0 [] gf_body = true.
Proof. exact gf_bounds_ok. Qed.
Check gf_no_panic : sok gf_arr_lens 0 [] gf_body = true.
Print Assumptions gf_no_panic.

(** Implementation = specification on all 128 x 128 pairs of monomials. *)
Theorem gf_basis_correct : forall i j, (i < 128)%nat -> (j < 128)%nat ->
  gf_prog (mono i) (mono j) = gf_spec_bytes (mono i) (mono j).
Proof. exact gf_basis_agree_all. Qed.
Check gf_basis_correct : forall i j, (i < 128)%nat -> (j < 128)%nat ->
  gf_prog (mono i) (mono j) = gf_spec_bytes (mono i) (mono j).
Print Assumptions gf_basis_correct.
