(** C19 -- The 128-bit binary-field product is the GF(2^128) multiplication.
    Statements only; proofs live in Proofs/.  [gf_prog] is the program GENERATED from
    crates/sl-oblivious/src/soft_spoken/mul_poly.rs on every run (tie T1). *)
From SL Require Import Lib.Base Model.ByteLang Model.Gf128 Gen.GfProg Proofs.Gf128Basis.
From SL Require Import Proofs.ByteLangLin Proofs.Gf128Spec Proofs.Gf128Correct.

(** The generated program never panics: every index, shift amount and slice copy is in range
    (indices depend on loop counters only, so this is decided by running the bounds checker). *)
Theorem gf_no_panic : sok gf_arr_lens 0 [] gf_body = true.
Proof. exact gf_bounds_ok. Qed.
Check gf_no_panic : sok gf_arr_lens 0 [] gf_body = true.
Print Assumptions gf_no_panic.

(** Implementation = specification on all 128 x 128 pairs of monomials. *)
Theorem gf_basis_correct : forall i j, (i < 128)%nat -> (j < 128)%nat ->
  gf_prog (mono i) (mono j) = gf_spec_bytes (mono i) (mono j).
Proof. exact gf_basis_agree_all. Qed.
Check gf_basis_correct : forall i j, (i < 128)%nat -> (j < 128)%nat ->
  gf_prog (mono i) (mono j) = gf_spec_bytes (mono i) (mono j).
Print Assumptions gf_basis_correct.

(** The linearity type system of Model/ByteLang.v is sound, for EVERY program: three runs whose
    environments are related (public parts equal, linear parts E12 = E1 xor E2 bytewise) stay related. *)
Theorem bytelang_lin_sound : forall cls p lt E1 E2 E12,
  lin_s cls lt p = true -> rel cls lt E1 E2 E12 -> rel cls lt (run p E1) (run p E2) (run p E12).
Proof. exact lin_s_sound. Qed.
Check bytelang_lin_sound : forall cls p lt E1 E2 E12,
  lin_s cls lt p = true -> rel cls lt E1 E2 E12 -> rel cls lt (run p E1) (run p E2) (run p E12).
Print Assumptions bytelang_lin_sound.

(** MAIN THEOREM: on all 2^256 pairs of 16-byte operands the generated program returns the
    little-endian bytes of the GF(2)[x]/(x^128+x^7+x^2+x+1) product of the operands. *)
Theorem gf128_mul_correct : forall a b, bytes16 a = true -> bytes16 b = true ->
  gf_prog a b = gf_spec_bytes a b.
Proof. exact gf128_mul_correct_all. Qed.
Check gf128_mul_correct : forall a b, bytes16 a = true -> bytes16 b = true ->
  gf_prog a b = gf_spec_bytes a b.
Print Assumptions gf128_mul_correct.

(** The result is again a 16-byte string. *)
Theorem gf128_closed : forall a b, bytes16 a = true -> bytes16 b = true ->
  bytes16 (gf_prog a b) = true.
Proof. exact gf_prog_closed. Qed.
Check gf128_closed : forall a b, bytes16 a = true -> bytes16 b = true ->
  bytes16 (gf_prog a b) = true.
Print Assumptions gf128_closed.

(** Commutativity of the implementation. *)
Theorem gf128_comm : forall a b, bytes16 a = true -> bytes16 b = true ->
  gf_prog a b = gf_prog b a.
Proof. exact gf_prog_comm. Qed.
Check gf128_comm : forall a b, bytes16 a = true -> bytes16 b = true ->
  gf_prog a b = gf_prog b a.
Print Assumptions gf128_comm.

(** Distributivity over XOR ([xorl] = bytewise [N.lxor]), right operand. *)
Theorem gf128_distr_r : forall a b1 b2, bytes16 a = true -> bytes16 b1 = true -> bytes16 b2 = true ->
  gf_prog a (xorl b1 b2) = xorl (gf_prog a b1) (gf_prog a b2).
Proof. exact gf_prog_distr_r. Qed.
Check gf128_distr_r : forall a b1 b2, bytes16 a = true -> bytes16 b1 = true -> bytes16 b2 = true ->
  gf_prog a (xorl b1 b2) = xorl (gf_prog a b1) (gf_prog a b2).
Print Assumptions gf128_distr_r.

(** Distributivity over XOR, left operand. *)
Theorem gf128_distr_l : forall a1 a2 b, bytes16 a1 = true -> bytes16 a2 = true -> bytes16 b = true ->
  gf_prog (xorl a1 a2) b = xorl (gf_prog a1 b) (gf_prog a2 b).
Proof. exact gf_prog_distr_l. Qed.
Check gf128_distr_l : forall a1 a2 b, bytes16 a1 = true -> bytes16 a2 = true -> bytes16 b = true ->
  gf_prog (xorl a1 a2) b = xorl (gf_prog a1 b) (gf_prog a2 b).
Print Assumptions gf128_distr_l.

(** The monomial x^0 (the byte string 01 00 .. 00) is a right and left identity. *)
Theorem gf128_one_r : forall a, bytes16 a = true -> gf_prog a (mono 0) = a.
Proof. exact gf_prog_one_r. Qed.
Check gf128_one_r : forall a, bytes16 a = true -> gf_prog a (mono 0) = a.
Print Assumptions gf128_one_r.

(** Left identity. *)
Theorem gf128_one_l : forall a, bytes16 a = true -> gf_prog (mono 0) a = a.
Proof. exact gf_prog_one_l. Qed.
Check gf128_one_l : forall a, bytes16 a = true -> gf_prog (mono 0) a = a.
Print Assumptions gf128_one_l.

(** Zero annihilates. *)
Theorem gf128_zero_r : forall a, bytes16 a = true -> gf_prog a (repeat 0%N 16) = repeat 0%N 16.
Proof. exact gf_prog_zero_r. Qed.
Check gf128_zero_r : forall a, bytes16 a = true -> gf_prog a (repeat 0%N 16) = repeat 0%N 16.
Print Assumptions gf128_zero_r.

(** Associativity of the implementation. *)
Theorem gf128_assoc : forall a b c, bytes16 a = true -> bytes16 b = true -> bytes16 c = true ->
  gf_prog (gf_prog a b) c = gf_prog a (gf_prog b c).
Proof. exact gf_prog_assoc. Qed.
Check gf128_assoc : forall a b c, bytes16 a = true -> bytes16 b = true -> bytes16 c = true ->
  gf_prog (gf_prog a b) c = gf_prog a (gf_prog b c).
Print Assumptions gf128_assoc.

(** Field laws of the specification on numbers below 2^128: commutativity. *)
Theorem gf_spec_comm : forall a b, (a < two128)%N -> (b < two128)%N -> gf_spec a b = gf_spec b a.
Proof. exact spec_comm. Qed.
Check gf_spec_comm : forall a b, (a < two128)%N -> (b < two128)%N -> gf_spec a b = gf_spec b a.
Print Assumptions gf_spec_comm.

(** Associativity of the specification. *)
Theorem gf_spec_assoc : forall a b c, (a < two128)%N -> (b < two128)%N -> (c < two128)%N ->
  gf_spec (gf_spec a b) c = gf_spec a (gf_spec b c).
Proof. exact spec_assoc. Qed.
Check gf_spec_assoc : forall a b c, (a < two128)%N -> (b < two128)%N -> (c < two128)%N ->
  gf_spec (gf_spec a b) c = gf_spec a (gf_spec b c).
Print Assumptions gf_spec_assoc.

(** Bilinearity of the specification (right operand: no bound needed). *)
Theorem gf_spec_lxor_r : forall a b1 b2, gf_spec a (N.lxor b1 b2) = N.lxor (gf_spec a b1) (gf_spec a b2).
Proof. exact spec_lxor_r. Qed.
Check gf_spec_lxor_r : forall a b1 b2, gf_spec a (N.lxor b1 b2) = N.lxor (gf_spec a b1) (gf_spec a b2).
Print Assumptions gf_spec_lxor_r.

(** Bilinearity of the specification (left operand). *)
Theorem gf_spec_lxor_l : forall a1 a2 b, (a1 < two128)%N -> (a2 < two128)%N ->
  gf_spec (N.lxor a1 a2) b = N.lxor (gf_spec a1 b) (gf_spec a2 b).
Proof. exact spec_lxor_l. Qed.
Check gf_spec_lxor_l : forall a1 a2 b, (a1 < two128)%N -> (a2 < two128)%N ->
  gf_spec (N.lxor a1 a2) b = N.lxor (gf_spec a1 b) (gf_spec a2 b).
Print Assumptions gf_spec_lxor_l.

(** Multiplication by x commutes with the product (the structural lemma behind associativity). *)
Theorem gf_spec_xtime : forall a c, (a < two128)%N -> gf_spec (xtime a) c = xtime (gf_spec a c).
Proof. exact spec_xtime_l. Qed.
Check gf_spec_xtime : forall a c, (a < two128)%N -> gf_spec (xtime a) c = xtime (gf_spec a c).
Print Assumptions gf_spec_xtime.
