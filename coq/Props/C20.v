(** C20 -- placeholder while the proofs are being written (replaced by the real statements). *)
From SL Require Import Lib.Base Model.Matrix.
Local Open Scope Z_scope.

Theorem bareiss_empty : forall q, bareiss q [] 0 = Val 1.
Proof. exact (fun q => eq_refl). Qed.
Check bareiss_empty : forall q, bareiss q [] 0 = Val 1.
Print Assumptions bareiss_empty.
