(** C20 -- Matrix inverse and determinant over the scalar field are exact.
    Statements only; proofs live in Proofs/Matrix*.v.  Model: Model/Matrix.v (list-of-lists over Z mod q,
    following crates/sl-mpc-mate/src/matrix.rs loop by loop, index panics explicit).
    [F q] is the prime field 'F_(Z.to_nat q); [Z2F q]/[F2Z q] relate canonical representatives 0 <= z < q to it;
    [mxof q n m : 'M[F q]_n] is the matrix of a list matrix; [\det] is MathComp's Leibniz determinant.
    Every theorem holds for every dimension n and has the premise [prime q]. *)
Set Warnings "-ambiguous-paths,-notation-overridden,-redundant-canonical-projection".
From mathcomp Require Import all_ssreflect all_fingroup all_algebra.
From Coq Require Import ZArith.
From SL Require Import Lib.Base Model.Matrix Proofs.MatrixInv Proofs.MatrixList Proofs.MatrixField Proofs.MatrixListForm.
Import GRing.Theory.
Local Open Scope ring_scope.

(** The scalar abstraction is faithful: a bijection between [0,q) and the field ... *)
Theorem scalar_abstraction_bijective : forall q, Znumtheory.prime q ->
  (forall z, (0 <= z < q)%Z -> F2Z (Z2F q z) = z) /\
  (forall x : F q, Z2F q (F2Z x) = x /\ (0 <= F2Z x < q)%Z).
Proof. exact (fun q Hq => conj (fun z => @F2Z_Z2F q Hq z) (fun x => conj (Z2F_F2Z Hq x) (F2Z_range Hq x))). Qed.
Check scalar_abstraction_bijective : forall q, Znumtheory.prime q ->
  (forall z, (0 <= z < q)%Z -> F2Z (Z2F q z) = z) /\
  (forall x : F q, Z2F q (F2Z x) = x /\ (0 <= F2Z x < q)%Z).
Print Assumptions scalar_abstraction_bijective.

(** ... under which the model's scalar operations are the field operations. *)
Theorem scalar_ops_are_field_ops : forall q, Znumtheory.prime q -> forall a b, (0 <= a < q)%Z -> (0 <= b < q)%Z ->
  [/\ Z2F q (zq_add q a b) = Z2F q a + Z2F q b,
      Z2F q (zq_sub q a b) = Z2F q a - Z2F q b,
      Z2F q (zq_mul q a b) = Z2F q a * Z2F q b &
      Z2F q (zq_neg q a) = - Z2F q a].
Proof. exact scalar_ops. Qed.
Check scalar_ops_are_field_ops : forall q, Znumtheory.prime q -> forall a b, (0 <= a < q)%Z -> (0 <= b < q)%Z ->
  [/\ Z2F q (zq_add q a b) = Z2F q a + Z2F q b,
      Z2F q (zq_sub q a b) = Z2F q a - Z2F q b,
      Z2F q (zq_mul q a b) = Z2F q a * Z2F q b &
      Z2F q (zq_neg q a) = - Z2F q a].
Print Assumptions scalar_ops_are_field_ops.

(** [Scalar::invert] (extended Euclid in the model): defined and correct on every non-zero scalar, none on 0. *)
Theorem zq_invert_correct : forall q, Znumtheory.prime q -> forall a, (0 < a < q)%Z ->
  exists v, zq_invert q a = Some v /\ (0 <= v < q)%Z /\ ((a * v) mod q = 1)%Z.
Proof. exact (fun q Hq a => zq_invert_prime q a Hq). Qed.
Check zq_invert_correct : forall q, Znumtheory.prime q -> forall a, (0 < a < q)%Z ->
  exists v, zq_invert q a = Some v /\ (0 <= v < q)%Z /\ ((a * v) mod q = 1)%Z.
Print Assumptions zq_invert_correct.

(** The computed determinant equals the Leibniz determinant, for every n (n = 0 included) and every well-shaped
    n x n matrix -- in particular it is a value: neither the "modular inverse does not exist" error nor an index
    panic is reachable, whatever row exchanges the elimination needs. *)
Theorem bareiss_det_correct : forall q, Znumtheory.prime q -> forall n m, wf_mat q n m ->
  bareiss q m n = Val (F2Z (\det (mxof q n m))).
Proof. exact bareiss_det. Qed.
Check bareiss_det_correct : forall q, Znumtheory.prime q -> forall n m, wf_mat q n m ->
  bareiss q m n = Val (F2Z (\det (mxof q n m))).
Print Assumptions bareiss_det_correct.

(** A zero determinant is reported as the value zero rather than as an arithmetic failure. *)
Theorem bareiss_singular_zero : forall q, Znumtheory.prime q -> forall n m, wf_mat q n m ->
  \det (mxof q n m) = 0 -> bareiss q m n = Val 0%Z.
Proof. exact bareiss_singular. Qed.
Check bareiss_singular_zero : forall q, Znumtheory.prime q -> forall n m, wf_mat q n m ->
  \det (mxof q n m) = 0 -> bareiss q m n = Val 0%Z.
Print Assumptions bareiss_singular_zero.

(** For every n >= 1 (1 x 1 and the special-cased 2 x 2 included) and every matrix with non-zero determinant,
    [matrix_inverse] returns a well-shaped matrix M' with M' * M = 1 and M * M' = 1. *)
Theorem inverse_correct : forall q, Znumtheory.prime q -> forall n m, (0 < n)%coq_nat -> wf_mat q n m ->
  \det (mxof q n m) != 0 ->
  exists m', [/\ matrix_inverse q m n = Val m', wf_mat q n m',
                 mxof q n m' *m mxof q n m = 1%:M & mxof q n m *m mxof q n m' = 1%:M].
Proof. exact inverse_correct_mx. Qed.
Check inverse_correct : forall q, Znumtheory.prime q -> forall n m, (0 < n)%coq_nat -> wf_mat q n m ->
  \det (mxof q n m) != 0 ->
  exists m', [/\ matrix_inverse q m n = Val m', wf_mat q n m',
                 mxof q n m' *m mxof q n m = 1%:M & mxof q n m *m mxof q n m' = 1%:M].
Print Assumptions inverse_correct.

(** The same with no MathComp notion in the statement: "determinant non-zero" is "the computed determinant is not
    [Val 0]" (equivalent by [bareiss_det_correct]), product and identity are the list functions of Model/Matrix.v. *)
Theorem inverse_correct_lists : forall q, Znumtheory.prime q -> forall n m, (0 < n)%coq_nat -> wf_mat q n m ->
  bareiss q m n <> Val 0%Z ->
  exists m', [/\ matrix_inverse q m n = Val m', wf_mat q n m',
                 mat_mul q m' m = mat_id n & mat_mul q m m' = mat_id n].
Proof. exact inverse_correct_list. Qed.
Check inverse_correct_lists : forall q, Znumtheory.prime q -> forall n m, (0 < n)%coq_nat -> wf_mat q n m ->
  bareiss q m n <> Val 0%Z ->
  exists m', [/\ matrix_inverse q m n = Val m', wf_mat q n m',
                 mat_mul q m' m = mat_id n & mat_mul q m m' = mat_id n].
Print Assumptions inverse_correct_lists.

(** The singular case of [matrix_inverse], exactly: the determinant is the value 0 ([bareiss_singular_zero]) and the one
    failure is the [unwrap] of [Scalar::invert] on it -- no arithmetic failure inside the elimination, for any size. *)
Theorem inverse_singular_is_unwrap_panic : forall q n m, wf_mat q n m ->
  bareiss q m n = Val 0%Z -> matrix_inverse q m n = Panic P_UNWRAP_INV.
Proof. exact inverse_singular. Qed.
Check inverse_singular_is_unwrap_panic : forall q n m, wf_mat q n m ->
  bareiss q m n = Val 0%Z -> matrix_inverse q m n = Panic P_UNWRAP_INV.
Print Assumptions inverse_singular_is_unwrap_panic.

(** The returned matrix is THE inverse: any well-shaped left or right inverse of m equals it (so "M' * M = 1" pins
    every entry of the result, not just a relation). *)
Theorem inverse_is_unique : forall q, Znumtheory.prime q -> forall n m m' x, (0 < n)%coq_nat ->
  wf_mat q n m -> wf_mat q n m' -> wf_mat q n x ->
  mat_mul q m' m = mat_id n -> mat_mul q m m' = mat_id n ->
  (mat_mul q x m = mat_id n \/ mat_mul q m x = mat_id n) -> x = m'.
Proof. exact inverse_unique. Qed.
Check inverse_is_unique : forall q, Znumtheory.prime q -> forall n m m' x, (0 < n)%coq_nat ->
  wf_mat q n m -> wf_mat q n m' -> wf_mat q n x ->
  mat_mul q m' m = mat_id n -> mat_mul q m m' = mat_id n ->
  (mat_mul q x m = mat_id n \/ mat_mul q m x = mat_id n) -> x = m'.
Print Assumptions inverse_is_unique.

(** Anchor for the abstraction: on 2 x 2 matrices the computed determinant is a*d - b*c modulo q, stated over Z only. *)
Theorem bareiss_2x2_closed_form : forall q, Znumtheory.prime q -> forall a b c d,
  (0 <= a < q)%Z -> (0 <= b < q)%Z -> (0 <= c < q)%Z -> (0 <= d < q)%Z ->
  bareiss q [:: [:: a; b]; [:: c; d]] 2 = Val ((a * d - b * c) mod q)%Z.
Proof. exact bareiss_2x2. Qed.
Check bareiss_2x2_closed_form : forall q, Znumtheory.prime q -> forall a b c d,
  (0 <= a < q)%Z -> (0 <= b < q)%Z -> (0 <= c < q)%Z -> (0 <= d < q)%Z ->
  bareiss q [:: [:: a; b]; [:: c; d]] 2 = Val ((a * d - b * c) mod q)%Z.
Print Assumptions bareiss_2x2_closed_form.
