(** C16 -- the relay retains entries for their TTL and forgets them afterwards.  Statements only; proofs in
    Proofs/Relay{Cleanup,Inv,Retention}.v; model Model/Relay.v (tie T2: Corr/C15.v, harness c16).
    All theorems quantify over ARBITRARY finite histories / states satisfying the invariant. *)
From SL Require Import Lib.Base Model.Relay Proofs.RelayMap Proofs.RelayCleanup Proofs.RelayInv Proofs.RelayRetention.
From Coq Require Import Permutation.
Local Open Scope N_scope.

(** The invariant [Inv] (Proofs/RelayInv.v; clauses spelled out in [relay_invariant] below) holds initially. *)
Theorem inv_init :
  Inv 0 init.
Proof. exact Inv_init. Qed.
Check inv_init :
  Inv 0 init.
Print Assumptions inv_init.

(** ... and is preserved by every operation, from any state, at any clock value; its time index becomes the clock of the operation if it takes the lock (asks and publications run cleanup), and is unchanged otherwise. *)
Theorem inv_step :
  forall T s o, Inv T s -> Inv (clean_time T o) (fst (step s o)).
Proof. exact step_inv. Qed.
Check inv_step :
  forall T s o, Inv T s -> Inv (clean_time T o) (fst (step s o)).
Print Assumptions inv_step.

(** The invariant on every reachable state, spelled out. s = state after history h, T = clock of the last ask/publication of h. The store is a map; (a) Ready at id => exactly one Pub heap entry for id, carrying that message's own expiry, and no Pub entry for ids that are not Ready; (b) Waiters E at id => an Ask heap entry (E,id) exists; (c) no heap entry and no store entry has an expiry before T. *)
Theorem relay_invariant :
  forall h,
  let s := exec init h in
  let T := last_clean 0 h in
  NoDup (map fst (msgs s)) /\
  (forall id e m, lookup id (msgs s) = Some (Ready e m) -> filter (is_pub_for id) (heap s) = [(e, id, KPub)]) /\
  (forall id, (forall e m, lookup id (msgs s) <> Some (Ready e m)) -> filter (is_pub_for id) (heap s) = []) /\
  (forall id E l, lookup id (msgs s) = Some (Waiters E l) -> In (E, id, KAsk) (heap s)) /\
  (forall e, In e (heap s) -> T <= h_when e) /\
  (forall id v, lookup id (msgs s) = Some v -> T <= expiry v).
Proof. exact relay_invariant_proof. Qed.
Check relay_invariant :
  forall h,
  let s := exec init h in
  let T := last_clean 0 h in
  NoDup (map fst (msgs s)) /\
  (forall id e m, lookup id (msgs s) = Some (Ready e m) -> filter (is_pub_for id) (heap s) = [(e, id, KPub)]) /\
  (forall id, (forall e m, lookup id (msgs s) <> Some (Ready e m)) -> filter (is_pub_for id) (heap s) = []) /\
  (forall id E l, lookup id (msgs s) = Some (Waiters E l) -> In (E, id, KAsk) (heap s)) /\
  (forall e, In e (heap s) -> T <= h_when e) /\
  (forall id v, lookup id (msgs s) = Some v -> T <= expiry v).
Print Assumptions relay_invariant.

(** What cleanup does on a reachable state: it removes EXACTLY the store entries whose own expiry (a publication's t+ttl, waiters' maximum) is <= now -- no entry is dropped early by a stale or foreign heap entry, none survives its expiry -- and exactly the heap entries with when <= now. *)
Theorem cleanup_is_expiry_by_own_lifetime :
  forall h now,
  cleanup now (exec init h) =
  mkState (filter (fun kv => now <? expiry (snd kv)) (msgs (exec init h)))
          (filter (fun e => now <? h_when e) (heap (exec init h)))
          (queue (exec init h)) (chan (exec init h)).
Proof. exact cleanup_reachable_proof. Qed.
Check cleanup_is_expiry_by_own_lifetime :
  forall h now,
  cleanup now (exec init h) =
  mkState (filter (fun kv => now <? expiry (snd kv)) (msgs (exec init h)))
          (filter (fun e => now <? h_when e) (heap (exec init h)))
          (queue (exec init h)) (chan (exec init h)).
Print Assumptions cleanup_is_expiry_by_own_lifetime.

(** A publication stored at clock t with TTL ttl (it found no live message under its id) is still Ready, same bytes, after every continuation of the history whose clock values are < t + ttl -- whatever asks (earlier, unrelated, for the same id) expire meanwhile. *)
Theorem ready_kept_until_own_ttl :
  forall h1 o f t h2,
  is_publish o f t ->
  (forall e m, lookup (hdr_id f) (msgs (exec init h1)) = Some (Ready e m) -> e <= t) ->
  times_before (t + hdr_ttl f) h2 ->
  lookup (hdr_id f) (msgs (exec init (h1 ++ o :: h2))) = Some (Ready (t + hdr_ttl f) f).
Proof. exact ready_kept_until_own_ttl_proof. Qed.
Check ready_kept_until_own_ttl :
  forall h1 o f t h2,
  is_publish o f t ->
  (forall e m, lookup (hdr_id f) (msgs (exec init h1)) = Some (Ready e m) -> e <= t) ->
  times_before (t + hdr_ttl f) h2 ->
  lookup (hdr_id f) (msgs (exec init (h1 ++ o :: h2))) = Some (Ready (t + hdr_ttl f) f).
Print Assumptions ready_kept_until_own_ttl.

(** General form: any stored publication with own expiry e survives every continuation whose clock values are < e. *)
Theorem ready_entry_kept :
  forall h1 h2 id e m,
  lookup id (msgs (exec init h1)) = Some (Ready e m) -> times_before e h2 ->
  lookup id (msgs (exec init (h1 ++ h2))) = Some (Ready e m).
Proof. exact ready_entry_kept_proof. Qed.
Check ready_entry_kept :
  forall h1 h2 id e m,
  lookup id (msgs (exec init h1)) = Some (Ready e m) -> times_before e h2 ->
  lookup id (msgs (exec init (h1 ++ h2))) = Some (Ready e m).
Print Assumptions ready_entry_kept.

(** An ask at clock t with TTL ttl that is not answered at once stays registered (its connection is in the waiter list, whose stored expiry E >= t + ttl) through every continuation with clock values < t + ttl that does not publish under the id. *)
Theorem waiters_kept_until_max :
  forall h1 c a t h2,
  length a = HDR_SIZE ->
  (forall e m, lookup (hdr_id a) (msgs (exec init h1)) = Some (Ready e m) -> e <= t) ->
  times_before (t + hdr_ttl a) h2 ->
  (forall o, In o h2 -> ~ publishes (hdr_id a) o) ->
  exists E l, lookup (hdr_id a) (msgs (exec init (h1 ++ OSend c a t :: h2))) = Some (Waiters E l) /\
              t + hdr_ttl a <= E /\ In c l.
Proof. exact waiters_kept_until_max_proof. Qed.
Check waiters_kept_until_max :
  forall h1 c a t h2,
  length a = HDR_SIZE ->
  (forall e m, lookup (hdr_id a) (msgs (exec init h1)) = Some (Ready e m) -> e <= t) ->
  times_before (t + hdr_ttl a) h2 ->
  (forall o, In o h2 -> ~ publishes (hdr_id a) o) ->
  exists E l, lookup (hdr_id a) (msgs (exec init (h1 ++ OSend c a t :: h2))) = Some (Waiters E l) /\
              t + hdr_ttl a <= E /\ In c l.
Print Assumptions waiters_kept_until_max.

(** General form: a waiters entry with stored maximum E survives every continuation with clock values < E that does not publish under the id; its expiry and its list only grow (so it lives until the LATEST expiry among the asks that joined). *)
Theorem waiters_entry_kept :
  forall h1 h2 id E l,
  lookup id (msgs (exec init h1)) = Some (Waiters E l) -> times_before E h2 ->
  (forall o, In o h2 -> ~ publishes id o) ->
  exists E' l', lookup id (msgs (exec init (h1 ++ h2))) = Some (Waiters E' (l ++ l')) /\ E <= E' .
Proof. exact waiters_entry_kept_proof. Qed.
Check waiters_entry_kept :
  forall h1 h2 id E l,
  lookup id (msgs (exec init h1)) = Some (Waiters E l) -> times_before E h2 ->
  (forall o, In o h2 -> ~ publishes id o) ->
  exists E' l', lookup id (msgs (exec init (h1 ++ h2))) = Some (Waiters E' (l ++ l')) /\ E <= E' .
Print Assumptions waiters_entry_kept.

(** After an ask or publication at clock T, after any history: no heap entry and no store entry has an expiry < T; an entry expiring exactly AT T can only be the one this very operation inserted with TTL 0. *)
Theorem no_dead_entries_after_op :
  forall h o T,
  cleans o = Some T ->
  let s := exec init (h ++ [o]) in
  (forall e, In e (heap s) -> T <= h_when e) /\
  (forall id v, lookup id (msgs s) = Some v -> T <= expiry v) /\
  (forall e, In e (heap s) -> h_when e = T -> hdr_ttl (op_frame o) = 0 /\ h_id e = hdr_id (op_frame o)) /\
  (forall id v, lookup id (msgs s) = Some v -> expiry v = T -> hdr_ttl (op_frame o) = 0 /\ id = hdr_id (op_frame o)).
Proof. exact no_dead_entries_after_op_proof. Qed.
Check no_dead_entries_after_op :
  forall h o T,
  cleans o = Some T ->
  let s := exec init (h ++ [o]) in
  (forall e, In e (heap s) -> T <= h_when e) /\
  (forall id v, lookup id (msgs s) = Some v -> T <= expiry v) /\
  (forall e, In e (heap s) -> h_when e = T -> hdr_ttl (op_frame o) = 0 /\ h_id e = hdr_id (op_frame o)) /\
  (forall id v, lookup id (msgs s) = Some v -> expiry v = T -> hdr_ttl (op_frame o) = 0 /\ id = hdr_id (op_frame o)).
Print Assumptions no_dead_entries_after_op.

(** Memory bound: every store entry is backed by its own heap entry, so the store is never larger than the heap (whose entries all expire at or after the clock of the last operation). *)
Theorem store_bounded_by_heap :
  forall h, (length (msgs (exec init h)) <= length (heap (exec init h)))%nat.
Proof. exact store_bounded_proof. Qed.
Check store_bounded_by_heap :
  forall h, (length (msgs (exec init h)) <= length (heap (exec init h)))%nat.
Print Assumptions store_bounded_by_heap.

(** The result of cleanup does not depend on the arrangement of the heap list: same store, same multiset of remaining heap entries. *)
Theorem cleanup_perm_invariant :
  forall now m h h', Permutation h h' ->
  fst (cleanup_loop (length h) now m h) = fst (cleanup_loop (length h') now m h') /\
  Permutation (snd (cleanup_loop (length h) now m h)) (snd (cleanup_loop (length h') now m h')).
Proof. exact cleanup_perm. Qed.
Check cleanup_perm_invariant :
  forall now m h h', Permutation h h' ->
  fst (cleanup_loop (length h) now m h) = fst (cleanup_loop (length h') now m h') /\
  Permutation (snd (cleanup_loop (length h) now m h)) (snd (cleanup_loop (length h') now m h')).
Print Assumptions cleanup_perm_invariant.

(** Stronger: EVERY execution of the nondeterministic loop [cleanup_rel] -- peek may return any entry with the smallest when, pop may leave the others in any arrangement (BinaryHeap's unspecified order among equal keys) -- ends in the same store and the same multiset of heap entries; and the model's deterministic loop is one such execution. *)
Theorem cleanup_any_pop_order :
  forall now m h,
  (forall m' h', cleanup_rel now m h m' h' -> m' = swept now h m /\ Permutation h' (later now h)) /\
  cleanup_rel now m h (fst (cleanup_loop (length h) now m h)) (snd (cleanup_loop (length h) now m h)) /\
  cleanup_loop (length h) now m h = (swept now h m, later now h).
Proof. exact cleanup_any_pop_order_proof. Qed.
Check cleanup_any_pop_order :
  forall now m h,
  (forall m' h', cleanup_rel now m h m' h' -> m' = swept now h m /\ Permutation h' (later now h)) /\
  cleanup_rel now m h (fst (cleanup_loop (length h) now m h)) (snd (cleanup_loop (length h) now m h)) /\
  cleanup_loop (length h) now m h = (swept now h m, later now h).
Print Assumptions cleanup_any_pop_order.

(** Hence whole histories are independent of heap order: states that differ only in the arrangement of the heap make the same observations forever. *)
Theorem history_heap_order_irrelevant :
  forall h s s', state_equiv s s' -> trace s h = trace s' h /\ state_equiv (exec s h) (exec s' h).
Proof. exact trace_equiv. Qed.
Check history_heap_order_irrelevant :
  forall h s s', state_equiv s s' -> trace s h = trace s' h /\ state_equiv (exec s h) (exec s' h).
Print Assumptions history_heap_order_irrelevant.

