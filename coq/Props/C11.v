(** C11 -- No peer-supplied bytes can panic a decoding or verifying entry point.
    Statements only.  Each theorem says that the [outcome]-valued model of an entry point (with an
    explicit [Panic] at every place where the Rust code would panic) never returns [Panic], for ALL
    byte strings / messages / histories.  Sections:
      1. message header and relay frame classification (Model/Panic.v);
      2. verifiable-encryption wire format and the calls made on a parsed proof (Model/VEnc.v, Proofs/PanicVEnc.v);
      3. BIP32 derive_xpub + to_string (Model/Bip32.v, Proofs/PanicBip32.v; per-function facts also in Props/C12.v);
      4. the relay with its mutex over arbitrary histories, and the buffered wrapper (Proofs/PanicRelay.v, Proofs/Buffered.v);
      5. Paillier key Deserialize (Model/Paillier.v, Proofs/PanicPaillier.v; also Props/C07.v);
      6. base OT / PPRF / OT extension / RVOLE `process` functions (Proofs/PanicOt.v).
    Premises that remain are stated in the theorems: 32-byte sha256 output, non-zero RSA modulus (sites shown reachable
    without it), SEC1 encoding lengths and hash output lengths, in-range fixed-width integers.  Names of Model/Relay.v,
    Model/Buffered.v, Model/Bip32.v, Model/Pprf.v that clash with Model/Panic.v are written qualified. *)
From SL Require Import Lib.Base Lib.Oracle Lib.ZqGroup Model.Panic Proofs.Panic.
From SL Require Import Model.VEnc Proofs.PanicVEnc Proofs.VEncInst.
From SL Require Model.Bip32 Proofs.Bip32 Proofs.Bip32NonVac Proofs.PanicBip32.
From SL Require Model.Relay Proofs.PanicRelay Model.Buffered Proofs.Buffered.
From SL Require Model.Paillier Proofs.PaillierWidth Proofs.PanicPaillier.
From SL Require Model.Endemic Model.Pprf Model.SoftSpoken Model.RvoleCore Model.Rvole Proofs.PanicOt.


(** 1. Message header / relay frame classification *)
Theorem msghdr_parse_total : forall frame, is_panic (msghdr_try_from frame) = false.
Proof. exact msghdr_try_from_total. Qed.
Check msghdr_parse_total : forall frame, is_panic (msghdr_try_from frame) = false.
Print Assumptions msghdr_parse_total.

Theorem relay_start_send_total : forall frame, is_panic (classify_start_send frame) = false.
Proof. exact classify_start_send_total. Qed.
Check relay_start_send_total : forall frame, is_panic (classify_start_send frame) = false.
Print Assumptions relay_start_send_total.

Theorem relay_send_total : forall frame, is_panic (classify_relay_send frame) = false.
Proof. exact classify_relay_send_total. Qed.
Check relay_send_total : forall frame, is_panic (classify_relay_send frame) = false.
Print Assumptions relay_send_total.

(** 2. Verifiable encryption.  from_bytes never panics: every point size, every scalar decoder, every byte string; no hypotheses. *)
Theorem venc_from_bytes_total :
  forall (psize : nat) (from_repr : list N -> option Z) (d : list N),
  is_panic (from_bytes psize from_repr d) = false.
Proof. exact from_bytes_total. Qed.
Check venc_from_bytes_total :
  forall (psize : nat) (from_repr : list N -> option Z) (d : list N),
  is_panic (from_bytes psize from_repr d) = false.
Print Assumptions venc_from_bytes_total.

Theorem venc_W_from_bytes_total : forall (W : venc_world) (d : list N), is_panic (W_from_bytes W d) = false.
Proof. exact W_from_bytes_total. Qed.
Check venc_W_from_bytes_total : forall (W : venc_world) (d : list N), is_panic (W_from_bytes W d) = false.
Print Assumptions venc_W_from_bytes_total.

(** what a parsed object satisfies (F3 repaired: at most 256 slots, so every challenge bit index is inside the 32-byte hash) *)
Theorem venc_parsed_shape :
  forall (W : venc_world) (d : list N) (p : vproof), W_from_bytes W d = Val p ->
  length (vp_slots p) = vp_sp p /\ length (vp_opens p) = vp_sp p /\ (128 <= vp_sp p <= 256)%nat.
Proof. exact W_from_bytes_shape. Qed.
Check venc_parsed_shape :
  forall (W : venc_world) (d : list N) (p : vproof), W_from_bytes W d = Val p ->
  length (vp_slots p) = vp_sp p /\ length (vp_opens p) = vp_sp p /\ (128 <= vp_sp p <= 256)%nat.
Print Assumptions venc_parsed_shape.

(** verify of a parsed proof against ANY claimed point, key (non-zero modulus) and label *)
Theorem venc_verify_total :
  forall W : venc_world, (forall x, length (w_sha256 W x) = 32%nat) ->
  forall (d : list N) (p : vproof) (Q : w_G W) (pk : w_PK W) (label : list N),
  W_from_bytes W d = Val p -> w_pk_n W pk <> 0%Z -> is_panic (W_verify W p Q pk label) = false.
Proof. exact W_verify_total. Qed.
Check venc_verify_total :
  forall W : venc_world, (forall x, length (w_sha256 W x) = 32%nat) ->
  forall (d : list N) (p : vproof) (Q : w_G W) (pk : w_PK W) (label : list N),
  W_from_bytes W d = Val p -> w_pk_n W pk <> 0%Z -> is_panic (W_verify W p Q pk label) = false.
Print Assumptions venc_verify_total.

(** decrypt of ANY object (parsed or not) *)
Theorem venc_decrypt_total :
  forall (W : venc_world) (p : vproof) (Q : w_G W) (sk : w_SK W) (label : list N),
  w_sk_n W sk <> 0%Z -> is_panic (W_decrypt W p Q sk label) = false.
Proof. exact W_decrypt_total. Qed.
Check venc_decrypt_total :
  forall (W : venc_world) (p : vproof) (Q : w_G W) (sk : w_SK W) (label : list N),
  w_sk_n W sk <> 0%Z -> is_panic (W_decrypt W p Q sk label) = false.
Print Assumptions venc_decrypt_total.

Theorem venc_to_bytes_total :
  forall (W : venc_world) (d : list N) (p : vproof),
  W_from_bytes W d = Val p -> is_panic (W_to_bytes W p) = false.
Proof. exact W_to_bytes_total. Qed.
Check venc_to_bytes_total :
  forall (W : venc_world) (d : list N) (p : vproof),
  W_from_bytes W d = Val p -> is_panic (W_to_bytes W p) = false.
Print Assumptions venc_to_bytes_total.

(** the whole receiving chain on raw bytes: from_bytes, verify, decrypt, to_bytes *)
Theorem venc_receive_total :
  forall W : venc_world, (forall x, length (w_sha256 W x) = 32%nat) ->
  forall (d : list N) (Q : w_G W) (pk : w_PK W) (sk : w_SK W) (label : list N),
  w_pk_n W pk <> 0%Z -> w_sk_n W sk <> 0%Z -> is_panic (W_receive W d Q pk sk label) = false.
Proof. exact W_receive_total. Qed.
Check venc_receive_total :
  forall W : venc_world, (forall x, length (w_sha256 W x) = 32%nat) ->
  forall (d : list N) (Q : w_G W) (pk : w_PK W) (sk : w_SK W) (label : list N),
  w_pk_n W pk <> 0%Z -> w_sk_n W sk <> 0%Z -> is_panic (W_receive W d Q pk sk label) = false.
Print Assumptions venc_receive_total.

(** non-vacuity: the toy world of Proofs/VEncInst.v satisfies the premises and parses a 4264-byte string *)
Theorem venc_c11_premises_satisfiable :
  (forall x, length (w_sha256 toy_world x) = 32%nat) /\ w_pk_n toy_world tt <> 0%Z /\ w_sk_n toy_world tt <> 0%Z /\
  exists p, W_from_bytes toy_world pv_ex_bytes = Val p.
Proof. exact pv_premises_satisfiable. Qed.
Check venc_c11_premises_satisfiable :
  (forall x, length (w_sha256 toy_world x) = 32%nat) /\ w_pk_n toy_world tt <> 0%Z /\ w_sk_n toy_world tt <> 0%Z /\
  exists p, W_from_bytes toy_world pv_ex_bytes = Val p.
Print Assumptions venc_c11_premises_satisfiable.

(** the modulus premise cannot be dropped: with RSA modulus 0 the `BigUint % 0` site is reached by verify and by decrypt *)
Theorem venc_modulus_premise_needed :
  obind (W_from_bytes zero_mod_world pv_ex_bytes)
        (fun p => W_verify zero_mod_world p (W_gen zero_mod_world) tt []) = Panic 1%N /\
  obind (W_from_bytes zero_mod_world pv_ex_bytes)
        (fun p => W_decrypt zero_mod_world p (W_gen zero_mod_world) tt []) = Panic 1%N.
Proof. exact modulus0_panics. Qed.
Check venc_modulus_premise_needed :
  obind (W_from_bytes zero_mod_world pv_ex_bytes)
        (fun p => W_verify zero_mod_world p (W_gen zero_mod_world) tt []) = Panic 1%N /\
  obind (W_from_bytes zero_mod_world pv_ex_bytes)
        (fun p => W_decrypt zero_mod_world p (W_gen zero_mod_world) tt []) = Panic 1%N.
Print Assumptions venc_modulus_premise_needed.

(** 3. BIP32.  Any root (identity included), chain code, prefix, path of any length with any components. *)
Theorem bip32_derive_xpub_total :
  forall G (O : group_ops G) (hmac512 : list N -> list N -> list N) (sha256 ripemd160 : list N -> list N) (q : Z),
  Proofs.Bip32.enc_len O -> forall (pfx : Model.Bip32.prefix) (root : G) (cc path : list N),
  is_panic (Model.Bip32.derive_xpub G O hmac512 sha256 ripemd160 q pfx root cc path) = false.
Proof. exact PanicBip32.derive_xpub_total. Qed.
Check bip32_derive_xpub_total :
  forall G (O : group_ops G) (hmac512 : list N -> list N -> list N) (sha256 ripemd160 : list N -> list N) (q : Z),
  Proofs.Bip32.enc_len O -> forall (pfx : Model.Bip32.prefix) (root : G) (cc path : list N),
  is_panic (Model.Bip32.derive_xpub G O hmac512 sha256 ripemd160 q pfx root cc path) = false.
Print Assumptions bip32_derive_xpub_total.

(** derive_xpub(..)?.to_string(encoded) as one chain *)
Theorem bip32_xpub_string_total :
  forall G (O : group_ops G) (hmac512 : list N -> list N -> list N) (sha256 ripemd160 : list N -> list N) (q : Z),
  Proofs.Bip32.enc_len O -> forall (pfx : Model.Bip32.prefix) (root : G) (cc path : list N) (encoded : bool),
  Proofs.Bip32.oracle_lens hmac512 ripemd160 -> length cc = 32%nat ->
  is_panic (PanicBip32.xpub_string G O hmac512 sha256 ripemd160 q pfx root cc path encoded) = false.
Proof. exact PanicBip32.xpub_string_total. Qed.
Check bip32_xpub_string_total :
  forall G (O : group_ops G) (hmac512 : list N -> list N -> list N) (sha256 ripemd160 : list N -> list N) (q : Z),
  Proofs.Bip32.enc_len O -> forall (pfx : Model.Bip32.prefix) (root : G) (cc path : list N) (encoded : bool),
  Proofs.Bip32.oracle_lens hmac512 ripemd160 -> length cc = 32%nat ->
  is_panic (PanicBip32.xpub_string G O hmac512 sha256 ripemd160 q pfx root cc path encoded) = false.
Print Assumptions bip32_xpub_string_total.

Theorem bip32_identity_root_is_error :
  forall G (O : group_ops G) (hmac512 : list N -> list N -> list N) (sha256 ripemd160 : list N -> list N) (q : Z),
  forall (pfx : Model.Bip32.prefix) (root : G) (cc path : list N) (encoded : bool),
  g_eqb O root (g_id O) = true ->
  PanicBip32.xpub_string G O hmac512 sha256 ripemd160 q pfx root cc path encoded = Err Model.Bip32.E_PointAtInfinity.
Proof. exact PanicBip32.xpub_string_identity_root. Qed.
Check bip32_identity_root_is_error :
  forall G (O : group_ops G) (hmac512 : list N -> list N -> list N) (sha256 ripemd160 : list N -> list N) (q : Z),
  forall (pfx : Model.Bip32.prefix) (root : G) (cc path : list N) (encoded : bool),
  g_eqb O root (g_id O) = true ->
  PanicBip32.xpub_string G O hmac512 sha256 ripemd160 q pfx root cc path encoded = Err Model.Bip32.E_PointAtInfinity.
Print Assumptions bip32_identity_root_is_error.

Theorem bip32_too_deep_is_error :
  forall G (O : group_ops G) (hmac512 : list N -> list N -> list N) (sha256 ripemd160 : list N -> list N) (q : Z),
  forall (pfx : Model.Bip32.prefix) (root : G) (cc path : list N) (encoded : bool),
  (255 < length path)%nat ->
  exists e, PanicBip32.xpub_string G O hmac512 sha256 ripemd160 q pfx root cc path encoded = Err e.
Proof. exact PanicBip32.xpub_string_too_deep. Qed.
Check bip32_too_deep_is_error :
  forall G (O : group_ops G) (hmac512 : list N -> list N -> list N) (sha256 ripemd160 : list N -> list N) (q : Z),
  forall (pfx : Model.Bip32.prefix) (root : G) (cc path : list N) (encoded : bool),
  (255 < length path)%nat ->
  exists e, PanicBip32.xpub_string G O hmac512 sha256 ripemd160 q pfx root cc path encoded = Err e.
Print Assumptions bip32_too_deep_is_error.

Theorem bip32_c11_hyps_satisfiable :
  Proofs.Bip32.enc_len (Bip32NonVac.zq33 11 Bip32NonVac.bip32_lt_1_11) /\ Proofs.Bip32.oracle_lens Bip32NonVac.ex_hmac Bip32NonVac.ex_rip /\
  length Bip32NonVac.ex_cc = 32%nat /\
  (exists s, PanicBip32.xpub_string _ (Bip32NonVac.zq33 11 Bip32NonVac.bip32_lt_1_11) Bip32NonVac.ex_hmac Bip32NonVac.ex_sha Bip32NonVac.ex_rip 11
               Model.Bip32.XPub Bip32NonVac.ex_root Bip32NonVac.ex_cc Bip32NonVac.ex_path true = Val s) /\
  PanicBip32.xpub_string _ (Bip32NonVac.zq33 11 Bip32NonVac.bip32_lt_1_11) Bip32NonVac.ex_hmac Bip32NonVac.ex_sha Bip32NonVac.ex_rip 11
    Model.Bip32.XPub (g_id (Bip32NonVac.zq33 11 Bip32NonVac.bip32_lt_1_11)) Bip32NonVac.ex_cc Bip32NonVac.ex_path true = Err Model.Bip32.E_PointAtInfinity.
Proof. exact PanicBip32.pb_hyps_satisfiable. Qed.
Check bip32_c11_hyps_satisfiable :
  Proofs.Bip32.enc_len (Bip32NonVac.zq33 11 Bip32NonVac.bip32_lt_1_11) /\ Proofs.Bip32.oracle_lens Bip32NonVac.ex_hmac Bip32NonVac.ex_rip /\
  length Bip32NonVac.ex_cc = 32%nat /\
  (exists s, PanicBip32.xpub_string _ (Bip32NonVac.zq33 11 Bip32NonVac.bip32_lt_1_11) Bip32NonVac.ex_hmac Bip32NonVac.ex_sha Bip32NonVac.ex_rip 11
               Model.Bip32.XPub Bip32NonVac.ex_root Bip32NonVac.ex_cc Bip32NonVac.ex_path true = Val s) /\
  PanicBip32.xpub_string _ (Bip32NonVac.zq33 11 Bip32NonVac.bip32_lt_1_11) Bip32NonVac.ex_hmac Bip32NonVac.ex_sha Bip32NonVac.ex_rip 11
    Model.Bip32.XPub (g_id (Bip32NonVac.zq33 11 Bip32NonVac.bip32_lt_1_11)) Bip32NonVac.ex_cc Bip32NonVac.ex_path true = Err Model.Bip32.E_PointAtInfinity.
Print Assumptions bip32_c11_hyps_satisfiable.

(** 4. Relay.  Model/Relay.v (C15/C16) has no Panic outcome: its step function is total by construction.  What ties it to the
    panic-aware classification above: that classification computes exactly the case split, id and TTL used by Relay.step ... *)
Theorem relay_start_send_classification :
  forall f : list N,
  classify_start_send f =
    if negb (Relay.hdr_ok f) then Val FShort
    else if Nat.eqb (length f) Relay.HDR_SIZE then Val (FAsk (Relay.hdr_id f) (Relay.hdr_ttl_secs f))
    else Val (FPublish (Relay.hdr_id f) (Relay.hdr_ttl_secs f)).
Proof. exact PanicRelay.classify_start_send_spec. Qed.
Check relay_start_send_classification :
  forall f : list N,
  classify_start_send f =
    if negb (Relay.hdr_ok f) then Val FShort
    else if Nat.eqb (length f) Relay.HDR_SIZE then Val (FAsk (Relay.hdr_id f) (Relay.hdr_ttl_secs f))
    else Val (FPublish (Relay.hdr_id f) (Relay.hdr_ttl_secs f)).
Print Assumptions relay_start_send_classification.

Theorem relay_send_classification :
  forall f : list N,
  classify_relay_send f =
    if Nat.leb (length f) Relay.HDR_SIZE then Val FShort
    else Val (FPublish (Relay.hdr_id f) (Relay.hdr_ttl_secs f)).
Proof. exact PanicRelay.classify_relay_send_spec. Qed.
Check relay_send_classification :
  forall f : list N,
  classify_relay_send f =
    if Nat.leb (length f) Relay.HDR_SIZE then Val FShort
    else Val (FPublish (Relay.hdr_id f) (Relay.hdr_ttl_secs f)).
Print Assumptions relay_send_classification.

(** ... and the relay step with the mutex explicit (lock().unwrap() panics on a poisoned mutex; a panic inside a critical
    section poisons it), run over EVERY history -- short / header-only / malformed frames through the Sink path and through
    SimpleMessageRelay::send, drains, messages(): every step returns a value, the mutex stays unpoisoned, states and
    observations are those of Relay.exec / Relay.trace *)
Theorem relay_history_total :
  forall (h : list Relay.op) (s : Relay.state),
  PanicRelay.run_locked (PanicRelay.mkL false s) h
    = (PanicRelay.mkL false (Relay.exec s h), map Val (Relay.trace s h)).
Proof. exact PanicRelay.run_locked_spec. Qed.
Check relay_history_total :
  forall (h : list Relay.op) (s : Relay.state),
  PanicRelay.run_locked (PanicRelay.mkL false s) h
    = (PanicRelay.mkL false (Relay.exec s h), map Val (Relay.trace s h)).
Print Assumptions relay_history_total.

Theorem relay_lock_never_poisoned :
  forall (h : list Relay.op) (s : Relay.state),
  PanicRelay.poisoned (fst (PanicRelay.run_locked (PanicRelay.mkL false s) h)) = false /\
  Forall (fun x => is_panic x = false) (snd (PanicRelay.run_locked (PanicRelay.mkL false s) h)).
Proof. exact PanicRelay.relay_history_no_panic. Qed.
Check relay_lock_never_poisoned :
  forall (h : list Relay.op) (s : Relay.state),
  PanicRelay.poisoned (fst (PanicRelay.run_locked (PanicRelay.mkL false s) h)) = false /\
  Forall (fun x => is_panic x = false) (snd (PanicRelay.run_locked (PanicRelay.mkL false s) h)).
Print Assumptions relay_lock_never_poisoned.

(** the lock model is not vacuous: a poisoned mutex makes every later locking call panic (what F6 looked like) *)
Theorem relay_poisoned_is_fatal :
  forall (s : Relay.state) (f : list N) (t : N),
  snd (PanicRelay.step_locked (PanicRelay.mkL true s) (Relay.ORelaySend f t)) = Panic PanicRelay.P_LOCK /\
  snd (PanicRelay.step_locked (PanicRelay.mkL true s) Relay.OMessages) = Panic PanicRelay.P_LOCK.
Proof. exact PanicRelay.poisoned_is_fatal. Qed.
Check relay_poisoned_is_fatal :
  forall (s : Relay.state) (f : list N) (t : N),
  snd (PanicRelay.step_locked (PanicRelay.mkL true s) (Relay.ORelaySend f t)) = Panic PanicRelay.P_LOCK /\
  snd (PanicRelay.step_locked (PanicRelay.mkL true s) Relay.OMessages) = Panic PanicRelay.P_LOCK.
Print Assumptions relay_poisoned_is_fatal.

(** BufferedMsgRelay: no call sequence with any cancellation points, over any inner-relay script (short frames included), panics *)
Theorem buffered_relay_no_panic :
  forall (cs : list (Model.Buffered.call * nat)) (s : Model.Buffered.state)
         (rs : list Model.Buffered.result) (s' : Model.Buffered.state),
  Model.Buffered.run cs s = (rs, s') -> ~ In Model.Buffered.RPanic rs.
Proof. exact Proofs.Buffered.no_panic_lemma. Qed.
Check buffered_relay_no_panic :
  forall (cs : list (Model.Buffered.call * nat)) (s : Model.Buffered.state)
         (rs : list Model.Buffered.result) (s' : Model.Buffered.state),
  Model.Buffered.run cs s = (rs, s') -> ~ In Model.Buffered.RPanic rs.
Print Assumptions buffered_relay_no_panic.

(** 5. Paillier key Deserialize (after F4).  The ranges are those of the fixed-width integers of the byte format; every value
    inside them -- zero, even, composite, p = q -- gives an error or a key. *)
Theorem paillier_deser_pk_total :
  forall (w : Paillier.widths) (n : Z), Paillier.widths_ok w -> (0 <= n < 2 ^ Paillier.wM w)%Z ->
  is_panic (Paillier.deser_pk w n) = false.
Proof. exact PaillierWidth.deser_pk_no_panic. Qed.
Check paillier_deser_pk_total :
  forall (w : Paillier.widths) (n : Z), Paillier.widths_ok w -> (0 <= n < 2 ^ Paillier.wM w)%Z ->
  is_panic (Paillier.deser_pk w n) = false.
Print Assumptions paillier_deser_pk_total.

Theorem paillier_deser_sk_total :
  forall (w : Paillier.widths) (p q : Z), Paillier.widths_ok w ->
  (0 <= p < 2 ^ Paillier.wP w)%Z -> (0 <= q < 2 ^ Paillier.wP w)%Z ->
  is_panic (Paillier.deser_sk w p q) = false.
Proof. exact PaillierWidth.deser_sk_no_panic. Qed.
Check paillier_deser_sk_total :
  forall (w : Paillier.widths) (p q : Z), Paillier.widths_ok w ->
  (0 <= p < 2 ^ Paillier.wP w)%Z -> (0 <= q < 2 ^ Paillier.wP w)%Z ->
  is_panic (Paillier.deser_sk w p q) = false.
Print Assumptions paillier_deser_sk_total.

Theorem paillier_deser_pk_cases :
  forall (w : Paillier.widths) (n : Z), Paillier.widths_ok w -> (0 <= n < 2 ^ Paillier.wM w)%Z ->
  (n = 0%Z /\ Paillier.deser_pk w n = Err 1%N) \/
  (n <> 0%Z /\ Z.even n = true /\ Paillier.deser_pk w n = Err 2%N) \/
  (Z.odd n = true /\ Paillier.deser_pk w n = Val (Paillier.from_n w n)).
Proof. exact PanicPaillier.deser_pk_cases. Qed.
Check paillier_deser_pk_cases :
  forall (w : Paillier.widths) (n : Z), Paillier.widths_ok w -> (0 <= n < 2 ^ Paillier.wM w)%Z ->
  (n = 0%Z /\ Paillier.deser_pk w n = Err 1%N) \/
  (n <> 0%Z /\ Z.even n = true /\ Paillier.deser_pk w n = Err 2%N) \/
  (Z.odd n = true /\ Paillier.deser_pk w n = Val (Paillier.from_n w n)).
Print Assumptions paillier_deser_pk_cases.

Theorem paillier_deser_sk_cases :
  forall (w : Paillier.widths) (p q : Z), Paillier.widths_ok w ->
  (0 <= p < 2 ^ Paillier.wP w)%Z -> (0 <= q < 2 ^ Paillier.wP w)%Z ->
  ((Z.even p = true \/ Z.even q = true) /\ Paillier.deser_sk w p q = Err 2%N) \/
  (Z.odd p = true /\ Z.odd q = true /\ Paillier.deser_sk w p q = Val (Paillier.from_pq w p q)).
Proof. exact PanicPaillier.deser_sk_cases. Qed.
Check paillier_deser_sk_cases :
  forall (w : Paillier.widths) (p q : Z), Paillier.widths_ok w ->
  (0 <= p < 2 ^ Paillier.wP w)%Z -> (0 <= q < 2 ^ Paillier.wP w)%Z ->
  ((Z.even p = true \/ Z.even q = true) /\ Paillier.deser_sk w p q = Err 2%N) \/
  (Z.odd p = true /\ Z.odd q = true /\ Paillier.deser_sk w p q = Val (Paillier.from_pq w p q)).
Print Assumptions paillier_deser_sk_cases.

(** zero and even values are errors for ALL widths, no hypotheses *)
Theorem paillier_zero_even_rejected :
  (forall w, Paillier.deser_pk w 0 = Err 1%N) /\
  (forall w n, n <> 0%Z -> Z.even n = true -> Paillier.deser_pk w n = Err 2%N) /\
  (forall w p q, Z.even p = true \/ Z.even q = true -> Paillier.deser_sk w p q = Err 2%N).
Proof. exact PanicPaillier.deser_zero_even_rejected. Qed.
Check paillier_zero_even_rejected :
  (forall w, Paillier.deser_pk w 0 = Err 1%N) /\
  (forall w n, n <> 0%Z -> Z.even n = true -> Paillier.deser_pk w n = Err 2%N) /\
  (forall w p q, Z.even p = true \/ Z.even q = true -> Paillier.deser_sk w p q = Err 2%N).
Print Assumptions paillier_zero_even_rejected.

(** the site is real: constructing the key from an even modulus (the pre-F4 Deserialize) panics *)
Theorem paillier_even_modulus_site_real :
  forall (w : Paillier.widths) (n : Z), Paillier.widths_ok w -> (0 <= n < 2 ^ Paillier.wM w)%Z -> Z.even n = true ->
  Paillier.from_n_outcome w n = Panic 1%N.
Proof. exact PanicPaillier.from_n_even_panics. Qed.
Check paillier_even_modulus_site_real :
  forall (w : Paillier.widths) (n : Z), Paillier.widths_ok w -> (0 <= n < 2 ^ Paillier.wM w)%Z -> Z.even n = true ->
  Paillier.from_n_outcome w n = Panic 1%N.
Print Assumptions paillier_even_modulus_site_real.

Theorem paillier_c11_hyps_satisfiable :
  Paillier.widths_ok Paillier.cfg512 /\ (0 <= 0 < 2 ^ Paillier.wM Paillier.cfg512)%Z /\
  (0 <= 2 ^ 255 < 2 ^ Paillier.wM Paillier.cfg512)%Z /\ (0 <= 15 < 2 ^ Paillier.wP Paillier.cfg512)%Z /\
  Paillier.deser_pk Paillier.cfg512 0 = Err 1%N /\ Paillier.deser_pk Paillier.cfg512 (2 ^ 255) = Err 2%N /\
  is_panic (Paillier.deser_pk Paillier.cfg512 15) = false /\ is_panic (Paillier.deser_sk Paillier.cfg512 15 15) = false /\
  Paillier.deser_sk Paillier.cfg512 0 7 = Err 2%N.
Proof. exact PanicPaillier.pp_hyps_satisfiable. Qed.
Check paillier_c11_hyps_satisfiable :
  Paillier.widths_ok Paillier.cfg512 /\ (0 <= 0 < 2 ^ Paillier.wM Paillier.cfg512)%Z /\
  (0 <= 2 ^ 255 < 2 ^ Paillier.wM Paillier.cfg512)%Z /\ (0 <= 15 < 2 ^ Paillier.wP Paillier.cfg512)%Z /\
  Paillier.deser_pk Paillier.cfg512 0 = Err 1%N /\ Paillier.deser_pk Paillier.cfg512 (2 ^ 255) = Err 2%N /\
  is_panic (Paillier.deser_pk Paillier.cfg512 15) = false /\ is_panic (Paillier.deser_sk Paillier.cfg512 15 15) = false /\
  Paillier.deser_sk Paillier.cfg512 0 7 = Err 2%N.
Print Assumptions paillier_c11_hyps_satisfiable.

(** 6. OT stack and RVOLE: the `process` functions on a peer's message -- every message (any list shape, any bytes), every
    oracle, every group, every local state; no hypotheses. *)
Theorem endemic_sender_process_total :
  forall G (O : group_ops G) (H : transcript_oracle) (sid : list N)
         (msg1 : list (list N * list N)) (tbs : list (Z * Z)),
  is_panic (snd (Endemic.eot_sender_process G O H sid msg1 tbs)) = false.
Proof. exact PanicOt.eot_sender_process_total. Qed.
Check endemic_sender_process_total :
  forall G (O : group_ops G) (H : transcript_oracle) (sid : list N)
         (msg1 : list (list N * list N)) (tbs : list (Z * Z)),
  is_panic (snd (Endemic.eot_sender_process G O H sid msg1 tbs)) = false.
Print Assumptions endemic_sender_process_total.

Theorem endemic_receiver_process_total :
  forall G (O : group_ops G) (H : transcript_oracle) (st : Endemic.recv_state) (msg2 : list (list N * list N)),
  is_panic (Endemic.eot_receiver_process G O H st msg2) = false.
Proof. exact PanicOt.eot_receiver_process_total. Qed.
Check endemic_receiver_process_total :
  forall G (O : group_ops G) (H : transcript_oracle) (st : Endemic.recv_state) (msg2 : list (list N * list N)),
  is_panic (Endemic.eot_receiver_process G O H st msg2) = false.
Print Assumptions endemic_receiver_process_total.

Theorem pprf_eval_total :
  forall (H : transcript_oracle) (sid choice_bits : list N) (recv_keys : list (list N)) (msg : list Pprf.pprf_msg),
  is_panic (Pprf.eval_pprf H sid choice_bits recv_keys msg) = false.
Proof. exact PanicOt.eval_pprf_total. Qed.
Check pprf_eval_total :
  forall (H : transcript_oracle) (sid choice_bits : list N) (recv_keys : list (list N)) (msg : list Pprf.pprf_msg),
  is_panic (Pprf.eval_pprf H sid choice_bits recv_keys msg) = false.
Print Assumptions pprf_eval_total.

Theorem softspoken_sender_total :
  forall (H : transcript_oracle) (sid : list N) (seed : SoftSpoken.ReceiverOTSeed) (msg : SoftSpoken.Round1Output),
  is_panic (SoftSpoken.ss_sender H sid seed msg) = false.
Proof. exact PanicOt.ss_sender_total. Qed.
Check softspoken_sender_total :
  forall (H : transcript_oracle) (sid : list N) (seed : SoftSpoken.ReceiverOTSeed) (msg : SoftSpoken.Round1Output),
  is_panic (SoftSpoken.ss_sender H sid seed msg) = false.
Print Assumptions softspoken_sender_total.

Theorem rvole_send_process_total :
  forall (H : transcript_oracle) (q : Z) (sid : list N) (seed : SoftSpoken.ReceiverOTSeed) (a : list Z)
         (r1 : SoftSpoken.Round1Output) (eta : list (list N)),
  is_panic (Rvole.rvole_send_process H q sid seed a r1 eta) = false.
Proof. exact PanicOt.rvole_send_process_total. Qed.
Check rvole_send_process_total :
  forall (H : transcript_oracle) (q : Z) (sid : list N) (seed : SoftSpoken.ReceiverOTSeed) (a : list Z)
         (r1 : SoftSpoken.Round1Output) (eta : list (list N)),
  is_panic (Rvole.rvole_send_process H q sid seed a r1 eta) = false.
Print Assumptions rvole_send_process_total.

Theorem rvole_recv_process_total :
  forall (H : transcript_oracle) (q : Z) (st : Rvole.rv_state) (m : RvoleCore.rmsg),
  is_panic (Rvole.rvole_recv_process H q st m) = false.
Proof. exact PanicOt.rvole_recv_process_total. Qed.
Check rvole_recv_process_total :
  forall (H : transcript_oracle) (q : Z) (st : Rvole.rv_state) (m : RvoleCore.rmsg),
  is_panic (Rvole.rvole_recv_process H q st m) = false.
Print Assumptions rvole_recv_process_total.

(** base-OT variant: the assert_eq!(len_a + len_b, XI) sites are unreachable whatever the two base-OT messages contain *)
Theorem rvole_ot_send_process_total :
  forall (H : transcript_oracle) (q : Z) G (O : group_ops G) (sid : list N) (a : list Z)
         (m1a m1b : list (list N * list N)) (tbs_a tbs_b : list (Z * Z)) (eta : list (list N)),
  is_panic (snd (Rvole.rvole_ot_send_process H q G O sid a m1a m1b tbs_a tbs_b eta)) = false.
Proof. exact PanicOt.rvole_ot_send_process_total. Qed.
Check rvole_ot_send_process_total :
  forall (H : transcript_oracle) (q : Z) G (O : group_ops G) (sid : list N) (a : list Z)
         (m1a m1b : list (list N * list N)) (tbs_a tbs_b : list (Z * Z)) (eta : list (list N)),
  is_panic (snd (Rvole.rvole_ot_send_process H q G O sid a m1a m1b tbs_a tbs_b eta)) = false.
Print Assumptions rvole_ot_send_process_total.

Theorem rvole_ot_recv_process_total :
  forall (H : transcript_oracle) (q : Z) G (O : group_ops G) (st : Rvole.rvo_state)
         (m2a m2b : list (list N * list N)) (m : RvoleCore.rmsg),
  is_panic (Rvole.rvole_ot_recv_process H q G O st m2a m2b m) = false.
Proof. exact PanicOt.rvole_ot_recv_process_total. Qed.
Check rvole_ot_recv_process_total :
  forall (H : transcript_oracle) (q : Z) G (O : group_ops G) (st : Rvole.rvo_state)
         (m2a m2b : list (list N * list N)) (m : RvoleCore.rmsg),
  is_panic (Rvole.rvole_ot_recv_process H q G O st m2a m2b m) = false.
Print Assumptions rvole_ot_recv_process_total.

(** RVOLEReceiver::new (base-OT variant) reads no peer data; its assert compares the lengths of the two LOCAL choice strings *)
Theorem rvole_ot_recv_new_total :
  forall (H : transcript_oracle) (q : Z) G (O : group_ops G) (sid : list N)
         (bits_a : list N) (tas_a : list Z) (ros_a : list G) (bits_b : list N) (tas_b : list Z) (ros_b : list G),
  (length bits_a + length bits_b = Nat.div RvoleCore.rv_xi 8)%nat ->
  is_panic (Rvole.rvole_ot_recv_new H q G O sid bits_a tas_a ros_a bits_b tas_b ros_b) = false.
Proof. exact PanicOt.rvole_ot_recv_new_total. Qed.
Check rvole_ot_recv_new_total :
  forall (H : transcript_oracle) (q : Z) G (O : group_ops G) (sid : list N)
         (bits_a : list N) (tas_a : list Z) (ros_a : list G) (bits_b : list N) (tas_b : list Z) (ros_b : list G),
  (length bits_a + length bits_b = Nat.div RvoleCore.rv_xi 8)%nat ->
  is_panic (Rvole.rvole_ot_recv_new H q G O sid bits_a tas_a ros_a bits_b tas_b ros_b) = false.
Print Assumptions rvole_ot_recv_new_total.

Theorem rvole_ot_recv_new_premise_satisfiable :
  (length (repeat 0%N 32) + length (repeat 0%N 32) = Nat.div RvoleCore.rv_xi 8)%nat.
Proof. exact PanicOt.rv_recv_new_premise_satisfiable. Qed.
Check rvole_ot_recv_new_premise_satisfiable :
  (length (repeat 0%N 32) + length (repeat 0%N 32) = Nat.div RvoleCore.rv_xi 8)%nat.
Print Assumptions rvole_ot_recv_new_premise_satisfiable.
