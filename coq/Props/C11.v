(** C11 -- No peer-supplied bytes can panic a decoding or verifying entry point.
    Statements only.  Each theorem says that the [outcome]-valued model of an entry point (with an
    explicit [Panic] at every place where the Rust code would panic) never returns [Panic], for ALL
    byte strings.  Area models contribute their own totality theorems (see the list in DESIGN.md). *)
From SL Require Import Lib.Base Model.Panic Proofs.Panic.

Theorem msghdr_parse_total : forall frame, is_panic (msghdr_try_from frame) = false.
Proof. exact msghdr_try_from_total. Qed.
Check msghdr_parse_total : forall frame, is_panic (msghdr_try_from frame) = false.
Print Assumptions msghdr_parse_total.

Theorem relay_start_send_total : forall frame, is_panic (classify_start_send frame) = false.
Proof. exact classify_start_send_total. Qed.
Check relay_start_send_total : forall frame, is_panic (classify_start_send frame) = false.
Print Assumptions relay_start_send_total.

Theorem relay_send_total : forall frame, is_panic (classify_relay_send frame) = false.
Proof. exact classify_relay_send_total. Qed.
Check relay_send_total : forall frame, is_panic (classify_relay_send frame) = false.
Print Assumptions relay_send_total.
