(** C02 -- A cheating or corrupted random-VOLE reply is caught up to the guessing bound.
    Statements only.  Rejection sentences that cannot hold for an arbitrary function H have the form
    "accepted -> explicit oracle coincidence" (DESIGN.md 3.3): [mu_collision H sid X Y] says that the two
    item lists X <> Y (hence the two mu-hash queries) are different and H answers them equally.
    [rvole_recv_core] is the receiver after the OT layer; the composed receivers of Model/Rvole.v are
    this function applied to the OT outputs (last two theorems). *)
From SL Require Import Lib.Base Lib.Oracle Lib.ZqGroup Gen.Params Model.Gf128 Model.SoftSpoken Model.Endemic
  Model.RvoleCore Model.Rvole.
From SL Require Import Proofs.Gf128Spec Proofs.SoftSpokenBytes Proofs.SoftSpokenC03 Proofs.Endemic Proofs.EndemicThm.
From SL Require Import Proofs.RvoleLemmas Proofs.RvoleCorrect Proofs.RvoleTamper Proofs.RvolePipeline Proofs.RvoleOtReply Proofs.RvoleClosed.
Local Open Scope Z_scope.

(** An honest round-two message is always accepted (every oracle, input, tape). *)
Theorem rvole_honest_accepted :
 forall (H : transcript_oracle) (q : Z) (xi lb rho : nat), 0 < q <= 2 ^ 256 ->
  forall (sid : list N) (v0 v1 vx : mat) (beta : nat -> bool) (a : list Z) (eta_tape : list (list N)),
  ot_correlated xi (lb + rho) beta v0 v1 vx ->
  accepted (rvole_recv_core H q xi lb rho sid beta vx (honest_msg H q xi lb rho sid v0 v1 a eta_tape)).
Proof. exact rvole_honest_accepted_closed. Qed.
Check rvole_honest_accepted :
 forall (H : transcript_oracle) (q : Z) (xi lb rho : nat), 0 < q <= 2 ^ 256 ->
  forall (sid : list N) (v0 v1 vx : mat) (beta : nat -> bool) (a : list Z) (eta_tape : list (list N)),
  ot_correlated xi (lb + rho) beta v0 v1 vx ->
  accepted (rvole_recv_core H q xi lb rho sid beta vx (honest_msg H q xi lb rho sid v0 v1 a eta_tape)).
Print Assumptions rvole_honest_accepted.

(** ANY change confined to mu_hash of an accepted message (honest or not) is rejected -- unconditional. *)
Theorem rvole_flip_mu_hash_rejected :
 forall (H : transcript_oracle) (q : Z) (xi lb rho : nat)
  (sid : list N) (beta : nat -> bool) (vx : mat) (m m' : rmsg),
  m_atilde m' = m_atilde m -> m_eta m' = m_eta m -> m_mu m' <> m_mu m ->
  accepted (rvole_recv_core H q xi lb rho sid beta vx m) ->
  rvole_recv_core H q xi lb rho sid beta vx m' = Err rv_err_check.
Proof. exact rvole_flip_mu_hash_rejected_closed. Qed.
Check rvole_flip_mu_hash_rejected :
 forall (H : transcript_oracle) (q : Z) (xi lb rho : nat)
  (sid : list N) (beta : nat -> bool) (vx : mat) (m m' : rmsg),
  m_atilde m' = m_atilde m -> m_eta m' = m_eta m -> m_mu m' <> m_mu m ->
  accepted (rvole_recv_core H q xi lb rho sid beta vx m) ->
  rvole_recv_core H q xi lb rho sid beta vx m' = Err rv_err_check.
Print Assumptions rvole_flip_mu_hash_rejected.

(** eta replaced: (1) same residues mod q => same verdict and shares (relation intact); (2) a different residue and some beta_j = 1 => acceptance is a mu-hash collision on two different item lists. *)
Theorem rvole_flip_eta_rejected :
 forall (H : transcript_oracle) (q : Z) (xi lb rho : nat), 0 < q <= 2 ^ 256 ->
  forall (sid : list N) (v0 v1 vx : mat) (beta : nat -> bool) (a : list Z) (eta_tape : list (list N)),
  ot_correlated xi (lb + rho) beta v0 v1 vx ->
  let msg := honest_msg H q xi lb rho sid v0 v1 a eta_tape in
  forall m', m_atilde m' = m_atilde msg -> m_mu m' = m_mu msg ->
  ((forall k, (k < rho)%nat -> reduce_be q (nth k (m_eta m') []) = reduce_be q (nth k (m_eta msg) [])) ->
     rvole_recv_core H q xi lb rho sid beta vx m' = rvole_recv_core H q xi lb rho sid beta vx msg) /\
  (forall j0 k0, (j0 < xi)%nat -> beta j0 = true -> (k0 < rho)%nat ->
     reduce_be q (nth k0 (m_eta m') []) <> reduce_be q (nth k0 (m_eta msg) []) ->
     accepted (rvole_recv_core H q xi lb rho sid beta vx m') ->
     mu_collision H sid (recv_items H q xi lb rho sid beta vx m') (send_items H q xi lb rho sid v0 v1 a eta_tape)).
Proof. exact rvole_flip_eta_rejected_closed. Qed.
Check rvole_flip_eta_rejected :
 forall (H : transcript_oracle) (q : Z) (xi lb rho : nat), 0 < q <= 2 ^ 256 ->
  forall (sid : list N) (v0 v1 vx : mat) (beta : nat -> bool) (a : list Z) (eta_tape : list (list N)),
  ot_correlated xi (lb + rho) beta v0 v1 vx ->
  let msg := honest_msg H q xi lb rho sid v0 v1 a eta_tape in
  forall m', m_atilde m' = m_atilde msg -> m_mu m' = m_mu msg ->
  ((forall k, (k < rho)%nat -> reduce_be q (nth k (m_eta m') []) = reduce_be q (nth k (m_eta msg) [])) ->
     rvole_recv_core H q xi lb rho sid beta vx m' = rvole_recv_core H q xi lb rho sid beta vx msg) /\
  (forall j0 k0, (j0 < xi)%nat -> beta j0 = true -> (k0 < rho)%nat ->
     reduce_be q (nth k0 (m_eta m') []) <> reduce_be q (nth k0 (m_eta msg) []) ->
     accepted (rvole_recv_core H q xi lb rho sid beta vx m') ->
     mu_collision H sid (recv_items H q xi lb rho sid beta vx m') (send_items H q xi lb rho sid v0 v1 a eta_tape)).
Print Assumptions rvole_flip_eta_rejected.

(** a_tilde' <> a_tilde in some byte: the theta query differs from the honest one, and acceptance implies a mu-hash collision OR, for every row and check, one explicit linear equation on the fresh theta' whose other terms were fixed before theta' existed. *)
Theorem rvole_tamper_atilde_char :
 forall (H : transcript_oracle) (q : Z) (xi lb rho : nat), 0 < q <= 2 ^ 256 ->
  forall (sid : list N) (v0 v1 vx : mat) (beta : nat -> bool) (a : list Z) (eta_tape : list (list N)),
  ot_correlated xi (lb + rho) beta v0 v1 vx ->
  let msg := honest_msg H q xi lb rho sid v0 v1 a eta_tape in
  forall m', m_eta m' = m_eta msg -> m_mu m' = m_mu msg ->
  (exists j c, (j < xi)%nat /\ (c < lb + rho)%nat /\ cell (m_atilde m') j c <> cell (m_atilde msg) j c) ->
  let th := thetas H q xi lb rho sid (cell (m_atilde msg)) in
  let th' := thetas H q xi lb rho sid (cell (m_atilde m')) in
  let delta := fun j c => alpha q (cell (m_atilde m')) j c - alpha q (cell (m_atilde msg)) j c in
  (* the theta query is a different query *)
  theta_pre xi lb rho sid (cell (m_atilde m')) <> theta_pre xi lb rho sid (cell (m_atilde msg)) /\
  (accepted (rvole_recv_core H q xi lb rho sid beta vx m') ->
     mu_collision H sid (recv_items H q xi lb rho sid beta vx m') (send_items H q xi lb rho sid v0 v1 a eta_tape) \/
     forall j k, (j < xi)%nat -> (k < rho)%nat ->
       let F := fun i => alpha q v0 j i + b2z (beta j) * nth i a 0 in
       (theta_dot lb th' k F - theta_dot lb th k F
        + b2z (beta j) * (theta_dot lb th' k (delta j) + delta j (lb + k)%nat)) mod q = 0).
Proof. exact rvole_tamper_atilde_char_closed. Qed.
Check rvole_tamper_atilde_char :
 forall (H : transcript_oracle) (q : Z) (xi lb rho : nat), 0 < q <= 2 ^ 256 ->
  forall (sid : list N) (v0 v1 vx : mat) (beta : nat -> bool) (a : list Z) (eta_tape : list (list N)),
  ot_correlated xi (lb + rho) beta v0 v1 vx ->
  let msg := honest_msg H q xi lb rho sid v0 v1 a eta_tape in
  forall m', m_eta m' = m_eta msg -> m_mu m' = m_mu msg ->
  (exists j c, (j < xi)%nat /\ (c < lb + rho)%nat /\ cell (m_atilde m') j c <> cell (m_atilde msg) j c) ->
  let th := thetas H q xi lb rho sid (cell (m_atilde msg)) in
  let th' := thetas H q xi lb rho sid (cell (m_atilde m')) in
  let delta := fun j c => alpha q (cell (m_atilde m')) j c - alpha q (cell (m_atilde msg)) j c in
  (* the theta query is a different query *)
  theta_pre xi lb rho sid (cell (m_atilde m')) <> theta_pre xi lb rho sid (cell (m_atilde msg)) /\
  (accepted (rvole_recv_core H q xi lb rho sid beta vx m') ->
     mu_collision H sid (recv_items H q xi lb rho sid beta vx m') (send_items H q xi lb rho sid v0 v1 a eta_tape) \/
     forall j k, (j < xi)%nat -> (k < rho)%nat ->
       let F := fun i => alpha q v0 j i + b2z (beta j) * nth i a 0 in
       (theta_dot lb th' k F - theta_dot lb th k F
        + b2z (beta j) * (theta_dot lb th' k (delta j) + delta j (lb + k)%nat)) mod q = 0).
Print Assumptions rvole_tamper_atilde_char.

(** Calibrated adversary adv_sender: if theta'.Delta_j <> 0 at every attacked position and the mu hash does not collide on the two explicit item lists, the message is accepted IFF every guess equals the receiver's bit. *)
Theorem rvole_selective_failure :
 forall (H : transcript_oracle) (q : Z) (xi lb rho : nat), 0 < q <= 2 ^ 256 ->
  forall (sid : list N) (v0 v1 vx : mat) (beta : nat -> bool) (a : list Z) (eta_tape : list (list N)),
  ot_correlated xi (lb + rho) beta v0 v1 vx ->
  forall spec : adv_spec,
  let madv := adv_sender H q xi lb rho sid v0 v1 a eta_tape spec in
  let YA := adv_items H q xi lb rho sid v0 v1 a eta_tape spec in
  let XA := recv_items H q xi lb rho sid beta vx madv in
  (* theta'.Delta_j <> 0 at every attacked position *)
  (forall j, (j < xi)%nat -> attacked spec j ->
     exists k, (k < rho)%nat /\ theta_dot_delta H q xi lb rho sid v0 v1 a eta_tape spec j k mod q <> 0) ->
  (* no collision of the mu hash on these two item lists *)
  (H (mu_query sid YA) = H (mu_query sid XA) -> YA = XA) ->
  (accepted (rvole_recv_core H q xi lb rho sid beta vx madv) <->
   forall j, (j < xi)%nat -> attacked spec j -> adv_guess spec j = beta j).
Proof. exact rvole_selective_failure_closed. Qed.
Check rvole_selective_failure :
 forall (H : transcript_oracle) (q : Z) (xi lb rho : nat), 0 < q <= 2 ^ 256 ->
  forall (sid : list N) (v0 v1 vx : mat) (beta : nat -> bool) (a : list Z) (eta_tape : list (list N)),
  ot_correlated xi (lb + rho) beta v0 v1 vx ->
  forall spec : adv_spec,
  let madv := adv_sender H q xi lb rho sid v0 v1 a eta_tape spec in
  let YA := adv_items H q xi lb rho sid v0 v1 a eta_tape spec in
  let XA := recv_items H q xi lb rho sid beta vx madv in
  (* theta'.Delta_j <> 0 at every attacked position *)
  (forall j, (j < xi)%nat -> attacked spec j ->
     exists k, (k < rho)%nat /\ theta_dot_delta H q xi lb rho sid v0 v1 a eta_tape spec j k mod q <> 0) ->
  (* no collision of the mu hash on these two item lists *)
  (H (mu_query sid YA) = H (mu_query sid XA) -> YA = XA) ->
  (accepted (rvole_recv_core H q xi lb rho sid beta vx madv) <->
   forall j, (j < xi)%nat -> attacked spec j -> adv_guess spec j = beta j).
Print Assumptions rvole_selective_failure.

(** Without assumptions on H: all guesses right => accepted; accepted with a wrong guess at a position with theta'.Delta_j <> 0 => mu-hash collision on different item lists. *)
Theorem rvole_selective_failure_uncond :
 forall (H : transcript_oracle) (q : Z) (xi lb rho : nat), 0 < q <= 2 ^ 256 ->
  forall (sid : list N) (v0 v1 vx : mat) (beta : nat -> bool) (a : list Z) (eta_tape : list (list N)),
  ot_correlated xi (lb + rho) beta v0 v1 vx ->
  forall spec : adv_spec,
  let madv := adv_sender H q xi lb rho sid v0 v1 a eta_tape spec in
  let YA := adv_items H q xi lb rho sid v0 v1 a eta_tape spec in
  let XA := recv_items H q xi lb rho sid beta vx madv in
  ((forall j, (j < xi)%nat -> attacked spec j -> adv_guess spec j = beta j) ->
   accepted (rvole_recv_core H q xi lb rho sid beta vx madv)) /\
  (accepted (rvole_recv_core H q xi lb rho sid beta vx madv) ->
   forall j k, (j < xi)%nat -> (k < rho)%nat -> adv_guess spec j <> beta j ->
     theta_dot_delta H q xi lb rho sid v0 v1 a eta_tape spec j k mod q <> 0 ->
     mu_collision H sid XA YA).
Proof. exact rvole_selective_failure_uncond_closed. Qed.
Check rvole_selective_failure_uncond :
 forall (H : transcript_oracle) (q : Z) (xi lb rho : nat), 0 < q <= 2 ^ 256 ->
  forall (sid : list N) (v0 v1 vx : mat) (beta : nat -> bool) (a : list Z) (eta_tape : list (list N)),
  ot_correlated xi (lb + rho) beta v0 v1 vx ->
  forall spec : adv_spec,
  let madv := adv_sender H q xi lb rho sid v0 v1 a eta_tape spec in
  let YA := adv_items H q xi lb rho sid v0 v1 a eta_tape spec in
  let XA := recv_items H q xi lb rho sid beta vx madv in
  ((forall j, (j < xi)%nat -> attacked spec j -> adv_guess spec j = beta j) ->
   accepted (rvole_recv_core H q xi lb rho sid beta vx madv)) /\
  (accepted (rvole_recv_core H q xi lb rho sid beta vx madv) ->
   forall j k, (j < xi)%nat -> (k < rho)%nat -> adv_guess spec j <> beta j ->
     theta_dot_delta H q xi lb rho sid v0 v1 a eta_tape spec j k mod q <> 0 ->
     mu_collision H sid XA YA).
Print Assumptions rvole_selective_failure_uncond.

(** A row with beta_j = 0 never reads the message; if every attacked position carries a zero bit, the receiver shares are those of the honest run and c + d = a*b holds with the honest c. *)
Theorem rvole_zero_bit_unaffected :
 forall (H : transcript_oracle) (q : Z) (xi lb rho : nat), 0 < q <= 2 ^ 256 ->
  forall (sid : list N) (v0 v1 vx : mat) (beta : nat -> bool) (a : list Z) (eta_tape : list (list N)),
  ot_correlated xi (lb + rho) beta v0 v1 vx ->
  forall spec : adv_spec,
  let madv := adv_sender H q xi lb rho sid v0 v1 a eta_tape spec in
  (* row level, for ANY message: a row with beta_j = 0 never reads the message *)
  (forall (at_ : mat) j c, beta j = false -> dd q beta vx at_ j c = alpha q vx j c mod q) /\
  (* all attacked positions carry a zero bit: shares and relation are those of the honest run *)
  ((forall j, (j < xi)%nat -> attacked spec j -> beta j = false) ->
   recv_shares H q xi lb sid beta vx madv =
   recv_shares H q xi lb sid beta vx (honest_msg H q xi lb rho sid v0 v1 a eta_tape) /\
   forall d, rvole_recv_core H q xi lb rho sid beta vx madv = Val d ->
     forall i, (i < lb)%nat ->
       (nth i (snd (rvole_send_core H q xi lb rho sid v0 v1 a eta_tape)) 0 + nth i d 0) mod q =
       (nth i a 0 * rvole_b H q xi sid beta) mod q).
Proof. exact rvole_zero_bit_unaffected_closed. Qed.
Check rvole_zero_bit_unaffected :
 forall (H : transcript_oracle) (q : Z) (xi lb rho : nat), 0 < q <= 2 ^ 256 ->
  forall (sid : list N) (v0 v1 vx : mat) (beta : nat -> bool) (a : list Z) (eta_tape : list (list N)),
  ot_correlated xi (lb + rho) beta v0 v1 vx ->
  forall spec : adv_spec,
  let madv := adv_sender H q xi lb rho sid v0 v1 a eta_tape spec in
  (* row level, for ANY message: a row with beta_j = 0 never reads the message *)
  (forall (at_ : mat) j c, beta j = false -> dd q beta vx at_ j c = alpha q vx j c mod q) /\
  (* all attacked positions carry a zero bit: shares and relation are those of the honest run *)
  ((forall j, (j < xi)%nat -> attacked spec j -> beta j = false) ->
   recv_shares H q xi lb sid beta vx madv =
   recv_shares H q xi lb sid beta vx (honest_msg H q xi lb rho sid v0 v1 a eta_tape) /\
   forall d, rvole_recv_core H q xi lb rho sid beta vx madv = Val d ->
     forall i, (i < lb)%nat ->
       (nth i (snd (rvole_send_core H q xi lb rho sid v0 v1 a eta_tape)) 0 + nth i d 0) mod q =
       (nth i a 0 * rvole_b H q xi sid beta) mod q).
Print Assumptions rvole_zero_bit_unaffected.

(** With no attacked position the adversary model is the honest sender. *)
Theorem rvole_adv_nil_is_honest :
 forall H q xi lb rho sid v0 v1 a eta_tape,
  adv_sender H q xi lb rho sid v0 v1 a eta_tape [] = honest_msg H q xi lb rho sid v0 v1 a eta_tape.
Proof. exact rvole_adv_nil_is_honest_closed. Qed.
Check rvole_adv_nil_is_honest :
 forall H q xi lb rho sid v0 v1 a eta_tape,
  adv_sender H q xi lb rho sid v0 v1 a eta_tape [] = honest_msg H q xi lb rho sid v0 v1 a eta_tape.
Print Assumptions rvole_adv_nil_is_honest.

(** Composed OT-extension receiver (RVOLEReceiver::process): changed digest => Err. *)
Theorem rvole_process_flip_mu_hash :
 forall (H : transcript_oracle) (q : Z) (st : rv_state) (m m' : rmsg),
  m_atilde m' = m_atilde m -> m_eta m' = m_eta m -> m_mu m' <> m_mu m ->
  accepted (rvole_recv_process H q st m) -> rvole_recv_process H q st m' = Err rv_err_check.
Proof. exact rvole_process_flip_mu_hash_closed. Qed.
Check rvole_process_flip_mu_hash :
 forall (H : transcript_oracle) (q : Z) (st : rv_state) (m m' : rmsg),
  m_atilde m' = m_atilde m -> m_eta m' = m_eta m -> m_mu m' <> m_mu m ->
  accepted (rvole_recv_process H q st m) -> rvole_recv_process H q st m' = Err rv_err_check.
Print Assumptions rvole_process_flip_mu_hash.

(** Composed base-OT receiver (both Endemic replies unchanged): changed digest => Err. *)
Theorem rvole_ot_process_flip_mu_hash :
 forall G (O : group_ops G) (H : transcript_oracle) (q : Z)
  (st : rvo_state) m2a m2b (m m' : rmsg),
  m_atilde m' = m_atilde m -> m_eta m' = m_eta m -> m_mu m' <> m_mu m ->
  accepted (rvole_ot_recv_process H q G O st m2a m2b m) ->
  rvole_ot_recv_process H q G O st m2a m2b m' = Err rv_err_check.
Proof. exact rvole_ot_process_flip_mu_hash_closed. Qed.
Check rvole_ot_process_flip_mu_hash :
 forall G (O : group_ops G) (H : transcript_oracle) (q : Z)
  (st : rvo_state) m2a m2b (m m' : rmsg),
  m_atilde m' = m_atilde m -> m_eta m' = m_eta m -> m_mu m' <> m_mu m ->
  accepted (rvole_ot_recv_process H q G O st m2a m2b m) ->
  rvole_ot_recv_process H q G O st m2a m2b m' = Err rv_err_check.
Print Assumptions rvole_ot_process_flip_mu_hash.

(** Base-OT variant, corruption confined to the embedded base-OT replies (PARTIAL, see Proofs/RvoleOtReply.v): a change confined to sides the receiver does not read leaves verdict and shares unchanged; an undecodable point on a read side gives Err(Decode error). The third case (a different decodable point on a read side) is covered by enumeration, not by a theorem. *)
Theorem rvole_ot_reply_tamper_partial :
 forall G (O : group_ops G) (H : transcript_oracle) (q : Z)
  (st : rvo_state) m2a m2b (m : rmsg),
  (forall m2a' m2b',
     (forall idx, (idx < eot_n)%nat -> read_side (ro_a st) m2a' idx = read_side (ro_a st) m2a idx) ->
     (forall idx, (idx < eot_n)%nat -> read_side (ro_b st) m2b' idx = read_side (ro_b st) m2b idx) ->
     rvole_ot_recv_process H q G O st m2a' m2b' m = rvole_ot_recv_process H q G O st m2a m2b m) /\
  ((exists idx, (idx < eot_n)%nat /\ g_dec O (read_side (ro_a st) m2a idx) = None) \/
   ((forall idx, (idx < eot_n)%nat -> g_dec O (read_side (ro_a st) m2a idx) <> None) /\
    exists idx, (idx < eot_n)%nat /\ g_dec O (read_side (ro_b st) m2b idx) = None) ->
   rvole_ot_recv_process H q G O st m2a m2b m = Err rv_err_decode).
Proof. exact rvole_ot_reply_tamper_partial_closed. Qed.
Check rvole_ot_reply_tamper_partial :
 forall G (O : group_ops G) (H : transcript_oracle) (q : Z)
  (st : rvo_state) m2a m2b (m : rmsg),
  (forall m2a' m2b',
     (forall idx, (idx < eot_n)%nat -> read_side (ro_a st) m2a' idx = read_side (ro_a st) m2a idx) ->
     (forall idx, (idx < eot_n)%nat -> read_side (ro_b st) m2b' idx = read_side (ro_b st) m2b idx) ->
     rvole_ot_recv_process H q G O st m2a' m2b' m = rvole_ot_recv_process H q G O st m2a m2b m) /\
  ((exists idx, (idx < eot_n)%nat /\ g_dec O (read_side (ro_a st) m2a idx) = None) \/
   ((forall idx, (idx < eot_n)%nat -> g_dec O (read_side (ro_a st) m2a idx) <> None) /\
    exists idx, (idx < eot_n)%nat /\ g_dec O (read_side (ro_b st) m2b idx) = None) ->
   rvole_ot_recv_process H q G O st m2a m2b m = Err rv_err_decode).
Print Assumptions rvole_ot_reply_tamper_partial.

(** Non-vacuity of the premises of rvole_selective_failure: a concrete one-row instance. *)
Example rvole_selective_hyps_satisfiable :
  let beta := fun _ : nat => true in
  ot_correlated 1 2 beta ex_mat0 ex_mat1 ex_mat1 /\ 0 < 251 <= 2 ^ 256 /\
  (forall j, (j < 1)%nat -> attacked ex_spec j ->
     exists k, (k < 1)%nat /\ theta_dot_delta ex_H 251 1 1 1 [] ex_mat0 ex_mat1 [7] [[1%N]] ex_spec j k mod 251 <> 0) /\
  (ex_H (mu_query [] (adv_items ex_H 251 1 1 1 [] ex_mat0 ex_mat1 [7] [[1%N]] ex_spec)) =
   ex_H (mu_query [] (recv_items ex_H 251 1 1 1 [] beta ex_mat1
                        (adv_sender ex_H 251 1 1 1 [] ex_mat0 ex_mat1 [7] [[1%N]] ex_spec))) ->
   adv_items ex_H 251 1 1 1 [] ex_mat0 ex_mat1 [7] [[1%N]] ex_spec =
   recv_items ex_H 251 1 1 1 [] beta ex_mat1 (adv_sender ex_H 251 1 1 1 [] ex_mat0 ex_mat1 [7] [[1%N]] ex_spec)).
Proof. exact rvole_selective_hyps_satisfiable_lem. Qed.
Check rvole_selective_hyps_satisfiable :
  let beta := fun _ : nat => true in
  ot_correlated 1 2 beta ex_mat0 ex_mat1 ex_mat1 /\ 0 < 251 <= 2 ^ 256 /\
  (forall j, (j < 1)%nat -> attacked ex_spec j ->
     exists k, (k < 1)%nat /\ theta_dot_delta ex_H 251 1 1 1 [] ex_mat0 ex_mat1 [7] [[1%N]] ex_spec j k mod 251 <> 0) /\
  (ex_H (mu_query [] (adv_items ex_H 251 1 1 1 [] ex_mat0 ex_mat1 [7] [[1%N]] ex_spec)) =
   ex_H (mu_query [] (recv_items ex_H 251 1 1 1 [] beta ex_mat1
                        (adv_sender ex_H 251 1 1 1 [] ex_mat0 ex_mat1 [7] [[1%N]] ex_spec))) ->
   adv_items ex_H 251 1 1 1 [] ex_mat0 ex_mat1 [7] [[1%N]] ex_spec =
   recv_items ex_H 251 1 1 1 [] beta ex_mat1 (adv_sender ex_H 251 1 1 1 [] ex_mat0 ex_mat1 [7] [[1%N]] ex_spec)).
Print Assumptions rvole_selective_hyps_satisfiable.
