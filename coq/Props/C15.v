(** C15 -- the in-memory relay delivers each asked-for message exactly once per ask, to askers only; the
    header codec reads back what it was built with.  Statements only; proofs in Proofs/Relay*.v; the model
    is Model/Relay.v (tie T2: Corr/C15.v).  All history theorems quantify over ARBITRARY finite histories
    [h : list op] (any connections, ids, TTLs, clock values; not even monotonicity of the clock is needed). *)
From SL Require Import Lib.Base Model.Relay Proofs.RelayCodec Proofs.RelayInv Proofs.RelayRetention
  Proofs.RelayDelivery Proofs.RelaySpec.
Local Open Scope N_scope.

(** Header codec round trip and 36-byte layout: id and flags read back as built, the TTL modulo 2^16 (equal to the TTL it was built with when that is within the 16-bit wire range); payload follows the header. *)
Theorem hdr_roundtrip :
  forall id ttl flags payload,
  length id = ID_SIZE -> ttl < 2 ^ 32 -> flags < 2 ^ 16 ->
  let m := allocate_message id ttl flags payload in
  length m = (36 + length payload)%nat /\
  hdr_ok m = true /\
  hdr_id m = id /\
  hdr_ttl_secs m = ttl mod 2 ^ 16 /\
  (ttl < 2 ^ 16 -> hdr_ttl_secs m = ttl) /\
  hdr_flags m = flags /\
  skipn 36 m = payload /\
  (bytes_ok id = true -> bytes_ok payload = true -> bytes_ok m = true).
Proof. exact hdr_roundtrip_proof. Qed.
Check hdr_roundtrip :
  forall id ttl flags payload,
  length id = ID_SIZE -> ttl < 2 ^ 32 -> flags < 2 ^ 16 ->
  let m := allocate_message id ttl flags payload in
  length m = (36 + length payload)%nat /\
  hdr_ok m = true /\
  hdr_id m = id /\
  hdr_ttl_secs m = ttl mod 2 ^ 16 /\
  (ttl < 2 ^ 16 -> hdr_ttl_secs m = ttl) /\
  hdr_flags m = flags /\
  skipn 36 m = payload /\
  (bytes_ok id = true -> bytes_ok payload = true -> bytes_ok m = true).
Print Assumptions hdr_roundtrip.

(** AskMsg::allocate builds exactly a header (36 bytes, flags 0): the frame length the relay classifies as an ask. *)
Theorem ask_frame :
  forall id ttl,
  length id = ID_SIZE -> ttl < 2 ^ 32 ->
  let a := ask_allocate id ttl in
  length a = 36%nat /\ hdr_id a = id /\ hdr_ttl_secs a = ttl mod 2 ^ 16 /\ hdr_flags a = 0.
Proof. exact ask_frame_proof. Qed.
Check ask_frame :
  forall id ttl,
  length id = ID_SIZE -> ttl < 2 ^ 32 ->
  let a := ask_allocate id ttl in
  length a = 36%nat /\ hdr_id a = id /\ hdr_ttl_secs a = ttl mod 2 ^ 16 /\ hdr_flags a = 0.
Print Assumptions ask_frame.

(** Refinement: on every history the relay (expiry heap, lazy cleanup, stale entries) makes exactly the observations of the heap-less abstract specification [astep] (Proofs/RelaySpec.v) and stays in the corresponding state. *)
Theorem relay_refines_spec :
  forall h, trace init h = atrace a_init h /\ abs (exec init h) = aexec a_init h.
Proof. exact relay_refines_spec_proof. Qed.
Check relay_refines_spec :
  forall h, trace init h = atrace a_init h /\ abs (exec init h) = aexec a_init h.
Print Assumptions relay_refines_spec.

(** At most once, askers only: for every history, connection and id, copies received + copies delivered and not yet drained + registrations still waiting <= asks made by that connection for that id.  Holding after every prefix, this matches each delivery to a distinct earlier ask of the same connection for the same id. *)
Theorem ask_at_most_once :
  forall h c id,
  (count_id id (received c (trace init h)) + count_id id (pending c (exec init h)) + waiting c id (exec init h)
   <= asks_of c id h)%nat.
Proof. exact ask_at_most_once_proof. Qed.
Check ask_at_most_once :
  forall h c id,
  (count_id id (received c (trace init h)) + count_id id (pending c (exec init h)) + waiting c id (exec init h)
   <= asks_of c id h)%nat.
Print Assumptions ask_at_most_once.

(** No connection ever receives (or has pending) a message with an id it did not ask for. *)
Theorem never_unasked :
  forall h c id,
  asks_of c id h = 0%nat ->
  count_id id (received c (trace init h)) = 0%nat /\ count_id id (pending c (exec init h)) = 0%nat.
Proof. exact never_unasked_proof. Qed.
Check never_unasked :
  forall h c id,
  asks_of c id h = 0%nat ->
  count_id id (received c (trace init h)) = 0%nat /\ count_id id (pending c (exec init h)) = 0%nat.
Print Assumptions never_unasked.

(** ... in particular after every prefix (first i operations) of any history: the k-th delivery of an id to a connection happens no earlier than that connection's k-th ask for it -- the injection from deliveries to earlier asks. *)
Theorem ask_at_most_once_prefix :
  forall h i c id,
  (count_id id (received c (trace init (firstn i h))) + count_id id (pending c (exec init (firstn i h)))
   <= asks_of c id (firstn i h))%nat.
Proof. exact ask_at_most_once_prefix_proof. Qed.
Check ask_at_most_once_prefix :
  forall h i c id,
  (count_id id (received c (trace init (firstn i h))) + count_id id (pending c (exec init (firstn i h)))
   <= asks_of c id (firstn i h))%nat.
Print Assumptions ask_at_most_once_prefix.

(** An ask is answered if the message is live. (1) At once, if a publication for the id is stored and unexpired (clock t < its own expiry e): exactly one copy of exactly the stored bytes goes to the asking connection, nothing to anybody else. (2) Otherwise at the first publication under its id at a clock tp < t + ttl, whatever else happens in between before the ask's expiry: the connection gets n >= 1 copies (one per registration of that connection; exactly one per ask by ask_at_most_once) of exactly the published frame, which is stored with its own expiry. *)
Theorem ask_answered_if_live :
  (forall h c a t e m,
     length a = HDR_SIZE ->
     lookup (hdr_id a) (msgs (exec init h)) = Some (Ready e m) -> t < e ->
     let s := exec init h in
     let s' := fst (step s (OSend c a t)) in
     snd (step s (OSend c a t)) = [ObsSend true] /\
     pending c s' = m :: pending c s /\
     (forall c', c' <> c -> pending c' s' = pending c' s) /\
     lookup (hdr_id a) (msgs s') = Some (Ready e m))
  /\
  (forall h1 c a t h2 o f tp,
     length a = HDR_SIZE ->
     (forall e m, lookup (hdr_id a) (msgs (exec init h1)) = Some (Ready e m) -> e <= t) ->
     times_before (t + hdr_ttl a) h2 ->
     (forall o', In o' h2 -> ~ publishes (hdr_id a) o') ->
     is_publish o f tp -> hdr_id f = hdr_id a -> tp < t + hdr_ttl a ->
     let s := exec init (h1 ++ OSend c a t :: h2) in
     let s' := fst (step s o) in
     exists n, (1 <= n)%nat /\ pending c s' = pending c s ++ repeat f n /\
               lookup (hdr_id a) (msgs s') = Some (Ready (tp + hdr_ttl f) f)).
Proof. exact ask_answered_if_live_proof. Qed.
Check ask_answered_if_live :
  (forall h c a t e m,
     length a = HDR_SIZE ->
     lookup (hdr_id a) (msgs (exec init h)) = Some (Ready e m) -> t < e ->
     let s := exec init h in
     let s' := fst (step s (OSend c a t)) in
     snd (step s (OSend c a t)) = [ObsSend true] /\
     pending c s' = m :: pending c s /\
     (forall c', c' <> c -> pending c' s' = pending c' s) /\
     lookup (hdr_id a) (msgs s') = Some (Ready e m))
  /\
  (forall h1 c a t h2 o f tp,
     length a = HDR_SIZE ->
     (forall e m, lookup (hdr_id a) (msgs (exec init h1)) = Some (Ready e m) -> e <= t) ->
     times_before (t + hdr_ttl a) h2 ->
     (forall o', In o' h2 -> ~ publishes (hdr_id a) o') ->
     is_publish o f tp -> hdr_id f = hdr_id a -> tp < t + hdr_ttl a ->
     let s := exec init (h1 ++ OSend c a t :: h2) in
     let s' := fst (step s o) in
     exists n, (1 <= n)%nat /\ pending c s' = pending c s ++ repeat f n /\
               lookup (hdr_id a) (msgs s') = Some (Ready (tp + hdr_ttl f) f)).
Print Assumptions ask_answered_if_live.

(** A publication that finds no live message under its id (vacant, waiters, or an expired one) is the one that is stored, with its own expiry t + ttl. *)
Theorem first_publication_stored :
  forall h o f t,
  is_publish o f t ->
  (forall e m, lookup (hdr_id f) (msgs (exec init h)) = Some (Ready e m) -> e <= t) ->
  lookup (hdr_id f) (msgs (fst (step (exec init h) o))) = Some (Ready (t + hdr_ttl f) f).
Proof. exact first_publication_stored_proof. Qed.
Check first_publication_stored :
  forall h o f t,
  is_publish o f t ->
  (forall e m, lookup (hdr_id f) (msgs (exec init h)) = Some (Ready e m) -> e <= t) ->
  lookup (hdr_id f) (msgs (fst (step (exec init h) o))) = Some (Ready (t + hdr_ttl f) f).
Print Assumptions first_publication_stored.

(** While a publication m is stored under id (until its own expiry e), the only frame with that id delivered to anybody is m, byte for byte: for every other frame f with that id the number of copies received or pending never grows, whatever is published meanwhile. *)
Theorem first_publication_wins :
  forall h1 h2 id e m c f,
  lookup id (msgs (exec init h1)) = Some (Ready e m) -> times_before e h2 ->
  hdr_id f = id -> f <> m ->
  (countp (bytes_eqb f) (received c (trace (exec init h1) h2)) +
   countp (bytes_eqb f) (pending c (exec init (h1 ++ h2))))%nat
  = countp (bytes_eqb f) (pending c (exec init h1)).
Proof. exact first_publication_wins_proof. Qed.
Check first_publication_wins :
  forall h1 h2 id e m c f,
  lookup id (msgs (exec init h1)) = Some (Ready e m) -> times_before e h2 ->
  hdr_id f = id -> f <> m ->
  (countp (bytes_eqb f) (received c (trace (exec init h1) h2)) +
   countp (bytes_eqb f) (pending c (exec init (h1 ++ h2))))%nat
  = countp (bytes_eqb f) (pending c (exec init h1)).
Print Assumptions first_publication_wins.

(** A later publication under an id whose stored message is still live changes nothing: the resulting state is the plain cleanup of the previous one, the stored bytes are unchanged, nobody is delivered anything. *)
Theorem dup_ignored :
  forall h o f t e m,
  is_publish o f t ->
  lookup (hdr_id f) (msgs (exec init h)) = Some (Ready e m) -> t < e ->
  fst (step (exec init h) o) = cleanup t (exec init h) /\
  lookup (hdr_id f) (msgs (fst (step (exec init h) o))) = Some (Ready e m) /\
  (forall c, pending c (fst (step (exec init h) o)) = pending c (exec init h)).
Proof. exact dup_ignored_proof. Qed.
Check dup_ignored :
  forall h o f t e m,
  is_publish o f t ->
  lookup (hdr_id f) (msgs (exec init h)) = Some (Ready e m) -> t < e ->
  fst (step (exec init h) o) = cleanup t (exec init h) /\
  lookup (hdr_id f) (msgs (fst (step (exec init h) o))) = Some (Ready e m) /\
  (forall c, pending c (fst (step (exec init h) o)) = pending c (exec init h)).
Print Assumptions dup_ignored.

(** The expiry stored in the model's [Ready] entries (which the Rust MsgEntry::Ready does not have) is ghost: states differing only there make the same observations and stay equal up to that field. *)
Theorem ghost_not_read :
  forall s s' o, ghost_eq s s' ->
  snd (step s o) = snd (step s' o) /\ ghost_eq (fst (step s o)) (fst (step s' o)).
Proof. exact ghost_not_read_proof. Qed.
Check ghost_not_read :
  forall s s' o, ghost_eq s s' ->
  snd (step s o) = snd (step s' o) /\ ghost_eq (fst (step s o)) (fst (step s' o)).
Print Assumptions ghost_not_read.

(** Non-vacuity: a concrete history (ask before publish, two waiters with different TTLs, a duplicate publication, an expiry between ask and publish, expiry of the publication, a short frame) evaluated by the kernel. *)
Example relay_example_history :
  trace init ex_history = ex_expected.
Proof. exact relay_example_history_proof. Qed.
Check relay_example_history :
  trace init ex_history = ex_expected.
Print Assumptions relay_example_history.

