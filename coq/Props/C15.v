(** C15 -- the in-memory relay delivers each asked-for message exactly once per ask, to askers only; the
    header codec reads back what it was built with.  Statements only; proofs in Proofs/Relay*.v; the model
    is Model/Relay.v (tie T2: Corr/C15.v). *)
From SL Require Import Lib.Base Model.Relay Proofs.RelayCodec.
Local Open Scope N_scope.

(** Header codec round trip and 36-byte layout: id and flags read back as built, the TTL modulo 2^16. *)
Theorem hdr_roundtrip : forall id ttl flags payload,
  length id = ID_SIZE -> ttl < 2 ^ 32 -> flags < 2 ^ 16 ->
  let m := allocate_message id ttl flags payload in
  length m = (36 + length payload)%nat /\
  hdr_ok m = true /\
  hdr_id m = id /\
  hdr_ttl_secs m = ttl mod 2 ^ 16 /\
  (ttl < 2 ^ 16 -> hdr_ttl_secs m = ttl) /\
  hdr_flags m = flags /\
  skipn 36 m = payload /\
  (bytes_ok id = true -> bytes_ok payload = true -> bytes_ok m = true).
Proof. exact hdr_roundtrip_proof. Qed.
Check hdr_roundtrip : forall id ttl flags payload,
  length id = ID_SIZE -> ttl < 2 ^ 32 -> flags < 2 ^ 16 ->
  let m := allocate_message id ttl flags payload in
  length m = (36 + length payload)%nat /\
  hdr_ok m = true /\
  hdr_id m = id /\
  hdr_ttl_secs m = ttl mod 2 ^ 16 /\
  (ttl < 2 ^ 16 -> hdr_ttl_secs m = ttl) /\
  hdr_flags m = flags /\
  skipn 36 m = payload /\
  (bytes_ok id = true -> bytes_ok payload = true -> bytes_ok m = true).
Print Assumptions hdr_roundtrip.
