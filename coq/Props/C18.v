(** C18 -- Secret-handling operations run secret-independent control flow (source-level branch and
    loop-body execution counts).  Statements only.  Skeletons: Model/CtSkel.v; the site inventory
    Gen/Sites.v is regenerated from the Rust source on every run (tie T1). *)
From SL Require Import Lib.Base Gen.Params Gen.Sites Model.CtSites Model.CtSkel Proofs.CtSkel.
Local Open Scope N_scope.

(** The control-flow sites of the anchored functions are exactly those the skeletons were written for
    (a new / removed / changed branch or loop in the source breaks this). *)
Theorem ct_sites_unchanged : all_sites_unchanged = true.
Proof. exact sites_unchanged. Qed.
Check ct_sites_unchanged : all_sites_unchanged = true.
Print Assumptions ct_sites_unchanged.

(** Every site of the inventory occurs in its skeleton and vice versa; the Paillier functions have none. *)
Theorem ct_sites_covered :
  covers skel_pprf_eval Sites.pprf_eval && covers (skel_ss_sender delta0) Sites.ss_sender_process &&
  covers skel_ss_transpose Sites.ss_transpose && covers skel_rvole_receiver Sites.rvole_receiver_process &&
  covers skel_rvole_sender Sites.rvole_sender_process &&
  Nat.eqb (length (Sites.paillier_encrypt_with_r ++ Sites.paillier_decrypt ++ Sites.paillier_h ++ Sites.paillier_mp ++
                   Sites.paillier_decrypt_fast ++ Sites.paillier_extract_n_root ++ Sites.paillier_decompose ++
                   Sites.paillier_recombine ++ Sites.paillier_add ++ Sites.paillier_mul)) 0 = true.
Proof. exact sites_covered. Qed.
Check ct_sites_covered :
  covers skel_pprf_eval Sites.pprf_eval && covers (skel_ss_sender delta0) Sites.ss_sender_process &&
  covers skel_ss_transpose Sites.ss_transpose && covers skel_rvole_receiver Sites.rvole_receiver_process &&
  covers skel_rvole_sender Sites.rvole_sender_process &&
  Nat.eqb (length (Sites.paillier_encrypt_with_r ++ Sites.paillier_decrypt ++ Sites.paillier_h ++ Sites.paillier_mp ++
                   Sites.paillier_decrypt_fast ++ Sites.paillier_extract_n_root ++ Sites.paillier_decompose ++
                   Sites.paillier_recombine ++ Sites.paillier_add ++ Sites.paillier_mul)) 0 = true.
Print Assumptions ct_sites_covered.

(** OT-extension sender: the only source-level branch on a secret (the punctured index) executes its
    two sides 64 / 960 times for EVERY index vector with entries below 16: all site counts agree. *)
Theorem ct_ss_sender : forall d1 d2 x, valid_delta d1 -> valid_delta d2 ->
  count (skel_ss_sender d1) [] x = count (skel_ss_sender d2) [] x.
Proof. exact ct_ss_sender_lem. Qed.
Check ct_ss_sender : forall d1 d2 x, valid_delta d1 -> valid_delta d2 ->
  count (skel_ss_sender d1) [] x = count (skel_ss_sender d2) [] x.
Print Assumptions ct_ss_sender.

(** ... and the range premise is necessary. *)
Theorem ct_ss_sender_range_needed :
  count (skel_ss_sender (repeat 16 64)) [] (K_IF, 0) <> count (skel_ss_sender (repeat 0 64)) [] (K_IF, 0).
Proof. exact ct_ss_sender_needs_range. Qed.
Check ct_ss_sender_range_needed :
  count (skel_ss_sender (repeat 16 64)) [] (K_IF, 0) <> count (skel_ss_sender (repeat 0 64)) [] (K_IF, 0).
Print Assumptions ct_ss_sender_range_needed.

(** Paillier: under the leakage contracts of the crypto-bigint primitives, the cost-parameter trace of
    encryption, both decryptions, N-th root, constant-time scalar multiplication and addition is the
    same for all keys of one size class and all plaintexts / ciphertexts / randomisers. *)
Theorem ct_paillier_ops : forall k1 k2, same_class k1 k2 -> forall m1 r1 c1 z1 m2 r2 c2 z2,
  trace_encrypt k1 m1 r1 = trace_encrypt k2 m2 r2 /\
  trace_decrypt k1 c1 = trace_decrypt k2 c2 /\
  trace_decrypt_fast k1 c1 = trace_decrypt_fast k2 c2 /\
  trace_extract_n_root k1 z1 = trace_extract_n_root k2 z2 /\
  trace_mul k1 c1 m1 = trace_mul k2 c2 m2 /\
  trace_add k1 c1 c1 = trace_add k2 c2 c2.
Proof. exact ct_paillier. Qed.
Check ct_paillier_ops : forall k1 k2, same_class k1 k2 -> forall m1 r1 c1 z1 m2 r2 c2 z2,
  trace_encrypt k1 m1 r1 = trace_encrypt k2 m2 r2 /\
  trace_decrypt k1 c1 = trace_decrypt k2 c2 /\
  trace_decrypt_fast k1 c1 = trace_decrypt_fast k2 c2 /\
  trace_extract_n_root k1 z1 = trace_extract_n_root k2 z2 /\
  trace_mul k1 c1 m1 = trace_mul k2 c2 m2 /\
  trace_add k1 c1 c1 = trace_add k2 c2 c2.
Print Assumptions ct_paillier_ops.

(** The variable-time multiplication is visibly NOT secret-independent (the distinction is observable). *)
Theorem ct_mul_vartime_refuted : exists k c m1 m2, trace_mul_vartime k c m1 <> trace_mul_vartime k c m2.
Proof. exact ct_mul_vartime_refuted_lem. Qed.
Check ct_mul_vartime_refuted : exists k c m1 m2, trace_mul_vartime k c m1 <> trace_mul_vartime k c m2.
Print Assumptions ct_mul_vartime_refuted.

(** Predicted body-execution counts of PPRF evaluation (compared with the coverage counters). *)
Theorem ct_pprf_counts :
  map (count skel_pprf_eval []) [(K_FOR,0); (K_FOR,1); (K_FOR,2); (K_CLOSURE,0); (K_FOR,3); (K_FOR,4); (K_FOR,5);
                                  (K_CLOSURE,1); (K_CLOSURE,2); (K_CLOSURE,3); (K_IF,0)]
  = [64; 192; 896; 28672; 6144; 28672; 1024; 65536; 65536; 1024; 0].
Proof. exact pprf_counts. Qed.
Check ct_pprf_counts :
  map (count skel_pprf_eval []) [(K_FOR,0); (K_FOR,1); (K_FOR,2); (K_CLOSURE,0); (K_FOR,3); (K_FOR,4); (K_FOR,5);
                                  (K_CLOSURE,1); (K_CLOSURE,2); (K_CLOSURE,3); (K_IF,0)]
  = [64; 192; 896; 28672; 6144; 28672; 1024; 65536; 65536; 1024; 0].
Print Assumptions ct_pprf_counts.
