(** C03 -- OT extension delivers exactly the chosen message of every pair.
    Statements only.  H: ANY transcript oracle (challenge buffers are normalised by [fitb], the identity on real
    merlin output); seeds: any pair with [seeds_ok]; choices/tape: 64 / 16 bytes ([rowP]). *)
From SL Require Import Lib.Base Lib.Oracle Model.Gf128 Model.SoftSpoken.
From SL Require Import Proofs.SoftSpokenBytes Proofs.SoftSpokenTranspose Proofs.SoftSpokenC03.
Local Open Scope nat_scope.

(** The choice bits recorded in the receiver's output are the requested ones (for every input, oracle and initial buffer). *)
Theorem ss_choices_recorded : forall H sid ss choices tape buf,
  re_choices (snd (ss_receiver H sid ss choices tape)) = choices /\
  re_choices (snd (ss_receiver_buf H sid ss buf choices tape)) = choices.
Proof. exact ss_choices_recorded_lem. Qed.
Check ss_choices_recorded : forall H sid ss choices tape buf,
  re_choices (snd (ss_receiver H sid ss choices tape)) = choices /\
  re_choices (snd (ss_receiver_buf H sid ss buf choices tape)) = choices.
Print Assumptions ss_choices_recorded.

(** Core algebra, per row r = 4i+b: the sender's row is the receiver's row xor (bit b of the punctured index of tree i) * (extended choice vector). *)
Theorem ss_w_eq_v_xor_delta_x : forall H sid ss rs choices tape,
  seeds_ok ss rs -> rowP ssLB choices -> rowP ssSB tape ->
  forall r, r < ssLC ->
  nth r (send_w (random_choices rs) (send_expand H sid rs) (r1_u (fst (ss_receiver H sid ss choices tape)))) [] =
  xor_bytes (nth r (recv_v (recv_expand H sid ss)) [])
            (maskb (nabla_bit (random_choices rs) r) (choices ++ tape)).
Proof. exact ss_w_eq_v_xor_delta_x_lem. Qed.
Check ss_w_eq_v_xor_delta_x : forall H sid ss rs choices tape,
  seeds_ok ss rs -> rowP ssLB choices -> rowP ssSB tape ->
  forall r, r < ssLC ->
  nth r (send_w (random_choices rs) (send_expand H sid rs) (r1_u (fst (ss_receiver H sid ss choices tape)))) [] =
  xor_bytes (nth r (recv_v (recv_expand H sid ss)) [])
            (maskb (nabla_bit (random_choices rs) r) (choices ++ tape)).
Print Assumptions ss_w_eq_v_xor_delta_x.

(** The honest first-round message is always accepted (every oracle, session id, seed pair, choice vector, tape). *)
Theorem ss_honest_accepted : forall H sid ss rs choices tape,
  seeds_ok ss rs -> rowP ssLB choices -> rowP ssSB tape ->
  exists so, ss_sender H sid rs (fst (ss_receiver H sid ss choices tape)) = Val so.
Proof. exact ss_honest_accepted_lem. Qed.
Check ss_honest_accepted : forall H sid ss rs choices tape,
  seeds_ok ss rs -> rowP ssLB choices -> rowP ssSB tape ->
  exists so, ss_sender H sid rs (fst (ss_receiver H sid ss choices tape)) = Val so.
Print Assumptions ss_honest_accepted.

(** For every transfer j < L and slot k < OT_WIDTH the receiver's output equals the sender's message for choice bit j. *)
Theorem ss_chosen_equal : forall H sid ss rs choices tape,
  seeds_ok ss rs -> rowP ssLB choices -> rowP ssSB tape ->
  forall so, ss_sender H sid rs (fst (ss_receiver H sid ss choices tape)) = Val so ->
  forall j k, j < ssL -> k < ssW ->
  nth k (nth j (re_v_x (snd (ss_receiver H sid ss choices tape))) []) [] =
  nth k (nth j (if bitat choices j then se_v_1 so else se_v_0 so) []) [].
Proof. exact ss_chosen_equal_lem. Qed.
Check ss_chosen_equal : forall H sid ss rs choices tape,
  seeds_ok ss rs -> rowP ssLB choices -> rowP ssSB tape ->
  forall so, ss_sender H sid rs (fst (ss_receiver H sid ss choices tape)) = Val so ->
  forall j k, j < ssL -> k < ssW ->
  nth k (nth j (re_v_x (snd (ss_receiver H sid ss choices tape))) []) [] =
  nth k (nth j (if bitat choices j then se_v_1 so else se_v_0 so) []) [].
Print Assumptions ss_chosen_equal.

(** Equality with the OTHER message forces nabla = 0 or a collision of the randomisation hash on two distinct explicit queries (partial: probability not mechanised). *)
Theorem ss_other_differs : forall H sid ss rs choices tape,
  seeds_ok ss rs -> rowP ssLB choices -> rowP ssSB tape ->
  forall so, ss_sender H sid rs (fst (ss_receiver H sid ss choices tape)) = Val so ->
  forall j k, j < ssL -> k < ssW ->
  let nabla := packed_nabla (random_choices rs) in
  let psi_j := nth j (transpose_bool_matrix (recv_v (recv_expand H sid ss))) [] in
  let q1 := rand_query sid (N.of_nat j) psi_j k in
  let q2 := rand_query sid (N.of_nat j) (xor_bytes psi_j nabla) k in
  nth k (nth j (re_v_x (snd (ss_receiver H sid ss choices tape))) []) [] =
  nth k (nth j (if bitat choices j then se_v_0 so else se_v_1 so) []) [] ->
  nabla = zbytes ssLCB \/ (q1 <> q2 /\ Hn H ssKB q1 = Hn H ssKB q2).
Proof. exact ss_other_differs_lem. Qed.
Check ss_other_differs : forall H sid ss rs choices tape,
  seeds_ok ss rs -> rowP ssLB choices -> rowP ssSB tape ->
  forall so, ss_sender H sid rs (fst (ss_receiver H sid ss choices tape)) = Val so ->
  forall j k, j < ssL -> k < ssW ->
  let nabla := packed_nabla (random_choices rs) in
  let psi_j := nth j (transpose_bool_matrix (recv_v (recv_expand H sid ss))) [] in
  let q1 := rand_query sid (N.of_nat j) psi_j k in
  let q2 := rand_query sid (N.of_nat j) (xor_bytes psi_j nabla) k in
  nth k (nth j (re_v_x (snd (ss_receiver H sid ss choices tape))) []) [] =
  nth k (nth j (if bitat choices j then se_v_0 so else se_v_1 so) []) [] ->
  nabla = zbytes ssLCB \/ (q1 <> q2 /\ Hn H ssKB q1 = Hn H ssKB q2).
Print Assumptions ss_other_differs.

(** The degenerate case nabla = 0 is exactly: every punctured index is 0. *)
Theorem ss_nabla_zero_iff : forall deltas, length deltas = ssTrees -> (forall i, i < ssTrees -> (nth i deltas 0 < 16)%N) ->
  (packed_nabla deltas = zbytes ssLCB <-> forall i, i < ssTrees -> nth i deltas 0%N = 0%N).
Proof. exact packed_nabla_zero_iff. Qed.
Check ss_nabla_zero_iff : forall deltas, length deltas = ssTrees -> (forall i, i < ssTrees -> (nth i deltas 0 < 16)%N) ->
  (packed_nabla deltas = zbytes ssLCB <-> forall i, i < ssTrees -> nth i deltas 0%N = 0%N).
Print Assumptions ss_nabla_zero_iff.

(** generate_all_but_one_seed_ot produces a seed pair satisfying seeds_ok, for every rng tape. *)
Theorem ss_gen_seed_ot_ok : forall keys picks,
  length keys = ssTrees -> (forall i, i < ssTrees -> length (nth i keys []) = ssQ) ->
  length picks = ssTrees -> (forall i, i < ssTrees -> (nth i picks 0 < 16)%N) ->
  seeds_ok (fst (gen_seed_ot keys picks)) (snd (gen_seed_ot keys picks)).
Proof. exact gen_seed_ot_ok_lem. Qed.
Check ss_gen_seed_ot_ok : forall keys picks,
  length keys = ssTrees -> (forall i, i < ssTrees -> length (nth i keys []) = ssQ) ->
  length picks = ssTrees -> (forall i, i < ssTrees -> (nth i picks 0 < 16)%N) ->
  seeds_ok (fst (gen_seed_ot keys picks)) (snd (gen_seed_ot keys picks)).
Print Assumptions ss_gen_seed_ot_ok.

(** Non-vacuity: a concrete oracle and seed pair (punctured indices 0 and 15) satisfy the premises; the run is accepted. *)
Example ss_hyps_satisfiable :
  let ss := fst (gen_seed_ot ex_keys ex_picks) in
  let rs := snd (gen_seed_ot ex_keys ex_picks) in
  seeds_ok ss rs /\ nth 0 (random_choices rs) 7%N = 0%N /\ nth 1 (random_choices rs) 7%N = 15%N /\
  rowP ssLB (zbytes ssLB) /\ rowP ssSB (zbytes ssSB) /\
  exists so, ss_sender ex_oracle [] rs (fst (ss_receiver ex_oracle [] ss (zbytes ssLB) (zbytes ssSB))) = Val so.
Proof. exact ss_nonvacuous_lem. Qed.
Check ss_hyps_satisfiable :
  let ss := fst (gen_seed_ot ex_keys ex_picks) in
  let rs := snd (gen_seed_ot ex_keys ex_picks) in
  seeds_ok ss rs /\ nth 0 (random_choices rs) 7%N = 0%N /\ nth 1 (random_choices rs) 7%N = 15%N /\
  rowP ssLB (zbytes ssLB) /\ rowP ssSB (zbytes ssSB) /\
  exists so, ss_sender ex_oracle [] rs (fst (ss_receiver ex_oracle [] ss (zbytes ssLB) (zbytes ssSB))) = Val so.
Print Assumptions ss_hyps_satisfiable.
