(** C10 -- Verifiable RSA encryption: acceptance implies recoverability.
    Statements only; same conventions as Props/C09.v.  "Rejected" sentences that depend on the hash are stated in the
    form  accept -> explicit coincidence  (DESIGN.md 3.3). *)
From SL Require Import Lib.Base Lib.Oracle Lib.ZqGroup Model.VEnc Proofs.VEncBytes Proofs.VEncCore Proofs.VEncCodec Proofs.VEncCtx Proofs.VEncInst.
Local Open Scope Z_scope.

(** Deterministic rejection: an opened scalar that does not match the commitment on the side selected by the challenge (g_r resp. Q + g_r) makes verify fail. Dies if cond1 is deleted from cond_a/cond_b. *)
Theorem venc_open_mismatch_commitment :
  forall W : venc_world, world_ok W ->
  forall (p : vproof) (Q : w_G W) (pk : w_PK W) (label : list N) (j : nat) (pr : slot) (o : Z) (b : bool) (R : w_G W),
  (j < vp_sp p)%nat ->
  nth_error (vp_slots p) j = Some pr -> nth_error (vp_opens p) j = Some o ->
  extract_bit (W_challenge W Q label (vp_slots p)) j = Val b ->
  g_dec (w_O W) (s_gr pr) = Some R ->
  W_smul W o (W_gen W) <> (if b then g_add (w_O W) Q R else R) ->
  W_verify W p Q pk label <> Val tt.
Proof. exact venc_open_mismatch_commitment_lem. Qed.
Check venc_open_mismatch_commitment :
  forall W : venc_world, world_ok W ->
  forall (p : vproof) (Q : w_G W) (pk : w_PK W) (label : list N) (j : nat) (pr : slot) (o : Z) (b : bool) (R : w_G W),
  (j < vp_sp p)%nat ->
  nth_error (vp_slots p) j = Some pr -> nth_error (vp_opens p) j = Some o ->
  extract_bit (W_challenge W Q label (vp_slots p)) j = Val b ->
  g_dec (w_O W) (s_gr pr) = Some R ->
  W_smul W o (W_gen W) <> (if b then g_add (w_O W) Q R else R) ->
  W_verify W p Q pk label <> Val tt.
Print Assumptions venc_open_mismatch_commitment.

(** Deterministic rejection: if the label-bound re-encryption of the opened scalar differs from the stored ciphertext on the selected side, verify fails. Dies if cond2 is deleted. *)
Theorem venc_open_mismatch_cipher :
  forall W : venc_world, world_ok W ->
  forall (p : vproof) (Q : w_G W) (pk : w_PK W) (label : list N) (j : nat) (pr : slot) (o : Z) (b : bool),
  (j < vp_sp p)%nat ->
  nth_error (vp_slots p) j = Some pr -> nth_error (vp_opens p) j = Some o ->
  extract_bit (W_challenge W Q label (vp_slots p)) j = Val b ->
  W_enc_label W (w_repr W o) label pk (vp_seed p) <> Val (if b then s_encxr pr else s_encr pr) ->
  W_verify W p Q pk label <> Val tt.
Proof. exact venc_open_mismatch_cipher_lem. Qed.
Check venc_open_mismatch_cipher :
  forall W : venc_world, world_ok W ->
  forall (p : vproof) (Q : w_G W) (pk : w_PK W) (label : list N) (j : nat) (pr : slot) (o : Z) (b : bool),
  (j < vp_sp p)%nat ->
  nth_error (vp_slots p) j = Some pr -> nth_error (vp_opens p) j = Some o ->
  extract_bit (W_challenge W Q label (vp_slots p)) j = Val b ->
  W_enc_label W (w_repr W o) label pk (vp_seed p) <> Val (if b then s_encxr pr else s_encr pr) ->
  W_verify W p Q pk label <> Val tt.
Print Assumptions venc_open_mismatch_cipher.

(** Deterministic rejection: an undecodable commitment in any slot below the security parameter makes verify fail. *)
Theorem venc_bad_point_rejected :
  forall W : venc_world, world_ok W ->
  forall (p : vproof) (Q : w_G W) (pk : w_PK W) (label : list N) (j : nat) (pr : slot),
  (j < vp_sp p)%nat ->
  nth_error (vp_slots p) j = Some pr -> (j < length (vp_opens p))%nat ->
  g_dec (w_O W) (s_gr pr) = None ->
  W_verify W p Q pk label <> Val tt.
Proof. exact venc_bad_point_rejected_lem. Qed.
Check venc_bad_point_rejected :
  forall W : venc_world, world_ok W ->
  forall (p : vproof) (Q : w_G W) (pk : w_PK W) (label : list N) (j : nat) (pr : slot),
  (j < vp_sp p)%nat ->
  nth_error (vp_slots p) j = Some pr -> (j < length (vp_opens p))%nat ->
  g_dec (w_O W) (s_gr pr) = None ->
  W_verify W p Q pk label <> Val tt.
Print Assumptions venc_bad_point_rejected.

(** RECOVERABILITY: an accepted proof decrypts to the discrete log of Q, unless in EVERY slot the side left unopened by the challenge fails to decrypt / decode / match (the prover fixed the complement of all >= 128 challenge bits in advance). Holds for adversarial proofs: garbage ciphertexts are skipped (F8 repaired), short encodings decode (F2 repaired). The premise vproof_wf is the struct invariant that both constructors establish (C09 venc_from_bytes_wf); the statement without it is false: after pushing an extra element onto the pub field `proofs`, verify = Ok and decrypt = Err(VerificationFailed). *)
Theorem venc_accept_recover :
  forall W : venc_world, world_ok W ->
  forall (p : vproof) (Q : w_G W) (pk : w_PK W) (sk : w_SK W) (label : list N),
  vproof_wf W p -> rsa_pair_ok W pk sk ->
  Z.gcd (W_label_int W label) (w_pk_n W pk) = 1 ->
  W_verify W p Q pk label = Val tt ->
  (exists x : Z, W_decrypt W p Q sk label = Val x /\ W_smul W x (W_gen W) = Q) \/
  AllUnopenedBad W p Q sk label.
Proof. exact venc_accept_recover_lem. Qed.
Check venc_accept_recover :
  forall W : venc_world, world_ok W ->
  forall (p : vproof) (Q : w_G W) (pk : w_PK W) (sk : w_SK W) (label : list N),
  vproof_wf W p -> rsa_pair_ok W pk sk ->
  Z.gcd (W_label_int W label) (w_pk_n W pk) = 1 ->
  W_verify W p Q pk label = Val tt ->
  (exists x : Z, W_decrypt W p Q sk label = Val x /\ W_smul W x (W_gen W) = Q) \/
  AllUnopenedBad W p Q sk label.
Print Assumptions venc_accept_recover.

(** Grinding: however many slots are corrupted (any k), one intact slot -- both ciphertexts are label-bound encryptions of r and x + r -- makes decrypt return exactly x, whatever the other slots contain. *)
Theorem venc_grinding_k :
  forall W : venc_world, world_ok W ->
  forall (p : vproof) (x : Z) (pk : w_PK W) (sk : w_SK W) (label : list N),
  rsa_pair_ok W pk sk ->
  Z.gcd (W_label_int W label) (w_pk_n W pk) = 1 ->
  0 <= x < w_q W ->
  length (vp_slots p) = vp_sp p ->
  (exists (pr : slot) (r : Z) (seed1 seed2 : list N),
     In pr (vp_slots p) /\ 0 <= r < w_q W /\
     W_enc_label W (w_repr W r) label pk seed1 = Val (s_encr pr) /\
     W_enc_label W (w_repr W ((x + r) mod w_q W)) label pk seed2 = Val (s_encxr pr)) ->
  W_decrypt W p (W_smul W x (W_gen W)) sk label = Val x.
Proof. exact venc_grinding_k_lem. Qed.
Check venc_grinding_k :
  forall W : venc_world, world_ok W ->
  forall (p : vproof) (x : Z) (pk : w_PK W) (sk : w_SK W) (label : list N),
  rsa_pair_ok W pk sk ->
  Z.gcd (W_label_int W label) (w_pk_n W pk) = 1 ->
  0 <= x < w_q W ->
  length (vp_slots p) = vp_sp p ->
  (exists (pr : slot) (r : Z) (seed1 seed2 : list N),
     In pr (vp_slots p) /\ 0 <= r < w_q W /\
     W_enc_label W (w_repr W r) label pk seed1 = Val (s_encr pr) /\
     W_enc_label W (w_repr W ((x + r) mod w_q W)) label pk seed2 = Val (s_encxr pr)) ->
  W_decrypt W p (W_smul W x (W_gen W)) sk label = Val x.
Print Assumptions venc_grinding_k.

(** For Q = x*G with canonical x, decrypt can return nothing but x. *)
Theorem venc_decrypt_unique :
  forall W : venc_world, world_ok W ->
  forall (p : vproof) (x : Z) (sk : w_SK W) (label : list N) (y : Z),
  0 <= x < w_q W ->
  W_decrypt W p (W_smul W x (W_gen W)) sk label = Val y -> y = x.
Proof. exact decrypt_unique. Qed.
Check venc_decrypt_unique :
  forall W : venc_world, world_ok W ->
  forall (p : vproof) (x : Z) (sk : w_SK W) (label : list N) (y : Z),
  0 <= x < w_q W ->
  W_decrypt W p (W_smul W x (W_gen W)) sk label = Val y -> y = x.
Print Assumptions venc_decrypt_unique.

(** Context binding (point), partial per DESIGN 3.3: an honest proof for x <> 0 accepted for another point Q' forces ALL challenge bits of two distinct hash queries (for x*G and for Q') to be zero on every slot. *)
Theorem venc_ctx_point :
  forall W : venc_world, world_ok W ->
  forall (x : Z) (pk : w_PK W) (sk : w_SK W) (label : list N) (sp : option nat) (seed : list N) (tape : nat -> Z)
         (p : vproof) (Q' : w_G W),
  rsa_pair_ok W pk sk -> W_label_int W label <> 0 -> 0 < x < w_q W ->
  W_encrypt W x pk label sp seed tape = Val p ->
  Q' <> W_smul W x (W_gen W) ->
  W_verify W p Q' pk label = Val tt ->
  forall j : nat, (j < vp_sp p)%nat ->
    extract_bit (W_challenge W (W_smul W x (W_gen W)) label (vp_slots p)) j = Val false /\
    extract_bit (W_challenge W Q' label (vp_slots p)) j = Val false.
Proof. exact venc_ctx_point_lem. Qed.
Check venc_ctx_point :
  forall W : venc_world, world_ok W ->
  forall (x : Z) (pk : w_PK W) (sk : w_SK W) (label : list N) (sp : option nat) (seed : list N) (tape : nat -> Z)
         (p : vproof) (Q' : w_G W),
  rsa_pair_ok W pk sk -> W_label_int W label <> 0 -> 0 < x < w_q W ->
  W_encrypt W x pk label sp seed tape = Val p ->
  Q' <> W_smul W x (W_gen W) ->
  W_verify W p Q' pk label = Val tt ->
  forall j : nat, (j < vp_sp p)%nat ->
    extract_bit (W_challenge W (W_smul W x (W_gen W)) label (vp_slots p)) j = Val false /\
    extract_bit (W_challenge W Q' label (vp_slots p)) j = Val false.
Print Assumptions venc_ctx_point.

(** Context binding (label), partial: an honest proof for x <> 0 accepted under another label forces the two challenges to agree on every slot AND, for every opened scalar with non-zero integer encoding, a collision of the label hash integers. *)
Theorem venc_ctx_label :
  forall W : venc_world, world_ok W ->
  forall (x : Z) (pk : w_PK W) (sk : w_SK W) (label label' : list N) (sp : option nat) (seed : list N)
         (tape : nat -> Z) (p : vproof),
  rsa_pair_ok W pk sk -> 0 < x < w_q W ->
  W_encrypt W x pk label sp seed tape = Val p ->
  W_verify W p (W_smul W x (W_gen W)) pk label' = Val tt ->
  forall (j : nat) (o : Z), nth_error (vp_opens p) j = Some o ->
    extract_bit (W_challenge W (W_smul W x (W_gen W)) label' (vp_slots p)) j =
    extract_bit (W_challenge W (W_smul W x (W_gen W)) label (vp_slots p)) j /\
    (bu_from_be (w_repr W o) <> 0 -> W_label_int W label' = W_label_int W label).
Proof. exact venc_ctx_label_lem. Qed.
Check venc_ctx_label :
  forall W : venc_world, world_ok W ->
  forall (x : Z) (pk : w_PK W) (sk : w_SK W) (label label' : list N) (sp : option nat) (seed : list N)
         (tape : nat -> Z) (p : vproof),
  rsa_pair_ok W pk sk -> 0 < x < w_q W ->
  W_encrypt W x pk label sp seed tape = Val p ->
  W_verify W p (W_smul W x (W_gen W)) pk label' = Val tt ->
  forall (j : nat) (o : Z), nth_error (vp_opens p) j = Some o ->
    extract_bit (W_challenge W (W_smul W x (W_gen W)) label' (vp_slots p)) j =
    extract_bit (W_challenge W (W_smul W x (W_gen W)) label (vp_slots p)) j /\
    (bu_from_be (w_repr W o) <> 0 -> W_label_int W label' = W_label_int W label).
Print Assumptions venc_ctx_label.

(** Context binding (RSA key), partial: an honest proof accepted under another public key forces, in every slot, the encryption of the opened scalar under the other key to equal the ciphertext made under the original key (that this does not happen is a property of RSA, not a theorem). *)
Theorem venc_ctx_key :
  forall W : venc_world, world_ok W ->
  forall (x : Z) (pk pk' : w_PK W) (label : list N) (sp : option nat) (seed : list N) (tape : nat -> Z) (p : vproof),
  W_encrypt W x pk label sp seed tape = Val p ->
  W_verify W p (W_smul W x (W_gen W)) pk' label = Val tt ->
  forall (j : nat) (o : Z), nth_error (vp_opens p) j = Some o ->
    W_enc_label W (w_repr W o) label pk' seed = W_enc_label W (w_repr W o) label pk seed.
Proof. exact venc_ctx_key_lem. Qed.
Check venc_ctx_key :
  forall W : venc_world, world_ok W ->
  forall (x : Z) (pk pk' : w_PK W) (label : list N) (sp : option nat) (seed : list N) (tape : nat -> Z) (p : vproof),
  W_encrypt W x pk label sp seed tape = Val p ->
  W_verify W p (W_smul W x (W_gen W)) pk' label = Val tt ->
  forall (j : nat) (o : Z), nth_error (vp_opens p) j = Some o ->
    W_enc_label W (w_repr W o) label pk' seed = W_enc_label W (w_repr W o) label pk seed.
Print Assumptions venc_ctx_key.

(** Byte alteration of a serialised honest proof is characterised per wire field by the next three theorems (the intended single statement `altered byte, x <> 0 -> from_bytes or verify fails` is not a theorem for an arbitrary hash; header bytes -- sizes -- are covered by the correspondence runs only). Opened scalars: replacing the opened scalar of any slot of an honest proof by any other canonical scalar is rejected unconditionally (non-canonical bytes are refused by from_bytes). *)
Theorem venc_alter_open_rejected :
  forall W : venc_world, world_ok W ->
  forall (x : Z) (pk : w_PK W) (label : list N) (sp : option nat) (seed : list N) (tape : nat -> Z)
         (p p' : vproof) (j : nat) (o o' : Z),
  W_encrypt W x pk label sp seed tape = Val p ->
  vp_slots p' = vp_slots p -> vp_sp p' = vp_sp p ->
  nth_error (vp_opens p) j = Some o -> nth_error (vp_opens p') j = Some o' ->
  0 <= o' < w_q W -> o' <> o ->
  W_verify W p' (W_smul W x (W_gen W)) pk label <> Val tt.
Proof. exact venc_alter_open_rejected_lem. Qed.
Check venc_alter_open_rejected :
  forall W : venc_world, world_ok W ->
  forall (x : Z) (pk : w_PK W) (label : list N) (sp : option nat) (seed : list N) (tape : nat -> Z)
         (p p' : vproof) (j : nat) (o o' : Z),
  W_encrypt W x pk label sp seed tape = Val p ->
  vp_slots p' = vp_slots p -> vp_sp p' = vp_sp p ->
  nth_error (vp_opens p) j = Some o -> nth_error (vp_opens p') j = Some o' ->
  0 <= o' < w_q W -> o' <> o ->
  W_verify W p' (W_smul W x (W_gen W)) pk label <> Val tt.
Print Assumptions venc_alter_open_rejected.

(** Byte alteration, seed: accepted only if re-encryption under the new seed reproduces, in every slot, the ciphertext made under the old seed (no assumption on RSA's use of the seed). *)
Theorem venc_alter_seed_char :
  forall W : venc_world, world_ok W ->
  forall (x : Z) (pk : w_PK W) (label : list N) (sp : option nat) (seed : list N) (tape : nat -> Z) (p p' : vproof),
  W_encrypt W x pk label sp seed tape = Val p ->
  vp_slots p' = vp_slots p -> vp_sp p' = vp_sp p -> vp_opens p' = vp_opens p ->
  W_verify W p' (W_smul W x (W_gen W)) pk label = Val tt ->
  forall (j : nat) (o : Z), nth_error (vp_opens p) j = Some o ->
    W_enc_label W (w_repr W o) label pk (vp_seed p') = W_enc_label W (w_repr W o) label pk seed.
Proof. exact venc_alter_seed_char_lem. Qed.
Check venc_alter_seed_char :
  forall W : venc_world, world_ok W ->
  forall (x : Z) (pk : w_PK W) (label : list N) (sp : option nat) (seed : list N) (tape : nat -> Z) (p p' : vproof),
  W_encrypt W x pk label sp seed tape = Val p ->
  vp_slots p' = vp_slots p -> vp_sp p' = vp_sp p -> vp_opens p' = vp_opens p ->
  W_verify W p' (W_smul W x (W_gen W)) pk label = Val tt ->
  forall (j : nat) (o : Z), nth_error (vp_opens p) j = Some o ->
    W_enc_label W (w_repr W o) label pk (vp_seed p') = W_enc_label W (w_repr W o) label pk seed.
Print Assumptions venc_alter_seed_char.

(** Byte alteration, commitments / ciphertexts (x <> 0): accepted only if the challenge recomputed over the altered slot bytes agrees with the original challenge on every unaltered slot (a different hash input reproducing >= 127 fixed bits). *)
Theorem venc_alter_slots_char :
  forall W : venc_world, world_ok W ->
  forall (x : Z) (pk : w_PK W) (label : list N) (sp : option nat) (seed : list N) (tape : nat -> Z) (p p' : vproof),
  0 < x < w_q W ->
  W_encrypt W x pk label sp seed tape = Val p ->
  vp_sp p' = vp_sp p -> vp_opens p' = vp_opens p ->
  W_verify W p' (W_smul W x (W_gen W)) pk label = Val tt ->
  forall (j : nat) (pr : slot), nth_error (vp_slots p) j = Some pr -> nth_error (vp_slots p') j = Some pr ->
    extract_bit (W_challenge W (W_smul W x (W_gen W)) label (vp_slots p')) j =
    extract_bit (W_challenge W (W_smul W x (W_gen W)) label (vp_slots p)) j.
Proof. exact venc_alter_slots_char_lem. Qed.
Check venc_alter_slots_char :
  forall W : venc_world, world_ok W ->
  forall (x : Z) (pk : w_PK W) (label : list N) (sp : option nat) (seed : list N) (tape : nat -> Z) (p p' : vproof),
  0 < x < w_q W ->
  W_encrypt W x pk label sp seed tape = Val p ->
  vp_sp p' = vp_sp p -> vp_opens p' = vp_opens p ->
  W_verify W p' (W_smul W x (W_gen W)) pk label = Val tt ->
  forall (j : nat) (pr : slot), nth_error (vp_slots p) j = Some pr -> nth_error (vp_slots p') j = Some pr ->
    extract_bit (W_challenge W (W_smul W x (W_gen W)) label (vp_slots p')) j =
    extract_bit (W_challenge W (W_smul W x (W_gen W)) label (vp_slots p)) j.
Print Assumptions venc_alter_slots_char.

(** Non-vacuity of the hypotheses (same toy world as C09). *)
Example venc_c10_hyps_satisfiable :
  world_ok toy_world /\ rsa_pair_ok toy_world tt tt /\
  (forall label : list N, Z.gcd (W_label_int toy_world label) (w_pk_n toy_world tt) = 1) /\
  (forall (x : Z) (label : list N) (sp : option nat) (seed : list N) (tape : nat -> Z),
     (match sp with Some s => 128 <= s <= 256 | None => True end)%nat ->
     exists p : vproof, W_encrypt toy_world x tt label sp seed tape = Val p).
Proof. exact venc_nonvacuous. Qed.
Check venc_c10_hyps_satisfiable :
  world_ok toy_world /\ rsa_pair_ok toy_world tt tt /\
  (forall label : list N, Z.gcd (W_label_int toy_world label) (w_pk_n toy_world tt) = 1) /\
  (forall (x : Z) (label : list N) (sp : option nat) (seed : list N) (tape : nat -> Z),
     (match sp with Some s => 128 <= s <= 256 | None => True end)%nat ->
     exists p : vproof, W_encrypt toy_world x tt label sp seed tape = Val p).
Print Assumptions venc_c10_hyps_satisfiable.
