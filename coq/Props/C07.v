(** C07 -- Paillier: private-key operations invert public-key operations.
    Statements only; proofs live in Proofs/Paillier*.v.  Everything is about the executable model
    Model/Paillier.v (tied to crates/sl-paillier/src/lib.rs by Corr/C07.v on every run), for ALL widths with
    [widths_ok] and ALL keys with [key_ok] (distinct odd primes p, q below 2^wP with gcd(pq, (p-1)(q-1)) = 1:
    p<q and p>q, moduli of 2k and 2k-1 bits alike). *)
From Coq Require Import ZArith List.
From SL Require Import Lib.Base Model.Paillier Proofs.PaillierNT Proofs.PaillierWidth Proofs.PaillierDec Proofs.PaillierHom Proofs.PaillierChain Proofs.PaillierExamples Proofs.PaillierPrimes.
Local Open Scope Z_scope.

(** the ciphertext of m under r is ((1 + m N) r^N) mod N^2 (no truncation by any width) *)
Theorem enc_closed_form : forall (w : widths) (p q : Z), widths_ok w -> key_ok w p q ->
  forall m r : Z, 0 <= m < p * q ->
  encrypt w (sk_pk (from_pq w p q)) m r = ((1 + m * (p * q)) * r ^ (p * q)) mod (p * q * (p * q)).
Proof. exact enc_closed. Qed.
Check enc_closed_form : forall (w : widths) (p q : Z), widths_ok w -> key_ok w p q ->
  forall m r : Z, 0 <= m < p * q ->
  encrypt w (sk_pk (from_pq w p q)) m r = ((1 + m * (p * q)) * r ^ (p * q)) mod (p * q * (p * q)).
Print Assumptions enc_closed_form.

(** standard decryption inverts encryption for every plaintext and every unit r *)
Theorem dec_enc : forall (w : widths) (p q : Z), widths_ok w -> key_ok w p q ->
  forall m r : Z, 0 <= m < p * q -> 0 <= r -> Z.gcd r (p * q) = 1 ->
  decrypt w (from_pq w p q) (encrypt w (sk_pk (from_pq w p q)) m r) = m.
Proof. exact S_dec_enc. Qed.
Check dec_enc : forall (w : widths) (p q : Z), widths_ok w -> key_ok w p q ->
  forall m r : Z, 0 <= m < p * q -> 0 <= r -> Z.gcd r (p * q) = 1 ->
  decrypt w (from_pq w p q) (encrypt w (sk_pk (from_pq w p q)) m r) = m.
Print Assumptions dec_enc.

(** CRT decryption inverts encryption *)
Theorem dec_fast_enc : forall (w : widths) (p q : Z), widths_ok w -> key_ok w p q ->
  forall m r : Z, 0 <= m < p * q -> 0 <= r -> Z.gcd r (p * q) = 1 ->
  decrypt_fast w (from_pq w p q) (encrypt w (sk_pk (from_pq w p q)) m r) = m.
Proof. exact S_dec_fast_enc. Qed.
Check dec_fast_enc : forall (w : widths) (p q : Z), widths_ok w -> key_ok w p q ->
  forall m r : Z, 0 <= m < p * q -> 0 <= r -> Z.gcd r (p * q) = 1 ->
  decrypt_fast w (from_pq w p q) (encrypt w (sk_pk (from_pq w p q)) m r) = m.
Print Assumptions dec_fast_enc.

(** the two decryption paths agree on EVERY representable ciphertext coprime to N *)
Theorem dec_paths_agree : forall (w : widths) (p q : Z), widths_ok w -> key_ok w p q ->
  forall c : Z, 0 <= c < 2 ^ wC w -> Z.gcd c (p * q) = 1 ->
  decrypt w (from_pq w p q) c = decrypt_fast w (from_pq w p q) c.
Proof. exact S_paths. Qed.
Check dec_paths_agree : forall (w : widths) (p q : Z), widths_ok w -> key_ok w p q ->
  forall c : Z, 0 <= c < 2 ^ wC w -> Z.gcd c (p * q) = 1 ->
  decrypt w (from_pq w p q) c = decrypt_fast w (from_pq w p q) c.
Print Assumptions dec_paths_agree.

(** N-th root extraction returns r from r^N mod N *)
Theorem nroot_correct : forall (w : widths) (p q : Z), widths_ok w -> key_ok w p q ->
  forall r : Z, 0 <= r < p * q -> Z.gcd r (p * q) = 1 ->
  extract_n_root w (from_pq w p q) (r ^ (p * q) mod (p * q)) = r.
Proof. exact nroot_gcd. Qed.
Check nroot_correct : forall (w : widths) (p q : Z), widths_ok w -> key_ok w p q ->
  forall r : Z, 0 <= r < p * q -> Z.gcd r (p * q) = 1 ->
  extract_n_root w (from_pq w p q) (r ^ (p * q) mod (p * q)) = r.
Print Assumptions nroot_correct.

(** the randomiser is recovered from the ciphertext itself: N-th root extraction of (ciphertext mod N) returns r, for every
    plaintext (session 3) *)
Theorem nroot_of_ciphertext : forall (w : widths) (p q : Z), widths_ok w -> key_ok w p q ->
  forall m r : Z, 0 <= m < p * q -> 0 <= r < p * q -> Z.gcd r (p * q) = 1 ->
  extract_n_root w (from_pq w p q) (encrypt w (sk_pk (from_pq w p q)) m r mod (p * q)) = r.
Proof. exact enc_root. Qed.
Check nroot_of_ciphertext : forall (w : widths) (p q : Z), widths_ok w -> key_ok w p q ->
  forall m r : Z, 0 <= m < p * q -> 0 <= r < p * q -> Z.gcd r (p * q) = 1 ->
  extract_n_root w (from_pq w p q) (encrypt w (sk_pk (from_pq w p q)) m r mod (p * q)) = r.
Print Assumptions nroot_of_ciphertext.

(** encryption is injective in both arguments: a ciphertext determines its plaintext and its randomiser (session 3) *)
Theorem encrypt_injective : forall (w : widths) (p q : Z), widths_ok w -> key_ok w p q ->
  forall m r m' r' : Z, 0 <= m < p * q -> 0 <= m' < p * q -> 0 <= r < p * q -> 0 <= r' < p * q ->
  Z.gcd r (p * q) = 1 -> Z.gcd r' (p * q) = 1 ->
  encrypt w (sk_pk (from_pq w p q)) m r = encrypt w (sk_pk (from_pq w p q)) m' r' -> m = m' /\ r = r'.
Proof. exact enc_injective. Qed.
Check encrypt_injective : forall (w : widths) (p q : Z), widths_ok w -> key_ok w p q ->
  forall m r m' r' : Z, 0 <= m < p * q -> 0 <= m' < p * q -> 0 <= r < p * q -> 0 <= r' < p * q ->
  Z.gcd r (p * q) = 1 -> Z.gcd r' (p * q) = 1 ->
  encrypt w (sk_pk (from_pq w p q)) m r = encrypt w (sk_pk (from_pq w p q)) m' r' -> m = m' /\ r = r'.
Print Assumptions encrypt_injective.

(** rebuilding the secret key from its minimal form (p, q) gives the same key, field by field *)
Theorem minimal_roundtrip : forall (w : widths) (p q : Z), from_minimal w (to_minimal (from_pq w p q)) = from_pq w p q.
Proof. exact minimal_roundtrip_pq. Qed.
Check minimal_roundtrip : forall (w : widths) (p q : Z), from_minimal w (to_minimal (from_pq w p q)) = from_pq w p q.
Print Assumptions minimal_roundtrip.

(** rebuilding the public key from its minimal form N gives the same key *)
Theorem pk_roundtrip : forall (w : widths) (n : Z), pk_from_minimal w (pk_to_minimal (from_n w n)) = from_n w n.
Proof. exact pk_roundtrip_n. Qed.
Check pk_roundtrip : forall (w : widths) (n : Z), pk_from_minimal w (pk_to_minimal (from_n w n)) = from_n w n.
Print Assumptions pk_roundtrip.

(** Deserialize (validation, then from_pq) applied to the serialised form of a valid key returns that key *)
Theorem restore_sk : forall (w : widths) (p q : Z), widths_ok w -> key_ok w p q ->
  deser_sk w (fst (to_minimal (from_pq w p q))) (snd (to_minimal (from_pq w p q))) = Val (from_pq w p q).
Proof. exact S_restore_sk. Qed.
Check restore_sk : forall (w : widths) (p q : Z), widths_ok w -> key_ok w p q ->
  deser_sk w (fst (to_minimal (from_pq w p q))) (snd (to_minimal (from_pq w p q))) = Val (from_pq w p q).
Print Assumptions restore_sk.

(** the same for the public key *)
Theorem restore_pk : forall (w : widths) (p q : Z), widths_ok w -> key_ok w p q ->
  deser_pk w (pk_to_minimal (sk_pk (from_pq w p q))) = Val (sk_pk (from_pq w p q)).
Proof. exact S_restore_pk. Qed.
Check restore_pk : forall (w : widths) (p q : Z), widths_ok w -> key_ok w p q ->
  deser_pk w (pk_to_minimal (sk_pk (from_pq w p q))) = Val (sk_pk (from_pq w p q)).
Print Assumptions restore_pk.

(** a byte string of ANY length is admitted as a plaintext iff its little-endian value is below N *)
Theorem message_admits_iff : forall (w : widths) (p q : Z), widths_ok w -> key_ok w p q ->
  forall (bytes : list N) (m : Z),
  message w (sk_pk (from_pq w p q)) bytes = Some m <-> le_value bytes < p * q /\ m = le_value bytes.
Proof. exact S_message_admits. Qed.
Check message_admits_iff : forall (w : widths) (p q : Z), widths_ok w -> key_ok w p q ->
  forall (bytes : list N) (m : Z),
  message w (sk_pk (from_pq w p q)) bytes = Some m <-> le_value bytes < p * q /\ m = le_value bytes.
Print Assumptions message_admits_iff.

(** Deserialize for the secret key never reaches the panic of DynResidueParams::new *)
Theorem deser_sk_total : forall (w : widths) (p q : Z), widths_ok w -> 0 <= p < 2 ^ wP w -> 0 <= q < 2 ^ wP w ->
  is_panic (deser_sk w p q) = false.
Proof. exact deser_sk_no_panic. Qed.
Check deser_sk_total : forall (w : widths) (p q : Z), widths_ok w -> 0 <= p < 2 ^ wP w -> 0 <= q < 2 ^ wP w ->
  is_panic (deser_sk w p q) = false.
Print Assumptions deser_sk_total.

(** the same for the public key *)
Theorem deser_pk_total : forall (w : widths) (n : Z), widths_ok w -> 0 <= n < 2 ^ wM w -> is_panic (deser_pk w n) = false.
Proof. exact deser_pk_no_panic. Qed.
Check deser_pk_total : forall (w : widths) (n : Z), widths_ok w -> 0 <= n < 2 ^ wM w -> is_panic (deser_pk w n) = false.
Print Assumptions deser_pk_total.

(** the model's modular inverse is THE inverse on coprime arguments *)
Theorem modinv_correct : forall a m : Z, 1 < m -> Z.gcd a m = 1 -> 0 <= modinv a m < m /\ (modinv a m * a) mod m = 1.
Proof. exact modinv_spec. Qed.
Check modinv_correct : forall a m : Z, 1 < m -> Z.gcd a m = 1 -> 0 <= modinv a m < m /\ (modinv a m * a) mod m = 1.
Print Assumptions modinv_correct.

(** non-vacuity: (11, 17) is a valid key of the smallest configuration *)
Theorem key_ok_handbook : widths_ok cfg512 /\ key_ok cfg512 11 17 /\ key_ok cfg512 17 11 /\ widths_ok cfg4096 /\ key_ok cfg4096 11 17.
Proof. exact (conj widths_ok_512 (conj key_ok_11_17 (conj key_ok_17_11 (conj widths_ok_4096 key_ok_11_17_4096)))). Qed.
Check key_ok_handbook : widths_ok cfg512 /\ key_ok cfg512 11 17 /\ key_ok cfg512 17 11 /\ widths_ok cfg4096 /\ key_ok cfg4096 11 17.
Print Assumptions key_ok_handbook.

(** non-vacuity: two pairs of 32-bit primes (p>q with a 64-bit modulus, p<q with a 63-bit modulus) *)
Theorem key_ok_32bit : key_ok cfg512 4294967291 4294967279 /\ key_ok cfg512 2147483659 3000000019.
Proof. exact (conj key_ok_32bit_gt key_ok_32bit_lt). Qed.
Check key_ok_32bit : key_ok cfg512 4294967291 4294967279 /\ key_ok cfg512 2147483659 3000000019.
Print Assumptions key_ok_32bit.

(** non-vacuity: two pairs of 64-bit primes (p>q with a 128-bit modulus, p<q with a 127-bit modulus); primality by
    Pocklington certificates checked in the kernel (Proofs/PaillierPrimes.v) *)
Theorem key_ok_64bit : key_ok cfg512 17381996728290903239 16889554716292614701 /\ key_ok cfg512 9446275134106098649 9873303963077819897.
Proof. exact (conj key_ok_64bit_gt key_ok_64bit_lt). Qed.
Check key_ok_64bit : key_ok cfg512 17381996728290903239 16889554716292614701 /\ key_ok cfg512 9446275134106098649 9873303963077819897.
Print Assumptions key_ok_64bit.

