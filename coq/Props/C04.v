(** C04 -- the OT-extension sender catches a deviating receiver up to the guessing bound.
    Statements only.  H: ANY transcript oracle; seeds: any pair with [seeds_ok]; messages: well-formed byte
    arrays of the Rust types ([msg_ok] / [rowP]).  [chis_of H sid u] = chi_matrix H (matrix_digest H sid u);
    [Phi chis row] = the check value sum_j row_j * chi_j + row_4 in GF(2^128). *)
From SL Require Import Lib.Base Lib.Oracle Model.Gf128 Model.SoftSpoken.
From SL Require Import Proofs.SoftSpokenBytes Proofs.SoftSpokenAlgebra Proofs.SoftSpokenTranspose Proofs.SoftSpokenC03
  Proofs.SoftSpokenC04.
Local Open Scope nat_scope.

(** An honest first-round message is always accepted. *)
Theorem ss_honest_accepted : forall H sid ss rs choices tape,
  seeds_ok ss rs -> rowP ssLB choices -> rowP ssSB tape ->
  exists so, ss_sender H sid rs (fst (ss_receiver H sid ss choices tape)) = Val so.
Proof. exact ss_honest_accepted_lem. Qed.
Check ss_honest_accepted : forall H sid ss rs choices tape,
  seeds_ok ss rs -> rowP ssLB choices -> rowP ssSB tape ->
  exists so, ss_sender H sid rs (fst (ss_receiver H sid ss choices tape)) = Val so.
Print Assumptions ss_honest_accepted.

(** Whatever the message: the sender returns outputs or exactly the 'ban the receiver' error (never a panic, no output on rejection). *)
Theorem ss_sender_val_or_ban : forall H sid rs msg,
  (exists so, ss_sender H sid rs msg = Val so) \/ ss_sender H sid rs msg = Err ss_err_ban.
Proof. exact sender_val_or_ban. Qed.
Check ss_sender_val_or_ban : forall H sid rs msg,
  (exists so, ss_sender H sid rs msg = Val so) \/ ss_sender H sid rs msg = Err ss_err_ban.
Print Assumptions ss_sender_val_or_ban.

(** Verdict on ANY well-formed message: accepted iff the 256 row equations hold (chis_of H sid u' = chi_matrix H (matrix_digest H sid u')). *)
Theorem ss_sender_accepts_iff : forall H sid ss rs, seeds_ok ss rs -> forall msg, msg_ok msg ->
  ((exists so, ss_sender H sid rs msg = Val so) <-> accept_eqs H sid ss rs msg).
Proof. exact sender_accepts_iff. Qed.
Check ss_sender_accepts_iff : forall H sid ss rs, seeds_ok ss rs -> forall msg, msg_ok msg ->
  ((exists so, ss_sender H sid rs msg = Val so) <-> accept_eqs H sid ss rs msg).
Print Assumptions ss_sender_accepts_iff.

(** Any change confined to t (flipped bits, overwritten or swapped rows) is rejected with the ban error. *)
Theorem ss_flip_t_rejected : forall H sid ss rs, seeds_ok ss rs -> forall choices tape, rowP ssLB choices -> rowP ssSB tape ->
  forall t', length t' = ssLC -> Forall (rowP ssSB) t' -> t' <> r1_t (fst (ss_receiver H sid ss choices tape)) ->
  ss_sender H sid rs {| r1_u := r1_u (fst (ss_receiver H sid ss choices tape));
                        r1_x := r1_x (fst (ss_receiver H sid ss choices tape)); r1_t := t' |} = Err ss_err_ban.
Proof. exact flip_t_rejected. Qed.
Check ss_flip_t_rejected : forall H sid ss rs, seeds_ok ss rs -> forall choices tape, rowP ssLB choices -> rowP ssSB tape ->
  forall t', length t' = ssLC -> Forall (rowP ssSB) t' -> t' <> r1_t (fst (ss_receiver H sid ss choices tape)) ->
  ss_sender H sid rs {| r1_u := r1_u (fst (ss_receiver H sid ss choices tape));
                        r1_x := r1_x (fst (ss_receiver H sid ss choices tape)); r1_t := t' |} = Err ss_err_ban.
Print Assumptions ss_flip_t_rejected.

(** Any change confined to x is rejected, unless every punctured index is 0 (nabla = 0: the degenerate seed set). *)
Theorem ss_flip_x_rejected : forall H sid ss rs, seeds_ok ss rs -> forall choices tape, rowP ssLB choices -> rowP ssSB tape ->
  forall x', rowP ssSB x' -> x' <> r1_x (fst (ss_receiver H sid ss choices tape)) ->
  (exists i, i < ssTrees /\ nth i (random_choices rs) 0%N <> 0%N) ->
  ss_sender H sid rs {| r1_u := r1_u (fst (ss_receiver H sid ss choices tape)); r1_x := x';
                        r1_t := r1_t (fst (ss_receiver H sid ss choices tape)) |} = Err ss_err_ban.
Proof. exact flip_x_rejected. Qed.
Check ss_flip_x_rejected : forall H sid ss rs, seeds_ok ss rs -> forall choices tape, rowP ssLB choices -> rowP ssSB tape ->
  forall x', rowP ssSB x' -> x' <> r1_x (fst (ss_receiver H sid ss choices tape)) ->
  (exists i, i < ssTrees /\ nth i (random_choices rs) 0%N <> 0%N) ->
  ss_sender H sid rs {| r1_u := r1_u (fst (ss_receiver H sid ss choices tape)); r1_x := x';
                        r1_t := r1_t (fst (ss_receiver H sid ss choices tape)) |} = Err ss_err_ban.
Print Assumptions ss_flip_x_rejected.

(** ... and that degenerate condition is exact: a changed x is accepted iff all punctured indices are 0. *)
Theorem ss_flip_x_char : forall H sid ss rs, seeds_ok ss rs -> forall choices tape, rowP ssLB choices -> rowP ssSB tape ->
  forall x', rowP ssSB x' -> x' <> r1_x (fst (ss_receiver H sid ss choices tape)) ->
  ((exists so, ss_sender H sid rs {| r1_u := r1_u (fst (ss_receiver H sid ss choices tape)); r1_x := x';
                                      r1_t := r1_t (fst (ss_receiver H sid ss choices tape)) |} = Val so) <->
   (forall i, i < ssTrees -> nth i (random_choices rs) 0%N = 0%N)).
Proof. exact flip_x_char. Qed.
Check ss_flip_x_char : forall H sid ss rs, seeds_ok ss rs -> forall choices tape, rowP ssLB choices -> rowP ssSB tape ->
  forall x', rowP ssSB x' -> x' <> r1_x (fst (ss_receiver H sid ss choices tape)) ->
  ((exists so, ss_sender H sid rs {| r1_u := r1_u (fst (ss_receiver H sid ss choices tape)); r1_x := x';
                                      r1_t := r1_t (fst (ss_receiver H sid ss choices tape)) |} = Val so) <->
   (forall i, i < ssTrees -> nth i (random_choices rs) 0%N = 0%N)).
Print Assumptions ss_flip_x_char.

(** A replaced u (x, t honest) is accepted iff the FRESH challenges chi' = H(digest u') satisfy one explicit GF(2^128)-linear equation per row (partial: the probability of this oracle event is not mechanised). *)
Theorem ss_tampered_u_accept_char : forall H sid ss rs, seeds_ok ss rs -> forall choices tape, rowP ssLB choices -> rowP ssSB tape ->
  forall u', length u' = ssTrees -> Forall (rowP ssLPB) u' ->
  ((exists so, ss_sender H sid rs {| r1_u := u'; r1_x := r1_x (fst (ss_receiver H sid ss choices tape));
                                      r1_t := r1_t (fst (ss_receiver H sid ss choices tape)) |} = Val so) <->
   forall r, r < ssLC ->
     let u := r1_u (fst (ss_receiver H sid ss choices tape)) in
     let e_i := xor_bytes (nth (r / 4) u []) (nth (r / 4) u' []) in
     let v_r := nth r (recv_v (recv_expand H sid ss)) [] in
     let d_r := nabla_bit (random_choices rs) r in
     xor_bytes (Phi (chis_of H sid u') v_r)
               (maskb d_r (xor_bytes (Phi (chis_of H sid u') (choices ++ tape)) (Phi (chis_of H sid u') e_i))) =
     xor_bytes (Phi (chis_of H sid u) v_r) (maskb d_r (Phi (chis_of H sid u) (choices ++ tape)))).
Proof. exact tampered_u_accept_char. Qed.
Check ss_tampered_u_accept_char : forall H sid ss rs, seeds_ok ss rs -> forall choices tape, rowP ssLB choices -> rowP ssSB tape ->
  forall u', length u' = ssTrees -> Forall (rowP ssLPB) u' ->
  ((exists so, ss_sender H sid rs {| r1_u := u'; r1_x := r1_x (fst (ss_receiver H sid ss choices tape));
                                      r1_t := r1_t (fst (ss_receiver H sid ss choices tape)) |} = Val so) <->
   forall r, r < ssLC ->
     let u := r1_u (fst (ss_receiver H sid ss choices tape)) in
     let e_i := xor_bytes (nth (r / 4) u []) (nth (r / 4) u' []) in
     let v_r := nth r (recv_v (recv_expand H sid ss)) [] in
     let d_r := nabla_bit (random_choices rs) r in
     xor_bytes (Phi (chis_of H sid u') v_r)
               (maskb d_r (xor_bytes (Phi (chis_of H sid u') (choices ++ tape)) (Phi (chis_of H sid u') e_i))) =
     xor_bytes (Phi (chis_of H sid u) v_r) (maskb d_r (Phi (chis_of H sid u) (choices ++ tape)))).
Print Assumptions ss_tampered_u_accept_char.

(** The calibrated adversary adv_receiver e g is accepted iff every block has a zero hash image of its deviation or a right guess. *)
Theorem ss_selective_failure : forall H sid ss rs choices tape e g,
  seeds_ok ss rs -> rowP ssLB choices -> rowP ssSB tape ->
  length e = ssTrees -> Forall (rowP ssLPB) e -> length g = ssTrees -> (forall i, i < ssTrees -> (nth i g 0 < 16)%N) ->
  ((exists so, ss_sender H sid rs (adv_receiver H sid ss choices tape e g) = Val so) <->
   (forall i, i < ssTrees ->
      Phi (chis_of H sid (r1_u (adv_receiver H sid ss choices tape e g))) (nth i e []) = zbytes 16 \/
      nth i g 0%N = nth i (random_choices rs) 0%N)).
Proof. exact selective_failure. Qed.
Check ss_selective_failure : forall H sid ss rs choices tape e g,
  seeds_ok ss rs -> rowP ssLB choices -> rowP ssSB tape ->
  length e = ssTrees -> Forall (rowP ssLPB) e -> length g = ssTrees -> (forall i, i < ssTrees -> (nth i g 0 < 16)%N) ->
  ((exists so, ss_sender H sid rs (adv_receiver H sid ss choices tape e g) = Val so) <->
   (forall i, i < ssTrees ->
      Phi (chis_of H sid (r1_u (adv_receiver H sid ss choices tape e g))) (nth i e []) = zbytes 16 \/
      nth i g 0%N = nth i (random_choices rs) 0%N)).
Print Assumptions ss_selective_failure.

(** A wrong guess on a block with non-zero hash image is rejected with the ban error. *)
Theorem ss_selective_failure_reject : forall H sid ss rs choices tape e g,
  seeds_ok ss rs -> rowP ssLB choices -> rowP ssSB tape ->
  length e = ssTrees -> Forall (rowP ssLPB) e -> length g = ssTrees -> (forall i, i < ssTrees -> (nth i g 0 < 16)%N) ->
  (exists i, i < ssTrees /\
     Phi (chis_of H sid (r1_u (adv_receiver H sid ss choices tape e g))) (nth i e []) <> zbytes 16 /\
     nth i g 0%N <> nth i (random_choices rs) 0%N) ->
  ss_sender H sid rs (adv_receiver H sid ss choices tape e g) = Err ss_err_ban.
Proof. exact selective_failure_reject. Qed.
Check ss_selective_failure_reject : forall H sid ss rs choices tape e g,
  seeds_ok ss rs -> rowP ssLB choices -> rowP ssSB tape ->
  length e = ssTrees -> Forall (rowP ssLPB) e -> length g = ssTrees -> (forall i, i < ssTrees -> (nth i g 0 < 16)%N) ->
  (exists i, i < ssTrees /\
     Phi (chis_of H sid (r1_u (adv_receiver H sid ss choices tape e g))) (nth i e []) <> zbytes 16 /\
     nth i g 0%N <> nth i (random_choices rs) 0%N) ->
  ss_sender H sid rs (adv_receiver H sid ss choices tape e g) = Err ss_err_ban.
Print Assumptions ss_selective_failure_reject.

(** Guess zero on every (non-degenerate) deviating block: if accepted, the sender's outputs are those of the honest message. *)
Theorem ss_zero_guess_outputs : forall H sid ss rs choices tape e g,
  seeds_ok ss rs -> rowP ssLB choices -> rowP ssSB tape ->
  length e = ssTrees -> Forall (rowP ssLPB) e -> length g = ssTrees -> (forall i, i < ssTrees -> (nth i g 0 < 16)%N) ->
  forall so,
  (forall i, i < ssTrees -> nth i e [] = zbytes ssLPB \/
     (nth i g 0%N = 0%N /\
      Phi (chis_of H sid (r1_u (adv_receiver H sid ss choices tape e g))) (nth i e []) <> zbytes 16)) ->
  ss_sender H sid rs (adv_receiver H sid ss choices tape e g) = Val so ->
  ss_sender H sid rs (fst (ss_receiver H sid ss choices tape)) = Val so.
Proof. exact zero_guess_outputs. Qed.
Check ss_zero_guess_outputs : forall H sid ss rs choices tape e g,
  seeds_ok ss rs -> rowP ssLB choices -> rowP ssSB tape ->
  length e = ssTrees -> Forall (rowP ssLPB) e -> length g = ssTrees -> (forall i, i < ssTrees -> (nth i g 0 < 16)%N) ->
  forall so,
  (forall i, i < ssTrees -> nth i e [] = zbytes ssLPB \/
     (nth i g 0%N = 0%N /\
      Phi (chis_of H sid (r1_u (adv_receiver H sid ss choices tape e g))) (nth i e []) <> zbytes 16)) ->
  ss_sender H sid rs (adv_receiver H sid ss choices tape e g) = Val so ->
  ss_sender H sid rs (fst (ss_receiver H sid ss choices tape)) = Val so.
Print Assumptions ss_zero_guess_outputs.

(** Non-vacuity: a concrete oracle and seed pair (punctured indices 0 and 15) satisfy the premises. *)
Example ss_c04_hyps_satisfiable :
  let ss := fst (gen_seed_ot ex_keys ex_picks) in
  let rs := snd (gen_seed_ot ex_keys ex_picks) in
  seeds_ok ss rs /\ nth 0 (random_choices rs) 7%N = 0%N /\ nth 1 (random_choices rs) 7%N = 15%N /\
  rowP ssLB (zbytes ssLB) /\ rowP ssSB (zbytes ssSB) /\
  exists so, ss_sender ex_oracle [] rs (fst (ss_receiver ex_oracle [] ss (zbytes ssLB) (zbytes ssSB))) = Val so.
Proof. exact ss_nonvacuous_lem. Qed.
Check ss_c04_hyps_satisfiable :
  let ss := fst (gen_seed_ot ex_keys ex_picks) in
  let rs := snd (gen_seed_ot ex_keys ex_picks) in
  seeds_ok ss rs /\ nth 0 (random_choices rs) 7%N = 0%N /\ nth 1 (random_choices rs) 7%N = 15%N /\
  rowP ssLB (zbytes ssLB) /\ rowP ssSB (zbytes ssSB) /\
  exists so, ss_sender ex_oracle [] rs (fst (ss_receiver ex_oracle [] ss (zbytes ssLB) (zbytes ssSB))) = Val so.
Print Assumptions ss_c04_hyps_satisfiable.
