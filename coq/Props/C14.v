(** C14 -- Discrete-log proof: complete, sound under mutation, bound to context.
    Statements only.  G/O: any group satisfying [group_laws]; H: ANY transcript oracle. *)
From SL Require Import Lib.Base Lib.Oracle Lib.ZqGroup Model.Dlog Proofs.Dlog.
From Coq Require Import Znumtheory.
Local Open Scope Z_scope.

(** Completeness: for every secret x (incl. 0), base point, transcript prefix, nonce, oracle. *)
Theorem dlog_complete : forall G (O : group_ops G) H q, group_laws q O ->
  forall x B pre r, fst (verify G O H q (fst (prove G O H q x B pre r)) (g_smul O x B) B pre) = true.
Proof. exact dlog_complete_lem. Qed.
Check dlog_complete : forall G (O : group_ops G) H q, group_laws q O ->
  forall x B pre r, fst (verify G O H q (fst (prove G O H q x B pre r)) (g_smul O x B) B pre) = true.
Print Assumptions dlog_complete.

(** Any change to the response is rejected (at most one response verifies), unconditionally. *)
Theorem dlog_response_unique : forall G (O : group_ops G) H q, 1 < q -> group_laws q O ->
  forall t s s' y B pre, full_order G O q B ->
  fst (verify G O H q (t, s) y B pre) = true -> fst (verify G O H q (t, s') y B pre) = true ->
  s mod q = s' mod q.
Proof. exact dlog_response_unique_lem. Qed.
Check dlog_response_unique : forall G (O : group_ops G) H q, 1 < q -> group_laws q O ->
  forall t s s' y B pre, full_order G O q B ->
  fst (verify G O H q (t, s) y B pre) = true -> fst (verify G O H q (t, s') y B pre) = true ->
  s mod q = s' mod q.
Print Assumptions dlog_response_unique.

(** Mutation of statement (x' instead of x), commitment (shift d) and/or transcript context: acceptance
    forces the fresh challenge c' to satisfy one explicit linear equation (a single-point oracle event). *)
Theorem dlog_mutation_char : forall G (O : group_ops G) H q, 1 < q -> group_laws q O ->
  forall x r B pre x' d pre', full_order G O q B ->
    let t := g_smul O r B in
    let c0 := fst (fiat_shamir G O H q (g_smul O x B) t B pre) in
    let s := (r + c0 * x) mod q in
    let y' := g_smul O x' B in let t' := g_smul O (r + d) B in
    let c' := fst (fiat_shamir G O H q y' t' B pre') in
    fst (verify G O H q (t', s) y' B pre') = true -> (c0 * x - d - c' * x') mod q = 0.
Proof. exact dlog_mutation_char_lem. Qed.
Check dlog_mutation_char : forall G (O : group_ops G) H q, 1 < q -> group_laws q O ->
  forall x r B pre x' d pre', full_order G O q B ->
    let t := g_smul O r B in
    let c0 := fst (fiat_shamir G O H q (g_smul O x B) t B pre) in
    let s := (r + c0 * x) mod q in
    let y' := g_smul O x' B in let t' := g_smul O (r + d) B in
    let c' := fst (fiat_shamir G O H q y' t' B pre') in
    fst (verify G O H q (t', s) y' B pre') = true -> (c0 * x - d - c' * x') mod q = 0.
Print Assumptions dlog_mutation_char.

(** Mutation of the base point (session 3): the honest proof for y = x*B checked against B' = b*B, under any transcript
    prefix, is accepted only if the fresh challenge c' (oracle value on a query containing B') satisfies one linear equation ... *)
Theorem dlog_base_mutation_char : forall G (O : group_ops G) H q, group_laws q O ->
  forall x r B pre b pre', full_order G O q B ->
    let t := g_smul O r B in let y := g_smul O x B in
    let c0 := fst (fiat_shamir G O H q y t B pre) in
    let s := (r + c0 * x) mod q in
    let B' := g_smul O b B in
    let c' := fst (fiat_shamir G O H q y t B' pre') in
    fst (verify G O H q (t, s) y B' pre') = true -> ((r + c0 * x) * b - r - c' * x) mod q = 0.
Proof. exact dlog_base_mutation_char_lem. Qed.
Check dlog_base_mutation_char : forall G (O : group_ops G) H q, group_laws q O ->
  forall x r B pre b pre', full_order G O q B ->
    let t := g_smul O r B in let y := g_smul O x B in
    let c0 := fst (fiat_shamir G O H q y t B pre) in
    let s := (r + c0 * x) mod q in
    let B' := g_smul O b B in
    let c' := fst (fiat_shamir G O H q y t B' pre') in
    fst (verify G O H q (t, s) y B' pre') = true -> ((r + c0 * x) * b - r - c' * x) mod q = 0.
Print Assumptions dlog_base_mutation_char.

(** ... which for a prime order and a non-zero secret has exactly one solution: any c'' in [0,q) solving the equation IS c'. *)
Theorem dlog_base_mutation_single_point : forall G (O : group_ops G) H q, 1 < q -> group_laws q O ->
  forall x r B pre b pre' c'', prime q -> full_order G O q B -> x mod q <> 0 ->
    let t := g_smul O r B in let y := g_smul O x B in
    let c0 := fst (fiat_shamir G O H q y t B pre) in
    let s := (r + c0 * x) mod q in
    let B' := g_smul O b B in
    let c' := fst (fiat_shamir G O H q y t B' pre') in
    fst (verify G O H q (t, s) y B' pre') = true ->
    0 <= c'' < q -> ((r + c0 * x) * b - r - c'' * x) mod q = 0 -> c' = c''.
Proof. exact dlog_base_mutation_single_point_lem. Qed.
Check dlog_base_mutation_single_point : forall G (O : group_ops G) H q, 1 < q -> group_laws q O ->
  forall x r B pre b pre' c'', prime q -> full_order G O q B -> x mod q <> 0 ->
    let t := g_smul O r B in let y := g_smul O x B in
    let c0 := fst (fiat_shamir G O H q y t B pre) in
    let s := (r + c0 * x) mod q in
    let B' := g_smul O b B in
    let c' := fst (fiat_shamir G O H q y t B' pre') in
    fst (verify G O H q (t, s) y B' pre') = true ->
    0 <= c'' < q -> ((r + c0 * x) * b - r - c'' * x) mod q = 0 -> c' = c''.
Print Assumptions dlog_base_mutation_single_point.

(** Context binding for non-zero secrets and prime order: replay under another transcript is accepted
    only if the two challenges (oracle values on different queries) coincide. *)
Theorem dlog_context_binding : forall G (O : group_ops G) H q, 1 < q -> group_laws q O ->
  forall x r B pre pre', prime q -> full_order G O q B -> x mod q <> 0 ->
    let t := g_smul O r B in let y := g_smul O x B in
    let c0 := fst (fiat_shamir G O H q y t B pre) in
    let c' := fst (fiat_shamir G O H q y t B pre') in
    fst (verify G O H q (t, (r + c0 * x) mod q) y B pre') = true -> c' = c0.
Proof. exact dlog_context_binding_lem. Qed.
Check dlog_context_binding : forall G (O : group_ops G) H q, 1 < q -> group_laws q O ->
  forall x r B pre pre', prime q -> full_order G O q B -> x mod q <> 0 ->
    let t := g_smul O r B in let y := g_smul O x B in
    let c0 := fst (fiat_shamir G O H q y t B pre) in
    let c' := fst (fiat_shamir G O H q y t B pre') in
    fst (verify G O H q (t, (r + c0 * x) mod q) y B pre') = true -> c' = c0.
Print Assumptions dlog_context_binding.

(** The challenge query is an injective function of (transcript prefix, y, t, B) and the prefix of
    (label, session id, party id, action). *)
Theorem dlog_query_injective : forall G (O : group_ops G) q, group_laws q O ->
  forall y t B pre y' t' B' pre',
  pre ++ fs_ops G O y t B = pre' ++ fs_ops G O y' t' B' -> pre = pre' /\ y = y' /\ t = t' /\ B = B'.
Proof. exact fs_query_injective. Qed.
Check dlog_query_injective : forall G (O : group_ops G) q, group_laws q O ->
  forall y t B pre y' t' B' pre',
  pre ++ fs_ops G O y t B = pre' ++ fs_ops G O y' t' B' -> pre = pre' /\ y = y' /\ t = t' /\ B = B'.
Print Assumptions dlog_query_injective.

Theorem dlog_ctx_injective : forall sid party action label sid' party' action' label',
  new_dlog_proof sid party action label = new_dlog_proof sid' party' action' label' ->
  sid = sid' /\ party = party' /\ action = action' /\ label = label'.
Proof. exact ctx_injective. Qed.
Check dlog_ctx_injective : forall sid party action label sid' party' action' label',
  new_dlog_proof sid party action label = new_dlog_proof sid' party' action' label' ->
  sid = sid' /\ party = party' /\ action = action' /\ label = label'.
Print Assumptions dlog_ctx_injective.

(** Non-vacuity: the hypotheses are satisfiable (Z_11 with generator 1, which has full order). *)
Example dlog_hyps_satisfiable :
  group_laws 11 (zq_group 11 lt_1_11) /\ full_order (zq 11) (zq_group 11 lt_1_11) 11 (g_gen (zq_group 11 lt_1_11)) /\ prime 11.
Proof. exact (dlog_nonvacuous). Qed.
Check dlog_hyps_satisfiable :
  group_laws 11 (zq_group 11 lt_1_11) /\ full_order (zq 11) (zq_group 11 lt_1_11) 11 (g_gen (zq_group 11 lt_1_11)) /\ prime 11.
Print Assumptions dlog_hyps_satisfiable.
