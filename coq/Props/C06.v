(** C06 -- all-but-one PPRF (GGM tree): the receiver learns every leaf but the punctured one; tampering.
    Statements only.  H: ANY transcript oracle; sid: any session id; sk / cb / rk: any base-OT outputs with
    [ot_consistent]; tt: the caller's t_tilda buffers, all-zero ([tt_zero]).  Model: coq/Model/Pprf.v. *)
From SL Require Import Lib.Base Lib.Oracle Gen.Params Model.Pprf
     Proofs.PprfBytes Proofs.PprfTree Proofs.Pprf Proofs.PprfTamper Proofs.PprfAdv Proofs.PprfMain Proofs.PprfExample.
Local Open Scope nat_scope.

(** Consistent base OTs, zeroed t_tilda buffers: eval_pprf accepts the honest message. Every oracle, every session id. *)
Theorem pprf_honest_ok : forall H sid sk cb rk tt,
  ot_consistent sk cb rk -> tt_zero tt ->
  exists r, eval_pprf H sid cb rk (honest_msgs H sid sk tt) = Val r.
Proof. exact pprf_honest_ok_lem. Qed.
Check pprf_honest_ok : forall H sid sk cb rk tt,
  ot_consistent sk cb rk -> tt_zero tt ->
  exists r, eval_pprf H sid cb rk (honest_msgs H sid sk tt) = Val r.
Print Assumptions pprf_honest_ok.

(** Per tree: the recorded index is y* (read from the choice bits as the code does) and every leaf y <> y* equals the sender's. *)
Theorem pprf_leaves : forall H sid sk cb rk tt r,
  ot_consistent sk cb rk -> tt_zero tt ->
  eval_pprf H sid cb rk (honest_msgs H sid sk tt) = Val r ->
  forall j, j < Ntrees ->
    fst (nth j r dres) = ystar_tree cb j /\
    forall y, y < 2 ^ Kdepth -> y <> ystar_tree cb j ->
      nth y (snd (nth j r dres)) [] = nth y (fst (nth j (build_pprf H sid sk tt) dbuild)) [].
Proof. exact pprf_leaves_lem. Qed.
Check pprf_leaves : forall H sid sk cb rk tt r,
  ot_consistent sk cb rk -> tt_zero tt ->
  eval_pprf H sid cb rk (honest_msgs H sid sk tt) = Val r ->
  forall j, j < Ntrees ->
    fst (nth j r dres) = ystar_tree cb j /\
    forall y, y < 2 ^ Kdepth -> y <> ystar_tree cb j ->
      nth y (snd (nth j r dres)) [] = nth y (fst (nth j (build_pprf H sid sk tt) dbuild)) [].
Print Assumptions pprf_leaves.

(** The resulting (SenderOTSeed, ReceiverOTSeed) pair satisfies seeds_ok of C03: index < Q, keys equal off the index. *)
Theorem pprf_seeds_ok : forall H sid sk cb rk tt r,
  ot_consistent sk cb rk -> tt_zero tt ->
  eval_pprf H sid cb rk (honest_msgs H sid sk tt) = Val r ->
  seeds_ok (map fst (build_pprf H sid sk tt)) (map fst r) (map snd r).
Proof. exact pprf_seeds_ok_lem. Qed.
Check pprf_seeds_ok : forall H sid sk cb rk tt r,
  ot_consistent sk cb rk -> tt_zero tt ->
  eval_pprf H sid cb rk (honest_msgs H sid sk tt) = Val r ->
  seeds_ok (map fst (build_pprf H sid sk tt)) (map fst r) (map snd r).
Print Assumptions pprf_seeds_ok.

(** The receiver's slot y* is the all-zero string (so it equals the sender's leaf only if an oracle output is 0^32). *)
Theorem pprf_punctured_slot : forall H sid sk cb rk tt r,
  ot_consistent sk cb rk -> tt_zero tt ->
  eval_pprf H sid cb rk (honest_msgs H sid sk tt) = Val r ->
  forall j, j < Ntrees -> nth (ystar_tree cb j) (snd (nth j r dres)) [] = zeros LB.
Proof. exact pprf_punctured_slot_lem. Qed.
Check pprf_punctured_slot : forall H sid sk cb rk tt r,
  ot_consistent sk cb rk -> tt_zero tt ->
  eval_pprf H sid cb rk (honest_msgs H sid sk tt) = Val r ->
  forall j, j < Ntrees -> nth (ystar_tree cb j) (snd (nth j r dres)) [] = zeros LB.
Print Assumptions pprf_punctured_slot.

(** ANY change of s_tilda of any tree of ANY accepted message (honest or not) is rejected. Unconditional. *)
Theorem pprf_flip_digest_rejected : forall H sid cb rk ms j v r,
  j < Ntrees -> j < length ms ->
  eval_pprf H sid cb rk ms = Val r ->
  v <> p_s_tilda (nth j ms default_msg) ->
  eval_pprf H sid cb rk (upd j (set_s_tilda v (nth j ms default_msg)) ms) = Err err_invalid_proof.
Proof. exact pprf_flip_digest_rejected_lem. Qed.
Check pprf_flip_digest_rejected : forall H sid cb rk ms j v r,
  j < Ntrees -> j < length ms ->
  eval_pprf H sid cb rk ms = Val r ->
  v <> p_s_tilda (nth j ms default_msg) ->
  eval_pprf H sid cb rk (upd j (set_s_tilda v (nth j ms default_msg)) ms) = Err err_invalid_proof.
Print Assumptions pprf_flip_digest_rejected.

(** An arbitrary change f of the correction word of the side the receiver does not read at that level changes nothing: same verdict, same leaves, for ANY message. *)
Theorem pprf_flip_unused_side : forall H sid cb rk ms j level (f : list N -> list N),
  S level < Kdepth ->
  eval_pprf H sid cb rk
    (upd j (map_t f level (negb (extract_bit cb (j * Kdepth + S level))) (nth j ms default_msg)) ms) =
  eval_pprf H sid cb rk ms.
Proof. exact pprf_flip_unused_side_lem. Qed.
Check pprf_flip_unused_side : forall H sid cb rk ms j level (f : list N -> list N),
  S level < Kdepth ->
  eval_pprf H sid cb rk
    (upd j (map_t f level (negb (extract_bit cb (j * Kdepth + S level))) (nth j ms default_msg)) ms) =
  eval_pprf H sid cb rk ms.
Print Assumptions pprf_flip_unused_side.

(** A correction word the receiver reads, shifted by any non-zero delta: accepted -> explicit collision (proof hash vs the sender's input, or a leaf-proof hash, or the GGM left-child hash). Partial (DESIGN 3.3): the probability of the collision is not mechanised. *)
Theorem pprf_tamper_char_word : forall H sid sk cb rk tt j level delta,
  ot_consistent sk cb rk -> tt_zero tt -> j < Ntrees -> S level < Kdepth ->
  fit LB delta <> zeros LB ->
  let ms := honest_msgs H sid sk tt in
  let used_side := extract_bit cb (j * Kdepth + S level) in
  accepted (eval_pprf H sid cb rk
              (upd j (map_t (fun w => bxor w (fit LB delta)) level used_side (nth j ms default_msg)) ms)) ->
  (exists ps', hash_collision H sid (map (leaf_proof H sid) (fst (nth j (build_pprf H sid sk tt) dbuild))) ps')
  \/ leaf_collision H sid \/ prg_collision H sid.
Proof. exact pprf_tamper_char_word_lem. Qed.
Check pprf_tamper_char_word : forall H sid sk cb rk tt j level delta,
  ot_consistent sk cb rk -> tt_zero tt -> j < Ntrees -> S level < Kdepth ->
  fit LB delta <> zeros LB ->
  let ms := honest_msgs H sid sk tt in
  let used_side := extract_bit cb (j * Kdepth + S level) in
  accepted (eval_pprf H sid cb rk
              (upd j (map_t (fun w => bxor w (fit LB delta)) level used_side (nth j ms default_msg)) ms)) ->
  (exists ps', hash_collision H sid (map (leaf_proof H sid) (fst (nth j (build_pprf H sid sk tt) dbuild))) ps')
  \/ leaf_collision H sid \/ prg_collision H sid.
Print Assumptions pprf_tamper_char_word.

(** t_tilda replaced by any other 64-byte value: accepted -> collision of the proof hash with the sender's input. Partial in the same sense. *)
Theorem pprf_tamper_char_t_tilda : forall H sid sk cb rk tt j v,
  ot_consistent sk cb rk -> tt_zero tt -> j < Ntrees ->
  let ms := honest_msgs H sid sk tt in
  fit LB2 v <> p_t_tilda (nth j ms default_msg) ->
  accepted (eval_pprf H sid cb rk (upd j (set_t_tilda v (nth j ms default_msg)) ms)) ->
  exists ps', hash_collision H sid (map (leaf_proof H sid) (fst (nth j (build_pprf H sid sk tt) dbuild))) ps'.
Proof. exact pprf_tamper_char_t_tilda_lem. Qed.
Check pprf_tamper_char_t_tilda : forall H sid sk cb rk tt j v,
  ot_consistent sk cb rk -> tt_zero tt -> j < Ntrees ->
  let ms := honest_msgs H sid sk tt in
  fit LB2 v <> p_t_tilda (nth j ms default_msg) ->
  accepted (eval_pprf H sid cb rk (upd j (set_t_tilda v (nth j ms default_msg)) ms)) ->
  exists ps', hash_collision H sid (map (leaf_proof H sid) (fst (nth j (build_pprf H sid sk tt) dbuild))) ps'.
Print Assumptions pprf_tamper_char_t_tilda.

(** The three collision events are on syntactically distinct oracle queries: the query builders are injective. *)
Theorem pprf_queries_distinct : forall sid,
  (forall ps ps', hash_q sid ps = hash_q sid ps' -> ps = ps') /\
  (forall x x', proof_q sid x = proof_q sid x' -> x = x') /\
  (forall x x' b b', ggm_q sid x b = ggm_q sid x' b' -> x = x').
Proof. exact pprf_queries_distinct_lem. Qed.
Check pprf_queries_distinct : forall sid,
  (forall ps ps', hash_q sid ps = hash_q sid ps' -> ps = ps') /\
  (forall x x', proof_q sid x = proof_q sid x' -> x = x') /\
  (forall x x' b b', ggm_q sid x b = ggm_q sid x' b' -> x = x').
Print Assumptions pprf_queries_distinct.

(** Calibrated adversary adv_pprf (any tree, level, side, delta): a right guess of the tree's choice bits is accepted. Unconditional. *)
Theorem pprf_selective_failure_if : forall H sid sk cb rk tt tree level side delta,
  ot_consistent sk cb rk -> tt_zero tt -> tree < Ntrees ->
  accepted (eval_pprf H sid cb rk (adv_msgs H sid sk tt tree level side delta (tree_bits Kdepth tree cb))).
Proof. exact pprf_selective_failure_if_lem. Qed.
Check pprf_selective_failure_if : forall H sid sk cb rk tt tree level side delta,
  ot_consistent sk cb rk -> tt_zero tt -> tree < Ntrees ->
  accepted (eval_pprf H sid cb rk (adv_msgs H sid sk tt tree level side delta (tree_bits Kdepth tree cb))).
Print Assumptions pprf_selective_failure_if.

(** If neither the receiver nor the guessed receiver reads the tampered word, the adversarial message is accepted (it is an unused-side flip). *)
Theorem pprf_selective_failure_unused : forall H sid sk cb rk tt tree level side delta g,
  ot_consistent sk cb rk -> tt_zero tt -> tree < Ntrees -> S level < Kdepth -> length g = Kdepth ->
  extract_bit cb (tree * Kdepth + S level) <> side -> nth (S level) g false <> side ->
  accepted (eval_pprf H sid cb rk (adv_msgs H sid sk tt tree level side delta g)).
Proof. exact pprf_selective_failure_unused_lem. Qed.
Check pprf_selective_failure_unused : forall H sid sk cb rk tt tree level side delta g,
  ot_consistent sk cb rk -> tt_zero tt -> tree < Ntrees -> S level < Kdepth -> length g = Kdepth ->
  extract_bit cb (tree * Kdepth + S level) <> side -> nth (S level) g false <> side ->
  accepted (eval_pprf H sid cb rk (adv_msgs H sid sk tt tree level side delta g)).
Print Assumptions pprf_selective_failure_unused.

(** Accepted -> guess right, or tampered word read by neither, or an explicit coincidence (hash / leaf-proof / PRG collision, or the view coincidence of two different paths that both read the word). Partial: probability of the coincidences, and the view coincidence is not reduced to a collision. *)
Theorem pprf_selective_failure_only_if : forall H sid sk cb rk tt tree level side delta g,
  ot_consistent sk cb rk -> tt_zero tt -> tree < Ntrees -> S level < Kdepth -> length g = Kdepth ->
  fit LB delta <> zeros LB ->
  accepted (eval_pprf H sid cb rk (adv_msgs H sid sk tt tree level side delta g)) ->
  g = tree_bits Kdepth tree cb \/
  (extract_bit cb (tree * Kdepth + S level) <> side /\ nth (S level) g false <> side) \/
  adv_coincidence H sid sk tt cb tree level side delta g.
Proof. exact pprf_selective_failure_only_if_lem. Qed.
Check pprf_selective_failure_only_if : forall H sid sk cb rk tt tree level side delta g,
  ot_consistent sk cb rk -> tt_zero tt -> tree < Ntrees -> S level < Kdepth -> length g = Kdepth ->
  fit LB delta <> zeros LB ->
  accepted (eval_pprf H sid cb rk (adv_msgs H sid sk tt tree level side delta g)) ->
  g = tree_bits Kdepth tree cb \/
  (extract_bit cb (tree * Kdepth + S level) <> side /\ nth (S level) g false <> side) \/
  adv_coincidence H sid sk tt cb tree level side delta g.
Print Assumptions pprf_selective_failure_only_if.

(** The iff: for a tampered word the receiver reads, and the coincidences excluded, accepted <-> the guess is the receiver's path. *)
Theorem pprf_selective_failure : forall H sid sk cb rk tt tree level side delta g,
  ot_consistent sk cb rk -> tt_zero tt -> tree < Ntrees -> S level < Kdepth -> length g = Kdepth ->
  fit LB delta <> zeros LB ->
  extract_bit cb (tree * Kdepth + S level) = side ->
  ~ adv_coincidence H sid sk tt cb tree level side delta g ->
  (accepted (eval_pprf H sid cb rk (adv_msgs H sid sk tt tree level side delta g)) <-> g = tree_bits Kdepth tree cb).
Proof. exact pprf_selective_failure_lem. Qed.
Check pprf_selective_failure : forall H sid sk cb rk tt tree level side delta g,
  ot_consistent sk cb rk -> tt_zero tt -> tree < Ntrees -> S level < Kdepth -> length g = Kdepth ->
  fit LB delta <> zeros LB ->
  extract_bit cb (tree * Kdepth + S level) = side ->
  ~ adv_coincidence H sid sk tt cb tree level side delta g ->
  (accepted (eval_pprf H sid cb rk (adv_msgs H sid sk tt tree level side delta g)) <-> g = tree_bits Kdepth tree cb).
Print Assumptions pprf_selective_failure.

(** Non-vacuity with concrete oracles: consistent base OTs exist; an honest run under a tiny query-dependent oracle is accepted with y* = 5, 10 for trees 0, 1; under the constant oracle a tampered used word IS accepted (premise of tamper_char satisfiable); the adversary is accepted with the right and rejected with a wrong guess. *)
Example pprf_nonvacuous : ot_consistent ex_sk ex_cb ex_rk /\ tt_zero [] /\
  (exists r, eval_pprf H_tiny [9%N] ex_cb ex_rk (honest_msgs H_tiny [9%N] ex_sk []) = Val r /\
             fst (nth 0 r dres) = 5 /\ fst (nth 1 r dres) = 10) /\
  (fit LB [1%N] <> zeros LB /\
   accepted (eval_pprf H_const [] ex_cb ex_rk
              (upd 0 (map_t (fun w => bxor w (fit LB [1%N])) 0 (extract_bit ex_cb (0 * Kdepth + 1))
                            (nth 0 (honest_msgs H_const [] ex_sk []) default_msg))
                   (honest_msgs H_const [] ex_sk [])))) /\
  (accepted (eval_pprf H_tiny [9%N] ex_cb ex_rk
              (adv_msgs H_tiny [9%N] ex_sk [] 3 1 (extract_bit ex_cb (3 * Kdepth + 2)) [1%N] (tree_bits Kdepth 3 ex_cb))) /\
   eval_pprf H_tiny [9%N] ex_cb ex_rk
     (adv_msgs H_tiny [9%N] ex_sk [] 3 1 (extract_bit ex_cb (3 * Kdepth + 2)) [1%N] [false; true; true; true])
   = Err err_invalid_proof).
Proof. exact pprf_nonvacuous_lem. Qed.
Check pprf_nonvacuous : ot_consistent ex_sk ex_cb ex_rk /\ tt_zero [] /\
  (exists r, eval_pprf H_tiny [9%N] ex_cb ex_rk (honest_msgs H_tiny [9%N] ex_sk []) = Val r /\
             fst (nth 0 r dres) = 5 /\ fst (nth 1 r dres) = 10) /\
  (fit LB [1%N] <> zeros LB /\
   accepted (eval_pprf H_const [] ex_cb ex_rk
              (upd 0 (map_t (fun w => bxor w (fit LB [1%N])) 0 (extract_bit ex_cb (0 * Kdepth + 1))
                            (nth 0 (honest_msgs H_const [] ex_sk []) default_msg))
                   (honest_msgs H_const [] ex_sk [])))) /\
  (accepted (eval_pprf H_tiny [9%N] ex_cb ex_rk
              (adv_msgs H_tiny [9%N] ex_sk [] 3 1 (extract_bit ex_cb (3 * Kdepth + 2)) [1%N] (tree_bits Kdepth 3 ex_cb))) /\
   eval_pprf H_tiny [9%N] ex_cb ex_rk
     (adv_msgs H_tiny [9%N] ex_sk [] 3 1 (extract_bit ex_cb (3 * Kdepth + 2)) [1%N] [false; true; true; true])
   = Err err_invalid_proof).
Print Assumptions pprf_nonvacuous.
