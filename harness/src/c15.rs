//! C15 / C16: histories against the REAL `SimpleMessageRelay` (feature simple-relay) on a current-thread
//! tokio runtime with the cfg(sl_crypto_verif) virtual clock, and header-codec cases against message.rs.
//!
//! Output (dir `out=`):
//!   cases.txt   one case per line
//!     codec <id> <ttl> <flags> <payload> <frame> <hdr.id> <hdr.ttl secs> <hdr.flags> <AskMsg::allocate>
//!     hist <generator> <nconn> <op>;<op>;...       op =  S,c,t_ns,frame,ok(1/0) | R,t_ns,frame | D,c,f1:f2:.. | M,id1:id2:.. | P
//!       (hex strings, `-` = empty; D/M lists sorted; P = the implementation panicked in the preceding operation)
//!   oracle.txt  `evaluations n` then `FAIL <case index> <property sentence> <detail>` lines of the
//!               implementation-only oracle (the property statements checked on the recorded real behaviour)
//!   stats.json  operation-kind / outcome distribution
//! Replay: `replay=<file>` with one `hist`/`codec` line re-runs exactly that case.
use crate::util::*;
use futures_util::{FutureExt, SinkExt, StreamExt};
use rand::{Rng, RngCore};
use sl_mpc_mate::coord::simple::{verif_clock, MessageRelay, SimpleMessageRelay};
use sl_mpc_mate::message::{allocate_message, AskMsg, MsgHdr, MsgId};
use std::collections::{BTreeMap, HashMap};
use std::io::Write;
use std::panic::{catch_unwind, AssertUnwindSafe};
use std::sync::Mutex;
use std::time::Duration;

pub const HDR: usize = 36;
pub const NS: u64 = 1_000_000_000;

#[derive(Clone, Debug)]
pub enum Op {
    Send { c: usize, f: Vec<u8>, t: u64 },
    RelaySend { f: Vec<u8>, t: u64 },
    Drain { c: usize },
    Messages,
}

#[derive(Clone, Debug, PartialEq)]
pub enum Obs {
    Send(bool),
    Drain(usize, Vec<Vec<u8>>),
    Msgs(Vec<Vec<u8>>),
    Panic,
}

pub struct Hist {
    pub gen: String,
    pub nconn: usize,
    pub ops: Vec<Op>,
}

// ------------------------------------------------------------------------------------------ real relay
async fn settle() {
    // spawned `tx.send(msg)` tasks need one poll each; the scheduler runs up to 61 tasks per yield
    for _ in 0..8 {
        tokio::task::yield_now().await;
    }
}

async fn drain(c: &mut MessageRelay) -> Vec<Vec<u8>> {
    let mut out = Vec::new();
    let mut idle = 0;
    loop {
        match c.next().now_or_never() {
            Some(Some(m)) => {
                out.push(m);
                idle = 0;
            }
            Some(None) => break,
            None => {
                // Pending: nothing receivable (or the cooperative budget ran out: retry after a yield)
                idle += 1;
                if idle >= 3 {
                    break;
                }
                tokio::task::yield_now().await;
            }
        }
    }
    out.sort();
    out
}

async fn run_async(nconn: usize, ops: &[Op], rec: &Mutex<Vec<Vec<Obs>>>) {
    verif_clock::clear();
    verif_clock::set(Duration::ZERO);
    let relay = SimpleMessageRelay::new();
    let mut conns: Vec<MessageRelay> = (0..nconn).map(|_| relay.connect()).collect();
    for op in ops {
        let obs = match op {
            Op::Send { c, f, t } => {
                verif_clock::set(Duration::from_nanos(*t));
                let r = conns[*c].send(f.clone()).await;
                settle().await;
                vec![Obs::Send(r.is_ok())]
            }
            Op::RelaySend { f, t } => {
                verif_clock::set(Duration::from_nanos(*t));
                relay.send(f.clone());
                settle().await;
                vec![]
            }
            Op::Drain { c } => {
                settle().await;
                vec![Obs::Drain(*c, drain(&mut conns[*c]).await)]
            }
            Op::Messages => {
                let mut m: Vec<Vec<u8>> = relay.messages().iter().map(|i| i.as_slice().to_vec()).collect();
                m.sort();
                vec![Obs::Msgs(m)]
            }
        };
        rec.lock().unwrap().push(obs);
    }
}

pub struct Runner {
    rt: tokio::runtime::Runtime,
}

impl Runner {
    pub fn new() -> Self {
        Runner { rt: tokio::runtime::Builder::new_current_thread().build().unwrap() }
    }
    /// Observations per operation; if the implementation panics, the list stops with `[Obs::Panic]`.
    pub fn run(&mut self, nconn: usize, ops: &[Op]) -> Vec<Vec<Obs>> {
        let rec = Mutex::new(Vec::new());
        let r = catch_unwind(AssertUnwindSafe(|| self.rt.block_on(run_async(nconn, ops, &rec))));
        let mut v = match rec.into_inner() {
            Ok(v) => v,
            Err(p) => p.into_inner(),
        };
        if r.is_err() {
            v.push(vec![Obs::Panic]);
            *self = Runner::new();
        }
        verif_clock::clear();
        v
    }
}

// ------------------------------------------------------------------------------------------ text format
fn hx(b: &[u8]) -> String {
    if b.is_empty() {
        "-".to_string()
    } else {
        hex(b)
    }
}
fn unhx(s: &str) -> Vec<u8> {
    if s == "-" {
        vec![]
    } else {
        unhex(s)
    }
}
fn hxlist(l: &[Vec<u8>]) -> String {
    if l.is_empty() {
        return "-".to_string();
    }
    // an empty frame inside a non-empty list is written as `e`
    l.iter().map(|f| if f.is_empty() { "e".to_string() } else { hex(f) }).collect::<Vec<_>>().join(":")
}

pub fn hist_line(h: &Hist, obs: &[Vec<Obs>]) -> String {
    let mut parts = Vec::new();
    for (i, op) in h.ops.iter().enumerate() {
        let ob = obs.get(i);
        if let Some(o) = ob {
            if o.first() == Some(&Obs::Panic) {
                parts.push("P".to_string());
                break;
            }
        }
        if ob.is_none() {
            break;
        }
        let ob = ob.unwrap();
        parts.push(match op {
            Op::Send { c, f, t } => {
                let ok = matches!(ob.first(), Some(Obs::Send(true)));
                format!("S,{},{},{},{}", c, t, hx(f), if ok { 1 } else { 0 })
            }
            Op::RelaySend { f, t } => format!("R,{},{}", t, hx(f)),
            Op::Drain { c } => match ob.first() {
                Some(Obs::Drain(_, l)) => format!("D,{},{}", c, hxlist(l)),
                _ => format!("D,{},-", c),
            },
            Op::Messages => match ob.first() {
                Some(Obs::Msgs(l)) => format!("M,{}", hxlist(l)),
                _ => "M,-".to_string(),
            },
        });
    }
    format!("hist {} {} {}", h.gen, h.nconn, parts.join(";"))
}

/// parse a `hist` line (recorded observations are ignored)
pub fn parse_hist(line: &str) -> Option<Hist> {
    let mut it = line.split_whitespace();
    if it.next()? != "hist" {
        return None;
    }
    let gen = it.next()?.to_string();
    let nconn: usize = it.next()?.parse().ok()?;
    let mut ops = Vec::new();
    for p in it.next().unwrap_or("").split(';') {
        let f: Vec<&str> = p.split(',').collect();
        match f.first().copied() {
            Some("S") => ops.push(Op::Send { c: f[1].parse().ok()?, t: f[2].parse().ok()?, f: unhx(f[3]) }),
            Some("R") => ops.push(Op::RelaySend { t: f[1].parse().ok()?, f: unhx(f[2]) }),
            Some("D") => ops.push(Op::Drain { c: f[1].parse().ok()? }),
            Some("M") => ops.push(Op::Messages),
            _ => {}
        }
    }
    Some(Hist { gen, nconn, ops })
}

// ------------------------------------------------------------------------------------------ implementation-only oracle
/// The property statements of C15/C16, checked directly on the recorded behaviour of the real relay
/// (no heap, no model: per-id lifetimes and per-ask expiries are recomputed from the history).
#[derive(Default)]
pub struct Stats {
    pub m: BTreeMap<String, u64>,
}
impl Stats {
    pub fn add(&mut self, k: &str, n: u64) {
        *self.m.entry(k.to_string()).or_insert(0) += n;
    }
    pub fn max(&mut self, k: &str, n: u64) {
        let e = self.m.entry(k.to_string()).or_insert(0);
        if *e < n {
            *e = n;
        }
    }
}

fn fid(f: &[u8]) -> Vec<u8> {
    f[..32].to_vec()
}
fn fttl(f: &[u8]) -> u64 {
    // independent of message.rs: u16 little endian at offset 32, seconds
    (f[32] as u64 | (f[33] as u64) << 8) * NS
}

fn publish(f: &Vec<u8>, t: u64, st: &mut Stats, live: &mut HashMap<Vec<u8>, (Vec<u8>, u64)>,
           firsts: &mut HashMap<Vec<u8>, Vec<Vec<u8>>>, outstanding: &mut Vec<(usize, Vec<u8>, u64)>,
           must: &mut HashMap<(usize, Vec<u8>), u64>) {
    // publication of frame f at time t (len > 36)
    let id = fid(f);
    let is_live = matches!(live.get(&id), Some((_, e)) if *e > t);
    if is_live {
        st.add("outcome.publish_duplicate_ignored", 1);
        return;
    }
    if live.contains_key(&id) {
        st.add("outcome.publish_after_expiry", 1);
    }
    live.insert(id.clone(), (f.clone(), t + fttl(f)));
    firsts.entry(id.clone()).or_default().push(f.clone());
    let mut woke = 0;
    outstanding.retain(|(c, i2, e)| {
        if *i2 == id {
            if *e > t {
                *must.entry((*c, id.clone())).or_insert(0) += 1;
                woke += 1;
            }
            false
        } else {
            true
        }
    });
    if woke > 0 {
        st.add("outcome.publish_wakes_waiters", 1);
        st.add("outcome.waiters_woken_live", woke);
    } else {
        st.add("outcome.publish_stored_no_waiter", 1);
    }
}

pub fn oracle(h: &Hist, obs: &[Vec<Obs>], st: &mut Stats) -> Vec<String> {
    let mut fails = Vec::new();
    let mut asks: HashMap<(usize, Vec<u8>), u64> = HashMap::new();
    let mut deliv: HashMap<(usize, Vec<u8>), u64> = HashMap::new();
    let mut must: HashMap<(usize, Vec<u8>), u64> = HashMap::new();
    let mut live: HashMap<Vec<u8>, (Vec<u8>, u64)> = HashMap::new(); // id -> (first live publication, expiry)
    let mut firsts: HashMap<Vec<u8>, Vec<Vec<u8>>> = HashMap::new();
    let mut outstanding: Vec<(usize, Vec<u8>, u64)> = Vec::new(); // unanswered asks (conn, id, own expiry)
    let mut now: u64 = 0; // clock of the last ask / publication (the operations that run the relay's cleanup)
    let mut clock: u64 = 0; // latest clock value any operation was performed at
    let mut realop: u64 = 0; // number of send/ask operations so far
    let mut drained_at: HashMap<usize, u64> = HashMap::new(); // conn -> realop count at its last drain
    for (i, op) in h.ops.iter().enumerate() {
        let ob = match obs.get(i) {
            Some(o) => o,
            None => break,
        };
        if ob.first() == Some(&Obs::Panic) {
            fails.push(format!("panic op#{}", i));
            st.add("outcome.panic", 1);
            break;
        }
        match op {
            Op::Send { c, f, t } => {
                realop += 1;
                clock = clock.max(*t);
                let ok = matches!(ob.first(), Some(Obs::Send(true)));
                if ok != (f.len() >= HDR) {
                    fails.push(format!("sink-result op#{} len={} ok={}", i, f.len(), ok));
                }
                if f.len() < HDR {
                    st.add("op.send_short_frame", 1);
                    st.add(if ok { "outcome.short_frame_accepted" } else { "outcome.send_err" }, 1);
                } else if f.len() == HDR {
                    st.add("op.ask", 1);
                    now = *t;
                    let id = fid(f);
                    *asks.entry((*c, id.clone())).or_insert(0) += 1;
                    let is_live = matches!(live.get(&id), Some((_, e)) if *e > *t);
                    if is_live {
                        *must.entry((*c, id.clone())).or_insert(0) += 1;
                        st.add("outcome.ask_answered_immediately", 1);
                    } else {
                        if live.contains_key(&id) {
                            st.add("outcome.ask_after_publication_expired", 1);
                            live.remove(&id);
                        }
                        let joined = outstanding.iter().any(|(_, i2, e)| *i2 == id && *e > *t);
                        st.add(if joined { "outcome.ask_joins_waiters" } else { "outcome.ask_first_waiter" }, 1);
                        outstanding.push((*c, id, *t + fttl(f)));
                    }
                } else {
                    st.add("op.publish_sink", 1);
                    now = *t;
                    publish(f, *t, st, &mut live, &mut firsts, &mut outstanding, &mut must);
                }
            }
            Op::RelaySend { f, t } => {
                realop += 1;
                clock = clock.max(*t);
                if f.len() > HDR {
                    st.add("op.publish_relay_send", 1);
                    now = *t;
                    publish(f, *t, st, &mut live, &mut firsts, &mut outstanding, &mut must);
                } else {
                    st.add("op.relay_send_no_payload", 1);
                    st.add("outcome.relay_send_ignored", 1);
                }
            }
            Op::Drain { c } => {
                st.add("op.drain", 1);
                let l = match ob.first() {
                    Some(Obs::Drain(_, l)) => l.clone(),
                    _ => vec![],
                };
                if !l.is_empty() {
                    st.add("outcome.drain_nonempty", 1);
                    st.add("outcome.frames_delivered", l.len() as u64);
                }
                let fresh = drained_at.get(c).map(|d| *d + 1 >= realop).unwrap_or(realop <= 1);
                for f in &l {
                    if f.len() <= HDR {
                        fails.push(format!("delivered-frame-without-payload op#{} conn={}", i, c));
                        continue;
                    }
                    let id = fid(f);
                    *deliv.entry((*c, id.clone())).or_insert(0) += 1;
                    // byte-identical to a first live publication of that id
                    let among = firsts.get(&id).map(|v| v.contains(f)).unwrap_or(false);
                    if !among {
                        fails.push(format!("first-publication-wins op#{} conn={} delivered={}", i, c, hex(f)));
                    } else if fresh {
                        // delivered by the latest operation: must be the publication live right now
                        if live.get(&id).map(|(m, _)| m != f).unwrap_or(true) {
                            fails.push(format!("first-live-publication op#{} conn={} delivered={}", i, c, hex(f)));
                        }
                    }
                }
                drained_at.insert(*c, realop);
                for ((c2, id), n) in deliv.iter() {
                    if c2 == c && *n > *asks.get(&(*c2, id.clone())).unwrap_or(&0) {
                        fails.push(format!("askers-only/at-most-once op#{} conn={} id={} deliveries={} asks={}", i, c,
                            hex(id), n, asks.get(&(*c2, id.clone())).unwrap_or(&0)));
                    }
                }
                for ((c2, id), n) in must.iter() {
                    if c2 == c && *n > *deliv.get(&(*c2, id.clone())).unwrap_or(&0) {
                        fails.push(format!("answered-if-live op#{} conn={} id={} due={} delivered={}", i, c, hex(id), n,
                            deliv.get(&(*c2, id.clone())).unwrap_or(&0)));
                    }
                }
            }
            Op::Messages => {
                st.add("op.messages", 1);
                let l = match ob.first() {
                    Some(Obs::Msgs(l)) => l.clone(),
                    _ => vec![],
                };
                st.max("outcome.max_store_size", l.len() as u64);
                if l.is_empty() {
                    st.add("outcome.messages_empty", 1);
                }
                // live entries are kept: an entry may be forgotten only once the clock has reached its expiry
                // (`clock` is the latest clock value of ANY operation, so a relay that also cleaned up while
                // ignoring a malformed frame would not be reported)
                for (id, (_, e)) in live.iter() {
                    if *e > clock && !l.contains(id) {
                        fails.push(format!("ready-kept-until-own-ttl op#{} id={} expiry={} now={}", i, hex(id), e, clock));
                    }
                }
                for (_, id, e) in outstanding.iter() {
                    let superseded = matches!(live.get(id), Some((_, e2)) if *e2 > now);
                    if *e > clock && !superseded && !l.contains(id) {
                        fails.push(format!("waiters-kept-until-max op#{} id={} expiry={} now={}", i, hex(id), e, clock));
                    }
                }
                // nothing whose lifetime ended before `now` remains
                for id in &l {
                    let a = matches!(live.get(id), Some((_, e)) if *e >= now);
                    let b = outstanding.iter().any(|(_, i2, e)| i2 == id && *e >= now);
                    if !(a || b) {
                        fails.push(format!("no-dead-entries op#{} id={} now={}", i, hex(id), now));
                        st.add("outcome.dead_entry_seen", 1);
                    }
                }
            }
        }
    }
    fails
}

// ------------------------------------------------------------------------------------------ generators
pub fn ids5() -> Vec<[u8; 32]> {
    let mut a = [1u8; 32];
    let mut v = vec![a];
    a[31] = 2; // differs in the last byte only
    v.push(a);
    let mut b = [1u8; 32];
    b[0] = 2; // differs in the first byte only
    v.push(b);
    v.push([0u8; 32]);
    v.push([255u8; 32]);
    v
}

fn pubframe(id: &[u8; 32], ttl: u32, flags: u16, payload: &[u8]) -> Vec<u8> {
    allocate_message(&MsgId::from(*id), ttl, flags, payload)
}
fn askframe(id: &[u8; 32], ttl: u32) -> Vec<u8> {
    AskMsg::allocate(&MsgId::from(*id), ttl)
}

/// EXHAUSTIVE: all histories of length <= maxlen over {publish(id,ttl), ask(conn,id,ttl)} x 2 connections x
/// 2 ids x TTL {1,3} x clock advance {0,1,3} s; id and connection symmetry removed (the first id mentioned is
/// id 0, the first asking connection is connection 0). After every operation: drain both, messages().
pub fn exhaustive(maxlen: usize, out: &mut Vec<Hist>) {
    let ids = ids5();
    // letter = (advance, kind: 0 publish / 1 ask, conn, id, ttl)
    let mut letters = Vec::new();
    for adv in [0u64, 1, 3] {
        for id in 0..2usize {
            for ttl in [1u32, 3] {
                letters.push((adv, 0usize, 0usize, id, ttl));
                for c in 0..2usize {
                    letters.push((adv, 1usize, c, id, ttl));
                }
            }
        }
    }
    assert_eq!(letters.len(), 36);
    let mut idx = vec![0usize; 0];
    fn canonical(w: &[(u64, usize, usize, usize, u32)]) -> bool {
        if let Some(l) = w.first() {
            if l.3 != 0 {
                return false;
            }
        }
        match w.iter().find(|l| l.1 == 1) {
            Some(l) => l.2 == 0,
            None => true,
        }
    }
    for len in 1..=maxlen {
        idx.clear();
        idx.resize(len, 0);
        loop {
            let w: Vec<_> = idx.iter().map(|i| letters[*i]).collect();
            if canonical(&w) {
                let mut t = 0u64;
                let mut ops = Vec::new();
                for (k, l) in w.iter().enumerate() {
                    t += l.0 * NS;
                    if l.1 == 0 {
                        // distinct payload per position so that an overwriting duplicate is visible
                        let f = pubframe(&ids[l.3], l.4, 0, &[k as u8 + 1, l.3 as u8, l.4 as u8]);
                        if k % 2 == 1 {
                            ops.push(Op::RelaySend { f, t });
                        } else {
                            ops.push(Op::Send { c: 1, f, t });
                        }
                    } else {
                        ops.push(Op::Send { c: l.2, f: askframe(&ids[l.3], l.4), t });
                    }
                    ops.push(Op::Drain { c: 0 });
                    ops.push(Op::Drain { c: 1 });
                    ops.push(Op::Messages);
                }
                out.push(Hist { gen: format!("exhaustive{}", len), nconn: 2, ops });
            }
            // next word
            let mut p = len;
            loop {
                if p == 0 {
                    break;
                }
                p -= 1;
                idx[p] += 1;
                if idx[p] < letters.len() {
                    break;
                }
                idx[p] = 0;
                if p == 0 {
                    p = usize::MAX;
                    break;
                }
            }
            if p == usize::MAX {
                break;
            }
        }
    }
}

const BOUNDARY_TTL: [u32; 9] = [65535, 65536, 65537, 0x1_0003, 0xffff_ffff, 0x8000_0001, 0xffff_0000, 0x7fff_ffff, 65534];

pub struct Profile {
    pub nconn: usize,
    pub nids: usize,
    pub maxlen: usize,
    pub ttl_max: u32,
    pub boundary_ttl_pct: u32,
    pub big_advance: bool,
    pub messages_after_each: bool,
    pub malformed_pct: u32,
}

fn advance(r: &mut impl RngCore, p: &Profile) -> u64 {
    let x = r.next_u32() % 100;
    match x {
        0..=32 => 0,
        33..=42 => 1,
        43..=54 => NS - 1,
        55..=74 => NS,
        75..=79 => NS + 1,
        80..=86 => 2 * NS,
        87..=90 => 3 * NS,
        91..=96 => r.next_u64() % (8 * NS),
        _ => {
            if p.big_advance {
                [65535 * NS, 65536 * NS, 65535 * NS - 1, 65534 * NS][(r.next_u32() % 4) as usize]
            } else {
                NS
            }
        }
    }
}

pub fn random_history(r: &mut impl RngCore, rm: &mut impl RngCore, p: &Profile, gen: &str, prefix: Vec<Op>, t0: u64) -> Hist {
    let ids = ids5();
    let mut ops = prefix;
    let mut t = t0;
    let len = 1 + (r.next_u32() as usize) % p.maxlen;
    let mut serial: u32 = 0;
    while ops.len() < len {
        t += advance(r, p);
        let ttl = if r.next_u32() % 100 < p.boundary_ttl_pct {
            BOUNDARY_TTL[(r.next_u32() % BOUNDARY_TTL.len() as u32) as usize]
        } else {
            r.next_u32() % (p.ttl_max + 1)
        };
        let id = &ids[(r.next_u32() as usize) % p.nids];
        let c = (r.next_u32() as usize) % p.nconn;
        let mut real = true;
        if rm.next_u32() % 100 < p.malformed_pct {
            // the malformed stream
            match rm.next_u32() % 6 {
                0 => {
                    let n = (rm.next_u32() % 36) as usize;
                    let mut f = vec![0u8; n];
                    rm.fill_bytes(&mut f);
                    ops.push(Op::Send { c, f, t });
                }
                1 => {
                    // a valid frame cut short
                    let mut f = pubframe(id, ttl, 0, &[1, 2, 3]);
                    f.truncate((rm.next_u32() % 36) as usize);
                    ops.push(Op::Send { c, f, t });
                }
                2 => ops.push(Op::RelaySend { f: askframe(id, ttl), t }), // header only
                3 => {
                    let n = (rm.next_u32() % 36) as usize;
                    let mut f = vec![0u8; n];
                    rm.fill_bytes(&mut f);
                    ops.push(Op::RelaySend { f, t });
                }
                4 => ops.push(Op::Send { c, f: vec![], t }),
                _ => {
                    // a header-only frame with flags set is still an ask
                    let fl = rm.next_u32() as u16 | 1;
                    ops.push(Op::Send { c, f: pubframe(id, ttl, fl, &[]), t });
                }
            }
        } else {
            match r.next_u32() % 100 {
                0..=37 => ops.push(Op::Send { c, f: askframe(id, ttl), t }),
                38..=66 => {
                    serial += 1;
                    let n = 1 + (r.next_u32() % 40) as usize;
                    let mut payload = vec![0u8; n];
                    r.fill_bytes(&mut payload);
                    payload[0] = serial as u8;
                    let flags = if r.next_u32() % 2 == 0 { 0 } else { r.next_u32() as u16 };
                    let f = pubframe(id, ttl, flags, &payload);
                    if r.next_u32() % 100 < 40 {
                        ops.push(Op::RelaySend { f, t });
                    } else {
                        ops.push(Op::Send { c, f, t });
                    }
                }
                67..=84 => {
                    ops.push(Op::Drain { c });
                    real = false;
                }
                _ => {
                    ops.push(Op::Messages);
                    real = false;
                }
            }
        }
        if real && p.messages_after_each {
            ops.push(Op::Messages);
        }
    }
    for c in 0..p.nconn {
        ops.push(Op::Drain { c });
    }
    ops.push(Op::Messages);
    Hist { gen: gen.to_string(), nconn: p.nconn, ops }
}

/// C16: scenario prefixes for the orderings the property names; boundary offsets in {-1ns, 0, +1ns}.
pub fn c16_template(r: &mut impl RngCore, which: u32) -> (Vec<Op>, u64, &'static str) {
    let ids = ids5();
    let d = |r: &mut dyn RngCore| -> i64 { [-1i64, 0, 1][(r.next_u32() % 3) as usize] };
    let at = |base: u64, off: i64| -> u64 { (base as i64 + off).max(0) as u64 };
    let i = &ids[(r.next_u32() % 2) as usize];
    let j = &ids[2];
    let mut ops = Vec::new();
    let m = Op::Messages;
    match which % 6 {
        0 => {
            // ask-expiry < publish < publish-expiry; an unrelated ask expires while the publication lives
            let t1 = at(NS, d(r));
            ops.push(Op::Send { c: 0, f: askframe(i, 1), t: 0 });
            ops.push(Op::Send { c: 1, f: askframe(j, 1), t: 0 });
            ops.push(m.clone());
            ops.push(Op::Send { c: 2, f: pubframe(i, 2, 0, &[0xA1]), t: t1 });
            ops.push(m.clone());
            let t2 = at(t1 + NS, d(r));
            ops.push(Op::Send { c: 1, f: askframe(i, 1), t: t2.max(t1) });
            ops.push(m.clone());
            let t3 = at(t1 + 2 * NS, d(r)).max(t2).max(t1);
            ops.push(Op::Send { c: 2, f: askframe(i, 1), t: t3 });
            ops.push(m.clone());
            (ops, t3, "c16-ask-lt-pub-lt-pubexp")
        }
        1 => {
            // re-publication after expiry
            ops.push(Op::RelaySend { f: pubframe(i, 1, 0, &[0xB1]), t: 0 });
            ops.push(m.clone());
            let t1 = at(NS, d(r));
            ops.push(Op::RelaySend { f: pubframe(i, 2, 0, &[0xB2]), t: t1 });
            ops.push(m.clone());
            ops.push(Op::Send { c: 0, f: askframe(i, 1), t: t1 });
            ops.push(m.clone());
            let t2 = at(t1 + 2 * NS, d(r)).max(t1);
            ops.push(Op::Send { c: 1, f: askframe(i, 0), t: t2 });
            ops.push(m.clone());
            (ops, t2, "c16-republish")
        }
        2 => {
            // stale Ask entry due while the publication is live (kind check), long-lived publication
            ops.push(Op::Send { c: 0, f: askframe(i, 1), t: 0 });
            ops.push(Op::Send { c: 1, f: askframe(i, 2), t: 0 });
            ops.push(Op::RelaySend { f: pubframe(i, 3, 0, &[0xC1]), t: 0 });
            ops.push(m.clone());
            let t1 = at(NS, d(r));
            ops.push(Op::Send { c: 2, f: askframe(j, 0), t: t1 });
            ops.push(m.clone());
            let t2 = at(2 * NS, d(r)).max(t1);
            ops.push(Op::Send { c: 2, f: askframe(i, 1), t: t2 });
            ops.push(m.clone());
            let t3 = at(3 * NS, d(r)).max(t2);
            ops.push(Op::Send { c: 0, f: askframe(j, 1), t: t3 });
            ops.push(m.clone());
            (ops, t3, "c16-stale-ask-vs-ready")
        }
        3 => {
            // stale Ask entries of an earlier lifetime vs new waiters: one due before, one after the new expiry
            ops.push(Op::Send { c: 0, f: askframe(i, 2), t: 0 });
            ops.push(Op::Send { c: 1, f: askframe(i, 5), t: 0 });
            ops.push(Op::RelaySend { f: pubframe(i, 1, 0, &[0xD1]), t: 0 });
            let t1 = at(NS, d(r));
            ops.push(Op::Send { c: 2, f: askframe(i, 3), t: t1.max(NS) }); // new lifetime: waiters until ~4s
            ops.push(m.clone());
            let t2 = at(2 * NS, d(r)).max(t1.max(NS));
            ops.push(Op::Send { c: 0, f: askframe(j, 0), t: t2 }); // stale (2s) entry pops: waiters must stay
            ops.push(m.clone());
            let t3 = at(4 * NS, d(r)).max(t2);
            ops.push(Op::Send { c: 0, f: askframe(j, 0), t: t3 });
            ops.push(m.clone());
            (ops, t3, "c16-stale-ask-vs-waiters")
        }
        4 => {
            // waiters joined by asks with a shorter and a longer TTL (max, not min, not last)
            ops.push(Op::Send { c: 0, f: askframe(i, 3), t: 0 });
            ops.push(Op::Send { c: 1, f: askframe(i, 1), t: 0 });
            ops.push(Op::Send { c: 2, f: askframe(i, 2), t: 0 });
            ops.push(m.clone());
            let t1 = at(NS, d(r));
            ops.push(Op::Send { c: 0, f: askframe(j, 0), t: t1 });
            ops.push(m.clone());
            let t2 = at(2 * NS, d(r)).max(t1);
            ops.push(Op::RelaySend { f: pubframe(i, 1, 0, &[0xE1]), t: t2 });
            ops.push(m.clone());
            (ops, t2, "c16-waiters-max")
        }
        _ => {
            // equal timestamps: entries of both kinds and two ids all due at 2s
            ops.push(Op::Send { c: 0, f: askframe(i, 2), t: 0 });
            ops.push(Op::RelaySend { f: pubframe(j, 2, 0, &[0xF1]), t: 0 });
            ops.push(Op::Send { c: 1, f: askframe(j, 2), t: 0 });
            ops.push(Op::RelaySend { f: pubframe(i, 1, 0, &[0xF2]), t: NS });
            ops.push(Op::Send { c: 2, f: askframe(i, 1), t: NS });
            ops.push(m.clone());
            let t2 = at(2 * NS, d(r));
            ops.push(Op::Send { c: 0, f: askframe(i, 0), t: t2 });
            ops.push(m.clone());
            ops.push(Op::Send { c: 0, f: askframe(j, 0), t: t2 });
            ops.push(m.clone());
            (ops, t2, "c16-equal-timestamps")
        }
    }
}

/// Burst histories: many distinct ids at once, so that one connection has more pending deliveries than any bounded
/// channel / batch size, and many heap records fall due at the same operation.
fn burst_id(k: usize) -> [u8; 32] {
    let mut id = [0x42u8; 32];
    id[0] = (k >> 8) as u8;
    id[1] = k as u8;
    id[31] = 0xB0;
    id
}
pub fn burst_history(which: usize, n: usize) -> Hist {
    let mut ops = Vec::new();
    let name;
    match which % 3 {
        0 => {
            // n asks of one connection, then n publications, then the connection reads: every ask answered exactly once
            name = "burst-asks-then-publications";
            for k in 0..n { ops.push(Op::Send { c: 0, f: askframe(&burst_id(k), 5), t: 0 }); }
            ops.push(Op::Messages);
            for k in 0..n { ops.push(Op::RelaySend { f: pubframe(&burst_id(k), 5, 0, &[k as u8, 0xC0]), t: NS }); }
            ops.push(Op::Drain { c: 0 });
            ops.push(Op::Drain { c: 1 });
            ops.push(Op::Messages);
        }
        1 => {
            // n publications and n asks (other ids) all due at 1s; one operation at 3s: nothing may remain; asks for
            // the expired ids get nothing
            name = "burst-expiry";
            for k in 0..n { ops.push(Op::RelaySend { f: pubframe(&burst_id(k), 1, 0, &[k as u8, 0xC1]), t: 0 }); }
            for k in 0..n { ops.push(Op::Send { c: 1, f: askframe(&burst_id(1000 + k), 1), t: 0 }); }
            ops.push(Op::Messages);
            ops.push(Op::Send { c: 0, f: askframe(&burst_id(5000), 0), t: 3 * NS });
            ops.push(Op::Messages);
            ops.push(Op::Send { c: 0, f: askframe(&burst_id(n - 1), 1), t: 3 * NS });
            ops.push(Op::Send { c: 0, f: askframe(&burst_id(0), 1), t: 3 * NS });
            ops.push(Op::Drain { c: 0 });
            ops.push(Op::RelaySend { f: pubframe(&burst_id(1000 + n - 1), 1, 0, &[0xC2]), t: 3 * NS });
            ops.push(Op::Drain { c: 1 });
            ops.push(Op::Messages);
        }
        _ => {
            // n publications, then one connection asks for all of them (immediate replies), reads, asks again
            name = "burst-publications-then-asks";
            for k in 0..n { ops.push(Op::RelaySend { f: pubframe(&burst_id(k), 9, 0, &[k as u8, 0xC3]), t: 0 }); }
            for k in 0..n { ops.push(Op::Send { c: 0, f: askframe(&burst_id(k), 1), t: NS }); }
            ops.push(Op::Drain { c: 0 });
            ops.push(Op::Messages);
        }
    }
    Hist { gen: name.to_string(), nconn: 2, ops }
}

// ------------------------------------------------------------------------------------------ concurrent clients
/// The `schedules` quantifier (partial): clients and publishers as concurrent tasks on a MULTI-THREADED runtime,
/// released by a barrier; the clock is frozen and TTLs are long, so the expected per-connection delivery
/// multiset does not depend on the interleaving: one copy per ask, all copies of an id byte-identical and equal
/// to one of the frames published under it (whichever publication the schedule made the first), nothing else.
pub fn concurrent(seed: u64, n: usize, st: &mut Stats) -> Vec<String> {
    use std::sync::Arc;
    let rt = tokio::runtime::Builder::new_multi_thread().worker_threads(4).enable_time().build().unwrap();
    let mut fails = Vec::new();
    let ids: Vec<[u8; 32]> = ids5()[..3].to_vec();
    for k in 0..n {
        let mut r = rng(seed, &format!("c15-concurrent-{k}"));
        let nclients = 2 + (r.next_u32() % 3) as usize;
        let mut plans: Vec<Vec<(usize, usize)>> = Vec::new();
        for _ in 0..nclients {
            let mut p = Vec::new();
            for i in 0..ids.len() {
                if r.next_u32() % 3 != 0 {
                    p.push((i, 1 + (r.next_u32() % 2) as usize));
                }
            }
            plans.push(p);
        }
        // 1..3 candidate publications per id, dealt to two publisher tasks
        let mut cands: Vec<Vec<Vec<u8>>> = vec![Vec::new(); ids.len()];
        let mut pubs: Vec<Vec<Vec<u8>>> = vec![Vec::new(), Vec::new()];
        for (i, id) in ids.iter().enumerate() {
            for j in 0..(1 + r.next_u32() % 3) {
                let f = pubframe(id, 1000, 0, &[i as u8, j as u8, (r.next_u32() % 251) as u8]);
                cands[i].push(f.clone());
                pubs[(r.next_u32() % 2) as usize].push(f);
            }
        }
        verif_clock::clear();
        verif_clock::set(Duration::ZERO);
        let ids2 = ids.clone();
        let plans2 = plans.clone();
        let res: Vec<(Vec<Vec<u8>>, Option<Vec<u8>>)> = rt.block_on(async move {
            let relay = Arc::new(SimpleMessageRelay::new());
            let barrier = Arc::new(tokio::sync::Barrier::new(plans2.len() + pubs.len()));
            let mut handles = Vec::new();
            for plan in plans2.into_iter() {
                let relay = relay.clone();
                let b = barrier.clone();
                let ids = ids2.clone();
                handles.push(tokio::spawn(async move {
                    let mut conn = relay.connect();
                    b.wait().await;
                    let mut total = 0;
                    for (i, cnt) in plan {
                        for _ in 0..cnt {
                            conn.send(askframe(&ids[i], 1000)).await.unwrap();
                            total += 1;
                            tokio::task::yield_now().await;
                        }
                    }
                    let mut got = Vec::new();
                    for _ in 0..total {
                        match tokio::time::timeout(Duration::from_secs(10), conn.next()).await {
                            Ok(Some(m)) => got.push(m),
                            _ => break,
                        }
                    }
                    let extra = tokio::time::timeout(Duration::from_millis(15), conn.next()).await.ok().flatten();
                    (got, extra)
                }));
            }
            let mut ph = Vec::new();
            for (pi, frames) in pubs.into_iter().enumerate() {
                let relay = relay.clone();
                let b = barrier.clone();
                ph.push(tokio::spawn(async move {
                    let mut conn = relay.connect();
                    b.wait().await;
                    for f in frames {
                        if pi == 0 {
                            relay.send(f);
                        } else {
                            conn.send(f).await.unwrap();
                        }
                        tokio::task::yield_now().await;
                    }
                }));
            }
            for h in ph {
                let _ = h.await;
            }
            let mut out = Vec::new();
            for h in handles {
                out.push(h.await.unwrap_or((vec![], None)));
            }
            out
        });
        st.add("concurrent.runs", 1);
        let mut seen: Vec<Option<Vec<u8>>> = vec![None; ids.len()];
        for (c, (got, extra)) in res.iter().enumerate() {
            st.add("concurrent.deliveries", got.len() as u64);
            let mut want: Vec<Vec<u8>> = Vec::new();
            for (i, cnt) in &plans[c] {
                for _ in 0..*cnt {
                    want.push(ids[*i].to_vec());
                }
            }
            let mut have: Vec<Vec<u8>> = got.iter().map(|m| m[..32.min(m.len())].to_vec()).collect();
            want.sort();
            have.sort();
            if want != have {
                fails.push(format!("concurrent run {} client {}: asked {} received {} (ids differ)", k, c, want.len(), have.len()));
            }
            if extra.is_some() {
                fails.push(format!("concurrent run {} client {}: an unasked extra message arrived", k, c));
            }
            for m in got {
                if let Some(i) = ids.iter().position(|x| m.len() >= 32 && x[..] == m[..32]) {
                    if !cands[i].contains(m) {
                        fails.push(format!("concurrent run {} client {}: delivered bytes were never published", k, c));
                    }
                    match &seen[i] {
                        None => seen[i] = Some(m.clone()),
                        Some(p) => {
                            if p != m {
                                fails.push(format!("concurrent run {} client {}: two different publications of one id delivered", k, c));
                            }
                        }
                    }
                }
            }
        }
    }
    verif_clock::clear();
    fails
}

// ------------------------------------------------------------------------------------------ codec cases
fn codec_cases(seed: u64, thorough: bool, f: &mut impl Write, fails: &mut Vec<String>, base: usize, st: &mut Stats) -> usize {
    let mut r = rng(seed, "c15-codec");
    let ttls: Vec<u32> = vec![0, 1, 7, 255, 256, 65534, 65535, 65536, 65537, 0x1ffff, 0x7fff_ffff, 0x8000_0000, 0xffff_ffff];
    let flagss: Vec<u16> = vec![0, 1, 0x00ff, 0x0100, 0x8000, 0xffff];
    let mut n = 0;
    let mut one = |id: [u8; 32], ttl: u32, flags: u16, payload: Vec<u8>, n: &mut usize| {
        let frame = allocate_message(&MsgId::from(id), ttl, flags, &payload);
        let ask = AskMsg::allocate(&MsgId::from(id), ttl);
        let hdr: &MsgHdr = frame.as_slice().try_into().unwrap();
        let (rid, rttl, rflags) = (hdr.id().as_slice().to_vec(), hdr.ttl().as_secs(), hdr.flags());
        // the property sentence, directly
        if rid != id.to_vec() || rttl != (ttl & 0xffff) as u64 || rflags != flags || frame.len() != HDR + payload.len()
            || frame[HDR..] != payload[..] || ask.len() != HDR || ask[..34] != frame[..34] || ask[34..] != [0, 0]
            || hdr.ttl() != Duration::from_secs((ttl & 0xffff) as u64)
        {
            fails.push(format!("FAIL {} header-round-trip ttl={} flags={}", base + *n, ttl, flags));
        }
        st.add(if ttl > 0xffff { "codec.ttl_above_16_bits" } else { "codec.ttl_in_range" }, 1);
        writeln!(f, "codec {} {} {} {} {} {} {} {} {}", hex(&id), ttl, flags, hx(&payload), hex(&frame), hex(&rid), rttl, rflags,
            hex(&ask)).unwrap();
        *n += 1;
    };
    for ttl in &ttls {
        for flags in &flagss {
            let mut id = [0u8; 32];
            r.fill_bytes(&mut id);
            let plen = [0usize, 1, 40][(r.next_u32() % 3) as usize];
            let mut p = vec![0u8; plen];
            r.fill_bytes(&mut p);
            one(id, *ttl, *flags, p, &mut n);
        }
    }
    for id in ids5() {
        one(id, 5, 0, vec![9], &mut n);
    }
    for _ in 0..(if thorough { 3000 } else { 200 }) {
        let mut id = [0u8; 32];
        r.fill_bytes(&mut id);
        let ttl = match r.next_u32() % 3 {
            0 => r.next_u32(),
            1 => r.next_u32() % 0x20000,
            _ => r.next_u32() % 8,
        };
        let plen = (r.next_u32() % 41) as usize;
        let mut p = vec![0u8; plen];
        r.fill_bytes(&mut p);
        one(id, ttl, r.next_u32() as u16, p, &mut n);
    }
    n
}

// ------------------------------------------------------------------------------------------ entry
pub fn run(kv: &Args) -> i32 {
    run_profile(kv, false)
}

pub fn run_profile(kv: &Args, c16: bool) -> i32 {
    let seed = kv.u64("seed", 1);
    let out = kv.str("out", if c16 { "/verif/build/run/C16" } else { "/verif/build/run/C15" });
    std::fs::create_dir_all(&out).unwrap();
    let thorough = kv.thorough();
    let mut hists: Vec<Hist> = Vec::new();
    let mut cases = std::io::BufWriter::new(std::fs::File::create(format!("{out}/cases.txt")).unwrap());
    let mut fails: Vec<String> = Vec::new();
    let mut st = Stats::default();
    let mut ncase = 0usize;
    if let Some(rp) = kv.get("replay") {
        let txt = std::fs::read_to_string(rp).expect("replay file");
        for line in txt.lines() {
            if let Some(h) = parse_hist(line) {
                hists.push(h);
            }
        }
    } else {
        if !c16 {
            ncase += codec_cases(seed, thorough, &mut cases, &mut fails, 0, &mut st);
        }
        let maxlen = kv.u64("exhaustive", if c16 { if thorough { 3 } else { 2 } } else if thorough { 4 } else { 3 }) as usize;
        exhaustive(maxlen, &mut hists);
        let stream = if c16 { "c16" } else { "c15" };
        let mut r = rng(seed, stream);
        let mut rm = rng(seed, &format!("{stream}-malformed"));
        if c16 {
            let p = Profile { nconn: 3, nids: 3, maxlen: 40, ttl_max: 3, boundary_ttl_pct: 0, big_advance: false,
                messages_after_each: true, malformed_pct: 2 };
            let n = kv.u64("random", if thorough { 4000 } else { 400 });
            for k in 0..n {
                let (prefix, t0, name) = c16_template(&mut r, k as u32);
                hists.push(random_history(&mut r, &mut rm, &p, name, prefix, t0));
            }
            let p2 = Profile { nconn: 3, nids: 2, maxlen: 60, ttl_max: 3, boundary_ttl_pct: 0, big_advance: false,
                messages_after_each: true, malformed_pct: 0 };
            for _ in 0..n / 2 {
                hists.push(random_history(&mut r, &mut rm, &p2, "c16-random", vec![], 0));
            }
        } else {
            let p = Profile { nconn: 4, nids: 5, maxlen: 60, ttl_max: 7, boundary_ttl_pct: 12, big_advance: true,
                messages_after_each: false, malformed_pct: 8 };
            let n = kv.u64("random", if thorough { 3000 } else { 400 });
            for _ in 0..n {
                hists.push(random_history(&mut r, &mut rm, &p, "random", vec![], 0));
            }
            // dense: few ids, short TTLs, so that expiry, duplicates and multiple waiters are frequent
            let p2 = Profile { nconn: 4, nids: 2, maxlen: 60, ttl_max: 3, boundary_ttl_pct: 0, big_advance: false,
                messages_after_each: false, malformed_pct: 3 };
            for _ in 0..n / 2 {
                hists.push(random_history(&mut r, &mut rm, &p2, "random-dense", vec![], 0));
            }
        }
    }
    if kv.get("replay").is_none() {
        for (which, n) in [(0usize, 130usize), (1, 70), (1, 150), (2, 130)] {
            hists.push(burst_history(which, n));
        }
        if thorough {
            for (which, n) in [(0usize, 300usize), (1, 300), (2, 300), (0, 101), (1, 65)] {
                hists.push(burst_history(which, n));
            }
        }
    }
    let mut runner = Runner::new();
    let mut evals = ncase as u64;
    for h in &hists {
        let obs = runner.run(h.nconn, &h.ops);
        for m in oracle(h, &obs, &mut st) {
            if fails.len() < 200 {
                fails.push(format!("FAIL {} {}", ncase, m));
            }
        }
        st.add(&format!("histories.{}", h.gen), 1);
        evals += 1;
        writeln!(cases, "{}", hist_line(h, &obs)).unwrap();
        ncase += 1;
    }
    cases.flush().unwrap();
    // concurrent clients on a multi-threaded runtime (implementation-only; C15)
    let mut cf = std::fs::File::create(format!("{out}/concurrent.txt")).unwrap();
    if !c16 && kv.get("replay").is_none() {
        let n = kv.u64("concurrent", if thorough { 400 } else { 40 }) as usize;
        let cfails = concurrent(seed, n, &mut st);
        writeln!(cf, "runs {}", n).unwrap();
        for l in cfails.iter().take(50) {
            writeln!(cf, "FAIL {}", l).unwrap();
        }
    } else {
        writeln!(cf, "runs 0").unwrap();
    }
    let mut f = std::fs::File::create(format!("{out}/oracle.txt")).unwrap();
    writeln!(f, "evaluations {}", evals).unwrap();
    for l in &fails {
        writeln!(f, "{}", l).unwrap();
    }
    let mut f = std::fs::File::create(format!("{out}/stats.json")).unwrap();
    let body: Vec<String> = st.m.iter().map(|(k, v)| format!("\"{}\": {}", k, v)).collect();
    writeln!(f, "{{{}}}", body.join(", ")).unwrap();
    0
}
