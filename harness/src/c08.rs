//! C08: Paillier homomorphisms (`PK::add`, `PK::mul`, `PK::mul_vartime`) on the real implementation at the
//! four limb configurations.  Uses the machinery of c07.rs.  Implementation-only oracle: ciphertext closed
//! forms c1*c2 mod N^2, c^k mod N^2, mul_vartime = mul, and both decryptions = (m1+m2) mod N, (k*m1) mod N.
use crate::c07::*;
use crate::util::*;
use num_bigint_dig::RandBigInt;
use rand::Rng;
use rand_chacha::ChaCha20Rng;

fn expect(out: &mut Out, key: &Key, prop: &str, what: &str, got: &R, want: &R) {
    out.evals += 1;
    if got != want && out.fails.len() < 50 {
        out.fails.push(format!("{} {} | {}: implementation {} expected {}", key.head(), prop, what, got.show(), want.show()));
    }
}

/// add on two ciphertexts known to encrypt m1, m2
pub fn prop_add_c(imp: &dyn PImpl, key: &Key, prop: &str, m1: &B, c1: &B, m2: &B, c2: &B, out: &mut Out, coq: bool) {
    let s = imp.add(c1, c2);
    expect(out, key, prop, "add vs c1*c2 mod N^2", &s, &R::V((c1 * c2) % &key.nn));
    if coq {
        out.lines.push(format!("add {} {} {}", hx(c1), hx(c2), s.show()));
    }
    if let Some(sv) = s.val() {
        let want = R::V((m1 + m2) % &key.n);
        let d = imp.decrypt(sv);
        let f = imp.decrypt_fast(sv);
        expect(out, key, prop, "decrypt(add) vs (m1+m2) mod N", &d, &want);
        expect(out, key, prop, "decrypt_fast(add) vs (m1+m2) mod N", &f, &want);
        if &(m1 + m2) >= &key.n {
            out.nontrivial += 1;
        }
        if coq {
            out.lines.push(format!("dec {} {}", hx(sv), d.show()));
            out.lines.push(format!("decf {} {}", hx(sv), f.show()));
        }
    }
}

pub fn prop_mul_c(imp: &dyn PImpl, key: &Key, prop: &str, m: &B, c: &B, k: &B, out: &mut Out, coq: bool) {
    let x = imp.mul(c, k);
    let y = imp.mul_vartime(c, k);
    let want = if k < &key.n { R::V(c.modpow(k, &key.nn)) } else { R::Nothing };
    expect(out, key, prop, "mul vs c^k mod N^2", &x, &want);
    expect(out, key, prop, "mul_vartime vs mul", &y, &x);
    if coq {
        out.lines.push(format!("mul {} {} {}", hx(c), hx(k), x.show()));
        out.lines.push(format!("mulvt {} {} {}", hx(c), hx(k), y.show()));
    }
    if let Some(xv) = x.val() {
        let want = R::V((k * m) % &key.n);
        let d = imp.decrypt(xv);
        let f = imp.decrypt_fast(xv);
        expect(out, key, prop, "decrypt(mul) vs k*m mod N", &d, &want);
        expect(out, key, prop, "decrypt_fast(mul) vs k*m mod N", &f, &want);
        if &(k * m) >= &key.n {
            out.nontrivial += 1;
        }
        if coq {
            out.lines.push(format!("dec {} {}", hx(xv), d.show()));
            out.lines.push(format!("decf {} {}", hx(xv), f.show()));
        }
    }
}

fn enc_of(imp: &dyn PImpl, key: &Key, prop: &str, m: &B, r: &B, out: &mut Out) -> Option<B> {
    let c = imp.encrypt(m, r);
    let want = if m < &key.n { R::V(key.enc(m, r)) } else { R::Nothing };
    expect(out, key, prop, "encrypt_with_r vs closed form", &c, &want);
    c.val().cloned()
}

pub fn prop_add(imp: &dyn PImpl, key: &Key, m1: &B, r1: &B, m2: &B, r2: &B, out: &mut Out, coq: bool) {
    let prop = format!("add {} {} {} {}", hx(m1), hx(r1), hx(m2), hx(r2));
    if let (Some(c1), Some(c2)) = (enc_of(imp, key, &prop, m1, r1, out), enc_of(imp, key, &prop, m2, r2, out)) {
        prop_add_c(imp, key, &prop, m1, &c1, m2, &c2, out, coq);
    }
}

pub fn prop_mul(imp: &dyn PImpl, key: &Key, m: &B, r: &B, k: &B, out: &mut Out, coq: bool) {
    let prop = format!("mul {} {} {}", hx(m), hx(r), hx(k));
    if let Some(c) = enc_of(imp, key, &prop, m, r, out) {
        prop_mul_c(imp, key, &prop, m, &c, k, out, coq);
    }
}

fn rand_unit(rng: &mut ChaCha20Rng, key: &Key) -> B {
    loop {
        let r = rng.gen_biguint_below(&key.n);
        if r != bu(0) && key.unit(&r) {
            return r;
        }
    }
}

/// Chains (Props/C08.v `hom_tree`, `add_hom_any_ciphertext`, `mul_hom_any_ciphertext`): a pool of ciphertexts with the
/// plaintext each carries; every step takes operands from the pool -- results of earlier add / mul calls included --
/// and puts its result back, so operands become ciphertexts of depth up to `steps`.  Every call is compared with the
/// closed forms and both decryptions (in-harness oracle); the calls flagged `coq` are evaluated by the model on the
/// same operands.  Scalars favour N-1, (N+1)/2 and values that make the carried plaintext wrap.
pub fn chains(imp: &dyn PImpl, key: &Key, rng: &mut ChaCha20Rng, steps: usize, ncoq: usize, out: &mut Out) {
    let mut pool: Vec<(B, B)> = Vec::new();
    let seeds = [&key.n - bu(1), (&key.n + bu(1)) / bu(2), rng.gen_biguint_below(&key.n), bu(0), bu(1) % &key.n];
    for m in seeds.iter() {
        let r = rand_unit(rng, key);
        if let Some(c) = enc_of(imp, key, &format!("add {} {} 0 1", hx(m), hx(&r)), m, &r, out) {
            pool.push((m.clone(), c));
        }
    }
    if pool.is_empty() {
        return;
    }
    for s in 0..steps {
        let coq = s < ncoq;
        // prefer the most recent results, so that depth grows
        let pick = |rng: &mut ChaCha20Rng, len: usize| if rng.gen_range(0..3) > 0 { len - 1 - rng.gen_range(0..len.min(3)) } else { rng.gen_range(0..len) };
        let i = pick(rng, pool.len());
        let (m1, c1) = pool[i].clone();
        if rng.gen_range(0..2) == 0 {
            let j = pick(rng, pool.len());
            let (m2, c2) = pool[j].clone();
            let prop = format!("addc {} {} {} {}", hx(&m1), hx(&c1), hx(&m2), hx(&c2));
            prop_add_c(imp, key, &prop, &m1, &c1, &m2, &c2, out, coq);
            if let Some(v) = imp.add(&c1, &c2).val() {
                pool.push(((&m1 + &m2) % &key.n, v.clone()));
            }
        } else {
            let k = match rng.gen_range(0..5) {
                0 => &key.n - bu(1),
                1 => (&key.n + bu(1)) / bu(2),
                2 => bu(2),
                _ => rng.gen_biguint_below(&key.n),
            };
            let prop = format!("mulc {} {} {}", hx(&m1), hx(&c1), hx(&k));
            prop_mul_c(imp, key, &prop, &m1, &c1, &k, out, coq);
            // alternate the two multiplications as the source of the next operand
            let x = if s % 2 == 0 { imp.mul(&c1, &k) } else { imp.mul_vartime(&c1, &k) };
            if let Some(v) = x.val() {
                pool.push(((&k * &m1) % &key.n, v.clone()));
            }
        }
    }
}

/// boundary (m1, m2) pairs and (m, k) pairs under a key
fn boundary(rng: &mut ChaCha20Rng, key: &Key) -> (Vec<(B, B)>, Vec<(B, B)>) {
    let n = &key.n;
    let n1 = n - bu(1);
    let mut a = rng.gen_biguint_below(n);
    if a == bu(0) {
        a = bu(1); // keeps N - a a plaintext
    }
    let b = rng.gen_biguint_below(n);
    let adds = vec![
        (a.clone(), n - &a),          // m1 + m2 = N
        (n1.clone(), n1.clone()),     // N-1 + N-1
        (a.clone(), b.clone()),       // random (wraps with probability 1/2)
        (n1.clone(), bu(1)),          // = N
        (bu(0), bu(0)),
        (a.clone(), &n1 - &a),        // = N-1, no wrap
    ];
    // k*m just above a multiple of N: m = ceil(t*N / k)
    let mut k = rng.gen_biguint_below(n);
    if k == bu(0) {
        k = bu(2);
    }
    let t = rng.gen_biguint_below(&k) + bu(1);
    let m_above = ((&t * n) + &k - bu(1)) / &k;
    let m_above = if &m_above < n { m_above } else { n1.clone() };
    let muls = vec![
        (m_above, k.clone()),         // k*m in [tN, tN + k)
        (n1.clone(), n1.clone()),     // (N-1)^2 = 1 mod N
        (a.clone(), b.clone()),
        (a.clone(), bu(0)),           // k = 0
        (b.clone(), bu(1)),
        (bu(0), k.clone()),
        (bu(2), (n + bu(1)) / bu(2)), // 2 * (N+1)/2 = N + 1
    ];
    (adds, muls)
}

/// scalars with structure at the 64-bit limb boundaries (all below N): powers of two around every boundary, values whose
/// interior limbs are zero, values with a single non-zero limb, the largest scalars
fn limb_scalars(rng: &mut ChaCha20Rng, key: &Key) -> Vec<B> {
    let n = &key.n;
    let bits = n.bits() as u32;
    let mut v: Vec<B> = Vec::new();
    let mut push = |x: B| { if &x < n && !v.contains(&x) { v.push(x); } };
    let mut w = 64;
    while w <= bits + 1 {
        for x in [pow2(w - 1), pow2(w) - bu(1), pow2(w), pow2(w) + bu(1)] { push(x); }
        w += 64;
    }
    let limbs = ((bits + 63) / 64) as usize;
    // a random scalar with limb j cleared (j below the top limb), and with only limbs 0 and top kept
    for j in 0..limbs.saturating_sub(1) {
        let k = rng.gen_biguint_below(n);
        let mask = ((pow2(64) - bu(1)) << (64 * j)) as B;
        let cleared = &k - (&k & &mask);
        push(cleared);
        if j + 1 < limbs {
            push(pow2(64 * (j as u32 + 1)) * bu(rng.gen_range(1..u32::MAX) as u64));   // single non-zero limb j+1
        }
    }
    if limbs > 2 {
        let top = n >> (64 * (limbs - 1));
        if top > bu(1) { push(((&top - bu(1)) << (64 * (limbs - 1))) + bu(5)); }      // top and bottom limb only
    }
    push(n - bu(2));
    push(n >> 1usize);
    v
}

pub fn run(kv: &Args) -> i32 {
    let seed = kv.u64("seed", 1);
    let out_dir = kv.str("out", "/verif/build/run/C08");
    std::fs::create_dir_all(&out_dir).unwrap();
    quiet_panics();
    if let Some(spec) = kv.get("rp") {
        return replay_one(spec, &out_dir, true);
    }
    let thorough = kv.thorough();
    let toys = toy_pairs();

    #[derive(Clone)]
    enum Mode {
        Exhaustive,        // N <= 35: every (m1, m2) for add and every (m, k) for mul, i.e. every (m1, m2, k)
        ToySample(usize),  // random + boundary pairs
        Real(usize),       // mid/big key: boundary + random; number of add and of mul instances sent to Coq
    }
    let mut jobs: Vec<(Key, Mode)> = Vec::new();
    for &wp in &CONFIGS {
        for &(p, q) in &toys {
            let key = Key::new(wp, &bu(p), &bu(q), "toy");
            if p * q <= 35 && (wp == 128 || thorough) {
                jobs.push((key, Mode::Exhaustive));
            } else {
                let cnt = match (wp, thorough) {
                    (128, false) => 40,
                    (128, true) => 2000,
                    (256, false) => 12,
                    (512, false) => 6,
                    (1024, false) => 3,
                    (_, true) => 60,
                    _ => 3,
                };
                jobs.push((key, Mode::ToySample(cnt)));
            }
        }
        for k in mid_keys(seed, wp, if thorough { 12 } else { 4 }) {
            jobs.push((k, Mode::Real(8)));
        }
        for (i, k) in big_keys(seed, wp).into_iter().enumerate() {
            let ncoq = match (wp, thorough) {
                (1024, false) => if i == 1 || i == 2 { 1 } else { 0 },
                (1024, true) => 3,
                (512, false) => 2,
                (_, false) => 4,
                (_, true) => 8,
            };
            jobs.push((k, Mode::Real(ncoq)));
        }
    }

    let groups: Vec<Group> = run_parallel(jobs.len(), |ji| {
        let (key, mode) = &jobs[ji];
        let mut out = Out::default();
        let mut rng = rng(seed, &format!("c08-job-{ji}"));
        let imp = match make(key.wp, &key.p, &key.q) {
            Some(i) => i,
            None => {
                out.evals += 1;
                out.fails.push(format!("{} key | from_pq panicked on a valid key", key.head()));
                return Group { key: key.clone(), out };
            }
        };
        let imp = &*imp;
        match mode {
            Mode::Exhaustive => {
                let n = key.n.to_str_radix(10).parse::<u64>().unwrap();
                // one ciphertext per plaintext, randomiser varying with m
                let mut cs: Vec<(B, B, B)> = Vec::new();
                for m in 0..n {
                    let r = rand_unit(&mut rng, key);
                    let c = enc_of(imp, key, &format!("add {:x} {} 0 1", m, hx(&r)), &bu(m), &r, &mut out).unwrap_or_else(|| bu(0));
                    cs.push((bu(m), r, c));
                }
                let mut coq_left = 24;
                for (m1, r1, c1) in cs.iter() {
                    for (m2, r2, c2) in cs.iter() {
                        let coq = coq_left > 0 && rng.gen_range(0..(n * n / 12).max(1)) == 0;
                        if coq {
                            coq_left -= 1;
                        }
                        let prop = format!("add {} {} {} {}", hx(m1), hx(r1), hx(m2), hx(r2));
                        prop_add_c(imp, key, &prop, m1, c1, m2, c2, &mut out, coq);
                    }
                }
                let mut coq_left = 24;
                for (m1, r1, c1) in cs.iter() {
                    for k in 0..n {
                        let coq = coq_left > 0 && rng.gen_range(0..(n * n / 12).max(1)) == 0;
                        if coq {
                            coq_left -= 1;
                        }
                        let prop = format!("mul {} {} {:x}", hx(m1), hx(r1), k);
                        prop_mul_c(imp, key, &prop, m1, c1, &bu(k), &mut out, coq);
                    }
                }
                chains(imp, key, &mut rng, 32, 6, &mut out);
            }
            Mode::ToySample(cnt) => {
                let (adds, muls) = boundary(&mut rng, key);
                let r1 = rand_unit(&mut rng, key);
                let r2 = rand_unit(&mut rng, key);
                for (i, (a, b)) in adds.iter().enumerate() {
                    if i < *cnt {
                        prop_add(imp, key, a, &r1, b, &r2, &mut out, i < 2);
                    }
                }
                for (i, (m, k)) in muls.iter().enumerate() {
                    if i < *cnt {
                        prop_mul(imp, key, m, &r1, k, &mut out, i < 2);
                    }
                }
                // the neutral ciphertext 1 on either side of add
                if let Some(c) = enc_of(imp, key, "add-one", &adds[0].0, &r1, &mut out) {
                    let prop = format!("addc {} {} 0 1", hx(&adds[0].0), hx(&c));
                    prop_add_c(imp, key, &prop, &adds[0].0, &c, &bu(0), &bu(1), &mut out, false);
                    prop_add_c(imp, key, &prop, &bu(0), &bu(1), &adds[0].0, &c, &mut out, false);
                }
                chains(imp, key, &mut rng, (*cnt).clamp(6, 24), 3, &mut out);
                for _ in 0..cnt.saturating_sub(7) {
                    let (a, b, k) = (rng.gen_biguint_below(&key.n), rng.gen_biguint_below(&key.n), rng.gen_biguint_below(&key.n));
                    let (r1, r2) = (rand_unit(&mut rng, key), rand_unit(&mut rng, key));
                    prop_add(imp, key, &a, &r1, &b, &r2, &mut out, false);
                    prop_mul(imp, key, &a, &r1, &k, &mut out, false);
                }
            }
            Mode::Real(ncoq) => {
                let (adds, muls) = boundary(&mut rng, key);
                for (i, (a, b)) in adds.iter().enumerate() {
                    let (r1, r2) = (rand_unit(&mut rng, key), if i % 2 == 0 { rand_unit(&mut rng, key) } else { &key.n - bu(1) });
                    prop_add(imp, key, a, &r1, b, &r2, &mut out, i < *ncoq);
                }
                for (i, (m, k)) in muls.iter().enumerate() {
                    let r = rand_unit(&mut rng, key);
                    prop_mul(imp, key, m, &r, k, &mut out, i < *ncoq);
                }
                // plaintexts at the carry boundaries of g^m = 1 + m*N (their ciphertexts are the operands of add / mul)
                for (i, m0) in carry_plaintexts(key).iter().enumerate() {
                    let r = rand_unit(&mut rng, key);
                    let m2 = if i % 2 == 0 { &key.n - bu(7) } else { bu(5) };
                    prop_add(imp, key, m0, &r, &m2, &(&key.n - bu(1)), &mut out, false);
                    prop_mul(imp, key, m0, &r, &bu(3), &mut out, false);
                }
                chains(imp, key, &mut rng, if key.wp >= 512 { 4 } else { 8 }, if key.wp >= 1024 { ncoq.saturating_sub(1).min(2) } else { (*ncoq).min(2) }, &mut out);
                // scalars with limb structure (zero interior limbs, powers of two at the limb boundaries, top bit set)
                let ks = limb_scalars(&mut rng, key);
                let m = rng.gen_biguint_below(&key.n);
                let r = rand_unit(&mut rng, key);
                if let Some(c) = enc_of(imp, key, "mul-limb", &m, &r, &mut out) {
                    for (i, k) in ks.iter().enumerate() {
                        let prop = format!("mul {} {} {}", hx(&m), hx(&r), hx(k));
                        prop_mul_c(imp, key, &prop, &m, &c, k, &mut out, *ncoq > 0 && i % 16 == 3);
                    }
                    // the neutral ciphertext 1 = Enc(0; 1) = c^0 on either side of add, and the special values N+1, N^2-1
                    let one = bu(1);
                    let specials: Vec<(B, B)> = vec![(bu(0), one.clone()), (bu(1) % &key.n, &key.n + bu(1)), (bu(0), &key.nn - bu(1))];
                    for (j, (ms, cs)) in specials.iter().enumerate() {
                        let prop = format!("addc {} {} {} {}", hx(&m), hx(&c), hx(ms), hx(cs));
                        prop_add_c(imp, key, &prop, &m, &c, ms, cs, &mut out, *ncoq > 0 && j == 0);
                        prop_add_c(imp, key, &prop, ms, cs, &m, &c, &mut out, *ncoq > 0 && j == 0);
                        prop_add_c(imp, key, &prop, ms, cs, ms, cs, &mut out, false);
                    }
                    if let Some(z) = imp.mul(&c, &bu(0)).val() {
                        let prop = format!("addc {} {} 0 {}", hx(&m), hx(&c), hx(z));
                        prop_add_c(imp, key, &prop, &m, &c, &bu(0), z, &mut out, false);
                    }
                }
            }
        }
        Group { key: key.clone(), out }
    });
    write_outputs(&out_dir, &groups, &[format!("toy_keys {}", toys.len())]);
    0
}
