//! C02 harness module (not implemented yet).
use crate::util::*;

pub fn run(_kv: &Args) -> i32 {
    eprintln!("c02: not implemented");
    2
}
