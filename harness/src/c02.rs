//! C02: a cheating or corrupted random-VOLE reply is caught up to the guessing bound (both variants).
//!
//! Against the REAL receivers (rvole::RVOLEReceiver::process, rvole_ot_variant::RVOLEReceiver::process):
//!  * the honest message is accepted;
//!  * fault enumeration of the round-two message: single-bit flips in every field, byte and field
//!    substitutions, row swaps, cross-session and cross-run splices (thorough: EVERY bit of the message of
//!    the OT-extension variant, a stride for the base-OT variant).  Oracle: Err, or the relation
//!    c + d = a*b (with the honest c) is intact; never a panic;
//!  * a calibrated adversarial sender implemented here with merlin/k256 (input replaced at chosen gadget
//!    positions, message re-derived self-consistently under guesses of beta there).  Oracle: accepted
//!    iff every guess is right (whenever theta'.Delta_j != 0), accepted shares are exactly
//!    d + sum_j g_j Delta_j (so positions with a zero bit leave them unaffected).
//! Against the extracted model (coq/Model/Rvole.v): on a sample of the probes the model's verdict (and
//! shares) must equal the real one, and the model's `adv_sender` must produce byte-identical messages.
//! beta is read from the receiver state bytes (offset 32 of bytemuck::bytes_of(state)).
use crate::c01::*;
use crate::oracle::*;
use crate::util::*;
use k256::Scalar;
use merlin::Transcript;
use rand::{Rng, RngCore};
use sl_oblivious::constants::{
    RANDOM_VOLE_BASE_OT, RANDOM_VOLE_GADGET_VECTOR_LABEL, RANDOM_VOLE_MU_LABEL, RANDOM_VOLE_THETA_LABEL, SOFT_SPOKEN_LABEL,
    SOFT_SPOKEN_RANDOMIZE_LABEL,
};
use sl_oblivious::endemic_ot::{EndemicOTMsg1, EndemicOTMsg2, EndemicOTReceiver, EndemicOTSender};
use sl_oblivious::rvole;
use sl_oblivious::rvole_ot_variant as rvot;
use sl_oblivious::soft_spoken::{Round1Output, SoftSpokenOTSender};
use sl_oblivious::verif_hooks::sender_output_keys;
use std::panic::{catch_unwind, AssertUnwindSafe};

type Rows = Vec<[[u8; 32]; 3]>;

// ------------------------------------------------------------------------------------------------
// independent computations (merlin + k256), used by the adversary and the share predictions

pub fn gadget_vec(sid: &[u8]) -> Vec<Scalar> {
    let mut t = Transcript::new(&RANDOM_VOLE_GADGET_VECTOR_LABEL);
    t.append_message(b"session-id", sid);
    (0..XI)
        .map(|i| {
            t.append_u64(b"index", i as u64);
            let mut r = [0u8; 32];
            t.challenge_bytes(b"next value", &mut r);
            reduce32(&r)
        })
        .collect()
}

fn thetas_of(sid: &[u8], a_tilde: &[u8]) -> [Scalar; 2] {
    let mut t = Transcript::new(&RANDOM_VOLE_THETA_LABEL);
    t.append_message(b"session-id", sid);
    for j in 0..XI {
        t.append_u64(b"row of a tilde", j as u64);
        for i in 0..W {
            t.append_message(b"", &a_tilde[(j * W + i) * 32..(j * W + i + 1) * 32]);
        }
    }
    let mut th = [Scalar::ZERO; 2];
    for (i, th_i) in th.iter_mut().enumerate() {
        t.append_u64(b"theta k", 0);
        t.append_u64(b"theta i", i as u64);
        let mut d = [0u8; 32];
        t.challenge_bytes(b"theta", &mut d);
        *th_i = reduce32(&d);
    }
    th
}

/// rows of v from base-OT keys (rvole_ot_variant.rs re-hashing)
fn rows_of_keys(sid: &[u8], keys: &[[u8; 32]]) -> Rows {
    (0..XI)
        .map(|j| {
            let mut t = Transcript::new(&SOFT_SPOKEN_LABEL);
            t.append_message(b"session-id", sid);
            t.append_u64(b"index", j as u64);
            t.append_message(&SOFT_SPOKEN_RANDOMIZE_LABEL, &keys[j]);
            let mut row = [[0u8; 32]; 3];
            for k in row.iter_mut() {
                t.challenge_bytes(b"", k);
            }
            row
        })
        .collect()
}

#[derive(Clone)]
pub struct Dev {
    pub j: usize,
    pub a: [Scalar; 2],
    pub g: bool,
}
fn spec_arg(spec: &[Dev]) -> String {
    if spec.is_empty() {
        return "-".into();
    }
    spec.iter().map(|d| format!("{}/{}/{}", d.j, scalars(&d.a), d.g as u8)).collect::<Vec<_>>().join(";")
}

/// The calibrated adversarial sender (a_tilde, eta, mu_hash bytes) and its fresh theta'.
fn adversary(sid: &[u8], v0: &Rows, v1: &Rows, a: &[Scalar; 2], eta_tape: &[u8], spec: &[Dev]) -> (Vec<u8>, [Scalar; 2]) {
    let mut tr = TapeRng { tape: eta_tape.to_vec(), pos: 0 };
    let eta0 = Scalar::generate_biased(&mut tr);
    let lookup = |j: usize| spec.iter().find(|d| d.j == j);
    let mut msg = vec![0u8; MSG_BYTES];
    for j in 0..XI {
        let inp = match lookup(j) {
            Some(d) => d.a,
            None => *a,
        };
        for i in 0..W {
            let e = if i < 2 { inp[i] } else { eta0 };
            let v = reduce32(&v0[j][i]) - reduce32(&v1[j][i]) + e;
            msg[(j * W + i) * 32..(j * W + i + 1) * 32].copy_from_slice(&v.to_bytes());
        }
    }
    let th = thetas_of(sid, &msg[..AT_BYTES]);
    let eta = eta0 + th[0] * a[0] + th[1] * a[1];
    msg[ETA_OFF..ETA_OFF + 32].copy_from_slice(&eta.to_bytes());
    let mut t = Transcript::new(&RANDOM_VOLE_MU_LABEL);
    t.append_message(b"session-id", sid);
    for j in 0..XI {
        let mut v = reduce32(&v0[j][2]) + th[0] * reduce32(&v0[j][0]) + th[1] * reduce32(&v0[j][1]);
        if let Some(d) = lookup(j) {
            if d.g {
                v += th[0] * (d.a[0] - a[0]) + th[1] * (d.a[1] - a[1]);
            }
        }
        t.append_message(b"chosen", &v.to_bytes());
    }
    t.challenge_bytes(b"mu-hash", &mut msg[MU_OFF..]);
    (msg, th)
}

// ------------------------------------------------------------------------------------------------
// a session of either variant, seen through the same interface

pub enum Sess {
    Ext(ExtSession),
    Ot(Box<OtSession>, Box<EndemicOTReceiver>, Box<EndemicOTReceiver>),
}

fn dup_eot(r: &EndemicOTReceiver) -> Box<EndemicOTReceiver> {
    // EndemicOTReceiver is plain data (choice bits + 256 scalars) without a Drop impl but it is not Clone;
    // `process` consumes it, so every probe gets a bitwise copy of the state produced by the one real `new`.
    unsafe { Box::new(std::ptr::read(r)) }
}

impl Sess {
    pub fn variant(&self) -> &'static str {
        match self {
            Sess::Ext(_) => "ext",
            Sess::Ot(..) => "ot",
        }
    }
    pub fn sid(&self) -> [u8; 32] {
        match self {
            Sess::Ext(s) => s.sid,
            Sess::Ot(s, ..) => s.sid,
        }
    }
    pub fn a(&self) -> [Scalar; 2] {
        match self {
            Sess::Ext(s) => s.a,
            Sess::Ot(s, ..) => s.a,
        }
    }
    pub fn b(&self) -> Scalar {
        match self {
            Sess::Ext(s) => s.b,
            Sess::Ot(s, ..) => s.b,
        }
    }
    pub fn eta_tape(&self) -> Vec<u8> {
        match self {
            Sess::Ext(s) => s.eta_tape.clone(),
            Sess::Ot(s, ..) => s.eta_tape.clone(),
        }
    }
    /// the receiver's choice bits, read from the plain-old-data receiver state (offset 32)
    pub fn beta(&self) -> Vec<u8> {
        match self {
            Sess::Ext(s) => bytemuck::bytes_of(&*s.state)[32..96].to_vec(),
            Sess::Ot(s, ..) => bytemuck::bytes_of(&*s.state)[32..96].to_vec(),
        }
    }
    pub fn send_result(&self) -> Result<(Vec<u8>, [Scalar; 2]), String> {
        match self {
            Sess::Ext(s) => s.send.clone(),
            Sess::Ot(s, ..) => s.send.clone(),
        }
    }
    pub fn honest(&self) -> (Vec<u8>, [Scalar; 2]) {
        match self {
            Sess::Ext(s) => s.send.clone().expect("honest sender"),
            Sess::Ot(s, ..) => s.send.clone().expect("honest sender"),
        }
    }
    /// offset of a_tilde inside the message (the base-OT variant carries the two base-OT replies first)
    pub fn off(&self) -> usize {
        match self {
            Sess::Ext(_) => 0,
            Sess::Ot(..) => 2 * EOT_BYTES,
        }
    }
    pub fn describe(&self) -> String {
        match self {
            Sess::Ext(s) => s.describe(),
            Sess::Ot(s, ..) => s.describe(),
        }
    }
    pub fn real_recv(&self, msg: &[u8]) -> Result<[Scalar; 2], String> {
        match self {
            Sess::Ext(s) => ext_real_recv(&s.state, msg),
            Sess::Ot(s, ra, rb) => {
                let m: Box<rvot::RVOLEMsg2> = Box::new(bytemuck::pod_read_unaligned(msg));
                let (ra, rb) = (dup_eot(ra), dup_eot(rb));
                match catch_unwind(AssertUnwindSafe(|| s.state.process(&m, ra, rb))) {
                    Ok(Ok(d)) => Ok(d),
                    Ok(Err(e)) => Err(if e == "Decode error" { "err2".into() } else { "err1".into() }),
                    Err(_) => Err("panic".into()),
                }
            }
        }
    }
    /// register the model's receiver state for this session under `id`
    pub fn model_new(&self, m: &mut Model, id: &str) -> Result<(), String> {
        match self {
            Sess::Ext(s) => model_ext_new(m, id, s).map(|_| ()),
            Sess::Ot(s, ..) => model_ot_new(m, id, s).map(|_| ()),
        }
    }
    pub fn model_recv(&self, m: &mut Model, id: &str, msg: &[u8]) -> Result<String, String> {
        match self {
            Sess::Ext(_) => model_recv(m, "c01.recv", &[id.to_string(), hx(msg)]),
            Sess::Ot(..) => model_recv(m, "c01.ot_recv", &ot_recv_args(id, msg)),
        }
    }
    /// the sender's OT-layer output (v_0, v_1) obtained from the real OT layer
    pub fn sender_rows(&self) -> (Rows, Rows) {
        match self {
            Sess::Ext(s) => {
                let r1: Box<Round1Output> = Box::new(bytemuck::pod_read_unaligned(&s.round1));
                let so = SoftSpokenOTSender::process(&s.sid, &s.rseed, &r1).expect("honest round-one message");
                (so.v_0.to_vec(), so.v_1.to_vec())
            }
            Sess::Ot(s, ..) => {
                let mut t = Transcript::new(&RANDOM_VOLE_BASE_OT);
                t.append_message(b"session-id", &s.sid);
                let mut sa = [0u8; 32];
                let mut sb = [0u8; 32];
                t.challenge_bytes(b"session-id-a", &mut sa);
                t.challenge_bytes(b"session-id-b", &mut sb);
                let mut r = tape_rng(s.seed, &s.send_stream());
                let mut m1a = EndemicOTMsg1::default();
                let mut m1b = EndemicOTMsg1::default();
                bytemuck::bytes_of_mut(&mut m1a).copy_from_slice(&s.msg1[..EOT_BYTES]);
                bytemuck::bytes_of_mut(&mut m1b).copy_from_slice(&s.msg1[EOT_BYTES..]);
                let mut m2 = EndemicOTMsg2::default();
                let oa = EndemicOTSender::process(&sa, &m1a, &mut m2, &mut r).expect("base OT a");
                let ob = EndemicOTSender::process(&sb, &m1b, &mut m2, &mut r).expect("base OT b");
                let mut k0 = vec![];
                let mut k1 = vec![];
                for k in sender_output_keys(&oa).iter().chain(sender_output_keys(&ob).iter()) {
                    k0.push(k[0]);
                    k1.push(k[1]);
                }
                (rows_of_keys(&s.sid, &k0), rows_of_keys(&s.sid, &k1))
            }
        }
    }
    /// the model's adv_sender on top of the model's OT layer: whole round-two message bytes
    pub fn model_adv(&self, m: &mut Model, spec: &[Dev]) -> Result<Vec<u8>, String> {
        match self {
            Sess::Ext(s) => {
                let r = m.call("c01.adv", &[hx(&s.sid), hx(&s.rseed.random_choices), hx(bytemuck::bytes_of(&s.rseed.otp_dec_keys)),
                    scalars(&s.a), hx(&s.round1), hx(&s.eta_tape), spec_arg(spec)])?;
                if r.first().map(|x| x.as_str()) == Some("ok") && r.len() == 2 { Ok(unhx(&r[1])) } else { Err(format!("c01.adv: {:?}", r.first())) }
            }
            Sess::Ot(s, ..) => {
                let r = m.call("c01.ot_adv", &[hx(&s.sid), scalars(&s.a), hx(&s.msg1[..EOT_BYTES]), hx(&s.msg1[EOT_BYTES..]),
                    scalars(&s.tbs_a), scalars(&s.tbs_b), hx(&s.eta_tape), spec_arg(spec)])?;
                if r.first().map(|x| x.as_str()) == Some("ok") && r.len() == 4 {
                    let mut v = unhx(&r[1]);
                    v.extend_from_slice(&unhx(&r[2]));
                    v.extend_from_slice(&unhx(&r[3]));
                    Ok(v)
                } else {
                    Err(format!("c01.ot_adv: {:?}", r.first()))
                }
            }
        }
    }
}

fn ext_sess(seed: u64, tag: &str, sid: [u8; 32], seeds_stream: &str, a_kind: usize) -> Sess {
    let mut r = rng(seed, &format!("c02-ext-{tag}"));
    let (a0, _) = input_scalar(a_kind, &mut r);
    let (a1, _) = input_scalar(4, &mut r);
    let mut new_tape = vec![0u8; 80];
    r.fill_bytes(&mut new_tape);
    let mut eta_tape = vec![0u8; 64];
    r.fill_bytes(&mut eta_tape);
    Sess::Ext(ext_session(&format!("c02-{tag}"), sid, make_seeds(seed, seeds_stream, false), vec![0u8; R1_BYTES], new_tape, [a0, a1], eta_tape))
}
fn ot_sess(seed: u64, tag: &str, sid: [u8; 32], a_kind: usize) -> Sess {
    let mut r = rng(seed, &format!("c02-ot-{tag}"));
    let (a0, _) = input_scalar(a_kind, &mut r);
    let (a1, _) = input_scalar(4, &mut r);
    let s = ot_session(seed, &format!("c02-{tag}"), sid, [a0, a1]);
    let (_, ra, rb, _, _) = s.real_new();
    Sess::Ot(Box::new(s), ra, rb)
}

// ------------------------------------------------------------------------------------------------
// probes

pub struct Probe {
    pub kind: String,
    pub what: String,
    pub msg: Vec<u8>,
}

fn field_bit_flips(s: &Sess, r: &mut impl RngCore, per_field: usize) -> Vec<Probe> {
    let (msg, _) = s.honest();
    let off = s.off();
    let mut v = vec![];
    let fields: [(&str, usize, usize); 3] = [("a_tilde", off, AT_BYTES), ("eta", off + ETA_OFF, 32), ("mu_hash", off + MU_OFF, 64)];
    for (name, start, len) in fields {
        for _ in 0..per_field {
            let bitpos = (r.next_u64() as usize) % (len * 8);
            let mut m = msg.clone();
            m[start + bitpos / 8] ^= 1 << (bitpos % 8);
            v.push(Probe { kind: format!("bit-{name}"), what: format!("bit {bitpos} of {name}"), msg: m });
        }
    }
    if off > 0 {
        // the embedded base-OT replies
        for _ in 0..per_field {
            let bitpos = (r.next_u64() as usize) % (off * 8);
            let mut m = msg.clone();
            m[bitpos / 8] ^= 1 << (bitpos % 8);
            v.push(Probe { kind: "bit-ot-reply".into(), what: format!("bit {bitpos} of the base-OT replies"), msg: m });
        }
    }
    v
}

fn substitutions(s: &Sess, other_session: &Sess, other_run: &Sess, r: &mut impl RngCore) -> Vec<Probe> {
    let (msg, _) = s.honest();
    let off = s.off();
    let beta = s.beta();
    let mut v = vec![];
    let mut push = |kind: &str, what: String, m: Vec<u8>| v.push(Probe { kind: kind.into(), what, msg: m });
    // bytes
    for k in 0..12 {
        let pos = off + (r.next_u64() as usize) % MSG_BYTES;
        let mut m = msg.clone();
        let nv = match k % 3 { 0 => 0u8, 1 => 0xff, _ => r.next_u32() as u8 };
        if m[pos] == nv { m[pos] ^= 0x55; } else { m[pos] = nv; }
        push("byte", format!("byte {pos} overwritten"), m);
    }
    // rows of a_tilde: swap two rows; swap the two batch entries of a row; overwrite a row whose bit is 0 / 1
    let j1 = (r.next_u32() as usize) % XI;
    let j2 = (j1 + 1 + (r.next_u32() as usize) % (XI - 1)) % XI;
    let mut m = msg.clone();
    for k in 0..96 { m.swap(off + j1 * 96 + k, off + j2 * 96 + k); }
    push("row-swap", format!("a_tilde rows {j1} and {j2} swapped"), m);
    let mut m = msg.clone();
    for k in 0..32 { m.swap(off + (XI - 1) * 96 + k, off + (XI - 1) * 96 + 32 + k); }
    push("entry-swap", "a_tilde[511][0] and a_tilde[511][1] swapped".into(), m);
    for want in [false, true] {
        if let Some(j) = (0..XI).rev().find(|j| bit(&beta, *j) == want) {
            let mut m = msg.clone();
            r.fill_bytes(&mut m[off + j * 96..off + j * 96 + 96]);
            push(if want { "row-overwrite-bit1" } else { "row-overwrite-bit0" }, format!("a_tilde row {j} (beta_j = {}) overwritten with random bytes", want as u8), m);
        }
    }
    // compensating alterations: the same XOR mask in two (or all) bytes of one field -- what a comparison that folds the
    // byte differences with xor instead of or lets through
    for (name, start, len) in [("mu_hash", off + MU_OFF, 64usize), ("eta", off + ETA_OFF, 32), ("a_tilde-row0", off, 96), ("a_tilde-row511", off + (XI - 1) * 96, 96)] {
        for (k1, k2, mask) in [(0usize, 1usize, 1u8), (0, len - 1, 0x80), (len / 2 - 1, len / 2, 0xff)] {
            let mut m = msg.clone();
            m[start + k1] ^= mask;
            m[start + k2] ^= mask;
            push(&format!("compensating-{}", name.split('-').next().unwrap()), format!("{name} bytes {k1},{k2} ^= {mask:02x}"), m);
        }
        let mut m = msg.clone();
        for k in 0..len { m[start + k] ^= 0x01; }
        push(&format!("compensating-{}", name.split('-').next().unwrap()), format!("{name}: every byte ^= 01"), m);
    }
    // fields
    let mut m = msg.clone();
    m[off + ETA_OFF..off + ETA_OFF + 32].fill(0);
    push("field-eta-zero", "eta := 0".into(), m);
    let mut m = msg.clone();
    m[off + MU_OFF..].fill(0);
    push("field-mu-zero", "mu_hash := 0".into(), m);
    let mut m = msg.clone();
    m[off..off + AT_BYTES].fill(0);
    push("field-atilde-zero", "a_tilde := 0".into(), m);
    let mut m = msg.clone();
    let (e, mu) = (m[off + ETA_OFF..off + ETA_OFF + 32].to_vec(), m[off + MU_OFF..off + MU_OFF + 32].to_vec());
    m[off + ETA_OFF..off + ETA_OFF + 32].copy_from_slice(&mu);
    m[off + MU_OFF..off + MU_OFF + 32].copy_from_slice(&e);
    push("field-swap-eta-mu", "eta swapped with the first half of mu_hash".into(), m);
    // splices from another session (different session id) and another run (same session id, other tapes/inputs)
    for (tag, o) in [("cross-session", other_session), ("cross-run", other_run)] {
        let (om, _) = o.honest();
        push(&format!("{tag}-whole"), format!("whole message of the {tag} sender"), om.clone());
        for (name, start, len) in [("a_tilde", off, AT_BYTES), ("eta", off + ETA_OFF, 32), ("mu_hash", off + MU_OFF, 64)] {
            let mut m = msg.clone();
            m[start..start + len].copy_from_slice(&om[start..start + len]);
            push(&format!("{tag}-{name}"), format!("{name} spliced from the {tag} message"), m);
        }
        let mut m = om.clone();
        m[off + MU_OFF..].copy_from_slice(&msg[off + MU_OFF..]);
        push(&format!("{tag}-all-but-mu"), format!("a_tilde and eta from the {tag} message, own mu_hash"), m);
        if off > 0 {
            let mut m = msg.clone();
            m[..off].copy_from_slice(&om[..off]);
            push(&format!("{tag}-ot-replies"), format!("both base-OT replies spliced from the {tag} message"), m);
            let mut m = msg.clone();
            m[..EOT_BYTES].copy_from_slice(&om[..EOT_BYTES]);
            push(&format!("{tag}-ot-reply-a"), format!("base-OT reply a spliced from the {tag} message"), m);
        }
    }
    if off > 0 {
        // base-OT replies: swap the two replies; replace a point on the side the receiver does NOT read / DOES read
        let mut m = msg.clone();
        for k in 0..EOT_BYTES { m.swap(k, EOT_BYTES + k); }
        push("ot-replies-swapped", "ot_msg2_a and ot_msg2_b swapped".into(), m);
        for inst in [0usize, 255, 256, 511] {
            let c = bit(&beta, inst);
            let base = (inst / 256) * EOT_BYTES + (inst % 256) * 66;
            let donor = ((inst + 7) % 256) * 66 + (inst / 256) * EOT_BYTES;
            for side_read in [false, true] {
                let side = if side_read { c as usize } else { 1 - c as usize };
                let mut m = msg.clone();
                let p: Vec<u8> = msg[donor..donor + 33].to_vec();
                m[base + side * 33..base + side * 33 + 33].copy_from_slice(&p);
                push(if side_read { "ot-point-read-side" } else { "ot-point-unread-side" },
                     format!("instance {inst}: point on the side the receiver {} replaced by another valid point", if side_read { "reads" } else { "does not read" }), m);
            }
            let mut m = msg.clone();
            m[base + (c as usize) * 33..base + (c as usize) * 33 + 33].fill(0xff);
            push("ot-point-undecodable", format!("instance {inst}: read-side point made undecodable"), m);
        }
    }
    v
}

/// verdict of a probe against the property: Err, or relation intact with the honest c; never a panic
fn judge_transit(s: &Sess, p: &Probe, res: &Result<[Scalar; 2], String>, rep: &mut Report) {
    let (_, c) = s.honest();
    match res {
        Ok(d) => {
            if !relation_holds(&s.a(), &s.b(), &c, d) {
                rep.oracle.push(format!("corrupted message accepted with wrong shares: {} ({}) d={} -- {}", p.what, p.kind, scalars(d), s.describe()));
            }
            rep.kind(&format!("{}:{}:accepted-relation-intact", s.variant(), p.kind));
        }
        Err(e) if e == "panic" => rep.oracle.push(format!("receiver panicked on a corrupted message: {} ({}) -- {}", p.what, p.kind, s.describe())),
        Err(e) => rep.kind(&format!("{}:{}:{e}", s.variant(), p.kind)),
    }
}

/// deterministic expectations for some probe kinds (beyond "Err or intact")
fn judge_expected(s: &Sess, p: &Probe, res: &Result<[Scalar; 2], String>, rep: &mut Report) {
    let expect_err = p.kind == "bit-mu_hash" || p.kind == "field-mu-zero" || p.kind == "ot-point-undecodable" || p.kind == "compensating-mu_hash";
    if expect_err && res.is_ok() {
        rep.oracle.push(format!("{} must be rejected unconditionally but was accepted: {} -- {}", p.kind, p.what, s.describe()));
    }
    if p.kind == "ot-point-unread-side" && res.is_err() {
        rep.oracle.push(format!("a change confined to the unread side of a base-OT reply was rejected ({:?}): {} -- {}", res, p.what, s.describe()));
    }
}

// ------------------------------------------------------------------------------------------------
// calibrated deviations

fn deviation_specs(s: &Sess, r: &mut impl RngCore, n: usize) -> Vec<(String, Vec<Dev>)> {
    let beta = s.beta();
    let a = s.a();
    let mut v = vec![];
    let positions = [0usize, 1, 255, 256, XI - 1];
    for k in 0..n {
        let npos = 1 + (k % 3);
        let mut spec: Vec<Dev> = vec![];
        for t in 0..npos {
            let j = if k % 2 == 0 && t == 0 { positions[(k / 2) % positions.len()] } else { (r.next_u32() as usize) % XI };
            if spec.iter().any(|d| d.j == j) {
                continue;
            }
            let repl = match (k / 3) % 4 {
                0 => [a[0] + Scalar::ONE, a[1]],
                1 => [Scalar::ZERO, Scalar::ZERO],
                2 => [a[0], -a[1] - Scalar::ONE],
                _ => [reduce32(&r.gen::<[u8; 32]>()), reduce32(&r.gen::<[u8; 32]>())],
            };
            // guesses: all right / first wrong / all wrong / alternating
            let right = bit(&beta, j);
            let g = match (k / 12) % 4 {
                0 => right,
                1 => if t == 0 { !right } else { right },
                2 => !right,
                _ => if (k + t) % 2 == 0 { right } else { !right },
            };
            spec.push(Dev { j, a: repl, g });
        }
        let name = format!("dev{k}:{}", spec.iter().map(|d| format!("j{}b{}g{}", d.j, bit(&beta, d.j) as u8, d.g as u8)).collect::<Vec<_>>().join("+"));
        v.push((name, spec));
    }
    v
}

struct AdvCtx {
    v0: Rows,
    v1: Rows,
    gv: Vec<Scalar>,
    honest_d: [Scalar; 2],
}

fn run_deviation(s: &Sess, ctx: &AdvCtx, name: &str, spec: &[Dev], rep: &mut Report) -> Vec<u8> {
    let sid = s.sid();
    let a = s.a();
    let beta = s.beta();
    let (honest_msg, c) = s.honest();
    let (tail, th) = adversary(&sid, &ctx.v0, &ctx.v1, &a, &s.eta_tape(), spec);
    let mut msg = honest_msg[..s.off()].to_vec();
    msg.extend_from_slice(&tail);
    let res = s.real_recv(&msg);
    rep.n_eval += 1;
    rep.n_nontrivial += 1;
    let tdelta = |d: &Dev| th[0] * (d.a[0] - a[0]) + th[1] * (d.a[1] - a[1]);
    let degenerate = spec.iter().any(|d| bool::from(tdelta(d).is_zero()));
    let all_right = spec.iter().all(|d| d.g == bit(&beta, d.j));
    let tag = format!("{} {} spec={}", name, s.describe(), spec_arg(spec));
    match &res {
        Err(e) if e == "panic" => rep.oracle.push(format!("receiver panicked on the adversary's message -- {tag}")),
        Err(_) => {
            if all_right {
                rep.oracle.push(format!("self-consistent message with every guess right was rejected -- {tag}"));
            }
            rep.kind(&format!("{}:adv:{}:rejected", s.variant(), if all_right { "all-right" } else { "some-wrong" }));
        }
        Ok(d) => {
            if !all_right && !degenerate {
                rep.oracle.push(format!("adversary accepted although a guess is wrong (theta'.Delta != 0) -- {tag}"));
            }
            // accepted shares: d' = d + sum_j beta_j * g_j * Delta_j ; zero bits leave them unaffected
            let mut pred = ctx.honest_d;
            for dv in spec {
                if bit(&beta, dv.j) {
                    for i in 0..2 {
                        pred[i] += ctx.gv[dv.j] * (dv.a[i] - a[i]);
                    }
                }
            }
            if *d != pred {
                rep.oracle.push(format!("accepted shares differ from d + sum_(beta_j=1) g_j*Delta_j (a zero bit must leave them unaffected): d'={} predicted={} -- {tag}", scalars(d), scalars(&pred)));
            }
            if spec.iter().all(|dv| !bit(&beta, dv.j)) && !relation_holds(&a, &s.b(), &c, d) {
                rep.oracle.push(format!("all attacked bits are zero but c + d != a*b -- {tag}"));
            }
            rep.kind(&format!("{}:adv:{}:accepted", s.variant(), if spec.iter().all(|dv| !bit(&beta, dv.j)) { "zero-bits" } else { "one-bits" }));
        }
    }
    msg
}

// ------------------------------------------------------------------------------------------------

fn variant_run(seed: u64, ot: bool, thorough: bool, threads: usize, rep: &mut Report, log: &mut Vec<String>) -> u64 {
    let vname = if ot { "ot" } else { "ext" };
    let mut r = rng(seed, &format!("c02-{vname}"));
    let sid: [u8; 32] = r.gen();
    let sid2: [u8; 32] = r.gen();
    let (s, other_session, other_run) = if ot {
        (ot_sess(seed, "main", sid, 4), ot_sess(seed, "other-session", sid2, 4), ot_sess(seed, "other-run", sid, 1))
    } else {
        (ext_sess(seed, "main", sid, "c02-seeds", 4), ext_sess(seed, "other-session", sid2, "c02-seeds-2", 4), ext_sess(seed, "other-run", sid, "c02-seeds", 1))
    };
    let (honest_msg, c) = s.honest();
    let beta = s.beta();
    if beta.iter().all(|x| *x == 0) || beta.len() != 64 {
        rep.oracle.push(format!("receiver state bytes 32..96 do not look like beta -- {}", s.describe()));
    }
    // honest message accepted, relation holds
    let honest = s.real_recv(&honest_msg);
    rep.n_eval += 1;
    let honest_d = match &honest {
        Ok(d) => {
            if !relation_holds(&s.a(), &s.b(), &c, d) {
                rep.oracle.push(format!("honest run: c + d != a*b -- {}", s.describe()));
            }
            *d
        }
        Err(e) => {
            rep.oracle.push(format!("honest round-two message not accepted ({e}) -- {}", s.describe()));
            [Scalar::ZERO; 2]
        }
    };
    log.push(format!("{} honest={}", s.describe(), real_recv_str(&honest)));
    // degenerate honest sessions: sender input (0, 0) with an all-zero eta draw (the honest check value eta is then 32 zero
    // bytes), and input (q-1, 1): the honest message must be accepted and the relation must hold
    for (tag, zero) in [("zero-input-zero-eta", true), ("boundary-input", false)] {
        let sidz: [u8; 32] = r.gen();
        let sz = if ot {
            let a = if zero { [Scalar::ZERO, Scalar::ZERO] } else { [-Scalar::ONE, Scalar::ONE] };
            let name = format!("c02-{tag}{}", if zero { "#zero64@32768" } else { "" });
            let s2 = ot_session(seed, &name, sidz, a);
            let (_, ra, rb, _, _) = s2.real_new();
            Sess::Ot(Box::new(s2), ra, rb)
        } else {
            let mut rr = rng(seed, &format!("c02-ext-{tag}"));
            let mut new_tape = vec![0u8; 80];
            rr.fill_bytes(&mut new_tape);
            let mut eta_tape = vec![0u8; 64];
            if !zero { rr.fill_bytes(&mut eta_tape); }
            let a = if zero { [Scalar::ZERO, Scalar::ZERO] } else { [-Scalar::ONE, Scalar::ONE] };
            Sess::Ext(ext_session(&format!("c02-{tag}"), sidz, make_seeds(seed, "c02-seeds", false), vec![0u8; R1_BYTES], new_tape, a, eta_tape))
        };
        rep.n_eval += 1;
        rep.kind(&format!("{vname}:honest-{tag}"));
        match &sz.send_result() {
            Ok((m, cz)) => match sz.real_recv(m) {
                Ok(d) if relation_holds(&sz.a(), &sz.b(), cz, &d) => {}
                other => rep.oracle.push(format!("honest round-two message ({tag}) not accepted with correct shares: {} -- {}", real_recv_str(&other), sz.describe())),
            },
            Err(e) => rep.oracle.push(format!("honest sender failed ({tag}): {e} -- {}", sz.describe())),
        }
    }

    // ---- fault enumeration against the real receiver
    let mut probes = field_bit_flips(&s, &mut r, 64);
    probes.extend(substitutions(&s, &other_session, &other_run, &mut r));
    let mut sample: Vec<usize> = vec![];
    let mut seen = std::collections::BTreeSet::new();
    for (i, p) in probes.iter().enumerate() {
        let res = s.real_recv(&p.msg);
        rep.n_eval += 1;
        rep.n_nontrivial += 1;
        judge_transit(&s, p, &res, rep);
        judge_expected(&s, p, &res, rep);
        log.push(format!("{vname} probe {} [{}] -> {}", p.what, p.kind, real_recv_str(&res)));
        if seen.insert(p.kind.clone()) {
            sample.push(i);
        }
    }
    // thorough: exhaustive / strided single-bit sweep (in-harness oracle only), in parallel
    if thorough {
        let total_bits = honest_msg.len() * 8;
        let off_bits = s.off() * 8;
        let positions: Vec<usize> = (0..total_bits)
            .filter(|b| !ot || *b >= off_bits + AT_BYTES * 8 || (*b < off_bits && b % 64 == (seed as usize) % 64) || (*b >= off_bits && b % 16 == (seed as usize) % 16))
            .collect();
        let chunk = (positions.len() + threads - 1) / threads.max(1);
        let results: Vec<(u64, u64, Vec<String>)> = std::thread::scope(|sc| {
            let hs: Vec<_> = positions
                .chunks(chunk.max(1))
                .map(|ch| {
                    let s = &s;
                    let honest_msg = &honest_msg;
                    let c = &c;
                    sc.spawn(move || {
                        let mut m = honest_msg.clone();
                        let (mut rejected, mut accepted, mut bad) = (0u64, 0u64, vec![]);
                        for &bp in ch {
                            m[bp / 8] ^= 1 << (bp % 8);
                            match s.real_recv(&m) {
                                Ok(d) => {
                                    accepted += 1;
                                    if !relation_holds(&s.a(), &s.b(), c, &d) || bp >= (s.off() + MU_OFF) * 8 {
                                        bad.push(format!("bit {bp} flipped: accepted with d={}", scalars(&d)));
                                    }
                                }
                                Err(e) if e == "panic" => bad.push(format!("bit {bp} flipped: receiver panicked")),
                                Err(_) => rejected += 1,
                            }
                            m[bp / 8] ^= 1 << (bp % 8);
                        }
                        (rejected, accepted, bad)
                    })
                })
                .collect();
            hs.into_iter().map(|h| h.join().unwrap()).collect()
        });
        for (rej, acc, bad) in results {
            rep.n_eval += rej + acc;
            rep.n_nontrivial += rej + acc;
            *rep.kinds.entry(format!("{vname}:bit-sweep:rejected")).or_default() += rej;
            *rep.kinds.entry(format!("{vname}:bit-sweep:accepted-relation-intact")).or_default() += acc;
            for b in bad {
                rep.oracle.push(format!("single-bit sweep: {b} -- {}", s.describe()));
            }
        }
        log.push(format!("{vname} single-bit sweep over {} positions", positions.len()));
    }

    // ---- calibrated deviations against the real receiver
    let (v0, v1) = s.sender_rows();
    let ctx = AdvCtx { v0, v1, gv: gadget_vec(&s.sid()), honest_d };
    // sanity of the harness adversary: no deviation = the honest message, byte for byte
    let (tail, _) = adversary(&s.sid(), &ctx.v0, &ctx.v1, &s.a(), &s.eta_tape(), &[]);
    if tail[..] != honest_msg[s.off()..] {
        rep.disagree.push(format!("harness adversary with an empty specification differs from the honest sender's message -- {}", s.describe()));
    }
    // ---- re-encoding of a masked value.  The sender's input is chosen so that a_tilde[j][i] is a small scalar t (alpha_0 and
    //      alpha_1 do not depend on the input, so a' = a + (t - a_tilde[j][i]) puts t there); in transit the field is then
    //      overwritten with the OTHER 32-byte encoding of the same scalar, t + q.  The masked values were touched, the bytes
    //      differ, theta is bound to the bytes: the receiver must abort.
    let mut reenc_msgs: Vec<(String, Vec<u8>)> = vec![];
    {
        use k256::elliptic_curve::{bigint::{Encoding, U256}, Curve};
        let off = s.off();
        let j0 = (0..XI).find(|j| !bit(&beta, *j)).unwrap_or(0);
        let j1 = (0..XI).find(|j| bit(&beta, *j)).unwrap_or(1);
        for (n, (j, i)) in [(j0, 0usize), (j1, 1), (XI - 1, 0), (j1, 0)].into_iter().enumerate() {
            let pos = off + j * 96 + i * 32;
            let vj = reduce32(&honest_msg[pos..pos + 32]);
            let t = Scalar::from(3u64 + n as u64);
            let mut a2 = s.a();
            a2[i] = a2[i] + t - vj;
            let (tail, _) = adversary(&s.sid(), &ctx.v0, &ctx.v1, &a2, &s.eta_tape(), &[]);
            let mut msg = honest_msg[..off].to_vec();
            msg.extend_from_slice(&tail);
            let tb: [u8; 32] = t.to_bytes().into();
            if msg[pos..pos + 32] != tb {
                rep.disagree.push(format!("harness: chosen input did not put the scalar {} into a_tilde[{j}][{i}] -- {}", 3 + n, s.describe()));
                continue;
            }
            rep.n_eval += 2;
            rep.n_nontrivial += 1;
            match s.real_recv(&msg) {
                Ok(d) if relation_holds(&a2, &s.b(), &c, &d) => {}
                other => rep.oracle.push(format!("honest message for the input a' = {} (a_tilde[{j}][{i}] = {}) not accepted with correct shares: {} -- {}",
                    scalars(&a2), 3 + n, real_recv_str(&other), s.describe())),
            }
            let enc = k256::Secp256k1::ORDER.wrapping_add(&U256::from(3u64 + n as u64)).to_be_bytes();
            msg[pos..pos + 32].copy_from_slice(&enc);
            let res = s.real_recv(&msg);
            let what = format!("a_tilde[{j}][{i}] (beta_j = {}) = {} overwritten with the non-canonical encoding q + {} of the same scalar, sender input a' = {}",
                bit(&beta, j) as u8, 3 + n, 3 + n, scalars(&a2));
            match &res {
                Ok(d) => rep.oracle.push(format!("masked value re-encoded in transit but the message was accepted (d={}): {what} -- {}", scalars(d), s.describe())),
                Err(e) if e == "panic" => rep.oracle.push(format!("receiver panicked: {what} -- {}", s.describe())),
                Err(e) => rep.kind(&format!("{vname}:reencoded-masked-value:{e}")),
            }
            log.push(format!("{vname} probe {what} -> {}", real_recv_str(&res)));
            if n < 2 {
                reenc_msgs.push((what, msg));
            }
        }
    }
    let n_dev = if thorough { if ot { 600 } else { 1500 } } else { 48 };
    let specs = deviation_specs(&s, &mut r, n_dev);
    let mut adv_msgs: Vec<(usize, Vec<u8>)> = vec![];
    for (i, (name, spec)) in specs.iter().enumerate() {
        let m = run_deviation(&s, &ctx, name, spec, rep);
        if i < 3 || (i % 12 == 0 && adv_msgs.len() < if thorough { 12 } else { 5 }) {
            adv_msgs.push((i, m));
        }
    }

    // ---- the extracted model on a sample: same verdicts (and shares), byte-identical adversary
    let n_model = if thorough { sample.len() } else { sample.len().min(if ot { 10 } else { 14 }) };
    let sample: Vec<usize> = sample.into_iter().take(n_model).collect();
    let mut jobs: Vec<Box<dyn Fn(&mut Model, &mut Report, &mut Vec<String>) + Send + Sync + '_>> = vec![];
    let sref = &s;
    let probes_ref = &probes;
    let specs_ref = &specs;
    let honest_ref = &honest_msg;
    // jobs share the session; each worker registers the model's own receiver state once
    let ensure = move |m: &mut Model, rep: &mut Report| -> bool {
        let id = format!("c02-{vname}");
        match m.call("c01.has", &[id.clone()]) {
            Ok(r) if r.first().map(|x| x.as_str()) == Some("1") => true,
            _ => match sref.model_new(m, &id) {
                Ok(()) => true,
                Err(e) => {
                    rep.disagree.push(format!("model new failed: {e} -- {}", sref.describe()));
                    false
                }
            },
        }
    };
    let check = move |m: &mut Model, rep: &mut Report, what: &str, msg: &[u8]| {
        let id = format!("c02-{vname}");
        let real = real_recv_str(&sref.real_recv(msg));
        match sref.model_recv(m, &id, msg) {
            Ok(mv) => {
                rep.n_eval += 1;
                if mv != real {
                    rep.disagree.push(format!("receiver verdict on [{what}]: impl {real} model {mv} -- {}", sref.describe()));
                } else if rep.samples.len() < 2 {
                    rep.samples.push(format!("{vname}: [{what}] -> impl = model = {}", real.chars().take(100).collect::<String>()));
                }
            }
            Err(e) => rep.disagree.push(format!("model receiver failed on [{what}]: {e} -- {}", sref.describe())),
        }
    };
    jobs.push(Box::new(move |m, rep, _| {
        if ensure(m, rep) {
            check(m, rep, "honest message", honest_ref);
        }
    }));
    for i in sample {
        jobs.push(Box::new(move |m, rep, _| {
            if ensure(m, rep) {
                let p = &probes_ref[i];
                check(m, rep, &format!("{}: {}", p.kind, p.what), &p.msg);
            }
        }));
    }
    for (what, msg) in reenc_msgs {
        jobs.push(Box::new(move |m, rep, _| {
            if ensure(m, rep) {
                check(m, rep, &format!("reencoded-masked-value: {what}"), &msg);
            }
        }));
    }
    for (i, msg) in adv_msgs {
        jobs.push(Box::new(move |m, rep, _| {
            let (name, spec) = &specs_ref[i];
            match sref.model_adv(m, spec) {
                Ok(mm) => {
                    rep.n_eval += 1;
                    if mm != msg {
                        rep.disagree.push(format!("adv_sender {name}: the model's message differs from the harness adversary's ({} vs {} bytes) spec={} -- {}",
                            mm.len(), msg.len(), spec_arg(spec), sref.describe()));
                    }
                }
                Err(e) => rep.disagree.push(format!("adv_sender {name}: model failed: {e} -- {}", sref.describe())),
            }
            if ensure(m, rep) {
                check(m, rep, &format!("calibrated deviation {name}"), &msg);
            }
        }));
    }
    let (r2, l2, q) = run_parallel(jobs, threads);
    rep.merge(r2);
    log.extend(l2);
    q
}

pub fn run(kv: &Args) -> i32 {
    let seed = kv.u64("seed", 1);
    let out = kv.str("out", "/verif/build/run/C02");
    std::fs::create_dir_all(&out).unwrap();
    let threads = n_threads(kv);
    let mut rep = Report::new();
    let mut log = vec![];
    let mut queries = 0;
    // `only=ext|ot` re-runs one variant; `replay=<file>` picks the variant named in the ORACLE / DISAGREE text
    // (all probes of a variant derive from `seed`, so the run reproduces the reported input).
    let mut only = kv.get("only").map(|s| s.to_string());
    if let Some(path) = kv.get("replay") {
        if let Ok(txt) = std::fs::read_to_string(path) {
            if txt.contains("variant=ot") {
                only = Some("ot".into());
            } else if txt.contains("variant=ext") {
                only = Some("ext".into());
            }
        }
    }
    let only = only.as_deref();
    if only.map_or(true, |o| o == "ext") {
        queries += variant_run(seed, false, kv.thorough(), threads, &mut rep, &mut log);
    }
    if only.map_or(true, |o| o == "ot") {
        queries += variant_run(seed, true, kv.thorough(), threads, &mut rep, &mut log);
    }
    rep.samples.truncate(6);
    std::fs::write(format!("{out}/cases.txt"), log.join("\n") + "\n").unwrap();
    rep.write(&out, queries);
    0
}
