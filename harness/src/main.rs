//! sl-verif-harness: runs the real sl-crypto implementation on generated cases for the
//! correspondence checks of /verif (DESIGN.md, tie T2).
//!
//!   harness <property> <mode> [key=value ...]
//!
//! Each property module writes its cases/results to the directory given as `out=`.
mod util;
mod c19;

fn main() {
    let args: Vec<String> = std::env::args().collect();
    if args.len() < 2 {
        eprintln!("usage: harness <property> [key=value ...]");
        std::process::exit(2);
    }
    let kv = util::Args::parse(&args[2..]);
    let rc = match args[1].as_str() {
        "c19" => c19::run(&kv),
        other => {
            eprintln!("unknown property {other}");
            2
        }
    };
    std::process::exit(rc);
}
