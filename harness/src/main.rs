//! sl-verif-harness: runs the real sl-crypto implementation on generated cases for the
//! correspondence checks of /verif (DESIGN.md, tie T2).
//!
//!   harness <property> [key=value ...]
//!
//! Each property module writes its cases/results to the directory given as `out=`.
#![allow(dead_code, unused_imports)]
pub mod util;
pub mod oracle;
mod c01;
mod c02;
mod c03;
mod c04;
mod c05;
mod c06;
mod c07;
mod c08;
mod c09;
mod c10;
mod c11;
mod c12;
mod c13;
mod c14;
mod c15;
mod c16;
mod c17;
mod c18;
mod c19;
mod c20;

fn main() {
    let args: Vec<String> = std::env::args().collect();
    if args.len() < 2 {
        eprintln!("usage: harness <property> [key=value ...]");
        std::process::exit(2);
    }
    let kv = util::Args::parse(&args[2..]);
    // remember the last panic (message, location, announced case); written out only if nothing catches it
    let default_hook = std::panic::take_hook();
    std::panic::set_hook(Box::new(move |info| {
        let rec = format!("case={} :: {}", util::current_case(), info);
        *util::LAST_PANIC.lock().unwrap_or_else(|e| e.into_inner()) = Some(rec);
        default_hook(info);
    }));
    let out_dir = kv.get("out").map(|s| s.to_string());
    let prop = args[1].clone();
    let res = std::panic::catch_unwind(std::panic::AssertUnwindSafe(|| dispatch(&prop, &kv)));
    let rc = match res {
        Ok(rc) => rc,
        Err(_) => {
            if let Some(d) = out_dir {
                let rec = util::LAST_PANIC.lock().unwrap_or_else(|e| e.into_inner()).clone().unwrap_or_default();
                let _ = std::fs::write(format!("{d}/harness_panic.txt"), rec);
            }
            101
        }
    };
    std::process::exit(rc);
}

fn dispatch(prop: &str, kv: &util::Args) -> i32 {
    let kv = kv;
    match prop {
        "c01" => c01::run(kv),
        "c02" => c02::run(kv),
        "c03" => c03::run(kv),
        "c04" => c04::run(kv),
        "c05" => c05::run(kv),
        "c06" => c06::run(kv),
        "c07" => c07::run(kv),
        "c08" => c08::run(kv),
        "c09" => c09::run(kv),
        "c10" => c10::run(kv),
        "c11" => c11::run(kv),
        "c12" => c12::run(kv),
        "c13" => c13::run(kv),
        "c14" => c14::run(kv),
        "c15" => c15::run(kv),
        "c16" => c16::run(kv),
        "c17" => c17::run(kv),
        "c18" => c18::run(kv),
        "c19" => c19::run(kv),
        "c20" => c20::run(kv),
        other => {
            eprintln!("unknown property {other}");
            2
        }
    }
}
