//! C10: verifiable RSA encryption -- acceptance implies recoverability.
//! Byte alterations of serialised proofs, context substitutions and adversarial provers (built through the wire
//! format exactly like /verif/findings/F8_demo.rs) are run against the REAL from_bytes + verify + decrypt and against
//! the extracted model (coq/Model/VEnc.v, served by drv_c09.ml); verdicts and decrypt results must agree.
//! Implementation-only oracle: honest => accepted and decrypts to x; altered byte (x != 0) => rejected; foreign context
//! => rejected; accepted => decrypt = Ok(y) with y*G = Q.
use crate::c09::*;
use crate::oracle::*;
use crate::util::*;
use curve25519_dalek::EdwardsPoint;
use ff::{Field, PrimeField};
use group::{Group, GroupEncoding};
use num_bigint_dig::BigUint;
use rand::{Rng, RngCore, SeedableRng};
use rand_chacha::ChaCha20Rng;
use rsa::traits::PublicKeyParts;
use rsa::{Pkcs1v15Encrypt, RsaPublicKey};
use sha2::{Digest, Sha256};
use sl_verifiable_enc::VerifiableRsaEncryption;
use std::io::Write;
use subtle::ConditionallySelectable;

// ------------------------------------------------------------------------------------------------ the adversary's own codec
#[derive(Clone)]
struct Slot {
    g_r: Vec<u8>,
    enc_x_r: Vec<u8>,
    enc_r: Vec<u8>,
}
#[derive(Clone)]
struct Wire {
    seed: [u8; 32],
    sp: usize,
    psize: usize,
    enc: usize,
    slots: Vec<Slot>,
    scalars: Vec<Vec<u8>>,
}
fn parse_wire(b: &[u8]) -> Wire {
    let u16at = |o: usize| u16::from_be_bytes([b[o], b[o + 1]]) as usize;
    let (sp, psize, enc) = (u16at(32), u16at(34), u16at(36));
    let mut off = 40;
    let mut slots = vec![];
    for _ in 0..sp {
        let g_r = b[off..off + psize].to_vec();
        off += psize;
        let enc_x_r = b[off..off + enc].to_vec();
        off += enc;
        let enc_r = b[off..off + enc].to_vec();
        off += enc;
        slots.push(Slot { g_r, enc_x_r, enc_r });
    }
    let mut scalars = vec![];
    for _ in 0..sp {
        scalars.push(b[off..off + 32].to_vec());
        off += 32;
    }
    assert_eq!(off, b.len());
    Wire { seed: b[..32].try_into().unwrap(), sp, psize, enc, slots, scalars }
}
fn build_wire(w: &Wire) -> Vec<u8> {
    let mut b = w.seed.to_vec();
    for v in [w.sp, w.psize, w.enc, 32] {
        b.extend_from_slice(&(v as u16).to_be_bytes());
    }
    for s in &w.slots {
        b.extend_from_slice(&s.g_r);
        b.extend_from_slice(&s.enc_x_r);
        b.extend_from_slice(&s.enc_r);
    }
    for s in &w.scalars {
        b.extend_from_slice(s);
    }
    b
}
/// the Fiat-Shamir challenge, computed by the adversary with sha2 directly
fn challenge_of(q_bytes: &[u8], slots: &[Slot], label: &[u8]) -> [u8; 32] {
    let mut h = Sha256::new();
    h.update(b"Verified-RSA-encryption");
    h.update(q_bytes);
    for s in slots {
        h.update(&s.g_r);
        h.update(&s.enc_x_r);
        h.update(&s.enc_r);
    }
    h.update(label);
    h.finalize().into()
}
fn bit(ch: &[u8; 32], i: usize) -> bool {
    (ch[i >> 3] >> (i & 7)) & 1 == 1
}
fn label_int(label: &[u8]) -> BigUint {
    let mut h = Sha256::new();
    h.update(b"SL-label-for-RSA");
    h.update(label);
    BigUint::from_bytes_be(&h.finalize())
}
/// label-bound deterministic PKCS#1 v1.5 encryption of an arbitrary plaintext integer (the adversary's tool)
fn enc_int(m: &BigUint, label: &[u8], pk: &RsaPublicKey, seed: [u8; 32]) -> Option<Vec<u8>> {
    let mut r = ChaCha20Rng::from_seed(seed);
    let pt = (m * label_int(label)) % pk.n();
    pk.encrypt(&mut r, Pkcs1v15Encrypt, &pt.to_bytes_be()).ok()
}
fn repr_bytes<G: Cv>(s: &G::Scalar) -> Vec<u8>
where
    G::Scalar: ConditionallySelectable,
{
    s.to_repr().as_ref().to_vec()
}

// ------------------------------------------------------------------------------------------------ evaluation of one input
#[derive(Clone, PartialEq)]
enum Expect {
    /// must be accepted and decrypt to this value (hex)
    Accept(String),
    /// must be rejected by from_bytes or verify
    Reject,
    /// no expectation beyond soundness (accepted => decrypts to the discrete log of Q)
    Any,
}
struct Ctx<'a, G: Cv>
where
    G::Scalar: ConditionallySelectable,
{
    q: G,
    label: &'a [u8],
    pk: &'a str,
    sk: &'a str,
}

/// Run the real from_bytes + verify + decrypt (and the model when `with_model`), compare, apply the oracle.
/// Returns (from_bytes, verify, decrypt) of the real code.
fn eval<G: Cv>(rep: &mut Report, m: &mut Model, tag: &str, bytes: &[u8], c: &Ctx<G>, with_model: bool, expect: &Expect,
               log: &mut std::fs::File) -> (String, String, String)
where
    G::Scalar: ConditionallySelectable,
{
    let cv = G::NAME;
    let (fb, p) = real_from_bytes::<G>(bytes);
    let (mut v, mut d) = ("-".to_string(), "-".to_string());
    if let Some(p) = &p {
        v = real_verify(p, &c.q, m.keys.pk(c.pk), c.label);
        d = real_decrypt(p, &c.q, m.keys.sk(c.sk), c.label);
    }
    rep.kind(&format!("{cv}-{}", tag.split(':').next().unwrap()));
    let qh = pt_hex(&c.q);
    let describe = |bytes: &[u8]| {
        format!("curve={cv} {tag} Q={qh} label={} pk={} sk={} proof_sha256={} len={}", hx(c.label), c.pk, c.sk,
            hex::encode(Sha256::digest(bytes)), bytes.len())
    };
    if with_model {
        let mfb = m.from_bytes(cv, bytes);
        let mclass = if mfb.starts_with("V ") { "V".to_string() } else { mfb.clone() };
        rep.cmp("from_bytes", &describe(bytes), &fb, &mclass);
        if let (Some(_), Some(h)) = (&p, handle(&mfb)) {
            rep.cmp("verify", &describe(bytes), &v, &m.verify(cv, &h, &qh, c.pk, c.label));
            // a decryption that scans all slots costs the model seconds: contexts are sampled
            if !tag.starts_with("context-") || tag.ends_with(":Q+G") || tag.ends_with(":empty") || tag.contains("key") || tag.contains("reframed") {
                rep.cmp("decrypt", &describe(bytes), &d, &m.decrypt(cv, &h, &qh, c.sk, c.label));
            }
        }
        m.reset();
    } else {
        rep.n_eval += 1;
    }
    rep.n_nontrivial += 1;
    // ---- implementation-only oracle
    let dump = |rep: &mut Report, what: &str| {
        // the full input goes to a file next to the results (a proof is 41 KB); the ORACLE line names it
        let name = format!("oracle_input_{}.hex", rep.oracle.len());
        let _ = std::fs::write(format!("{}/{name}", rep_dir()), hex::encode(bytes));
        rep.oracle.push(format!("{what}: from_bytes={fb} verify={v} decrypt=[{d}] :: {} input_file={name}", describe(bytes)));
    };
    if v == "V" && c.pk == c.sk {
        // accepted => decrypt (with the matching private key) returns the discrete logarithm of Q
        let ok = match d.strip_prefix("V ") {
            Some(y) => G::generator() * sc_of_hex::<G>(y) == c.q,
            None => false,
        };
        if !ok {
            dump(rep, "accepted proof does not decrypt to the discrete log of Q");
        }
    }
    match expect {
        Expect::Accept(x) => {
            if v != "V" || d != format!("V {x}") {
                dump(rep, &format!("expected acceptance and decryption to {x}"));
            }
        }
        Expect::Reject => {
            if v == "V" {
                dump(rep, "expected rejection (from_bytes or verify)");
            }
        }
        Expect::Any => {}
    }
    if fb == "P" || v == "P" || d == "P" {
        dump(rep, "panic on peer-supplied bytes");
    }
    writeln!(log, "{cv} {tag} -> from_bytes={fb} verify={v} decrypt={}", if d.len() > 12 { &d[..12] } else { &d }).unwrap();
    (fb, v, d)
}

static REP_DIR: std::sync::OnceLock<String> = std::sync::OnceLock::new();
fn rep_dir() -> String {
    REP_DIR.get().cloned().unwrap_or_else(|| "/verif/build/run/C10".into())
}

// ------------------------------------------------------------------------------------------------ honest material
struct Honest<G: Cv>
where
    G::Scalar: ConditionallySelectable,
{
    x: G::Scalar,
    q: G,
    label: Vec<u8>,
    key: String,
    seed: [u8; 32],
    rs: Vec<G::Scalar>,
    bytes: Vec<u8>,
}
fn honest<G: Cv>(seed: u64, tag: &str, keys: &Keys, key: &str, x: G::Scalar, label: &[u8], sp: Option<usize>, zeros: usize) -> Honest<G>
where
    G::Scalar: ConditionallySelectable,
{
    let base = rng(seed, &format!("c10-honest-{}-{tag}", G::NAME));
    let n = sp.unwrap_or(128);
    let (p, s, rs) = if zeros == 0 {
        let mut pr = base.clone();
        let (s, rs) = tape_of::<G, _>(&base, n);
        (VerifiableRsaEncryption::<G>::encrypt_with_proof(&x, keys.pk(key), label, sp, &mut pr).expect("honest proof"), s, rs)
    } else {
        let cr = CraftedRng { inner: base, zeros, calls: 0 };
        let mut pr = cr.clone();
        let (s, rs) = tape_of::<G, _>(&cr, n);
        (VerifiableRsaEncryption::<G>::encrypt_with_proof(&x, keys.pk(key), label, sp, &mut pr).expect("honest proof"), s, rs)
    };
    Honest { x, q: G::generator() * x, label: label.to_vec(), key: key.to_string(), seed: s, rs, bytes: p.to_bytes() }
}
fn xhex<G: Cv>(x: &G::Scalar) -> String
where
    G::Scalar: ConditionallySelectable,
{
    hex_of_big(&big_of_sc::<G>(x))
}
/// openings re-derived from the challenge over the (possibly modified) slots, honest rule
fn reopen<G: Cv>(w: &mut Wire, h: &Honest<G>, q_bytes: &[u8], label: &[u8]) -> [u8; 32]
where
    G::Scalar: ConditionallySelectable,
{
    let ch = challenge_of(q_bytes, &w.slots, label);
    for i in 0..w.sp {
        let s = if bit(&ch, i) { h.x + h.rs[i] } else { h.rs[i] };
        w.scalars[i] = repr_bytes::<G>(&s);
    }
    ch
}

// ------------------------------------------------------------------------------------------------ one curve
fn run_curve<G: Cv>(seed: u64, thorough: bool, keys: &Keys, m: &mut Model, rep: &mut Report, log: &mut std::fs::File)
where
    G::Scalar: ConditionallySelectable,
{
    let cv = G::NAME;
    let mut r = rng(seed, &format!("c10-{cv}"));
    let x = scalar_of_kind::<G>(6, &mut r);
    let label = b"c10-label".to_vec();
    let h = honest::<G>(seed, "base", keys, "a1024", x, &label, None, 0);
    let w0 = parse_wire(&h.bytes);
    let qb = h.q.to_bytes().as_ref().to_vec();
    let ctx = Ctx::<G> { q: h.q, label: &label, pk: "a1024", sk: "a1024" };
    let acc = Expect::Accept(xhex::<G>(&x));
    let (slot_size, enc, psize) = (w0.psize + 2 * w0.enc, w0.enc, w0.psize);
    let base_scalars = 40 + 128 * slot_size;
    eval(rep, m, "honest", &h.bytes, &ctx, true, &acc, log);

    // ---------------------------------------------------------------- 1. byte alterations, stratified over the wire fields
    // two base proofs: the default 128 slots, and one with a non-default security parameter whose alterations are
    // confined to the slots (and opened scalars) beyond the first 128 -- a verifier that stops at the default
    // parameter never looks at those
    let h_hi = honest::<G>(seed, "hi", keys, "a1024", x, &label, Some(if thorough { 256 } else { 141 }), 0);
    eval(rep, m, "honest-hi", &h_hi.bytes, &ctx, true, &acc, log);
    let (mut n_positions, mut n_modelled) = (0usize, 0usize);
    for (bi, hb) in [&h, &h_hi].into_iter().enumerate() {
    let ns = parse_wire(&hb.bytes).sp;
    let lo = if bi == 0 { 0 } else { 128 };
    let base_scalars = 40 + ns * slot_size;
    let per_field = if thorough { 0 } else if bi == 0 { 200 } else { 80 };
    let mut positions: Vec<(usize, &str)> = vec![];
    if bi == 0 {
        for p in 0..32 { positions.push((p, "seed")); }
    }
    // the four size words of both base proofs (for the larger one a lowered slot count stays inside the permitted window)
    for p in 32..40 { positions.push((p, "sizes")); }
    if thorough {
        for i in lo..ns {
            let o = 40 + i * slot_size;
            for p in o..o + psize { positions.push((p, "commitment")); }
            for p in o + psize..o + psize + enc { positions.push((p, "enc_x_r")); }
            for p in o + psize + enc..o + slot_size { positions.push((p, "enc_r")); }
        }
        for p in base_scalars + lo * 32..hb.bytes.len() { positions.push((p, "open_scalar")); }
    } else {
        for _ in 0..per_field {
            let i = lo + (r.next_u32() as usize % (ns - lo));
            let o = 40 + i * slot_size;
            positions.push((o + (r.next_u32() as usize % psize), "commitment"));
            positions.push((o + psize + (r.next_u32() as usize % enc), "enc_x_r"));
            positions.push((o + psize + enc + (r.next_u32() as usize % enc), "enc_r"));
            positions.push((base_scalars + lo * 32 + (r.next_u32() as usize % ((ns - lo) * 32)), "open_scalar"));
        }
        if bi == 1 {
            // the very last slot and the very last opened scalar
            positions.push((40 + (ns - 1) * slot_size, "commitment"));
            positions.push((hb.bytes.len() - 1, "open_scalar"));
            positions.push((hb.bytes.len() - 32, "open_scalar"));
        }
    }
    // which of them also go through the model (model evaluation is slower)
    let mut budget: std::collections::BTreeMap<&str, usize> = Default::default();
    let quota = |f: &str| -> usize {
        let (q, t) = match f { "seed" => (4, 8), "sizes" => (8, 8), "open_scalar" => (8, 40), _ => (5, 30) };
        if thorough { t } else { q }
    };
    let stride = |f: &str, n: usize| -> usize { std::cmp::max(1, n / quota(f)) };
    let mut count_by_field: std::collections::BTreeMap<&str, usize> = Default::default();
    for (_, f) in &positions { *count_by_field.entry(f).or_default() += 1; }
    let mut seen_by_field: std::collections::BTreeMap<&str, usize> = Default::default();
    let mut real_only: Vec<(usize, &str, u8)> = vec![];
    for (pos, field) in &positions {
        let field: &str = *field;
        let k = { let e = seen_by_field.entry(field).or_default(); *e += 1; *e - 1 };
        let to_model = k % stride(field, count_by_field[field]) == 0 && *budget.entry(field).or_default() < quota(field);
        let old = hb.bytes[*pos];
        let mut rnd = (r.next_u32() & 0xff) as u8;
        if rnd == old || rnd == old.wrapping_add(1) { rnd = old.wrapping_add(2 + (rnd & 0x3f)); }
        for (j, newb) in [old.wrapping_add(1), rnd].into_iter().enumerate() {
            if to_model && j == (k / stride(field, count_by_field[field])) % 2 {
                *budget.get_mut(field).unwrap() += 1;
                let mut b = hb.bytes.clone();
                b[*pos] = newb;
                eval(rep, m, &format!("alter{}-{field}:pos={pos}:{old:02x}->{newb:02x}", if bi == 0 { "" } else { "-hi" }), &b, &ctx, true, &Expect::Reject, log);
            } else {
                real_only.push((*pos, field, newb));
            }
        }
    }
    // the bulk runs against the real code only, in parallel
    let nthreads = std::thread::available_parallelism().map(|n| n.get()).unwrap_or(4).min(16);
    let chunks: Vec<&[(usize, &str, u8)]> = real_only.chunks(((real_only.len() + nthreads - 1) / nthreads.max(1)).max(1)).collect();
    let results: Vec<Vec<(usize, String, u8, String, String, String)>> = std::thread::scope(|sc| {
        let hs: Vec<_> = chunks.iter().map(|ch| {
            let (bytes, q, label) = (&hb.bytes, &hb.q, &label);
            sc.spawn(move || {
                let mut out = vec![];
                let mut b = bytes.clone();
                for (pos, field, newb) in ch.iter() {
                    let old = b[*pos];
                    b[*pos] = *newb;
                    let (fb, p) = real_from_bytes::<G>(&b);
                    let (mut v, mut d) = ("-".to_string(), "-".to_string());
                    if let Some(p) = &p {
                        v = real_verify(p, q, keys.pk("a1024"), label);
                        if v == "V" || fb == "P" {
                            d = real_decrypt(p, q, keys.sk("a1024"), label);
                        }
                    }
                    b[*pos] = old;
                    if v == "V" || v == "P" || fb == "P" {
                        out.push((*pos, field.to_string(), *newb, fb, v, d));
                    }
                }
                (ch.len(), out)
            })
        }).collect();
        hs.into_iter().map(|h| { let (n, o) = h.join().unwrap(); rep.n_eval += n as u64; rep.n_nontrivial += n as u64; o }).collect()
    });
    for (_, f, _) in &real_only { rep.kind(&format!("{cv}-alter{}-{f}", if bi == 0 { "" } else { "-hi" })); }
    for (pos, field, newb, fb, v, d) in results.into_iter().flatten() {
        rep.oracle.push(format!("altered byte accepted or panicked: curve={cv} field={field} pos={pos} new={newb:02x} from_bytes={fb} verify={v} decrypt=[{d}] :: \
            base proof = honest(seed={seed}, stream c10-honest-{cv}-{}, key a1024, x={}, label={}, slots={ns})", if bi == 0 { "base" } else { "hi" }, xhex::<G>(&x), hx(&label)));
    }
    n_positions += positions.len();
    n_modelled += budget.values().sum::<usize>();
    if bi == 1 {
        // the announced slot count lowered to other permitted values, with the frame length left as it is
        for newsp in [128usize, ns - 1, ns - 13] {
            let mut b = hb.bytes.clone();
            b[32..34].copy_from_slice(&(newsp as u16).to_be_bytes());
            eval(rep, m, &format!("alter-hi-slot-count:{ns}->{newsp}"), &b, &ctx, true, &Expect::Reject, log);
        }
    }
    }

    // ---------------------------------------------------------------- 2. context substitutions
    let g = G::generator();
    let other_q: Vec<(&str, G)> = vec![("Q+G", h.q + g), ("2Q", h.q + h.q), ("identity", G::identity()), ("-Q", -h.q), ("G", g)];
    for (name, q2) in other_q {
        let c2 = Ctx::<G> { q: q2, label: &label, pk: "a1024", sk: "a1024" };
        eval(rep, m, &format!("context-point:{name}"), &h.bytes, &c2, true, &Expect::Reject, log);
    }
    let mut labels2: Vec<(&str, Vec<u8>)> = vec![("empty", vec![]), ("extended", [&label[..], &[0u8]].concat()),
        ("truncated", label[..label.len() - 1].to_vec()), ("bitflip", { let mut l = label.clone(); l[0] ^= 1; l })];
    if thorough { labels2.push(("long", vec![7u8; 1024])); }
    for (name, l2) in &labels2 {
        let c2 = Ctx::<G> { q: h.q, label: l2, pk: "a1024", sk: "a1024" };
        eval(rep, m, &format!("context-label:{name}"), &h.bytes, &c2, true, &Expect::Reject, log);
    }
    // verification under another RSA key; decryption with another private key
    let c2 = Ctx::<G> { q: h.q, label: &label, pk: "b1024", sk: "a1024" };
    eval(rep, m, "context-key:verify-under-b", &h.bytes, &c2, true, &Expect::Reject, log);
    let c2 = Ctx::<G> { q: h.q, label: &label, pk: "a1024", sk: "b1024" };
    let (_, _, d) = eval(rep, m, "context-key:decrypt-with-b", &h.bytes, &c2, true, &Expect::Any, log);
    if d.starts_with("V ") {
        rep.oracle.push(format!("decryption with a foreign private key returned a value: {d} (curve={cv})"));
    }
    // re-framing: a 129-slot proof for label L presented as a 128-slot proof for label (slot 128 bytes ++ L):
    // the challenge input is byte-identical, only the label-bound RSA plaintexts differ
    let h129 = honest::<G>(seed, "p129", keys, "a1024", x, &label, Some(129), 0);
    let w = parse_wire(&h129.bytes);
    let mut w2 = w.clone();
    let last = w2.slots.pop().unwrap();
    w2.scalars.pop();
    w2.sp = 128;
    let l2 = [&last.g_r[..], &last.enc_x_r[..], &last.enc_r[..], &label[..]].concat();
    assert_eq!(challenge_of(&qb, &w.slots, &label), challenge_of(&qb, &w2.slots, &l2));
    let c2 = Ctx::<G> { q: h.q, label: &l2, pk: "a1024", sk: "a1024" };
    eval(rep, m, "context-label:reframed-129-as-128", &build_wire(&w2), &c2, true, &Expect::Reject, log);
    let c3 = Ctx::<G> { q: h.q, label: &label, pk: "a1024", sk: "a1024" };
    eval(rep, m, "honest:sp129", &h129.bytes, &c3, true, &acc, log);

    // ---------------------------------------------------------------- 3. adversarial provers
    let pk = keys.pk("a1024");
    let n_adv = if thorough { 12 } else { 1 };
    // garbage kinds for an unopened ciphertext
    let garbage = |kind: usize, r: &mut ChaCha20Rng, i: usize| -> Vec<u8> {
        match kind % 6 {
            0 => { let mut g = vec![0u8; enc]; r.fill_bytes(&mut g); g[0] = 0; g }                 // < n, bad padding
            1 => vec![0xffu8; enc],                                                                  // >= n
            2 => enc_int(&big_of_sc::<G>(&(h.rs[i] + G::Scalar::ONE)).clone(), &label, pk, h.seed).unwrap(),   // valid encryption of a wrong integer
            3 => enc_int(&(BigUint::from(1u8) << 256usize), &label, pk, h.seed).unwrap(),         // 33-byte plaintext
            4 => enc_int(&BigUint::from_bytes_be(&[0xffu8; 32]), &label, pk, h.seed).unwrap(),    // 32 bytes, not canonical
            _ => vec![0u8; enc],                                                                     // zero
        }
    };
    // (a) k corrupted slots; grind the garbage until all corrupted sides stay unopened
    let ks: Vec<usize> = if thorough { (1..=8).chain([10, 12]).collect() } else { vec![1, 2, 3, 4, 5, 6, 7, 8] };
    for rep_i in 0..n_adv {
        for &k in &ks {
            let mut failing_done = false;
            let mut tries = 0usize;
            loop {
                tries += 1;
                let mut w = w0.clone();
                // slot 0 is always among the corrupted ones (the first slot decrypt looks at)
                let mut idx: Vec<usize> = vec![0];
                while idx.len() < k {
                    let i = (r.next_u32() % 128) as usize;
                    if !idx.contains(&i) { idx.push(i); }
                }
                let sides: Vec<bool> = idx.iter().map(|_| r.next_u32() & 1 == 1).collect();   // true: corrupt enc_x_r
                for (j, &i) in idx.iter().enumerate() {
                    let gb = garbage(tries + j + rep_i, &mut r, i);
                    if sides[j] { w.slots[i].enc_x_r = gb } else { w.slots[i].enc_r = gb }
                }
                let ch = reopen::<G>(&mut w, &h, &qb, &label);
                // the corrupted side stays unopened iff the challenge bit selects the other side
                let pass = idx.iter().zip(&sides).all(|(&i, &sx)| bit(&ch, i) != sx);
                if pass {
                    eval(rep, m, &format!("adv-garbage-unopened:k={k}:tries={tries}"), &build_wire(&w), &ctx, true, &acc, log);
                    break;
                } else if !failing_done {
                    failing_done = true;
                    eval(rep, m, &format!("adv-garbage-opened:k={k}"), &build_wire(&w), &ctx, k <= 2 || thorough, &Expect::Reject, log);
                }
                if tries > (1 << (k + 6)) { break; }
            }
        }
    }
    // (b) all but one slot corrupted on the side that an honest challenge leaves unopened cannot be ground; 128 corrupted
    //     slots with openings re-derived: rejected
    {
        let mut w = w0.clone();
        for i in 0..128 { w.slots[i].enc_r = garbage(i, &mut r, i); }
        reopen::<G>(&mut w, &h, &qb, &label);
        eval(rep, m, "adv-all-enc_r-garbage", &build_wire(&w), &ctx, true, &Expect::Reject, log);
    }
    for j in [0usize, 1, 77, 127] {
        // (c) wrong commitment (r+1)G, opened honestly / opened to match the commitment
        let mut w = w0.clone();
        w.slots[j].g_r = (g * (h.rs[j] + G::Scalar::ONE)).to_bytes().as_ref().to_vec();
        let ch = reopen::<G>(&mut w, &h, &qb, &label);
        eval(rep, m, &format!("adv-wrong-commitment:slot={j}:open=honest"), &build_wire(&w), &ctx, j < 2, &Expect::Reject, log);
        let s = if bit(&ch, j) { h.x + h.rs[j] + G::Scalar::ONE } else { h.rs[j] + G::Scalar::ONE };
        w.scalars[j] = repr_bytes::<G>(&s);
        eval(rep, m, &format!("adv-wrong-commitment:slot={j}:open=matching"), &build_wire(&w), &ctx, j < 2, &Expect::Reject, log);
        // (d) wrong-side opening
        let mut w = w0.clone();
        let ch = challenge_of(&qb, &w.slots, &label);
        let s = if bit(&ch, j) { h.rs[j] } else { h.x + h.rs[j] };
        w.scalars[j] = repr_bytes::<G>(&s);
        eval(rep, m, &format!("adv-wrong-side-opening:slot={j}"), &build_wire(&w), &ctx, j < 2, &Expect::Reject, log);
        // (e) the two ciphertexts of a slot swapped, openings re-derived
        let mut w = w0.clone();
        let sl = &mut w.slots[j];
        std::mem::swap(&mut sl.enc_r, &mut sl.enc_x_r);
        reopen::<G>(&mut w, &h, &qb, &label);
        eval(rep, m, &format!("adv-swapped-ciphertexts:slot={j}"), &build_wire(&w), &ctx, j < 1, &Expect::Reject, log);
        // (f) undecodable commitment
        let mut w = w0.clone();
        w.slots[j].g_r = if G::BE { let mut b = w.slots[j].g_r.clone(); b[0] = 7; b } else { let mut b = vec![0u8; 32]; b[0] = 2; b };
        let undec = pt_of_bytes::<G>(&w.slots[j].g_r).is_none();
        reopen::<G>(&mut w, &h, &qb, &label);
        eval(rep, m, &format!("adv-bad-point:slot={j}:undecodable={undec}"), &build_wire(&w), &ctx, j < 2, &Expect::Reject, log);
        if G::BE {
            // SEC1 "compact" tag 0x05: k256's GroupEncoding::from_bytes accepts it and picks one of the two points with this
            // x coordinate; the proof is then either a valid proof with another encoding of the same commitment or has
            // a wrong commitment -- only soundness and agreement with the model are demanded
            let mut w = w0.clone();
            w.slots[j].g_r[0] = 5;
            reopen::<G>(&mut w, &h, &qb, &label);
            eval(rep, m, &format!("adv-compact-point:slot={j}"), &build_wire(&w), &ctx, j < 2, &Expect::Any, log);
        }
        // (g) non-canonical opened scalar: from_bytes must refuse
        let mut w = w0.clone();
        w.scalars[j] = if G::BE { G::order().to_bytes_be() } else { G::order().to_bytes_le() };
        eval(rep, m, &format!("adv-noncanonical-scalar:slot={j}"), &build_wire(&w), &ctx, true, &Expect::Reject, log);
    }
    // (h) ciphertexts for another secret x' under the claimed Q = x*G
    {
        let x2 = h.x + G::Scalar::ONE;
        let h2 = honest::<G>(seed, "otherx", keys, "a1024", x2, &label, None, 0);
        let mut w = parse_wire(&h2.bytes);
        // openings re-derived for the claimed point
        let ch = challenge_of(&qb, &w.slots, &label);
        for i in 0..128 {
            let s = if bit(&ch, i) { x2 + h2.rs[i] } else { h2.rs[i] };
            w.scalars[i] = repr_bytes::<G>(&s);
        }
        eval(rep, m, "adv-other-secret", &build_wire(&w), &ctx, true, &Expect::Reject, log);
    }
    // (i) short nonces (every nonce has leading zero repr bytes): accepted and decrypts
    for z in [1usize, 2] {
        let hz = honest::<G>(seed, &format!("short{z}"), keys, "a1024", x, &label, None, z);
        eval(rep, m, &format!("adv-short-nonces:zeros={z}"), &hz.bytes, &ctx, true, &acc, log);
    }
    // (j) x = 0: both ciphertexts of a slot coincide, alterations of the unopened side may be accepted;
    //     only soundness and model agreement are demanded
    {
        let h0 = honest::<G>(seed, "zero", keys, "a1024", G::Scalar::ZERO, &label, None, 0);
        let c0 = Ctx::<G> { q: h0.q, label: &label, pk: "a1024", sk: "a1024" };
        eval(rep, m, "honest:x=0", &h0.bytes, &c0, true, &Expect::Accept("0".into()), log);
        let w = parse_wire(&h0.bytes);
        for t in 0..(if thorough { 24 } else { 6 }) {
            let mut w2 = w.clone();
            let i = t % 3;
            if t % 2 == 0 { w2.slots[i].enc_r = garbage(t, &mut r, i) } else { w2.slots[i].enc_x_r = garbage(t, &mut r, i) }
            // the opened scalars of the honest proof stay valid for either side when x = 0
            eval(rep, m, &format!("adv-zero-secret-garbage:slot={i}:try={t}"), &build_wire(&w2), &c0, true, &Expect::Any, log);
        }
    }
    // (k) framing: truncated / extended data, header changes
    {
        let b = &h.bytes;
        let mut variants: Vec<(&str, Vec<u8>)> = vec![
            ("empty", vec![]), ("39-bytes", b[..39].to_vec()), ("40-bytes", b[..40].to_vec()),
            ("minus-1", b[..b.len() - 1].to_vec()), ("plus-1", [&b[..], &[0u8]].concat()),
            ("plus-slot", [&b[..], &vec![0u8; slot_size + 32][..]].concat()),
            ("minus-slot", b[..b.len() - slot_size - 32].to_vec()),
        ];
        for (name, o, v) in [("sp=129", 32usize, 129u16), ("sp=127", 32, 127), ("sp=257", 32, 257), ("sp=0", 32, 0),
                             ("psize+1", 34, psize as u16 + 1), ("enc-1", 36, enc as u16 - 1), ("enc=0", 36, 0), ("scalar=31", 38, 31)] {
            let mut c = b.clone();
            c[o..o + 2].copy_from_slice(&v.to_be_bytes());
            variants.push((name, c));
        }
        // 256 and 257 slots announced with consistent lengths (F3: 257 must be refused, 256 parses)
        for sp in [256usize, 257] {
            let mut w = w0.clone();
            w.sp = sp;
            while w.slots.len() < sp { let k = w.slots.len() % 128; w.slots.push(w0.slots[k].clone()); w.scalars.push(w0.scalars[k].clone()); }
            variants.push((if sp == 256 { "256-slots-repeated" } else { "257-slots-repeated" }, build_wire(&w)));
        }
        for (name, v) in variants {
            eval(rep, m, &format!("framing:{name}"), &v, &ctx, true, &Expect::Reject, log);
        }
    }
    if thorough {
        // RSA-2048 as well: honest, one ground garbage slot, a few alterations
        let h2 = honest::<G>(seed, "k2048", keys, "a2048", x, &label, Some(130), 0);
        let c2 = Ctx::<G> { q: h2.q, label: &label, pk: "a2048", sk: "a2048" };
        eval(rep, m, "honest:rsa2048", &h2.bytes, &c2, true, &acc, log);
        for t in 0..40 {
            let mut b = h2.bytes.clone();
            let pos = r.next_u32() as usize % b.len();
            b[pos] = b[pos].wrapping_add(1 + (r.next_u32() % 255) as u8);
            eval(rep, m, &format!("alter-rsa2048:pos={pos}:t={t}"), &b, &c2, t % 4 == 0, &Expect::Reject, log);
        }
    }
    if rep.samples.len() < 6 {
        rep.samples.push(format!("curve={cv}: base proof {} bytes (x={}, label={}), {} byte alterations ({} through the model)",
            h.bytes.len(), xhex::<G>(&x), hx(&label), n_positions * 2, n_modelled));
    }
}

pub fn run(kv: &Args) -> i32 {
    let seed = kv.u64("seed", 1);
    let out = kv.str("out", "/verif/build/run/C10");
    std::fs::create_dir_all(&out).unwrap();
    let _ = REP_DIR.set(out.clone());
    quiet_panics();
    let thorough = kv.thorough();
    let ids: Vec<&str> = if thorough { vec!["a1024", "b1024", "a2048"] } else { vec!["a1024", "b1024"] };
    let keys = Keys::generate(seed, &ids);
    let mut m = Model::new(&keys);
    let mut rep = Report::default();
    let mut log = std::fs::File::create(format!("{out}/cases.txt")).unwrap();
    run_curve::<k256::ProjectivePoint>(seed, thorough, &keys, &mut m, &mut rep, &mut log);
    run_curve::<EdwardsPoint>(seed, thorough, &keys, &mut m, &mut rep, &mut log);
    rep.write(&out, m.drv.queries);
    0
}
