//! C12: BIP32 public derivation. Real `derive_xpub` / `derive_child_pubkey` / `get_finger_print` /
//! `XPubKey::to_string` (crates/sl-mpc-mate/src/bip32.rs) vs
//!   (a) the extracted model coq/Model/Bip32.v and (b) the extracted specification coq/Model/Bip32Spec.v,
//!       both run by the OCaml driver with the real k256 / hmac / sha2 / ripemd behind their oracles;
//!   (c) an implementation-only oracle: an independent Rust reference of BIP32 (own CKDpub, own
//!       Base58 on BigUint), additivity child == parent + offset*G, the error cases, and the public
//!       derivations of BIP32 test vectors 1 and 2.
//! Replay: `replay=<file>` containing `prefix=.. root=.. cc=.. path=..` (the text of an ORACLE/DISAGREE line).
use crate::oracle::*;
use crate::util::*;
use derivation_path::{ChildIndex, DerivationPath};
use elliptic_curve::ops::Reduce;
use elliptic_curve::sec1::ToEncodedPoint;
use elliptic_curve::Field;
use k256::{ProjectivePoint, Scalar, U256};
use num_bigint_dig::BigUint;
use rand::{Rng, RngCore};
use sl_mpc_mate::bip32::{derive_child_pubkey, derive_xpub, get_finger_print, BIP32Error, Prefix, XPubKey};
use std::io::Write;
use std::panic::{catch_unwind, AssertUnwindSafe};

const HARD: u32 = 1 << 31;

static QUIET: std::sync::atomic::AtomicBool = std::sync::atomic::AtomicBool::new(false);
/// catch_unwind of the real code without the panic message on stderr (harness bugs still print)
fn quiet<R>(f: AssertUnwindSafe<impl FnOnce() -> R>) -> std::thread::Result<R> {
    QUIET.store(true, std::sync::atomic::Ordering::SeqCst);
    let r = catch_unwind(f);
    QUIET.store(false, std::sync::atomic::Ordering::SeqCst);
    r
}

#[derive(Clone)]
struct Case {
    kind: String,
    prefix: String, // x y z t c<hex>
    root: ProjectivePoint,
    cc: [u8; 32],
    path: Vec<u32>, // ChildIndex::to_bits
    parse: bool,    // build the DerivationPath by parsing "m/.." instead of DerivationPath::new
}

fn drun(drv: &mut Driver, name: &str, args: &[String]) -> Result<Vec<String>, String> {
    let trace = std::env::var("C12_TRACE").is_ok();
    drv.run_with(name, args, &mut |o, a| { if trace { eprintln!("Q {o} {}", a.join(" ")); } None })
}

fn prefix_of(tag: &str) -> Prefix {
    match tag {
        "x" => Prefix::XPub,
        "y" => Prefix::YPub,
        "z" => Prefix::ZPub,
        "t" => Prefix::TPub,
        c => Prefix::Custom(u32::from_str_radix(&c[1..], 16).expect("custom prefix")),
    }
}
/// version bytes from BIP32 / SLIP-132, independent of the crate's table
fn version_of(tag: &str) -> u32 {
    match tag {
        "x" => 0x0488_B21E,
        "y" => 0x049D_7CB2,
        "z" => 0x04B2_4746,
        "t" => 0x0435_87CF,
        c => u32::from_str_radix(&c[1..], 16).unwrap(),
    }
}

fn path_str(p: &[u32]) -> String {
    if p.is_empty() { "-".into() } else { p.iter().map(|i| format!("{:x}", i)).collect::<Vec<_>>().join(",") }
}
fn mk_path(c: &Case) -> DerivationPath {
    if c.parse {
        let mut s = String::from("m");
        for &i in &c.path {
            if i & HARD != 0 { s.push_str(&format!("/{}'", i & !HARD)); } else { s.push_str(&format!("/{}", i)); }
        }
        s.parse().expect("derivation path")
    } else {
        DerivationPath::new(c.path.iter().map(|&b| ChildIndex::from_bits(b)).collect::<Vec<_>>())
    }
}
fn err_code(e: &BIP32Error) -> u32 {
    match e {
        BIP32Error::HardenedChildNotSupported => 1,
        BIP32Error::InvalidChainCode => 2,
        BIP32Error::PubkeyPointAtInfinity => 3,
        BIP32Error::InvalidChildScalar => 4,
        BIP32Error::PathTooDeep => 5,
    }
}
fn input_str(c: &Case) -> String {
    format!("prefix={} root={} cc={} path={}", c.prefix, point_hex(&c.root), hex::encode(c.cc), path_str(&c.path))
}

/// string outcome in the driver's notation
fn str_out(r: std::thread::Result<String>) -> String {
    match r { Ok(s) => format!("val:{}", hx(s.as_bytes())), Err(_) => "panic".into() }
}
fn strip_site(s: &str) -> String {
    if s.starts_with("panic") { "panic".into() } else { s.to_string() }
}

// ---------------------------------------------------------------- independent reference
fn ref_b58(b: &[u8]) -> String {
    const A: &[u8] = b"123456789ABCDEFGHJKLMNPQRSTUVWXYZabcdefghijkmnopqrstuvwxyz";
    let z = b.iter().take_while(|&&x| x == 0).count();
    let mut s: String = std::iter::repeat('1').take(z).collect();
    let n = BigUint::from_bytes_be(b);
    if n != BigUint::from(0u8) {
        for d in n.to_radix_be(58) { s.push(A[d as usize] as char); }
    }
    s
}
fn ref_b58_decode(s: &str) -> Option<Vec<u8>> {
    const A: &[u8] = b"123456789ABCDEFGHJKLMNPQRSTUVWXYZabcdefghijkmnopqrstuvwxyz";
    let z = s.bytes().take_while(|&x| x == b'1').count();
    let mut n = BigUint::from(0u8);
    for c in s.bytes() {
        let d = A.iter().position(|&a| a == c)?;
        n = n * BigUint::from(58u8) + BigUint::from(d as u32);
    }
    let mut out = vec![0u8; z];
    if n != BigUint::from(0u8) { out.extend(n.to_bytes_be()); }
    Some(out)
}
fn sha256(b: &[u8]) -> Vec<u8> { use sha2::{Digest, Sha256}; Sha256::digest(b).to_vec() }
fn ref_fp(p: &ProjectivePoint) -> [u8; 4] {
    use ripemd::{Digest, Ripemd160};
    let d = Ripemd160::digest(sha256(p.to_encoded_point(true).as_bytes()));
    [d[0], d[1], d[2], d[3]]
}
/// CKDpub from the BIP text: None = failure/invalid
fn ref_ckd(parent: &ProjectivePoint, cc: &[u8; 32], i: u32) -> Option<(Scalar, ProjectivePoint, [u8; 32])> {
    use hmac::{Hmac, Mac};
    if i >= HARD { return None; }
    let mut m = Hmac::<sha2::Sha512>::new_from_slice(cc).unwrap();
    let mut data = parent.to_encoded_point(true).as_bytes().to_vec();
    data.extend_from_slice(&i.to_be_bytes());
    m.update(&data);
    let r = m.finalize().into_bytes();
    let il = BigUint::from_bytes_be(&r[..32]);
    if il >= q_k256() { return None; }
    let mut b = [0u8; 32];
    b.copy_from_slice(&r[..32]);
    let s = <Scalar as Reduce<U256>>::reduce(U256::from_be_slice(&b));
    let k = ProjectivePoint::GENERATOR * s + parent;
    if k == ProjectivePoint::IDENTITY { return None; }
    let mut c = [0u8; 32];
    c.copy_from_slice(&r[32..]);
    Some((s, k, c))
}
struct RefKey { depth: usize, fp: [u8; 4], num: u32, cc: [u8; 32], key: ProjectivePoint, offsets: Vec<Scalar> }
fn ref_derive(root: &ProjectivePoint, cc: &[u8; 32], path: &[u32]) -> Option<RefKey> {
    let mut k = RefKey { depth: 0, fp: [0; 4], num: 0, cc: *cc, key: *root, offsets: vec![] };
    for &i in path {
        let (o, child, c2) = ref_ckd(&k.key, &k.cc, i)?;
        k.fp = ref_fp(&k.key);
        k.depth += 1;
        k.num = i;
        k.cc = c2;
        k.key = child;
        k.offsets.push(o);
    }
    Some(k)
}
fn ref_serialize(version: u32, k: &RefKey) -> Vec<u8> {
    let mut s = version.to_be_bytes().to_vec();
    s.push(k.depth as u8);
    s.extend_from_slice(&k.fp);
    s.extend_from_slice(&k.num.to_be_bytes());
    s.extend_from_slice(&k.cc);
    s.extend_from_slice(k.key.to_encoded_point(true).as_bytes());
    s
}
fn ref_b58check(s: &[u8]) -> String {
    let mut v = s.to_vec();
    v.extend_from_slice(&sha256(&sha256(s))[..4]);
    ref_b58(&v)
}

// ---------------------------------------------------------------- case generation
fn rand_index(r: &mut impl RngCore, k: usize) -> u32 {
    match k % 4 { 0 => 0, 1 => 1, 2 => HARD - 1, _ => r.next_u32() & (HARD - 1) }
}
fn rand_point(r: &mut (impl RngCore + rand::CryptoRng)) -> ProjectivePoint {
    ProjectivePoint::GENERATOR * Scalar::random(r)
}
fn prefix_tag(r: &mut impl RngCore, k: usize) -> String {
    match k % 6 { 0 => "x".into(), 1 => "y".into(), 2 => "z".into(), 3 => "t".into(),
                  4 => format!("c{:x}", r.next_u32()), _ => ["c0", "cffffffff", "c488b21e"][(r.next_u32() % 3) as usize].into() }
}

fn gen_cases(seed: u64, thorough: bool) -> Vec<Case> {
    let mut r = rng(seed, "c12-cases");
    let mut v: Vec<Case> = vec![];
    let mut k = 0usize;
    let mut push = |v: &mut Vec<Case>, r: &mut rand_chacha::ChaCha20Rng, kind: &str, root: Option<ProjectivePoint>, path: Vec<u32>| {
        let root = root.unwrap_or_else(|| rand_point(r));
        let mut cc = [0u8; 32];
        r.fill_bytes(&mut cc);
        let prefix = prefix_tag(r, k);
        v.push(Case { kind: kind.into(), prefix, root, cc, path, parse: k % 2 == 0 });
        k += 1;
    };
    // A. non-hardened paths over the whole length range
    let lens: Vec<usize> = if thorough { (0..=255).collect() }
        else { vec![0, 1, 2, 3, 4, 5, 6, 7, 8, 12, 16, 24, 32, 48, 64, 100, 128, 200, 254, 255] };
    for (j, &l) in lens.iter().enumerate() {
        let path: Vec<u32> = (0..l).map(|p| rand_index(&mut r, p + j)).collect();
        push(&mut v, &mut r, "normal", None, path);
    }
    // B. too deep
    let deep: Vec<usize> = if thorough { (256..=300).collect() } else { vec![256, 257, 300] };
    for (j, &l) in deep.iter().enumerate() {
        let path: Vec<u32> = (0..l).map(|p| rand_index(&mut r, p + j)).collect();
        push(&mut v, &mut r, "too-deep", None, path);
    }
    let mut path: Vec<u32> = (0..280).map(|p| rand_index(&mut r, p)).collect();
    path[100] |= HARD;
    push(&mut v, &mut r, "too-deep-hardened", None, path);
    // C. hardened components at the first / a middle / the last position
    let hl: Vec<usize> = if thorough { vec![1, 2, 3, 4, 5, 8, 10, 20, 40, 100, 200, 255] } else { vec![1, 2, 3, 5, 10, 40, 255] };
    for (j, &l) in hl.iter().enumerate() {
        let mut poss = vec![0usize, l / 2, l - 1];
        poss.dedup();
        for (pj, &pos) in poss.iter().enumerate() {
            let mut path: Vec<u32> = (0..l).map(|p| rand_index(&mut r, p + j)).collect();
            path[pos] = rand_index(&mut r, j + pj) | HARD;
            let kind = if pos == 0 { "hardened-first" } else if pos == l - 1 { "hardened-last" } else { "hardened-middle" };
            push(&mut v, &mut r, kind, None, path);
        }
    }
    // D. identity root
    for l in [0usize, 1, 3, 256] {
        let path: Vec<u32> = (0..l).map(|p| rand_index(&mut r, p)).collect();
        push(&mut v, &mut r, "identity-root", Some(ProjectivePoint::IDENTITY), path);
    }
    push(&mut v, &mut r, "identity-root", Some(ProjectivePoint::IDENTITY), vec![HARD]);
    // F. special roots and chain codes
    let g = ProjectivePoint::GENERATOR;
    for (j, root) in [g, -g, g + g].into_iter().enumerate() {
        let path: Vec<u32> = (0..(j + 1)).map(|p| rand_index(&mut r, p + j)).collect();
        push(&mut v, &mut r, "special-root", Some(root), path);
    }
    for fill in [0u8, 0xff] {
        let path: Vec<u32> = (0..4).map(|p| rand_index(&mut r, p + 3)).collect();
        push(&mut v, &mut r, "special-chain-code", None, path);
        v.last_mut().unwrap().cc = [fill; 32];
    }
    // E. random
    let n_rand = if thorough { 3000 } else { 90 };
    for j in 0..n_rand {
        let l = match r.next_u32() % 20 { 0 => (r.next_u32() % 301) as usize, 1..=3 => (r.next_u32() % 40) as usize, _ => (r.next_u32() % 9) as usize };
        let hardened_case = j % 7 == 0;
        let mut path: Vec<u32> = (0..l).map(|_| { let c = (r.next_u32() % 4) as usize; rand_index(&mut r, c) }).collect();
        if hardened_case && l > 0 {
            let pos = (r.next_u32() as usize) % l;
            path[pos] |= HARD;
        }
        push(&mut v, &mut r, if hardened_case && l > 0 { "random-hardened" } else { "random" }, None, path);
    }
    v
}

// ---------------------------------------------------------------- one derivation case
struct Tally { evals: u64, nontrivial: u64, disagree: Vec<String>, oracle: Vec<String>, samples: Vec<String> }

fn run_case(c: &Case, drv: &mut Driver, t: &mut Tally, log: &mut impl Write) {
    let inp = input_str(c);
    let non_hardened = c.path.iter().all(|&i| i & HARD == 0);
    let is_id = c.root == ProjectivePoint::IDENTITY;
    // ---- implementation
    let res = quiet(AssertUnwindSafe(|| derive_xpub(prefix_of(&c.prefix), &c.root, c.cc, mk_path(c))));
    let (impl_s, impl_x): (String, Option<XPubKey>) = match res {
        Err(_) => ("panic".into(), None),
        Ok(Err(e)) => (format!("err {:x}", err_code(&e)), None),
        Ok(Ok(x)) => {
            let h = str_out(quiet(AssertUnwindSafe(|| x.to_string(false))));
            let b = str_out(quiet(AssertUnwindSafe(|| x.to_string(true))));
            (format!("val {:x} {:x} {} {:x} {} {} {} {}", u32::from(x.prefix), x.depth, hx(&x.parent_fingerprint), x.child_number,
                hx(&x.chain_code), point_hex(&x.pubkey), h, b), Some(x))
        }
    };
    writeln!(log, "xpub {} {} -> {}", c.kind, inp, impl_s).unwrap();
    // ---- model
    let m = drun(drv, "c12.xpub", &[c.prefix.clone(), point_hex(&c.root), hx(&c.cc), path_str(&c.path)]);
    t.evals += 1;
    let model_s = match &m {
        Ok(v) if v[0] == "val" && v.len() == 9 => format!("val {} {} {} {} {} {} {} {}", v[1], v[2], v[3], v[4], v[5], v[6], strip_site(&v[7]), strip_site(&v[8])),
        Ok(v) if v[0] == "err" && v.len() == 2 => format!("err {}", v[1]),
        Ok(v) if v[0] == "panic" => "panic".into(),
        other => format!("{:?}", other),
    };
    if model_s != impl_s {
        t.disagree.push(format!("derive_xpub/to_string [{}] {}: impl `{}` model `{}`", c.kind, inp, impl_s, model_s));
    }
    // ---- specification (extracted bip32_spec + spec_string)
    let sp = drun(drv, "c12.spec", &[format!("{:x}", version_of(&c.prefix)), point_hex(&c.root), hx(&c.cc), path_str(&c.path)]);
    t.evals += 1;
    if non_hardened && c.path.len() <= 255 && !is_id {
        let spec_s = match &sp {
            Ok(v) if v[0] == "some" && v.len() == 8 => format!("val {:x} {} {} {} {} {} val:{} val:{}", version_of(&c.prefix), v[1], v[2], v[3], v[4], v[5], v[6], v[7]),
            Ok(v) if v[0] == "none" => "none".into(),
            other => format!("{:?}", other),
        };
        let agree = if spec_s == "none" { impl_s == "err 4" || impl_s == "err 3" } else { spec_s == impl_s };
        if !agree {
            t.disagree.push(format!("bip32_spec [{}] {}: impl `{}` spec `{}`", c.kind, inp, impl_s, spec_s));
        }
    } else if !non_hardened {
        match &sp { Ok(v) if v[0] == "none" => {}, other => t.disagree.push(format!("bip32_spec accepts a hardened path {}: {:?}", inp, other)) }
    }
    // ---- offsets, step by step with the real derive_child_pubkey
    let mut offs: Vec<Scalar> = vec![];
    let mut cur = c.root;
    let mut cc = c.cc;
    let mut step_fail: Option<String> = None;
    for (pos, &i) in c.path.iter().enumerate() {
        let r = quiet(AssertUnwindSafe(|| derive_child_pubkey(&cur, cc, &ChildIndex::from_bits(i))));
        match r {
            Ok(Ok((o, child, c2))) => {
                // additivity, with k256 only
                if child != cur + ProjectivePoint::GENERATOR * o {
                    t.oracle.push(format!("derive_child_pubkey: child != parent + offset*G at level {} of {}", pos, inp));
                }
                // against the BIP reference
                match ref_ckd(&cur, &cc, i) {
                    Some((ro, rk, rc)) if ro == o && rk == child && rc == c2 => {}
                    _ if cur == ProjectivePoint::IDENTITY => {}
                    _ => t.oracle.push(format!("derive_child_pubkey differs from CKDpub at level {} of {}", pos, inp)),
                }
                offs.push(o);
                cur = child;
                cc = c2;
            }
            Ok(Err(e)) => { step_fail = Some(format!("err {:x}", err_code(&e))); break; }
            Err(_) => { step_fail = Some("panic".into()); break; }
        }
    }
    let offs_s = if offs.is_empty() { "-".to_string() } else { offs.iter().map(hex_of_scalar).collect::<Vec<_>>().join(",") };
    let mo = drun(drv, "c12.offsets", &[point_hex(&c.root), hx(&c.cc), path_str(&c.path)]);
    t.evals += 1;
    match &mo {
        Ok(v) if v.len() == 1 && v[0] == offs_s => {}
        other => t.disagree.push(format!("offsets [{}] {}: impl `{}` model {:?}", c.kind, inp, offs_s, other)),
    }
    if c.path.len() >= 2 && impl_x.is_some() { t.nontrivial += 1; }
    // ---- implementation-only oracle on derive_xpub
    let expect: String = if is_id { "err 3".into() }
        else if c.path.len() > 255 { "err 5".into() }
        else if !non_hardened { "err 1".into() }
        else {
            match ref_derive(&c.root, &c.cc, &c.path) {
                Some(k) => {
                    let ser = ref_serialize(version_of(&c.prefix), &k);
                    // additivity of the whole path
                    let sum = k.offsets.iter().fold(Scalar::ZERO, |a, b| a + b);
                    if let Some(x) = &impl_x {
                        if x.pubkey != c.root + ProjectivePoint::GENERATOR * sum || offs != k.offsets {
                            t.oracle.push(format!("derive_xpub: key != root + (sum of offsets)*G for {}", inp));
                        }
                    }
                    format!("val {:x} {:x} {} {:x} {} {} val:{} val:{}", version_of(&c.prefix), k.depth, hx(&k.fp), k.num, hx(&k.cc),
                        point_hex(&k.key), hx(hex::encode(&ser).as_bytes()), hx(ref_b58check(&ser).as_bytes()))
                }
                None => "err".into(),
            }
        };
    let ok = if expect == "err" { impl_s.starts_with("err") } else { expect == impl_s };
    if !ok {
        t.oracle.push(format!("derive_xpub [{}] {} returned `{}`, BIP32 reference demands `{}`", c.kind, inp, impl_s, expect));
    }
    if step_fail.as_deref() == Some("panic") {
        t.oracle.push(format!("derive_child_pubkey panicked along {}", inp));
    }
    // ---- composition along the path (Props/C12.v derive_xpub_splits): for a split p1 ++ p2 of the path, deriving p2 from the
    // extended key reached by p1 gives the same key, chain code, parent fingerprint, child number or the same error; the depth
    // byte is counted from the root.  The split point moves with the case (first, last, middle levels).
    let n = c.path.len();
    if !is_id && n >= 2 && n <= 255 {
        let s = 1 + (c.cc[0] as usize + n) % (n - 1);
        let mkp = |p: &[u32]| DerivationPath::new(p.iter().map(|&b| ChildIndex::from_bits(b)).collect::<Vec<_>>());
        let first = quiet(AssertUnwindSafe(|| derive_xpub(prefix_of(&c.prefix), &c.root, c.cc, mkp(&c.path[..s]))));
        if let Ok(Ok(x1)) = first {
            let second = quiet(AssertUnwindSafe(|| derive_xpub(prefix_of(&c.prefix), &x1.pubkey, x1.chain_code, mkp(&c.path[s..]))));
            let split_s = match second {
                Err(_) => "panic".to_string(),
                Ok(Err(e)) => format!("err {:x}", err_code(&e)),
                Ok(Ok(x2)) => format!("val {} {:x} {} {} depth {}", hx(&x2.parent_fingerprint), x2.child_number, hx(&x2.chain_code), point_hex(&x2.pubkey), s + x2.depth as usize),
            };
            let whole_s = match &impl_x {
                Some(x) => format!("val {} {:x} {} {} depth {}", hx(&x.parent_fingerprint), x.child_number, hx(&x.chain_code), point_hex(&x.pubkey), x.depth as usize),
                None => impl_s.clone(),
            };
            t.evals += 1;
            if split_s != whole_s {
                t.oracle.push(format!("derive_xpub does not compose: {} split after level {s}: whole path `{}`, second half from the intermediate key `{}`", inp, whole_s, split_s));
            }
        }
    }
    if t.samples.len() < 6 && (c.path.len() == 3 || c.kind.starts_with("hardened") || c.kind == "identity-root") {
        let short: String = impl_s.chars().take(150).collect();
        t.samples.push(format!("{} {} -> {}", c.kind, inp.chars().take(220).collect::<String>(), short));
    }
}

// ---------------------------------------------------------------- single-function cases
fn run_unit(seed: u64, thorough: bool, drv: &mut Driver, t: &mut Tally, log: &mut impl Write, kinds: &mut std::collections::BTreeMap<String, u64>) {
    let mut r = rng(seed, "c12-unit");
    let n = if thorough { 400 } else { 24 };
    for j in 0..n {
        // derive_child_pubkey / get_finger_print / CKDpub on one step, incl. the identity parent and hardened indices
        let parent = match j % 8 { 0 => ProjectivePoint::IDENTITY, 1 => ProjectivePoint::GENERATOR, _ => rand_point(&mut r) };
        let mut cc = [0u8; 32];
        r.fill_bytes(&mut cc);
        let i = match j % 5 { 4 => rand_index(&mut r, j) | HARD, _ => rand_index(&mut r, j) };
        let res = quiet(AssertUnwindSafe(|| derive_child_pubkey(&parent, cc, &ChildIndex::from_bits(i))));
        let impl_s = match &res {
            Err(_) => "panic".to_string(),
            Ok(Err(e)) => format!("err {:x}", err_code(e)),
            Ok(Ok((o, k, c2))) => format!("val {} {} {}", hex_of_scalar(o), point_hex(k), hx(c2)),
        };
        let m = drun(drv, "c12.child", &[point_hex(&parent), hx(&cc), format!("{:x}", i)]);
        t.evals += 1;
        let model_s = match &m { Ok(v) if v[0] == "panic" => "panic".to_string(), Ok(v) => v.join(" "), Err(e) => e.clone() };
        writeln!(log, "child P={} cc={} i={:x} -> {}", point_hex(&parent), hx(&cc), i, impl_s).unwrap();
        if impl_s != model_s {
            t.disagree.push(format!("derive_child_pubkey P={} cc={} i={:x}: impl `{}` model `{}`", point_hex(&parent), hx(&cc), i, impl_s, model_s));
        }
        *kinds.entry("unit-child".into()).or_default() += 1;
        // the specification's CKDpub + fingerprint (not for the identity parent: outside the BIP)
        if parent != ProjectivePoint::IDENTITY {
            let s = drun(drv, "c12.ckdpub", &[point_hex(&parent), hx(&cc), format!("{:x}", i)]);
            t.evals += 1;
            let fp = quiet(AssertUnwindSafe(|| get_finger_print(&parent)));
            let spec_ok = match (&s, &res, &fp) {
                (Ok(v), Ok(Ok((_, k, c2))), Ok(f)) => v.len() == 4 && v[0] == "some" && v[1] == point_hex(k) && v[2] == hx(c2) && v[3] == hx(f),
                (Ok(v), Ok(Err(_)), _) => v[0] == "none",
                _ => false,
            };
            if !spec_ok {
                t.disagree.push(format!("CKDpub/fingerprint spec P={} cc={} i={:x}: impl `{}` spec {:?}", point_hex(&parent), hx(&cc), i, impl_s, s));
            }
            if let Ok(f) = &fp { if *f != ref_fp(&parent) { t.oracle.push(format!("get_finger_print({}) differs from HASH160 prefix", point_hex(&parent))); } }
        }
        // get_finger_print: value or panic
        let fp = quiet(AssertUnwindSafe(|| get_finger_print(&parent)));
        let impl_fp = match &fp { Ok(f) => format!("val:{}", hx(f)), Err(_) => "panic".into() };
        let mfp = drun(drv, "c12.fp", &[point_hex(&parent)]);
        t.evals += 1;
        match &mfp {
            Ok(v) if v.len() == 1 && strip_site(&v[0]) == impl_fp => {}
            other => t.disagree.push(format!("get_finger_print({}): impl `{}` model {:?}", point_hex(&parent), impl_fp, other)),
        }
        // to_string of a hand-made key (incl. the identity key: the 78-byte expect)
        let x = XPubKey { prefix: prefix_of(&prefix_tag(&mut r, j)), parent_fingerprint: r.gen(), child_number: r.next_u32(),
                          pubkey: parent, chain_code: cc, depth: (r.next_u32() & 0xff) as u8 };
        let h = str_out(quiet(AssertUnwindSafe(|| x.to_string(false))));
        let b = str_out(quiet(AssertUnwindSafe(|| x.to_string(true))));
        let ptag = format!("c{:x}", u32::from(x.prefix));
        let ms = drun(drv, "c12.tostring", &[ptag, format!("{:x}", x.depth), hx(&x.parent_fingerprint), format!("{:x}", x.child_number), hx(&cc), point_hex(&parent)]);
        t.evals += 1;
        match &ms {
            Ok(v) if v.len() == 2 && strip_site(&v[0]) == h && strip_site(&v[1]) == b => {}
            other => t.disagree.push(format!("to_string depth={} key={}: impl `{}` `{}` model {:?}", x.depth, point_hex(&parent), h, b, other)),
        }
        *kinds.entry("unit-to_string".into()).or_default() += 1;
    }
    // Base58 alone: model vs bs58 (what the code calls) vs the BigUint reference, and the decode round trip
    let nb = if thorough { 600 } else { 40 };
    for j in 0..nb {
        let len = match j % 8 { 0 => 0, 1 => 1, 2 => 82, _ => (r.next_u32() % 100) as usize };
        let mut b = vec![0u8; len];
        r.fill_bytes(&mut b);
        let z = match j % 4 { 0 => 0, 1 => 1.min(len), 2 => (r.next_u32() as usize % 6).min(len), _ => if j % 16 == 3 { len } else { 0 } };
        for x in b.iter_mut().take(z) { *x = 0; }
        let real = bs58::encode(&b).with_alphabet(bs58::Alphabet::BITCOIN).into_string();
        if real != ref_b58(&b) || ref_b58_decode(&real).as_deref() != Some(&b[..]) {
            t.oracle.push(format!("bs58 differs from the reference base conversion on {}", hx(&b)));
        }
        let m = drun(drv, "c12.b58", &[hx(&b)]);
        t.evals += 1;
        match &m {
            Ok(v) if v.len() == 2 && v[0] == hx(real.as_bytes()) && v[1] == format!("some:{}", hx(&b)) => {}
            other => t.disagree.push(format!("base58 of {}: bs58 `{}` model {:?}", hx(&b), real, other)),
        }
        *kinds.entry("unit-base58".into()).or_default() += 1;
    }
}

// ---------------------------------------------------------------- BIP32 test vectors (public derivations)
fn decode_xpub(s: &str) -> (u32, u8, [u8; 4], u32, [u8; 32], ProjectivePoint) {
    let b = ref_b58_decode(s).expect("base58");
    assert_eq!(b.len(), 82, "test vector length {s}");
    assert_eq!(&sha256(&sha256(&b[..78]))[..4], &b[78..], "test vector checksum {s}");
    let key = point_of_hex(&hex::encode(&b[45..78])).expect("test vector key");
    (u32::from_be_bytes(b[0..4].try_into().unwrap()), b[4], b[5..9].try_into().unwrap(), u32::from_be_bytes(b[9..13].try_into().unwrap()),
     b[13..45].try_into().unwrap(), key)
}
fn test_vectors(t: &mut Tally, kinds: &mut std::collections::BTreeMap<String, u64>) {
    // (parent xpub, index, child xpub) -- BIP32 test vector 1: m/0H -> /1 ; m/0H/1/2H -> /2 -> /1000000000 ; test vector 2: m -> /0 ;
    // m/0/2147483647H -> /1 ; m/0/2147483647H/1/2147483646H -> /2
    let tv: [(&str, u32, &str); 6] = [
        ("xpub68Gmy5EdvgibQVfPdqkBBCHxA5htiqg55crXYuXoQRKfDBFA1WEjWgP6LHhwBZeNK1VTsfTFUHCdrfp1bgwQ9xv5ski8PX9rL2dZXvgGDnw", 1,
         "xpub6ASuArnXKPbfEwhqN6e3mwBcDTgzisQN1wXN9BJcM47sSikHjJf3UFHKkNAWbWMiGj7Wf5uMash7SyYq527Hqck2AxYysAA7xmALppuCkwQ"),
        ("xpub6D4BDPcP2GT577Vvch3R8wDkScZWzQzMMUm3PWbmWvVJrZwQY4VUNgqFJPMM3No2dFDFGTsxxpG5uJh7n7epu4trkrX7x7DogT5Uv6fcLW5", 2,
         "xpub6FHa3pjLCk84BayeJxFW2SP4XRrFd1JYnxeLeU8EqN3vDfZmbqBqaGJAyiLjTAwm6ZLRQUMv1ZACTj37sR62cfN7fe5JnJ7dh8zL4fiyLHV"),
        ("xpub6FHa3pjLCk84BayeJxFW2SP4XRrFd1JYnxeLeU8EqN3vDfZmbqBqaGJAyiLjTAwm6ZLRQUMv1ZACTj37sR62cfN7fe5JnJ7dh8zL4fiyLHV", 1000000000,
         "xpub6H1LXWLaKsWFhvm6RVpEL9P4KfRZSW7abD2ttkWP3SSQvnyA8FSVqNTEcYFgJS2UaFcxupHiYkro49S8yGasTvXEYBVPamhGW6cFJodrTHy"),
        ("xpub661MyMwAqRbcFW31YEwpkMuc5THy2PSt5bDMsktWQcFF8syAmRUapSCGu8ED9W6oDMSgv6Zz8idoc4a6mr8BDzTJY47LJhkJ8UB7WEGuduB", 0,
         "xpub69H7F5d8KSRgmmdJg2KhpAK8SR3DjMwAdkxj3ZuxV27CprR9LgpeyGmXUbC6wb7ERfvrnKZjXoUmmDznezpbZb7ap6r1D3tgFxHmwMkQTPH"),
        ("xpub6ASAVgeehLbnwdqV6UKMHVzgqAG8Gr6riv3Fxxpj8ksbH9ebxaEyBLZ85ySDhKiLDBrQSARLq1uNRts8RuJiHjaDMBU4Zn9h8LZNnBC5y4a", 1,
         "xpub6DF8uhdarytz3FWdA8TvFSvvAh8dP3283MY7p2V4SeE2wyWmG5mg5EwVvmdMVCQcoNJxGoWaU9DCWh89LojfZ537wTfunKau47EL2dhHKon"),
        ("xpub6ERApfZwUNrhLCkDtcHTcxd75RbzS1ed54G1LkBUHQVHQKqhMkhgbmJbZRkrgZw4koxb5JaHWkY4ALHY2grBGRjaDMzQLcgJvLJuZZvRcEL", 2,
         "xpub6FnCn6nSzZAw5Tw7cgR9bi15UV96gLZhjDstkXXxvCLsUXBGXPdSnLFbdpq8p9HmGsApME5hQTZ3emM2rnY5agb9rXpVGyy3bdW6EEgAtqt"),
    ];
    for (par, idx, child) in tv {
        let (_, pd, _, _, pcc, pk) = decode_xpub(par);
        let (cv, cd, cfp, cnum, ccc, ck) = decode_xpub(child);
        assert!(cd == pd + 1 && cnum == idx);
        let what = format!("BIP32 test vector {} -> /{}", par, idx);
        match quiet(AssertUnwindSafe(|| derive_child_pubkey(&pk, pcc, &ChildIndex::from_bits(idx)))) {
            Ok(Ok((o, k, c2))) => {
                if k != ck || c2 != ccc || k != pk + ProjectivePoint::GENERATOR * o {
                    t.oracle.push(format!("{what}: derive_child_pubkey gives key {} chain code {}", point_hex(&k), hx(&c2)));
                }
                match quiet(AssertUnwindSafe(|| get_finger_print(&pk))) {
                    Ok(f) if f == cfp => {}
                    other => t.oracle.push(format!("{what}: get_finger_print(parent) = {:?}, vector says {}", other.ok(), hx(&cfp))),
                }
                let x = XPubKey { prefix: Prefix::from(cv.to_be_bytes()), parent_fingerprint: cfp, child_number: cnum, pubkey: k, chain_code: c2, depth: cd };
                match quiet(AssertUnwindSafe(|| x.to_string(true))) {
                    Ok(s) if s == child => {}
                    other => t.oracle.push(format!("{what}: to_string(true) = {:?}", other.ok())),
                }
            }
            other => t.oracle.push(format!("{what}: derive_child_pubkey failed: {:?}", other.map(|r| r.map(|_| ()).map_err(|e| err_code(&e))).ok())),
        }
        // derive_xpub from the parent as root must produce the same key / chain code / fingerprint / child number
        let (_, _, _, _, pcc, pk) = decode_xpub(par);
        match quiet(AssertUnwindSafe(|| derive_xpub(Prefix::XPub, &pk, pcc, DerivationPath::new(vec![ChildIndex::from_bits(idx)])))) {
            Ok(Ok(x)) if x.pubkey == ck && x.chain_code == ccc && x.parent_fingerprint == cfp && x.child_number == idx && x.depth == 1 => {}
            _ => t.oracle.push(format!("{what}: derive_xpub with the parent as root disagrees with the vector")),
        }
        t.evals += 1;
        *kinds.entry("bip32-test-vector".into()).or_default() += 1;
    }
}

fn parse_replay(txt: &str) -> Option<Case> {
    let field = |k: &str| -> Option<String> {
        let p = txt.find(&format!("{k}="))? + k.len() + 1;
        Some(txt[p..].chars().take_while(|c| c.is_ascii_alphanumeric() || *c == ',' || *c == '-').collect())
    };
    let path_s = field("path")?;
    let path = if path_s == "-" || path_s.is_empty() { vec![] } else { path_s.split(',').map(|x| u32::from_str_radix(x, 16).unwrap()).collect() };
    let cc: [u8; 32] = hex::decode(field("cc")?).ok()?.try_into().ok()?;
    Some(Case { kind: "replay".into(), prefix: field("prefix")?, root: point_of_hex(&field("root")?)?, cc, path, parse: false })
}

/// `probe=raw`: what the code does with the raw enum value ChildIndex::Normal(2^31) (outside the model, see
/// Model/Bip32.v) and with an identity parent; prints only, not part of the check.
fn probe() -> i32 {
    let g = ProjectivePoint::GENERATOR;
    let cc = [7u8; 32];
    let r = derive_xpub(Prefix::XPub, &g, cc, DerivationPath::new(vec![ChildIndex::Normal(HARD)]));
    match r {
        Ok(x) => println!("derive_xpub(G, 07..07, [Normal(0x80000000)]) = Ok child_number={:#x} depth={} {}", x.child_number, x.depth, x.to_string(true)),
        Err(e) => println!("derive_xpub(G, 07..07, [Normal(0x80000000)]) = Err {:?}", e),
    }
    let r = derive_child_pubkey(&ProjectivePoint::IDENTITY, cc, &ChildIndex::Normal(0));
    match r {
        Ok((o, k, _)) => println!("derive_child_pubkey(IDENTITY, 07..07, 0) = Ok offset={} child={} (child == offset*G: {})", hex_of_scalar(&o), point_hex(&k), k == g * o),
        Err(e) => println!("derive_child_pubkey(IDENTITY, ..) = Err {:?}", e),
    }
    0
}

pub fn run(kv: &Args) -> i32 {
    if kv.get("probe").is_some() { return probe(); }
    let seed = kv.u64("seed", 1);
    let out = kv.str("out", "/verif/build/run/C12");
    std::fs::create_dir_all(&out).unwrap();
    let thorough = kv.thorough();
    let mut drv = Driver::spawn();
    let mut log = std::io::BufWriter::new(std::fs::File::create(format!("{out}/cases.txt")).unwrap());
    let mut t = Tally { evals: 0, nontrivial: 0, disagree: vec![], oracle: vec![], samples: vec![] };
    let mut kinds: std::collections::BTreeMap<String, u64> = Default::default();
    std::panic::set_hook(Box::new(move |i| { if !QUIET.load(std::sync::atomic::Ordering::SeqCst) { eprintln!("harness panic: {i}"); } }));
    let cases = match kv.get("replay") {
        Some(rp) => vec![parse_replay(&std::fs::read_to_string(rp).expect("replay file")).expect("replay: prefix= root= cc= path=")],
        None => gen_cases(seed, thorough),
    };
    let mut levels = 0usize;
    for c in &cases {
        run_case(c, &mut drv, &mut t, &mut log);
        *kinds.entry(c.kind.clone()).or_default() += 1;
        levels += c.path.len();
    }
    if kv.get("replay").is_none() {
        run_unit(seed, thorough, &mut drv, &mut t, &mut log, &mut kinds);
        test_vectors(&mut t, &mut kinds);
    }
    let mut f = std::fs::File::create(format!("{out}/result.txt")).unwrap();
    writeln!(f, "evaluations {}", t.evals).unwrap();
    writeln!(f, "mutations {}", t.nontrivial).unwrap();
    writeln!(f, "derivations {}", cases.len()).unwrap();
    writeln!(f, "levels {}", levels).unwrap();
    writeln!(f, "oracle_queries {}", drv.queries).unwrap();
    for (k, v) in &kinds { writeln!(f, "kind {k} {v}").unwrap(); }
    for s in &t.samples { writeln!(f, "SAMPLE {s}").unwrap(); }
    for d in &t.disagree { writeln!(f, "DISAGREE {d}").unwrap(); }
    for d in &t.oracle { writeln!(f, "ORACLE {d}").unwrap(); }
    0
}
