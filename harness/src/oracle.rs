//! Oracle server for the extracted OCaml model driver (/verif/ocaml/driver.ml, proto.ml).
//! The harness is the parent process: it sends `RUN <fn> <args>` and answers the driver's
//! `Q <oracle> <args>` queries with the REAL implementations (merlin, k256, sha2, hmac, ...),
//! so the uninterpreted functions of the Coq models are instantiated with what the code uses.
use std::collections::HashMap;
use std::io::{BufRead, BufReader, Write};
use std::process::{Child, ChildStdin, ChildStdout, Command, Stdio};

use elliptic_curve::group::GroupEncoding;
use elliptic_curve::ops::Reduce;
use elliptic_curve::PrimeField;
use k256::{ProjectivePoint, Scalar, U256};
use merlin::Transcript;
use num_bigint_dig::BigUint;

pub const DRIVER: &str = "/verif/ocaml/_build/default/driver.exe";

pub struct Driver {
    child: Child,
    stdin: ChildStdin,
    stdout: BufReader<ChildStdout>,
    pub queries: u64,
    labels: HashMap<Vec<u8>, &'static [u8]>,
}

pub fn hx(b: &[u8]) -> String {
    if b.is_empty() { "-".to_string() } else { hex::encode(b) }
}
pub fn unhx(s: &str) -> Vec<u8> {
    if s == "-" { vec![] } else { hex::decode(s).expect("hex") }
}

/// secp256k1 group order
pub fn q_k256() -> BigUint {
    BigUint::parse_bytes(b"FFFFFFFFFFFFFFFFFFFFFFFFFFFFFFFEBAAEDCE6AF48A03BBFD25E8CD0364141", 16).unwrap()
}

/// hex integer (optionally `~` = negative) -> k256 scalar (reduced mod q)
pub fn scalar_of_hex(s: &str) -> Scalar {
    let (neg, digits) = match s.strip_prefix('~') { Some(r) => (true, r), None => (false, s) };
    let q = q_k256();
    let mut v = BigUint::parse_bytes(digits.as_bytes(), 16).expect("hex int") % &q;
    if neg && v != BigUint::from(0u8) {
        v = &q - v;
    }
    let b = v.to_bytes_be();
    let mut buf = [0u8; 32];
    buf[32 - b.len()..].copy_from_slice(&b);
    Scalar::reduce(U256::from_be_slice(&buf))
}
pub fn hex_of_scalar(s: &Scalar) -> String {
    let b = s.to_bytes();
    let t = hex::encode(b).trim_start_matches('0').to_string();
    if t.is_empty() { "0".into() } else { t }
}
pub fn point_hex(p: &ProjectivePoint) -> String {
    use elliptic_curve::sec1::ToEncodedPoint;
    hex::encode(p.to_encoded_point(true).as_bytes())
}
pub fn point_of_hex(s: &str) -> Option<ProjectivePoint> {
    use elliptic_curve::sec1::FromEncodedPoint;
    let b = unhx(s);
    if b == [0u8] {
        return Some(ProjectivePoint::IDENTITY);
    }
    let ep = k256::EncodedPoint::from_bytes(&b).ok()?;
    if !ep.is_compressed() {
        return None;
    }
    Option::<k256::AffinePoint>::from(k256::AffinePoint::from_encoded_point(&ep)).map(ProjectivePoint::from)
}

impl Driver {
    pub fn spawn() -> Self {
        let mut child = Command::new(DRIVER)
            .stdin(Stdio::piped())
            .stdout(Stdio::piped())
            .spawn()
            .expect("cannot start the OCaml model driver (run bin/setup)");
        let stdin = child.stdin.take().unwrap();
        let stdout = BufReader::new(child.stdout.take().unwrap());
        Driver { child, stdin, stdout, queries: 0, labels: HashMap::new() }
    }

    fn leak(&mut self, l: Vec<u8>) -> &'static [u8] {
        if let Some(r) = self.labels.get(&l) {
            return r;
        }
        let r: &'static [u8] = Box::leak(l.clone().into_boxed_slice());
        self.labels.insert(l, r);
        r
    }

    /// Replay a serialised transcript history on a real merlin transcript; returns the bytes of the
    /// last challenge.
    pub fn merlin(&mut self, ops: &str) -> Vec<u8> {
        let mut t: Option<Transcript> = None;
        let mut last = vec![];
        for op in ops.split(',') {
            let f: Vec<&str> = op.split(':').collect();
            match f[0] {
                "I" => {
                    let l = self.leak(unhx(f[1]));
                    t = Some(Transcript::new(l));
                }
                "M" => {
                    let l = self.leak(unhx(f[1]));
                    t.as_mut().expect("transcript op before init").append_message(l, &unhx(f[2]));
                }
                "U" => {
                    let l = self.leak(unhx(f[1]));
                    let v = u64::from_str_radix(f[2], 16).expect("u64");
                    t.as_mut().expect("transcript op before init").append_u64(l, v);
                }
                "C" => {
                    let l = self.leak(unhx(f[1]));
                    let n = usize::from_str_radix(f[2], 16).expect("len");
                    let mut buf = vec![0u8; n];
                    t.as_mut().expect("transcript op before init").challenge_bytes(l, &mut buf);
                    last = buf;
                }
                _ => panic!("bad transcript op {op}"),
            }
        }
        last
    }

    /// The standard oracles. Returns None for names it does not know.
    pub fn std_oracle(&mut self, name: &str, a: &[&str]) -> Option<Vec<String>> {
        Some(match name {
            "H" => vec![hx(&self.merlin(a[0]))],
            "kadd" => vec![point_hex(&(point_of_hex(a[0])? + point_of_hex(a[1])?))],
            "kneg" => vec![point_hex(&(-point_of_hex(a[0])?))],
            "ksmul" => vec![point_hex(&(point_of_hex(a[1])? * scalar_of_hex(a[0])))],
            "kgen" => vec![point_hex(&ProjectivePoint::GENERATOR)],
            "kid" => vec![point_hex(&ProjectivePoint::IDENTITY)],
            "kdec" => {
                // decode_point of the code = GroupEncoding::from_bytes on 33 bytes (33 zero bytes decode to the identity)
                let b = unhx(a[0]);
                if b.len() != 33 {
                    vec!["0".into()]
                } else {
                    let mut repr = <ProjectivePoint as GroupEncoding>::Repr::default();
                    AsMut::<[u8]>::as_mut(&mut repr).copy_from_slice(&b);
                    match Option::<ProjectivePoint>::from(ProjectivePoint::from_bytes(&repr)) {
                        Some(p) => vec!["1".into(), point_hex(&p)],
                        None => vec!["0".into()],
                    }
                }
            }
            "sha256" => {
                use sha2::{Digest, Sha256};
                vec![hx(&Sha256::digest(unhx(a[0])))]
            }
            "sha512" => {
                use sha2::{Digest, Sha512};
                vec![hx(&Sha512::digest(unhx(a[0])))]
            }
            "hmac512" => {
                use hmac::{Hmac, Mac};
                let mut m = Hmac::<sha2::Sha512>::new_from_slice(&unhx(a[0])).ok()?;
                m.update(&unhx(a[1]));
                vec![hx(&m.finalize().into_bytes())]
            }
            "ripemd160" => {
                use ripemd::{Digest, Ripemd160};
                vec![hx(&Ripemd160::digest(unhx(a[0])))]
            }
            _ => return None,
        })
    }

    /// Run a model function; `extra` handles property-specific oracles (checked before the standard ones).
    pub fn run_with(
        &mut self,
        name: &str,
        args: &[String],
        extra: &mut dyn FnMut(&str, &[&str]) -> Option<Vec<String>>,
    ) -> Result<Vec<String>, String> {
        let mut line = format!("RUN {name}");
        for a in args {
            line.push(' ');
            line.push_str(if a.is_empty() { "-" } else { a });
        }
        line.push('\n');
        self.stdin.write_all(line.as_bytes()).map_err(|e| e.to_string())?;
        self.stdin.flush().map_err(|e| e.to_string())?;
        loop {
            let mut resp = String::new();
            let n = self.stdout.read_line(&mut resp).map_err(|e| e.to_string())?;
            if n == 0 {
                return Err("driver closed the pipe".into());
            }
            let resp = resp.trim_end();
            let parts: Vec<&str> = resp.split(' ').collect();
            match parts[0] {
                "R" => return Ok(parts[1..].iter().map(|s| s.to_string()).collect()),
                "E" => return Err(resp.to_string()),
                "Q" => {
                    self.queries += 1;
                    let ans = match extra(parts[1], &parts[2..]) {
                        Some(v) => Some(v),
                        None => self.std_oracle(parts[1], &parts[2..]),
                    };
                    let ans = ans.unwrap_or_else(|| vec!["!unknown-oracle-or-bad-argument".into()]);
                    let mut l = String::from("A");
                    for x in ans {
                        l.push(' ');
                        l.push_str(&x);
                    }
                    l.push('\n');
                    self.stdin.write_all(l.as_bytes()).map_err(|e| e.to_string())?;
                    self.stdin.flush().map_err(|e| e.to_string())?;
                }
                _ => return Err(format!("protocol error: {resp}")),
            }
        }
    }

    pub fn run(&mut self, name: &str, args: &[String]) -> Result<Vec<String>, String> {
        self.run_with(name, args, &mut |_, _| None)
    }
}

impl Drop for Driver {
    fn drop(&mut self) {
        let _ = self.stdin.write_all(b"QUIT\n");
        let _ = self.child.wait();
    }
}

/// Serialise transcript operations the way proto.ml parses them.
pub enum Top {
    Init(Vec<u8>),
    Append(Vec<u8>, Vec<u8>),
    AppendU64(Vec<u8>, u64),
    Challenge(Vec<u8>, usize),
}
pub fn ser_tops(ops: &[Top]) -> String {
    if ops.is_empty() {
        return "-".into();
    }
    ops.iter()
        .map(|o| match o {
            Top::Init(l) => format!("I:{}", hx(l)),
            Top::Append(l, d) => format!("M:{}:{}", hx(l), hx(d)),
            Top::AppendU64(l, v) => format!("U:{}:{:x}", hx(l), v),
            Top::Challenge(l, n) => format!("C:{}:{:x}", hx(l), n),
        })
        .collect::<Vec<_>>()
        .join(",")
}
