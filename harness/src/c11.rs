//! C11: no peer-supplied bytes can panic a decoding or verifying entry point.
//! Feeds byte strings (uniform, all-zero/all-one, truncated/extended, structured mutations of valid
//! messages) to every untrusted-input entry point of the four crates under catch_unwind
//! (the harness profile has overflow-checks = true, so arithmetic overflow panics too), and
//! records the outcome class Val/Err/PANIC.  Lines written to out/cases.txt:
//!     <entry> <kind> <outcome> <hex of the distinguishing input (truncated)>
//! and out/result.txt in the mode-B format (ORACLE lines = panics = property violations).
use crate::util::*;
use rand::{Rng, RngCore};
use rand_chacha::ChaCha20Rng;
use std::collections::BTreeMap;
use std::io::Write;
use std::panic::{catch_unwind, AssertUnwindSafe};

#[derive(Clone, Copy, PartialEq, Debug)]
pub enum Out {
    Val,
    Err,
    Panic,
}

pub struct Rec {
    pub n: u64,
    pub kinds: BTreeMap<String, u64>,
    pub panics: Vec<String>,
    pub log: std::fs::File,
    pub samples: Vec<String>,
}

impl Rec {
    pub fn case<F: FnOnce() -> bool>(&mut self, entry: &str, kind: &str, input: &[u8], f: F) -> Out {
        let r = catch_unwind(AssertUnwindSafe(f));
        let out = match r {
            Ok(true) => Out::Val,
            Ok(false) => Out::Err,
            Err(_) => Out::Panic,
        };
        self.n += 1;
        *self.kinds.entry(format!("{entry}/{kind}/{:?}", out)).or_default() += 1;
        let shown = if input.len() > 96 { &input[..96] } else { input };
        let _ = writeln!(self.log, "{entry} {kind} {:?} len={} {}", out, input.len(), hex(shown));
        if out == Out::Panic && self.panics.len() < 40 {
            self.panics.push(format!("entry={entry} kind={kind} len={} input={}", input.len(), hex(input)));
        }
        if self.samples.len() < 6 && self.n % 997 == 1 {
            self.samples.push(format!("{entry} {kind} {:?} len={} {}", out, input.len(), hex(shown)));
        }
        out
    }
}

/// Byte-string generators: uniform, constant, truncated/extended and structured mutations of `valid`.
pub fn variants(r: &mut ChaCha20Rng, valid: &[u8], n: usize) -> Vec<(String, Vec<u8>)> {
    let mut v: Vec<(String, Vec<u8>)> = vec![];
    let len = valid.len();
    v.push(("valid".into(), valid.to_vec()));
    v.push(("zeros".into(), vec![0u8; len]));
    v.push(("ones".into(), vec![0xffu8; len]));
    let mut u = vec![0u8; len];
    r.fill_bytes(&mut u);
    v.push(("uniform".into(), u));
    for k in 0..n {
        let mut m = valid.to_vec();
        match k % 7 {
            0 if len > 0 => {
                let i = r.gen_range(0..len);
                m[i] ^= 1 << r.gen_range(0..8);
                v.push(("bitflip".into(), m));
            }
            1 if len > 0 => {
                let i = r.gen_range(0..len);
                m[i] = [0u8, 0xff, 0x80, 0x7f, 1][r.gen_range(0..5)];
                v.push(("byteset".into(), m));
            }
            2 if len > 0 => {
                m.truncate(r.gen_range(0..len));
                v.push(("truncated".into(), m));
            }
            3 => {
                let extra = r.gen_range(1..70);
                let mut e = vec![0u8; extra];
                r.fill_bytes(&mut e);
                m.extend_from_slice(&e);
                v.push(("extended".into(), m));
            }
            4 if len >= 8 => {
                let i = r.gen_range(0..len - 4);
                let w = r.gen_range(1..5);
                for j in 0..w {
                    m[i + j] = 0xff;
                }
                v.push(("ff-run".into(), m));
            }
            5 if len >= 8 => {
                let i = r.gen_range(0..len - 4);
                let w = r.gen_range(1..34).min(len - i);
                for j in 0..w {
                    m[i + j] = 0;
                }
                v.push(("zero-run".into(), m));
            }
            _ if len > 0 => {
                let i = r.gen_range(0..len);
                let w = r.gen_range(1..40).min(len - i);
                r.fill_bytes(&mut m[i..i + w]);
                v.push(("splice-random".into(), m));
            }
            _ => {}
        }
    }
    v
}

// ------------------------------------------------------------------------------------------ verifiable encryption
mod venc {
    use super::*;
    use sl_verifiable_enc::rsa::RsaPrivateKey;
    use sl_verifiable_enc::VerifiableRsaEncryption;

    /// byte strings whose total length is consistent with the four announced size words, for size words
    /// around their legal values (content zero or random): these get past the length checks of from_bytes
    fn consistent_headers(r: &mut ChaCha20Rng, repr: usize) -> Vec<(String, Vec<u8>)> {
        let mut v = vec![];
        for sp in [128usize, 129, 256] {
            for g in [0usize, 1, repr - 1, repr, repr + 1, 64] {
                for enc in [0usize, 1, 16, 128] {
                    for sc in [0usize, 31, 32, 33] {
                        let total = 40 + sp * (g + 2 * enc + sc);
                        if total > 200_000 {
                            continue;
                        }
                        let mut m = vec![0u8; total];
                        if (sp + g + enc + sc) % 2 == 1 {
                            r.fill_bytes(&mut m);
                        }
                        m[32..34].copy_from_slice(&(sp as u16).to_be_bytes());
                        m[34..36].copy_from_slice(&(g as u16).to_be_bytes());
                        m[36..38].copy_from_slice(&(enc as u16).to_be_bytes());
                        m[38..40].copy_from_slice(&(sc as u16).to_be_bytes());
                        v.push(("consistent-header".to_string(), m));
                    }
                }
            }
        }
        v
    }

    /// a valid proof in which one ciphertext of a slot is replaced by a WELL-FORMED PKCS#1 v1.5 encryption (under the
    /// receiver's key) of a plaintext that is not a label-masked scalar: plaintexts of 0..=117 bytes, so that the value
    /// `decrypt` recovers after removing the label is shorter than, as long as, or much longer than the scalar width.
    /// Random or mutated ciphertexts never get past the padding check; these do, and reach the scalar decoding.
    fn valid_ciphertext_slots(r: &mut ChaCha20Rng, valid: &[u8], pk: &sl_verifiable_enc::rsa::RsaPublicKey, psize: usize) -> Vec<(String, Vec<u8>)> {
        use sl_verifiable_enc::rsa::Pkcs1v15Encrypt;
        let enc = 128usize;
        let slot = psize + 2 * enc;
        let mut v = vec![];
        for (n, len) in [0usize, 1, 31, 32, 33, 64, 100, 117].into_iter().enumerate() {
            let mut pt = vec![0u8; len];
            r.fill_bytes(&mut pt);
            if len > 0 && n % 2 == 0 { pt[0] = 0xff; }
            let Ok(ct) = pk.encrypt(r, Pkcs1v15Encrypt, &pt) else { continue };
            if ct.len() != enc { continue; }
            for (i, side) in [(0usize, 0usize), (0, 1), (127, n % 2)] {
                let mut m = valid.to_vec();
                let o = 40 + i * slot + psize + side * enc;
                m[o..o + enc].copy_from_slice(&ct);
                v.push((format!("valid-rsa-ciphertext-pt{len}"), m));
            }
            // both halves of slot 0 well-formed but foreign
            let mut m = valid.to_vec();
            let o = 40 + psize;
            m[o..o + enc].copy_from_slice(&ct);
            m[o + enc..o + 2 * enc].copy_from_slice(&ct);
            v.push((format!("valid-rsa-ciphertext-both-pt{len}"), m));
        }
        v
    }

    pub fn run(rec: &mut Rec, seed: u64, scale: usize) {
        use group::Group;
        let mut r = rng(seed, "c11-venc");
        let sk = RsaPrivateKey::new(&mut r, 1024).unwrap();
        let pk = sk.to_public_key();
        // secp256k1
        {
            use k256::{ProjectivePoint, Scalar};
            use ff::Field;
            let x = Scalar::random(&mut r);
            let q = ProjectivePoint::GENERATOR * x;
            let p = VerifiableRsaEncryption::<ProjectivePoint>::encrypt_with_proof(&x, &pk, b"lbl", None, &mut r).unwrap();
            let valid = p.to_bytes();
            let mut inputs = variants(&mut r, &valid, 60 * scale);
            // structured: the four size words pushed to their boundaries
            for (off, name) in [(32usize, "sp"), (34, "g_r_size"), (36, "enc_size"), (38, "scalar_size")] {
                for val in [0u16, 1, 127, 128, 129, 255, 256, 257, 258, 0x7fff, 0x8000, 0xffff] {
                    let mut m = valid.clone();
                    m[off..off + 2].copy_from_slice(&val.to_be_bytes());
                    inputs.push((format!("hdr-{name}"), m));
                }
            }
            // a well-formed proof announcing 257 / 300 slots (repeat slot 0 and scalar 0): must be rejected or fail, never panic
            for slots in [257usize, 300, 512] {
                let enc = 128usize;
                let slot = 33 + 2 * enc;
                let mut m = valid[..32].to_vec();
                m.extend_from_slice(&(slots as u16).to_be_bytes());
                m.extend_from_slice(&valid[34..40]);
                for i in 0..slots {
                    let j = i % 128;
                    m.extend_from_slice(&valid[40 + j * slot..40 + (j + 1) * slot]);
                }
                for i in 0..slots {
                    let j = i % 128;
                    let o = 40 + 128 * slot + 32 * j;
                    m.extend_from_slice(&valid[o..o + 32]);
                }
                inputs.push(("many-slots".into(), m));
            }
            for l in [0usize, 1, 39, 40, 41, 72] {
                inputs.push(("short".into(), vec![0x01u8; l]));
            }
            // self-consistent proofs with 257 / 300 slots: the prover knows x and its nonces, repeats slot 0 beyond
            // slot 255 and re-derives every opening from the recomputed challenge, so the first 256 slots verify
            {
                use ff::PrimeField;
                use group::GroupEncoding;
                use rand::Rng;
                use sha2::{Digest, Sha256};
                let mut r1 = rng(seed, "c11-venc-257");
                let mut r2 = rng(seed, "c11-venc-257");
                let p256 = VerifiableRsaEncryption::<ProjectivePoint>::encrypt_with_proof(&x, &pk, b"lbl", Some(256), &mut r1).unwrap();
                let _seed: [u8; 32] = r2.gen();
                let rs: Vec<Scalar> = (0..256).map(|_| Scalar::random(&mut r2)).collect();
                let v = p256.to_bytes();
                let enc = 128usize;
                let slot = 33 + 2 * enc;
                for slots in [257usize, 300] {
                    let mut m = v[..32].to_vec();
                    m.extend_from_slice(&(slots as u16).to_be_bytes());
                    m.extend_from_slice(&v[34..40]);
                    for i in 0..slots {
                        let j = if i < 256 { i } else { 0 };
                        m.extend_from_slice(&v[40 + j * slot..40 + (j + 1) * slot]);
                    }
                    let mut h = Sha256::new();
                    h.update(b"Verified-RSA-encryption");
                    h.update(q.to_bytes());
                    h.update(&m[40..]);
                    h.update(b"lbl");
                    let ch: [u8; 32] = h.finalize().into();
                    for i in 0..slots {
                        let j = if i < 256 { i } else { 0 };
                        let bit = if i < 256 { (ch[i >> 3] >> (i & 7)) & 1 } else { 0 };
                        let sc = if bit == 1 { x + rs[j] } else { rs[j] };
                        m.extend_from_slice(sc.to_repr().as_ref());
                    }
                    inputs.push(("consistent-many-slots".into(), m));
                }
            }
            inputs.extend(consistent_headers(&mut r, 33));
            inputs.extend(valid_ciphertext_slots(&mut r, &valid, &pk, 33));
            for (kind, bytes) in inputs {
                rec.case("venc.k256.from_bytes+verify+decrypt", &kind, &bytes, || {
                    match VerifiableRsaEncryption::<ProjectivePoint>::from_bytes(&bytes) {
                        Ok(p) => {
                            let _ = p.verify(&q, &pk, b"lbl");
                            let _ = p.decrypt(&q, &sk, b"lbl");
                            let _ = p.to_bytes();
                            true
                        }
                        Err(_) => false,
                    }
                });
            }
        }
        // edwards25519
        {
            use curve25519_dalek::{EdwardsPoint, Scalar};
            use ff::Field;
            let x = Scalar::random(&mut r);
            let q = EdwardsPoint::generator() * x;
            let p = VerifiableRsaEncryption::<EdwardsPoint>::encrypt_with_proof(&x, &pk, b"lbl", None, &mut r).unwrap();
            let valid = p.to_bytes();
            let mut inputs = variants(&mut r, &valid, 30 * scale);
            for val in [0u16, 127, 256, 257, 0xffff] {
                let mut m = valid.clone();
                m[32..34].copy_from_slice(&val.to_be_bytes());
                inputs.push(("hdr-sp".into(), m));
            }
            inputs.extend(consistent_headers(&mut r, 32));
            inputs.extend(valid_ciphertext_slots(&mut r, &valid, &pk, 32));
            for (kind, bytes) in inputs {
                rec.case("venc.ed25519.from_bytes+verify+decrypt", &kind, &bytes, || {
                    match VerifiableRsaEncryption::<EdwardsPoint>::from_bytes(&bytes) {
                        Ok(p) => {
                            let _ = p.verify(&q, &pk, b"lbl");
                            let _ = p.decrypt(&q, &sk, b"lbl");
                            let _ = p.to_bytes();
                            true
                        }
                        Err(_) => false,
                    }
                });
            }
        }
    }
}

// ------------------------------------------------------------------------------------------ Paillier
mod paillier {
    use super::*;
    use crypto_bigint::{U1024, U2048, U4096};
    use sl_paillier::{RawCiphertext, PK2048, SK2048};

    const P: &str = "95779f0de6b61f3db4c53b1b32aa29e2efb52ebedab7968c37cb10917767547963a121d454c8024dc56f22c523da2dff553ad8a1621ad8f0c093ad09561165fce74fdf977ab1b5f57b4cdcce58f449bcce50cd80359ed0ec4083000c091fbb237e52b8237438ea82932ad0ed7d58fae54ea300461755a0dabc41b5e46af4cee1";
    const Q: &str = "a80137484b2e0082dbcc520642ea0fcff5652a2367084c052c340b15f0c3ecfeb334024e28e5a982c8971d06f332fc2e91ca985ee37a8e51daa2bae16841b75617a43b52fecea902c5858276ef3ab5282a0635ef34579d5ea2de61bd56f4d7ec26afbcb8ae127c4bc5c0a5799a48d41565a7656fffa056ac3b73ccb3fd0098d1";

    fn exercise_pk(pk: &PK2048) {
        let m = pk.message(&[5u8]).unwrap_or_default();
        let r = U2048::from_u64(7);
        let c = pk.encrypt_with_r(&m, &r);
        let c2 = pk.add(&c, &c);
        let _ = pk.mul(&c2, &m);
        let _ = pk.mul_vartime(&c2, &m);
        let _ = pk.message(&[0xffu8; 300]);
        // byte strings around the width of N: all-zero, last byte set, all ones
        for len in [0usize, 1, 2, 255, 256, 257, 258, 259, 511, 512, 513, 515] {
            let mut b = vec![0u8; len];
            let _ = pk.message(&b);
            if len > 0 {
                b[len - 1] = 1;
                let _ = pk.message(&b);
                b[0] = 0xff;
                let _ = pk.message(&b);
            }
            let _ = pk.message(&vec![0xffu8; len]);
        }
    }

    pub fn run(rec: &mut Rec, seed: u64, scale: usize) {
        let mut r = rng(seed, "c11-paillier");
        let p = U1024::from_be_hex(P);
        let q = U1024::from_be_hex(Q);
        let sk = SK2048::from_pq(&p, &q);
        let pk = sk.public_key();
        let sk_bytes = bincode::serialize(&sk).unwrap();
        let pk_bytes = bincode::serialize(&pk).unwrap();
        let m = pk.message(&[9u8, 1]).unwrap();
        let c = pk.encrypt_with_r(&m, &U2048::from_u64(11));
        let c_bytes = bincode::serialize(&c).unwrap();

        // public keys
        let mut inputs = variants(&mut r, &pk_bytes, 24 * scale);
        for (name, n) in [("N=0", U2048::ZERO), ("N=1", U2048::ONE), ("N=10", U2048::from_u64(10)), ("N=15", U2048::from_u64(15)),
            ("N=2^2047", U2048::ONE.shl_vartime(2047)), ("N=max", U2048::MAX), ("N=max-1", U2048::MAX.wrapping_sub(&U2048::ONE))] {
            inputs.push((name.into(), bincode::serialize(&n).unwrap()));
        }
        for (kind, bytes) in inputs {
            rec.case("paillier.PK2048.deserialize+ops", &kind, &bytes, || match bincode::deserialize::<PK2048>(&bytes) {
                Ok(pk) => {
                    exercise_pk(&pk);
                    true
                }
                Err(_) => false,
            });
        }
        // secret keys (from_pq on 1024-bit operands is slow: fewer cases)
        let mut inputs = variants(&mut r, &sk_bytes, 6 * scale);
        for (name, a, b) in [("pq=(4,6)", 4u64, 6u64), ("pq=(0,0)", 0, 0), ("pq=(1,1)", 1, 1), ("pq=(3,3)", 3, 3), ("pq=(3,0)", 3, 0),
            ("pq=(1,3)", 1, 3), ("pq=(9,15)", 9, 15), ("pq=(5,7)", 5, 7), ("pq=(7,5)", 7, 5)] {
            inputs.push((name.into(), bincode::serialize(&(U1024::from_u64(a), U1024::from_u64(b))).unwrap()));
        }
        inputs.push(("pq=(max,max)".into(), bincode::serialize(&(U1024::MAX, U1024::MAX)).unwrap()));
        inputs.push(("pq=(max,3)".into(), bincode::serialize(&(U1024::MAX, U1024::from_u64(3))).unwrap()));
        for (kind, bytes) in inputs {
            rec.case("paillier.SK2048.deserialize+ops", &kind, &bytes, || match bincode::deserialize::<SK2048>(&bytes) {
                Ok(sk) => {
                    let pk = sk.public_key();
                    exercise_pk(&pk);
                    let m = pk.message(&[5u8]).unwrap_or_default();
                    let c = pk.encrypt_with_r(&m, &U2048::from_u64(7));
                    let _ = sk.decrypt(&c);
                    let _ = sk.decrypt_fast(&c);
                    let ip = sk.extract_n_root_init_params();
                    let _ = sk.extract_n_root(&U2048::from_u64(2), &ip);
                    true
                }
                Err(_) => false,
            });
        }
        // ciphertexts: arbitrary 4096-bit values through the private-key operations of a valid key
        let mut inputs = variants(&mut r, &c_bytes, 10 * scale);
        inputs.push(("c=0".into(), bincode::serialize(&U4096::ZERO).unwrap()));
        inputs.push(("c=max".into(), bincode::serialize(&U4096::MAX).unwrap()));
        for (kind, bytes) in inputs {
            rec.case("paillier.RawCiphertext.deserialize+decrypt", &kind, &bytes, || {
                match bincode::deserialize::<RawCiphertext<{ U4096::LIMBS }>>(&bytes) {
                    Ok(c) => {
                        let _ = sk.decrypt(&c);
                        let _ = sk.decrypt_fast(&c);
                        let _ = pk.add(&c, &c);
                        let _ = pk.mul(&c, &m);
                        true
                    }
                    Err(_) => false,
                }
            });
        }
    }
}

// ------------------------------------------------------------------------------------------ OT stack
mod ot {
    use super::*;
    use k256::Scalar;
    use sl_oblivious::endemic_ot::*;
    use sl_oblivious::soft_spoken::*;

    fn pod<T: bytemuck::AnyBitPattern>(bytes: &[u8]) -> Option<Box<T>> {
        if bytes.len() != std::mem::size_of::<T>() {
            return None;
        }
        let mut b = bytemuck::allocation::zeroed_box::<T>();
        // all message types are byte arrays (alignment 1)
        let dst = unsafe { std::slice::from_raw_parts_mut(&mut *b as *mut T as *mut u8, bytes.len()) };
        dst.copy_from_slice(bytes);
        Some(b)
    }

    pub fn run(rec: &mut Rec, seed: u64, scale: usize) {
        let mut r = rng(seed, "c11-ot");
        let sid = [7u8; 32];
        // ---- Endemic
        let mut msg1 = EndemicOTMsg1::default();
        let receiver = EndemicOTReceiver::new(&sid, &mut msg1, &mut r);
        let msg1_bytes = bytemuck::bytes_of(&msg1).to_vec();
        let mut msg2 = EndemicOTMsg2::default();
        let _ = EndemicOTSender::process(&sid, &msg1, &mut msg2, &mut r).unwrap();
        let msg2_bytes = bytemuck::bytes_of(&msg2).to_vec();
        drop(receiver);
        for (kind, bytes) in variants(&mut r, &msg1_bytes, 10 * scale) {
            let mut rr = rng(seed, "c11-ot-s");
            rec.case("endemic.sender.process", &kind, &bytes, || match pod::<EndemicOTMsg1>(&bytes) {
                Some(m) => {
                    let mut out = EndemicOTMsg2::default();
                    EndemicOTSender::process(&sid, &m, &mut out, &mut rr).is_ok()
                }
                None => false,
            });
        }
        for (kind, bytes) in variants(&mut r, &msg2_bytes, 10 * scale) {
            let mut rr = rng(seed, "c11-ot-r");
            rec.case("endemic.receiver.process", &kind, &bytes, || match pod::<EndemicOTMsg2>(&bytes) {
                Some(m) => {
                    let mut m1 = EndemicOTMsg1::default();
                    let recv = EndemicOTReceiver::new(&sid, &mut m1, &mut rr);
                    recv.process(&m).is_ok()
                }
                None => false,
            });
        }
        // ---- PPRF: eval on arbitrary message bytes with consistent / arbitrary base-OT outputs
        let mut keys = [[[0u8; 32]; 2]; 256];
        for k in keys.iter_mut() {
            r.fill_bytes(&mut k[0]);
            r.fill_bytes(&mut k[1]);
        }
        let so = sl_oblivious::verif_hooks::sender_output_from_keys(&keys);
        let mut choice = [0u8; 32];
        r.fill_bytes(&mut choice);
        let rkeys: [[u8; 32]; 256] = std::array::from_fn(|i| keys[i][((choice[i / 8] >> (i % 8)) & 1) as usize]);
        let ro = ReceiverOutput::new(choice, rkeys);
        let mut sseed = SenderOTSeed::default();
        let mut pprf = PPRFOutput::default();
        build_pprf(&sid, &so, &mut sseed, &mut pprf);
        let pprf_bytes = bytemuck::bytes_of(&pprf).to_vec();
        for (kind, bytes) in variants(&mut r, &pprf_bytes, 30 * scale) {
            rec.case("pprf.eval_pprf", &kind, &bytes, || match pod::<PPRFOutput>(&bytes) {
                Some(m) => {
                    let mut rs = ReceiverOTSeed::default();
                    eval_pprf(&sid, &ro, &m, &mut rs).is_ok()
                }
                None => false,
            });
        }
        let mut rseed = ReceiverOTSeed::default();
        eval_pprf(&sid, &ro, &pprf, &mut rseed).unwrap();
        // ---- SoftSpoken sender on arbitrary first-round messages
        let mut round1 = Round1Output::default();
        let (rvr, _b) = sl_oblivious::rvole::RVOLEReceiver::new(sid, &sseed, &mut round1, &mut r);
        let r1_bytes = bytemuck::bytes_of(&round1).to_vec();
        for (kind, bytes) in variants(&mut r, &r1_bytes, 30 * scale) {
            rec.case("softspoken.sender.process", &kind, &bytes, || match pod::<Round1Output>(&bytes) {
                Some(m) => SoftSpokenOTSender::process(&sid, &rseed, &m).is_ok(),
                None => false,
            });
        }
        // seeds with out-of-range punctured indices (a stored ReceiverOTSeed is local state, but must not panic either)
        for idx in [16u8, 17, 128, 255] {
            let mut bad = ReceiverOTSeed::default();
            bad.otp_dec_keys = rseed.otp_dec_keys;
            bad.random_choices = rseed.random_choices;
            bad.random_choices[3] = idx;
            rec.case("softspoken.sender.process", "seed-index-out-of-range", &[idx], || {
                SoftSpokenOTSender::process(&sid, &bad, &round1).is_ok()
            });
        }
        // ---- RVOLE (OT-extension variant)
        let a = [Scalar::from(3u64), Scalar::from(5u64)];
        for (kind, bytes) in variants(&mut r, &r1_bytes, 6 * scale) {
            let mut rr = rng(seed, "c11-rvole-s");
            rec.case("rvole.sender.process", &kind, &bytes, || match pod::<Round1Output>(&bytes) {
                Some(m) => {
                    let mut out = sl_oblivious::rvole::RVOLEOutput::default();
                    sl_oblivious::rvole::RVOLESender::process(&sid, &rseed, &a, &m, &mut out, &mut rr).is_ok()
                }
                None => false,
            });
        }
        let mut out2 = sl_oblivious::rvole::RVOLEOutput::default();
        let _ = sl_oblivious::rvole::RVOLESender::process(&sid, &rseed, &a, &round1, &mut out2, &mut r).unwrap();
        let out2_bytes = bytemuck::bytes_of(&out2).to_vec();
        // otherwise valid messages in which one 32-byte scalar field is not a canonical scalar (n, n+1, 2^256-1) or is n-1:
        // uniform / all-one messages of the base-OT variant stop at the point decoding, these reach the scalar decoding
        let noncanonical = |valid: &[u8]| -> Vec<(String, Vec<u8>)> {
            let tail = valid.len() - (512 * 96 + 32 + 64);
            let n = crate::util::K256_ORDER_BE;
            let mut n1 = n; n1[31] += 1;
            let mut nm = n; nm[31] -= 1;
            let mut v = vec![];
            for (fname, off) in [("a_tilde[0][0]", tail), ("a_tilde[255][1]", tail + 255 * 96 + 32), ("a_tilde[511][2]", tail + 511 * 96 + 64), ("eta", tail + 512 * 96)] {
                for (vname, val) in [("n", n), ("n+1", n1), ("2^256-1", [0xffu8; 32]), ("n-1", nm)] {
                    let mut m = valid.to_vec();
                    m[off..off + 32].copy_from_slice(&val);
                    v.push((format!("scalar-field-{fname}={vname}"), m));
                }
            }
            v
        };
        let mut rv_inputs = variants(&mut r, &out2_bytes, 30 * scale);
        rv_inputs.extend(noncanonical(&out2_bytes));
        for (kind, bytes) in rv_inputs {
            rec.case("rvole.receiver.process", &kind, &bytes, || match pod::<sl_oblivious::rvole::RVOLEOutput>(&bytes) {
                Some(m) => rvr.process(&m).is_ok(),
                None => false,
            });
        }
        // ---- RVOLE (base-OT variant)
        {
            use sl_oblivious::rvole_ot_variant as v;
            let mut m1 = v::RVOLEMsg1::default();
            let mut r0 = rng(seed, "c11-rvole-ot-r");
            let (_st, _ra, _rb, _b) = v::RVOLEReceiver::new(sid, &mut m1, &mut r0);
            let m1_bytes = bytemuck::bytes_of(&m1).to_vec();
            for (kind, bytes) in variants(&mut r, &m1_bytes, 3 * scale) {
                let mut rr = rng(seed, "c11-rvole-ot-s");
                rec.case("rvole_ot.sender.process", &kind, &bytes, || match pod::<v::RVOLEMsg1>(&bytes) {
                    Some(m) => {
                        let mut out = v::RVOLEMsg2::default();
                        v::RVOLESender::process(&sid, &a, &m, &mut out, &mut rr).is_ok()
                    }
                    None => false,
                });
            }
            let mut m2 = v::RVOLEMsg2::default();
            let _ = v::RVOLESender::process(&sid, &a, &m1, &mut m2, &mut r).unwrap();
            let m2_bytes = bytemuck::bytes_of(&m2).to_vec();
            let mut ot_inputs = variants(&mut r, &m2_bytes, 3 * scale);
            ot_inputs.extend(noncanonical(&m2_bytes));
            for (kind, bytes) in ot_inputs {
                let mut rr = rng(seed, "c11-rvole-ot-r");
                rec.case("rvole_ot.receiver.process", &kind, &bytes, || match pod::<v::RVOLEMsg2>(&bytes) {
                    Some(m) => {
                        let mut mm = v::RVOLEMsg1::default();
                        let (st, ra, rb, _b) = v::RVOLEReceiver::new(sid, &mut mm, &mut rr);
                        st.process(&m, ra, rb).is_ok()
                    }
                    None => false,
                });
            }
        }
    }
}

// ------------------------------------------------------------------------------------------ relay frames, headers
mod relay {
    use super::*;
    use futures_util::{SinkExt, StreamExt};
    use sl_mpc_mate::coord::SimpleMessageRelay;
    use sl_mpc_mate::message::*;

    pub fn run(rec: &mut Rec, seed: u64, scale: usize) {
        let mut r = rng(seed, "c11-relay");
        let id = MsgId::from([9u8; 32]);
        let valid = allocate_message(&id, 10, 0, &[1, 2, 3, 4, 5]);
        let mut frames = variants(&mut r, &valid, 40 * scale);
        for l in 0..=40usize {
            frames.push(("len".into(), vec![0xabu8; l]));
        }
        frames.push(("ask".into(), AskMsg::allocate(&id, 5)));
        frames.push(("ask-ttl-max".into(), AskMsg::allocate(&id, u32::MAX)));
        for (kind, bytes) in &frames {
            rec.case("message.MsgHdr/MsgId.try_from", kind, bytes, || {
                let h = <&MsgHdr>::try_from(&bytes[..]);
                let i = MsgId::try_from(&bytes[..]);
                if let Ok(h) = h {
                    let _ = (h.id(), h.ttl(), h.flags());
                }
                let _ = MsgHdr::try_from(&bytes[..]);
                i.is_ok()
            });
        }
        let rt = tokio::runtime::Builder::new_current_thread().enable_all().build().unwrap();
        // every frame through both send paths of ONE relay; afterwards the lock must still be usable
        let relay = SimpleMessageRelay::new();
        for (kind, bytes) in &frames {
            let out = rec.case("relay.SimpleMessageRelay.send", kind, bytes, || {
                rt.block_on(async {
                    relay.send(bytes.clone());
                });
                true
            });
            let _ = out;
            rec.case("relay.MessageRelay.start_send", kind, bytes, || {
                rt.block_on(async {
                    let mut c = relay.connect();
                    c.send(bytes.clone()).await.is_ok()
                })
            });
            rec.case("relay.lock-usable-after", kind, bytes, || {
                let _ = relay.messages();
                let _c = relay.connect();
                true
            });
        }
        // timed histories on a virtual clock (the generators of C15/C16: templates around the expiry boundaries, random
        // histories, bursts): the expiry bookkeeping runs while the relay's lock is held, so a panic there poisons it
        {
            use crate::c15::{burst_history, c16_template, hist_line, random_history, Obs, Profile, Runner};
            let mut runner = Runner::new();
            let mut hr = rng(seed, "c11-relay-hist");
            let mut hm = rng(seed, "c11-relay-hist-malformed");
            let prof = Profile { nconn: 3, nids: 3, maxlen: 30, ttl_max: 3, boundary_ttl_pct: 5, big_advance: true,
                messages_after_each: false, malformed_pct: 10 };
            let mut hists = vec![];
            for k in 0..(40 * scale) {
                let (prefix, t0, name) = c16_template(&mut hr, k as u32);
                hists.push(random_history(&mut hr, &mut hm, &prof, name, prefix, t0));
            }
            for k in 0..(20 * scale) {
                let _ = k;
                hists.push(random_history(&mut hr, &mut hm, &prof, "random", vec![], 0));
            }
            hists.push(burst_history(1, 70));
            for h in &hists {
                let obs = runner.run(h.nconn, &h.ops);
                let line = hist_line(h, &obs);
                rec.case("relay.timed-history", &h.gen, line.as_bytes(), || {
                    if obs.last().map(|o| o.first() == Some(&Obs::Panic)).unwrap_or(false) {
                        panic!("the relay panicked during this history");
                    }
                    true
                });
            }
        }
        // multi-step histories: a waiter that disconnects before the publication, a waiter that never drains
        // (more deliveries than its channel holds), a waiter dropped between two publications
        for (kind, nask) in [("ask-drop-publish", 1usize), ("ask-many-then-publish", 150), ("ask-publish-ask", 2)] {
            let relay = SimpleMessageRelay::new();
            rec.case("relay.history", kind, kind.as_bytes(), || {
                rt.block_on(async {
                    let ids: Vec<MsgId> = (0..nask).map(|i| { let mut b = [0x11u8; 32]; b[0] = i as u8; b[1] = (i >> 8) as u8; MsgId::from(b) }).collect();
                    {
                        let mut a = relay.connect();
                        for id in &ids {
                            let _ = a.send(AskMsg::allocate(id, 10)).await;
                        }
                        if kind != "ask-many-then-publish" {
                            drop(a);
                            let mut p = relay.connect();
                            for id in &ids {
                                let _ = p.send(allocate_message(id, 10, 0, &[0xaa])).await;
                            }
                        } else {
                            // the asker stays connected but never reads
                            let mut p = relay.connect();
                            for id in &ids {
                                let _ = p.send(allocate_message(id, 10, 0, &[0xaa])).await;
                            }
                            tokio::task::yield_now().await;
                            drop(a);
                        }
                    }
                    for _ in 0..4 { tokio::task::yield_now().await; }
                    relay.send(allocate_message(&ids[0], 10, 0, &[0xbb]));
                    true
                })
            });
            rec.case("relay.lock-usable-after", kind, kind.as_bytes(), || {
                let _ = relay.messages();
                let _c = relay.connect();
                true
            });
        }
        // buffered wrapper fed arbitrary frames by the inner relay
        for (kind, bytes) in frames.iter().take(60 * scale) {
            rec.case("relay.BufferedMsgRelay.recv", kind, bytes, || {
                rt.block_on(async {
                    let relay = SimpleMessageRelay::new();
                    let mut prod = relay.connect();
                    let cons = relay.connect();
                    let mut buffered = sl_mpc_mate::coord::BufferedMsgRelay::new(cons);
                    // the frame's own id (if it has one) is what the consumer asks for
                    let want = MsgId::try_from(&bytes[..]).unwrap_or(id);
                    let _ = prod.send(bytes.clone()).await;
                    let _ = prod.send(valid.clone()).await;
                    let got = tokio::time::timeout(std::time::Duration::from_millis(20), buffered.recv(&want, 1)).await;
                    let _ = tokio::time::timeout(std::time::Duration::from_millis(5), buffered.next()).await;
                    got.is_ok()
                })
            });
        }
    }
}

// ------------------------------------------------------------------------------------------ BIP32
mod bip32 {
    use super::*;
    use k256::ProjectivePoint;
    use sl_mpc_mate::bip32::*;
    use std::str::FromStr;

    pub fn run(rec: &mut Rec, seed: u64, scale: usize) {
        let mut r = rng(seed, "c11-bip32");
        let mut roots: Vec<(String, ProjectivePoint)> = vec![
            ("identity".into(), ProjectivePoint::IDENTITY),
            ("generator".into(), ProjectivePoint::GENERATOR),
            ("-generator".into(), -ProjectivePoint::GENERATOR),
        ];
        for _ in 0..(4 * scale) {
            use elliptic_curve::Field;
            roots.push(("random".into(), ProjectivePoint::GENERATOR * k256::Scalar::random(&mut r)));
        }
        let mut paths: Vec<String> = vec!["m".into(), "m/0".into(), "m/1/2/3".into(), "m/2147483647".into(), "m/0'".into(),
            "m/1/2'/3".into(), "m/44'/0'/0'/0/0".into(), "m/4294967295".into(), "".into(), "m/".into(), "m//1".into(), "x/1".into()];
        for depth in [254usize, 255, 256, 257, 300] {
            paths.push(format!("m{}", "/1".repeat(depth)));
        }
        for _ in 0..(10 * scale) {
            let d = r.gen_range(0..12);
            let mut s = String::from("m");
            for _ in 0..d {
                s.push_str(&format!("/{}", r.gen_range(0u32..0x8000_0000)));
            }
            paths.push(s);
        }
        for (rk, root) in &roots {
            for p in &paths {
                for cc in [[0u8; 32], [0xffu8; 32], [0x5au8; 32]] {
                    let input = format!("{rk}|{p}|{:02x}", cc[0]);
                    rec.case("bip32.derive_xpub+to_string", rk, input.as_bytes(), || match derivation_path::DerivationPath::from_str(p) {
                        Ok(path) => match derive_xpub(Prefix::XPub, root, cc, path) {
                            Ok(x) => {
                                let _ = x.to_string(true);
                                let _ = x.to_string(false);
                                true
                            }
                            Err(_) => false,
                        },
                        Err(_) => false,
                    });
                }
            }
        }
    }
}

pub fn run(kv: &Args) -> i32 {
    let seed = kv.u64("seed", 1);
    let out = kv.str("out", "/verif/build/run/C11");
    std::fs::create_dir_all(&out).unwrap();
    let scale = if kv.thorough() { 12 } else { 1 };
    let only = kv.str("only", "");
    let prev = std::panic::take_hook();
    std::panic::set_hook(Box::new(|_| {}));
    let mut rec = Rec { n: 0, kinds: BTreeMap::new(), panics: vec![], log: std::fs::File::create(format!("{out}/cases.txt")).unwrap(), samples: vec![] };
    let want = |name: &str| only.is_empty() || only == name;
    if want("venc") { venc::run(&mut rec, seed, scale); }
    if want("paillier") { paillier::run(&mut rec, seed, scale); }
    if want("ot") { ot::run(&mut rec, seed, scale); }
    if want("relay") { relay::run(&mut rec, seed, scale); }
    if want("bip32") { bip32::run(&mut rec, seed, scale); }
    std::panic::set_hook(prev);
    let mut f = std::fs::File::create(format!("{out}/result.txt")).unwrap();
    writeln!(f, "evaluations {}", rec.n).unwrap();
    let nontrivial: u64 = rec.kinds.iter().filter(|(k, _)| !k.contains("/valid/")).map(|(_, v)| *v).sum();
    writeln!(f, "mutations {}", nontrivial).unwrap();
    writeln!(f, "oracle_queries 0").unwrap();
    // per entry point x outcome summary
    let mut per: BTreeMap<String, u64> = BTreeMap::new();
    for (k, v) in &rec.kinds {
        let parts: Vec<&str> = k.split('/').collect();
        *per.entry(format!("{}:{}", parts[0], parts[parts.len() - 1])).or_default() += v;
    }
    for (k, v) in &per {
        writeln!(f, "kind {} {}", k.replace(' ', "_"), v).unwrap();
    }
    for s in &rec.samples {
        writeln!(f, "SAMPLE {s}").unwrap();
    }
    for p in &rec.panics {
        writeln!(f, "ORACLE panic: {p}").unwrap();
    }
    0
}
