//! C17: the buffering relay wrapper (crates/sl-mpc-mate/src/coord/buffered.rs).
//!
//! A scripted mock `Relay` is wrapped in the REAL `BufferedMsgRelay`.  Every future (`wait_for`,
//! `recv`, `StreamExt::next`) is polled BY HAND with a no-op waker, so the harness decides where the
//! inner relay answers `Pending` and after how many polls a future is dropped (cancellation).
//! Recorded per call: the result, `buffered()` afterwards, and the calls the wrapper made on the mock.
//!
//! Output (dir `out=`):
//!   cases.txt   one line per case selected for the in-Coq model: `<kind>\t<spec>\t<nontrivial 0/1>\t<coq term>`
//!   header.v    `Definition T : list (list N) := [...]`  (shared table of byte strings)
//!   oracle.txt  `evaluations <n>` + `FAIL\t<what>\t<spec>` lines (implementation-only oracle)
//!   stats.json  distributions
//!
//! Replay: `spec=<spec string>` runs exactly one case.
use crate::util::*;
use futures_util::task::noop_waker_ref;
use rand::{Rng, RngCore};
use sl_mpc_mate::coord::{BufferedMsgRelay, MessageSendError, Relay, Sink, Stream, StreamExt};
use sl_mpc_mate::message::MsgId;
use std::collections::{BTreeMap, HashMap, VecDeque};
use std::fmt::Write as _;
use std::future::Future;
use std::io::Write as _;
use std::pin::Pin;
use std::task::{Context, Poll};

// The oracle uses its own constants (the property statement: header = 36 bytes, id = first 32).
const O_HDR: usize = 36;
const O_ID: usize = 32;

// ------------------------------------------------------------------------------------------ mock relay
#[derive(Clone, Debug, PartialEq, Eq)]
pub enum Rx {
    Item(Vec<u8>),
    Pending,
    End,
}
#[derive(Clone, Copy, Debug, PartialEq, Eq)]
pub enum P {
    Ok,
    Pending,
    Err,
}
#[derive(Clone, Debug, PartialEq, Eq)]
pub enum ICall {
    Next,
    Ready,
    Send(Vec<u8>, bool),
    Flush,
}

pub struct Mock {
    rx: VecDeque<Rx>,
    rdy: VecDeque<P>,
    snd: VecDeque<bool>,
    fls: VecDeque<P>,
    log: Vec<ICall>,
    consumed: Vec<Vec<u8>>,
}

impl Stream for Mock {
    type Item = Vec<u8>;
    fn poll_next(self: Pin<&mut Self>, _cx: &mut Context<'_>) -> Poll<Option<Vec<u8>>> {
        let this = self.get_mut();
        this.log.push(ICall::Next);
        match this.rx.pop_front() {
            None | Some(Rx::End) => Poll::Ready(None),
            Some(Rx::Pending) => Poll::Pending,
            Some(Rx::Item(m)) => {
                this.consumed.push(m.clone());
                Poll::Ready(Some(m))
            }
        }
    }
}

fn pres(p: P) -> Poll<Result<(), MessageSendError>> {
    match p {
        P::Ok => Poll::Ready(Ok(())),
        P::Pending => Poll::Pending,
        P::Err => Poll::Ready(Err(MessageSendError)),
    }
}

impl Sink<Vec<u8>> for Mock {
    type Error = MessageSendError;
    fn poll_ready(self: Pin<&mut Self>, _cx: &mut Context<'_>) -> Poll<Result<(), Self::Error>> {
        let this = self.get_mut();
        this.log.push(ICall::Ready);
        pres(this.rdy.pop_front().unwrap_or(P::Ok))
    }
    fn start_send(self: Pin<&mut Self>, item: Vec<u8>) -> Result<(), Self::Error> {
        let this = self.get_mut();
        let ok = this.snd.pop_front().unwrap_or(true);
        this.log.push(ICall::Send(item, ok));
        if ok {
            Ok(())
        } else {
            Err(MessageSendError)
        }
    }
    fn poll_flush(self: Pin<&mut Self>, _cx: &mut Context<'_>) -> Poll<Result<(), Self::Error>> {
        let this = self.get_mut();
        this.log.push(ICall::Flush);
        pres(this.fls.pop_front().unwrap_or(P::Ok))
    }
    fn poll_close(self: Pin<&mut Self>, _cx: &mut Context<'_>) -> Poll<Result<(), Self::Error>> {
        Poll::Ready(Ok(()))
    }
}

impl Relay for Mock {}

// ------------------------------------------------------------------------------------------ cases
#[derive(Clone, Debug, Default)]
pub struct Script {
    rx: Vec<Rx>,
    rdy: Vec<P>,
    snd: Vec<bool>,
    fls: Vec<P>,
}

#[derive(Clone, Debug)]
pub enum Call {
    Wait { neg: bool, ids: Vec<[u8; 32]> },
    Recv { id: [u8; 32], ttl: u32 },
    Next,
}

#[derive(Clone, Debug)]
pub struct Step {
    call: Call,
    /// drop the future after this many polls (all of which returned Pending); None = poll to completion
    cancel: Option<usize>,
}

#[derive(Clone, Debug, PartialEq, Eq)]
pub enum Res {
    Some(Vec<u8>),
    None,
    Cancelled,
    Panic,
}

#[derive(Clone, Debug)]
pub struct Obs {
    res: Res,
    buf_before: Vec<Vec<u8>>,
    buffered: Vec<Vec<u8>>,
    log: Vec<ICall>,
    polls: usize,
    consumed: usize, // number of Items the mock has handed to the wrapper so far
}

const POLL_CAP: usize = 100_000;

fn drive<F: Future<Output = Option<Vec<u8>>>>(mut fut: Pin<&mut F>, max: Option<usize>) -> (Res, usize) {
    let mut cx = Context::from_waker(noop_waker_ref());
    let mut polls = 0usize;
    loop {
        if Some(polls) == max {
            return (Res::Cancelled, polls);
        }
        if polls > POLL_CAP {
            return (Res::Panic, polls);
        }
        polls += 1;
        match fut.as_mut().poll(&mut cx) {
            Poll::Ready(Some(m)) => return (Res::Some(m), polls),
            Poll::Ready(None) => return (Res::None, polls),
            Poll::Pending => {}
        }
    }
}

fn pred_eval(neg: bool, ids: &[[u8; 32]], id: &[u8]) -> bool {
    neg ^ ids.iter().any(|x| id == &x[..])
}

/// One application call on the real wrapper; the future is created here and dropped on return.
fn do_step(b: &mut BufferedMsgRelay<Mock>, step: &Step) -> (Res, usize) {
    match &step.call {
        Call::Wait { neg, ids } => {
            let neg = *neg;
            let fut = b.wait_for(|id: &MsgId| pred_eval(neg, ids, id.as_slice()));
            let mut fut = std::pin::pin!(fut);
            drive(fut.as_mut(), step.cancel)
        }
        Call::Recv { id, ttl } => {
            let mid = MsgId::from(*id);
            let fut = b.recv(&mid, *ttl);
            let mut fut = std::pin::pin!(fut);
            drive(fut.as_mut(), step.cancel)
        }
        Call::Next => {
            let mut fut = b.next();
            drive(Pin::new(&mut fut), step.cancel)
        }
    }
}

/// Run a case on the real implementation. Stops after a panicking call.
pub fn execute(script: &Script, steps: &[Step]) -> Vec<Obs> {
    let mock = Mock {
        rx: script.rx.iter().cloned().collect(),
        rdy: script.rdy.iter().cloned().collect(),
        snd: script.snd.iter().cloned().collect(),
        fls: script.fls.iter().cloned().collect(),
        log: Vec::new(),
        consumed: Vec::new(),
    };
    let mut b = BufferedMsgRelay::new(mock);
    let mut out = Vec::with_capacity(steps.len());
    for step in steps {
        let buf_before: Vec<Vec<u8>> = BufferedMsgRelay::buffered(&b).map(|x| x.to_vec()).collect();
        let r = std::panic::catch_unwind(std::panic::AssertUnwindSafe(|| do_step(&mut b, step)));
        let (res, polls) = match r {
            Ok(x) => x,
            Err(_) => (Res::Panic, 0),
        };
        let buffered: Vec<Vec<u8>> = BufferedMsgRelay::buffered(&b).map(|x| x.to_vec()).collect();
        let via_mut: Vec<Vec<u8>> = BufferedMsgRelay::buffered_mut(&mut b).map(|x| x.to_vec()).collect();
        let panicked = res == Res::Panic || via_mut != buffered;
        let log = std::mem::take(&mut b.log); // DerefMut to the mock
        let consumed = b.consumed.len();
        out.push(Obs { res: if via_mut != buffered { Res::Panic } else { res }, buf_before, buffered, log, polls, consumed });
        if panicked {
            break;
        }
    }
    // the frames the mock handed over, in order (needed by the oracle)
    CONSUMED.with(|c| *c.borrow_mut() = std::mem::take(&mut b.consumed));
    out
}

thread_local! {
    static CONSUMED: std::cell::RefCell<Vec<Vec<u8>>> = std::cell::RefCell::new(Vec::new());
}

// ------------------------------------------------------------------------------------------ oracle
fn o_wf(m: &[u8]) -> bool {
    m.len() >= O_HDR
}

fn multiset<'a>(it: impl Iterator<Item = &'a Vec<u8>>) -> BTreeMap<&'a [u8], i64> {
    let mut m = BTreeMap::new();
    for x in it {
        *m.entry(x.as_slice()).or_insert(0) += 1;
    }
    m
}

/// The property itself, checked on the recorded behaviour of the real code only.
pub fn oracle(steps: &[Step], obs: &[Obs], consumed: &[Vec<u8>]) -> Option<&'static str> {
    let mut handed: Vec<Vec<u8>> = Vec::new();
    for (i, o) in obs.iter().enumerate() {
        let step = &steps[i];
        match &o.res {
            Res::Panic => return Some("panic (or buffered_mut differs from buffered)"),
            Res::Some(m) => {
                match &step.call {
                    Call::Recv { id, .. } => {
                        if !o_wf(m) || m[..O_ID] != id[..] {
                            return Some("recv returned a message whose header id is not the requested id");
                        }
                    }
                    Call::Wait { neg, ids } => {
                        if !o_wf(m) || !pred_eval(*neg, ids, &m[..O_ID]) {
                            return Some("wait_for returned a message that does not satisfy the predicate");
                        }
                    }
                    Call::Next => {}
                }
                handed.push(m.clone());
            }
            _ => {}
        }
        if let Call::Next = step.call {
            if !o.buf_before.is_empty() && step.cancel != Some(0) {
                // must come out of the buffer without touching the inner stream
                let from_buf = matches!(&o.res, Res::Some(m) if o.buf_before.contains(m));
                if !from_buf || o.log.iter().any(|c| *c == ICall::Next) || o.buffered.len() + 1 != o.buf_before.len() {
                    return Some("next did not drain the buffer before polling the inner relay");
                }
            }
        }
        if o.buffered.iter().any(|m| !o_wf(m)) {
            return Some("a frame shorter than a header is listed as buffered");
        }
        // conservation: wf handed out (+) buffered = wf consumed from the inner relay
        let cons = &consumed[..o.consumed];
        let mut lhs = multiset(handed.iter().filter(|m| o_wf(m)));
        for (k, v) in multiset(o.buffered.iter()) {
            *lhs.entry(k).or_insert(0) += v;
        }
        let rhs = multiset(cons.iter().filter(|m| o_wf(m)));
        if lhs != rhs {
            let lost = rhs.iter().any(|(k, v)| lhs.get(k).copied().unwrap_or(0) < *v);
            return Some(if lost {
                "conservation: a well-formed message from the inner relay is neither handed out nor buffered"
            } else {
                "conservation: a message is handed out/buffered more often than it was received"
            });
        }
        // short frames: whatever was handed out was received (no invention)
        let all_h = multiset(handed.iter());
        let all_c = multiset(cons.iter());
        for (k, v) in all_h {
            if !o_wf(k) && all_c.get(k).copied().unwrap_or(0) < v {
                return Some("a short frame was handed out more often than it was received");
            }
        }
    }
    None
}

// ------------------------------------------------------------------------------------------ spec strings
fn p_char(p: P) -> char {
    match p {
        P::Ok => 'o',
        P::Pending => 'p',
        P::Err => 'e',
    }
}

pub fn spec_string(script: &Script, steps: &[Step]) -> String {
    let mut s = String::new();
    s.push_str("rx=");
    for (i, e) in script.rx.iter().enumerate() {
        if i > 0 {
            s.push(',');
        }
        match e {
            Rx::Pending => s.push('P'),
            Rx::End => s.push('E'),
            Rx::Item(m) if m.is_empty() => s.push('-'),
            Rx::Item(m) => s.push_str(&hex(m)),
        }
    }
    s.push_str("|rdy=");
    s.extend(script.rdy.iter().map(|p| p_char(*p)));
    s.push_str("|snd=");
    s.extend(script.snd.iter().map(|b| if *b { '1' } else { '0' }));
    s.push_str("|fls=");
    s.extend(script.fls.iter().map(|p| p_char(*p)));
    s.push_str("|calls=");
    for (i, st) in steps.iter().enumerate() {
        if i > 0 {
            s.push(';');
        }
        match &st.call {
            Call::Next => s.push('n'),
            Call::Recv { id, ttl } => {
                let _ = write!(s, "r:{}:{}", hex(id), ttl);
            }
            Call::Wait { neg, ids } => {
                let _ = write!(s, "w:{}:", if *neg { '-' } else { '+' });
                for (j, id) in ids.iter().enumerate() {
                    if j > 0 {
                        s.push('/');
                    }
                    s.push_str(&hex(id));
                }
            }
        }
        if let Some(k) = st.cancel {
            let _ = write!(s, "@{}", k);
        }
    }
    s
}

pub fn parse_spec(spec: &str) -> (Script, Vec<Step>) {
    let mut sc = Script::default();
    let mut steps = Vec::new();
    let pp = |c: char| match c {
        'o' => P::Ok,
        'p' => P::Pending,
        _ => P::Err,
    };
    for part in spec.split('|') {
        let (k, v) = part.split_once('=').expect("spec part");
        match k {
            "rx" => {
                for e in v.split(',').filter(|x| !x.is_empty()) {
                    sc.rx.push(match e {
                        "P" => Rx::Pending,
                        "E" => Rx::End,
                        "-" => Rx::Item(vec![]),
                        h => Rx::Item(unhex(h)),
                    });
                }
            }
            "rdy" => sc.rdy = v.chars().map(pp).collect(),
            "fls" => sc.fls = v.chars().map(pp).collect(),
            "snd" => sc.snd = v.chars().map(|c| c == '1').collect(),
            "calls" => {
                for c in v.split(';').filter(|x| !x.is_empty()) {
                    let (body, cancel) = match c.split_once('@') {
                        Some((b, k)) => (b, Some(k.parse::<usize>().expect("cancel"))),
                        None => (c, None),
                    };
                    let f: Vec<&str> = body.split(':').collect();
                    let id32 = |h: &str| -> [u8; 32] { unhex(h).try_into().expect("32-byte id") };
                    let call = match f[0] {
                        "n" => Call::Next,
                        "r" => Call::Recv { id: id32(f[1]), ttl: f[2].parse().expect("ttl") },
                        "w" => Call::Wait {
                            neg: f[1] == "-",
                            ids: f.get(2).map(|s| s.split('/').filter(|x| !x.is_empty()).map(id32).collect()).unwrap_or_default(),
                        },
                        other => panic!("bad call {other}"),
                    };
                    steps.push(Step { call, cancel });
                }
            }
            _ => {}
        }
    }
    (sc, steps)
}

// ------------------------------------------------------------------------------------------ Coq terms
#[derive(Default)]
pub struct Table {
    map: HashMap<Vec<u8>, usize>,
    items: Vec<Vec<u8>>,
}
impl Table {
    fn intern(&mut self, b: &[u8]) -> usize {
        if let Some(i) = self.map.get(b) {
            return *i;
        }
        let i = self.items.len();
        self.items.push(b.to_vec());
        self.map.insert(b.to_vec(), i);
        i
    }
    fn get(&self, b: &[u8]) -> Option<usize> {
        self.map.get(b).copied()
    }
    fn coq(&self) -> String {
        let mut s = String::from("[");
        for (i, it) in self.items.iter().enumerate() {
            if i > 0 {
                s.push(';');
            }
            s.push_str(&coq_bytes(it));
        }
        s.push(']');
        s
    }
}

fn p_coq(p: P) -> &'static str {
    match p {
        P::Ok => "POk",
        P::Pending => "PPending",
        P::Err => "PErr",
    }
}

fn list<T>(xs: impl Iterator<Item = T>, f: impl Fn(T) -> String) -> String {
    let mut s = String::from("[");
    for (i, x) in xs.enumerate() {
        if i > 0 {
            s.push(';');
        }
        s.push_str(&f(x));
    }
    s.push(']');
    s
}

fn total_pendings(script: &Script) -> usize {
    script.rx.iter().filter(|e| **e == Rx::Pending).count()
        + script.rdy.iter().filter(|e| **e == P::Pending).count()
        + script.fls.iter().filter(|e| **e == P::Pending).count()
}

/// All byte strings a case mentions.
fn case_strings<'a>(script: &'a Script, steps: &'a [Step], obs: &'a [Obs]) -> Vec<&'a [u8]> {
    let mut v: Vec<&[u8]> = Vec::new();
    for e in &script.rx {
        if let Rx::Item(m) = e {
            v.push(m);
        }
    }
    for s in steps {
        match &s.call {
            Call::Recv { id, .. } => v.push(id),
            Call::Wait { ids, .. } => ids.iter().for_each(|i| v.push(i)),
            Call::Next => {}
        }
    }
    for o in obs {
        if let Res::Some(m) = &o.res {
            v.push(m);
        }
        o.buffered.iter().for_each(|m| v.push(m));
        for c in &o.log {
            if let ICall::Send(m, _) = c {
                v.push(m);
            }
        }
    }
    v
}

/// Coq term of type `SL.Corr.C17.case`. Uses the shared table `T` when it has every string.
pub fn coq_case(global: &Table, script: &Script, steps: &[Step], obs: &[Obs]) -> String {
    let strings = case_strings(script, steps, obs);
    let mut local = Table::default();
    let use_global = strings.iter().all(|s| global.get(s).is_some());
    if !use_global {
        for s in &strings {
            local.intern(s);
        }
    }
    let ix = |b: &[u8]| -> usize {
        if use_global {
            global.get(b).unwrap()
        } else {
            local.get(b).unwrap()
        }
    };
    let unlimited = total_pendings(script) + 2;
    let mut s = String::with_capacity(256);
    s.push('(');
    s.push_str(&if use_global { "T".to_string() } else { local.coq() });
    s.push_str(", (");
    s.push_str(&list(script.rx.iter(), |e| match e {
        Rx::Item(m) => format!("KItem {}", ix(m)),
        Rx::Pending => "KPend".into(),
        Rx::End => "KEnd".into(),
    }));
    s.push_str(", ");
    s.push_str(&list(script.rdy.iter(), |p| p_coq(*p).into()));
    s.push_str(", ");
    s.push_str(&list(script.snd.iter(), |b| b.to_string()));
    s.push_str(", ");
    s.push_str(&list(script.fls.iter(), |p| p_coq(*p).into()));
    s.push_str("), ");
    // only the executed prefix of the calls (a panicking call ends the case)
    s.push_str(&list(steps.iter().take(obs.len()), |st| {
        let c = match &st.call {
            Call::Next => "KNext".to_string(),
            Call::Recv { id, ttl } => format!("KRecv {} {}", ix(id), ttl),
            Call::Wait { neg, ids } => format!("KWait {} {}", neg, list(ids.iter(), |i| ix(i).to_string())),
        };
        format!("({}, {})", c, st.cancel.unwrap_or(unlimited))
    }));
    s.push_str(", ");
    s.push_str(&list(obs.iter(), |o| {
        let r = match &o.res {
            Res::Some(m) => format!("KSome {}", ix(m)),
            Res::None => "KNone".into(),
            Res::Cancelled => "KCancelled".into(),
            Res::Panic => "KPanic".into(),
        };
        let b = list(o.buffered.iter(), |m| ix(m).to_string());
        let l = list(o.log.iter(), |c| match c {
            ICall::Next => "LNext".into(),
            ICall::Ready => "LReady".into(),
            ICall::Flush => "LFlush".into(),
            ICall::Send(m, ok) => format!("LSend {} {}", ix(m), ok),
        });
        format!("({}, {}, {})", r, b, l)
    }));
    s.push(')');
    s
}

// ------------------------------------------------------------------------------------------ universe
fn id_a() -> [u8; 32] {
    let mut x = [0xAA; 32];
    x[31] = 1;
    x
}
fn id_b() -> [u8; 32] {
    let mut x = [0xAA; 32];
    x[31] = 2; // differs from a in the LAST id byte only
    x
}
fn id_c() -> [u8; 32] {
    let mut x = id_a();
    x[0] = 0xAB; // differs from a in the FIRST id byte only
    x
}

fn frame(id: &[u8; 32], ttl: u16, flags: u16, payload: &[u8]) -> Vec<u8> {
    let mut v = id.to_vec();
    v.extend_from_slice(&ttl.to_le_bytes());
    v.extend_from_slice(&flags.to_le_bytes());
    v.extend_from_slice(payload);
    v
}

/// frames of the exhaustive space: A1, A2 (same id, other payload), B1, C1 (header only: exactly 36 bytes),
/// S (35 bytes: one short of a header, begins with id a)
fn universe() -> Vec<Vec<u8>> {
    let a1 = frame(&id_a(), 10, 0, b"x1");
    let a2 = frame(&id_a(), 10, 0, b"x2");
    // payload of B1 starts with id a: catches an id read at a wrong offset
    let mut pl = vec![0u8; 0];
    pl.extend_from_slice(&id_a());
    let b1 = frame(&id_b(), 0x0102, 1, &pl);
    let c1 = frame(&id_c(), 0xffff, 0xffff, b"");
    let s = a1[..35].to_vec();
    vec![a1, a2, b1, c1, s]
}
const SYM_P: u8 = 254;
const SYM_E: u8 = 255;

fn call_alphabet() -> Vec<Call> {
    vec![
        Call::Recv { id: id_a(), ttl: 10 },
        Call::Recv { id: id_b(), ttl: 70_000 }, // ttl above 16 bits: the ask frame carries ttl & 0xffff
        Call::Wait { neg: false, ids: vec![id_c()] },
        Call::Wait { neg: true, ids: vec![id_a()] }, // everything but a
        Call::Next,
    ]
}

fn materialise(u: &[Vec<u8>], ev: &[u8]) -> Vec<Rx> {
    ev.iter()
        .map(|e| match *e {
            SYM_P => Rx::Pending,
            SYM_E => Rx::End,
            i => Rx::Item(u[i as usize].clone()),
        })
        .collect()
}

/// all rx scripts: item sequences over `syms` of length <= maxlen, each gap in {nothing, Pending, End}
/// (or {nothing, Pending} when `ends` is false)
fn rx_scripts(syms: &[u8], maxlen: usize, ends: bool) -> Vec<Vec<u8>> {
    let mut seqs: Vec<Vec<u8>> = vec![vec![]];
    let mut frontier: Vec<Vec<u8>> = vec![vec![]];
    for _ in 0..maxlen {
        let mut next = Vec::new();
        for s in &frontier {
            for &x in syms {
                let mut t = s.clone();
                t.push(x);
                next.push(t);
            }
        }
        seqs.extend(next.iter().cloned());
        frontier = next;
    }
    with_gaps(&seqs, ends)
}

/// every gap of every sequence in {nothing, Pending, End} (or {nothing, Pending})
fn with_gaps(seqs: &[Vec<u8>], ends: bool) -> Vec<Vec<u8>> {
    let mut out = Vec::new();
    let g = if ends { 3usize } else { 2 };
    for s in seqs {
        let gaps = s.len() + 1;
        let combos = g.pow(gaps as u32);
        for mut c in 0..combos {
            let mut ev = Vec::with_capacity(2 * s.len() + 1);
            for gi in 0..gaps {
                match c % g {
                    1 => ev.push(SYM_P),
                    2 => ev.push(SYM_E),
                    _ => {}
                }
                c /= g;
                if gi < s.len() {
                    ev.push(s[gi]);
                }
            }
            out.push(ev);
        }
    }
    out
}

/// all distinct arrangements of a multiset of symbols
fn multiset_perms(ms: &[u8]) -> Vec<Vec<u8>> {
    fn go(rest: &mut Vec<u8>, cur: &mut Vec<u8>, out: &mut std::collections::BTreeSet<Vec<u8>>) {
        if rest.is_empty() {
            out.insert(cur.clone());
            return;
        }
        for i in 0..rest.len() {
            let x = rest.remove(i);
            cur.push(x);
            go(rest, cur, out);
            cur.pop();
            rest.insert(i, x);
        }
    }
    let mut out = std::collections::BTreeSet::new();
    go(&mut ms.to_vec(), &mut Vec::new(), &mut out);
    out.into_iter().collect()
}

fn call_seqs(n_letters: usize, maxlen: usize) -> Vec<Vec<u8>> {
    let mut out = Vec::new();
    let mut frontier: Vec<Vec<u8>> = vec![vec![]];
    for _ in 0..maxlen {
        let mut next = Vec::new();
        for s in &frontier {
            for x in 0..n_letters as u8 {
                let mut t = s.clone();
                t.push(x);
                next.push(t);
            }
        }
        out.extend(next.iter().cloned());
        frontier = next;
    }
    out
}

fn mix(mut z: u64) -> u64 {
    z = z.wrapping_add(0x9E3779B97F4A7C15);
    z = (z ^ (z >> 30)).wrapping_mul(0xBF58476D1CE4E5B9);
    z = (z ^ (z >> 27)).wrapping_mul(0x94D049BB133111EB);
    z ^ (z >> 31)
}

// ------------------------------------------------------------------------------------------ result sink
#[derive(Default)]
struct Acc {
    lines: Vec<String>,      // selected for Coq
    fails: std::collections::BTreeSet<(usize, String)>, // oracle failures: the 40 smallest (by length, then text)
    n: u64,                  // cases executed (oracle evaluations)
    calls: u64,
    res: [u64; 4],           // Some / None / Cancelled / Panic
    from_buffer: u64,        // calls answered out of in_buf
    parked: u64,             // cases in which at least one frame was parked in in_buf
    dropped_short: u64,      // cases in which wait_for swallowed a short frame
    cancelled_cases: u64,
}

impl Acc {
    fn add_fail(&mut self, line: String) {
        self.fails.insert((line.len(), line));
        while self.fails.len() > 40 {
            let last = self.fails.iter().next_back().cloned().unwrap();
            self.fails.remove(&last);
        }
    }
    fn merge(&mut self, o: Acc) {
        self.lines.extend(o.lines);
        for f in o.fails {
            self.add_fail(f.1);
        }
        self.n += o.n;
        self.calls += o.calls;
        for i in 0..4 {
            self.res[i] += o.res[i];
        }
        self.from_buffer += o.from_buffer;
        self.parked += o.parked;
        self.dropped_short += o.dropped_short;
        self.cancelled_cases += o.cancelled_cases;
    }
}

/// Execute one case, run the oracle, maybe emit it for the model. `select`: emit this case.
fn process(acc: &mut Acc, global: &Table, kind: &str, script: &Script, steps: &[Step], select: bool) -> Vec<Obs> {
    let obs = execute(script, steps);
    let consumed = CONSUMED.with(|c| std::mem::take(&mut *c.borrow_mut()));
    acc.n += 1;
    acc.calls += obs.len() as u64;
    let mut parked = false;
    let mut cancelled = false;
    for (i, o) in obs.iter().enumerate() {
        match o.res {
            Res::Some(_) => acc.res[0] += 1,
            Res::None => acc.res[1] += 1,
            Res::Cancelled => {
                acc.res[2] += 1;
                cancelled = true
            }
            Res::Panic => acc.res[3] += 1,
        }
        if !o.buffered.is_empty() {
            parked = true;
        }
        if matches!(o.res, Res::Some(_)) && o.buffered.len() < o.buf_before.len() {
            acc.from_buffer += 1;
        }
        let _ = i;
    }
    if parked {
        acc.parked += 1;
    }
    if cancelled {
        acc.cancelled_cases += 1;
    }
    let wf_cons = consumed.iter().filter(|m| !o_wf(m)).count();
    let short_handed = obs.iter().filter(|o| matches!(&o.res, Res::Some(m) if !o_wf(m))).count();
    if wf_cons > short_handed {
        acc.dropped_short += 1;
    }
    let verdict = oracle(steps, &obs, &consumed);
    if let Some(what) = verdict {
        acc.add_fail(format!("FAIL\t{}\t{}", what, spec_string(script, steps)));
    }
    if select {
        acc.lines.push(format!(
            "{}\t{}\t{}\t{}",
            kind,
            spec_string(script, steps),
            if parked || cancelled { 1 } else { 0 },
            coq_case(global, script, steps, &obs)
        ));
    }
    obs
}

/// All canonical cancellation plans for (script, calls): every call either runs to completion or is
/// dropped after k >= kmin polls, for each k at which it really is still pending.
fn explore(
    acc: &mut Acc,
    global: &Table,
    kind: &str,
    script: &Script,
    calls: &[Call],
    plan: &mut Vec<Option<usize>>,
    kmin: usize,
    key: u64,
    rate: u64,
    counter: &mut u64,
) {
    let i = plan.len();
    if i == calls.len() {
        let steps: Vec<Step> = calls.iter().zip(plan.iter()).map(|(c, k)| Step { call: c.clone(), cancel: *k }).collect();
        *counter += 1;
        let select = rate != 0 && mix(key ^ mix(*counter)) % rate == 0;
        process(acc, global, kind, script, &steps, select);
        return;
    }
    // how often is call i pending when polled to completion after this prefix?
    let steps: Vec<Step> = calls[..=i]
        .iter()
        .enumerate()
        .map(|(j, c)| Step { call: c.clone(), cancel: if j < i { plan[j] } else { None } })
        .collect();
    let obs = execute(script, &steps);
    CONSUMED.with(|c| c.borrow_mut().clear());
    let pend = match obs.get(i) {
        Some(o) if o.res != Res::Panic => o.polls.saturating_sub(1),
        _ => 0,
    };
    plan.push(None);
    explore(acc, global, kind, script, calls, plan, kmin, key, rate, counter);
    plan.pop();
    for k in kmin..=pend {
        if k == 0 || k <= pend {
            plan.push(Some(k));
            explore(acc, global, kind, script, calls, plan, kmin, key, rate, counter);
            plan.pop();
        }
    }
}

fn parallel<T: Sync, F: Fn(usize, &T, &mut Acc) + Sync>(items: &[T], f: F) -> Acc {
    let nthreads = std::thread::available_parallelism().map(|n| n.get()).unwrap_or(4).min(16);
    let next = std::sync::atomic::AtomicUsize::new(0);
    let mut total = Acc::default();
    let parts: Vec<(Acc, Vec<(usize, Vec<String>)>)> = std::thread::scope(|sc| {
        let hs: Vec<_> = (0..nthreads)
            .map(|_| {
                let f = &f;
                let next = &next;
                sc.spawn(move || {
                    let mut acc = Acc::default();
                    let mut tagged: Vec<(usize, Vec<String>)> = Vec::new();
                    loop {
                        let i = next.fetch_add(1, std::sync::atomic::Ordering::Relaxed);
                        if i >= items.len() {
                            break;
                        }
                        f(i, &items[i], &mut acc);
                        if !acc.lines.is_empty() {
                            tagged.push((i, std::mem::take(&mut acc.lines)));
                        }
                    }
                    (acc, tagged)
                })
            })
            .collect();
        hs.into_iter().map(|h| h.join().expect("worker")).collect()
    });
    // deterministic whatever the thread schedule: lines in item order, counters are sums, fails = 40 smallest
    let mut all: Vec<(usize, Vec<String>)> = Vec::new();
    for (a, t) in parts {
        total.merge(a);
        all.extend(t);
    }
    all.sort_by_key(|x| x.0);
    for (_, l) in all {
        total.lines.extend(l);
    }
    total
}

// ------------------------------------------------------------------------------------------ random long runs
fn random_case(r: &mut impl RngCore) -> (Script, Vec<Step>) {
    // id pool: random ids, some sharing all but one byte
    let nid = 2 + (r.next_u32() % 4) as usize;
    let mut ids: Vec<[u8; 32]> = Vec::new();
    for i in 0..nid {
        let mut id = [0u8; 32];
        if i > 0 && r.next_u32() % 2 == 0 {
            id = ids[(r.next_u32() as usize) % i];
            let pos = [0usize, 15, 30, 31][(r.next_u32() % 4) as usize];
            id[pos] ^= 1 + (r.next_u32() % 255) as u8;
        } else {
            r.fill_bytes(&mut id);
        }
        ids.push(id);
    }
    let mut pool: Vec<Vec<u8>> = Vec::new();
    let nfr = 2 + (r.next_u32() % 6) as usize;
    for _ in 0..nfr {
        let id = ids[(r.next_u32() as usize) % nid];
        let plen = [0usize, 0, 1, 2, 3, 32][(r.next_u32() % 6) as usize];
        let mut pl = vec![0u8; plen];
        r.fill_bytes(&mut pl);
        if plen == 32 && r.next_u32() % 2 == 0 {
            pl.copy_from_slice(&ids[(r.next_u32() as usize) % nid]);
        }
        pool.push(frame(&id, r.next_u32() as u16, r.next_u32() as u16, &pl));
    }
    let mut sc = Script::default();
    let n_ev = 5 + (r.next_u32() % 50) as usize;
    for _ in 0..n_ev {
        let x = r.next_u32() % 100;
        if x < 18 {
            sc.rx.push(Rx::Pending);
        } else if x < 22 {
            sc.rx.push(Rx::End);
        } else if x < 34 {
            // malformed: shorter than a header, often a truncated real frame
            let len = [0usize, 1, 31, 32, 33, 35][(r.next_u32() % 6) as usize];
            let base = &pool[(r.next_u32() as usize) % pool.len()];
            sc.rx.push(Rx::Item(base[..len].to_vec()));
        } else {
            sc.rx.push(Rx::Item(pool[(r.next_u32() as usize) % pool.len()].clone()));
        }
    }
    let pr = |r: &mut dyn RngCore| match r.next_u32() % 10 {
        0 | 1 => P::Pending,
        2 => P::Err,
        _ => P::Ok,
    };
    for _ in 0..(r.next_u32() % 12) {
        sc.rdy.push(pr(r));
    }
    for _ in 0..(r.next_u32() % 12) {
        sc.fls.push(pr(r));
    }
    for _ in 0..(r.next_u32() % 8) {
        sc.snd.push(r.next_u32() % 8 != 0);
    }
    let mut steps = Vec::new();
    let n_calls = 4 + (r.next_u32() % 36) as usize;
    for _ in 0..n_calls {
        let call = match r.next_u32() % 10 {
            0..=3 => Call::Recv {
                id: ids[(r.next_u32() as usize) % nid],
                ttl: match r.next_u32() % 4 {
                    0 => r.next_u32(),
                    1 => 65536 + (r.next_u32() % 3),
                    _ => r.next_u32() % 100,
                },
            },
            4..=6 => {
                let k = (r.next_u32() % 3) as usize;
                let mut sel = Vec::new();
                for _ in 0..k {
                    sel.push(ids[(r.next_u32() as usize) % nid]);
                }
                Call::Wait { neg: r.next_u32() % 3 == 0, ids: sel }
            }
            _ => Call::Next,
        };
        let cancel = if r.next_u32() % 10 < 3 { Some((r.next_u32() % 4) as usize) } else { None };
        steps.push(Step { call, cancel });
    }
    (sc, steps)
}

// ------------------------------------------------------------------------------------------ entry
pub fn run(kv: &Args) -> i32 {
    let seed = kv.u64("seed", 1);
    let out = kv.str("out", "/verif/build/run/C17");
    std::fs::create_dir_all(&out).unwrap();
    let thorough = kv.thorough();
    std::panic::set_hook(Box::new(|_| {})); // panics of the code under test are recorded, not printed

    // shared table: universe frames, ids, the ask frames of the call alphabet
    let u = universe();
    let mut global = Table::default();
    for f in &u {
        global.intern(f);
    }
    for id in [id_a(), id_b(), id_c()] {
        global.intern(&id);
    }
    global.intern(&frame(&id_a(), 10, 0, b""));
    global.intern(&frame(&id_b(), (70_000u32 & 0xffff) as u16, 0, b""));

    let mut total = Acc::default();
    let mut kinds: BTreeMap<String, u64> = BTreeMap::new();
    let t0 = std::time::Instant::now();

    if let Some(spec) = kv.get("spec") {
        let (sc, steps) = parse_spec(spec);
        process(&mut total, &global, "replay", &sc, &steps, true);
        kinds.insert("replay".into(), 1);
    } else {
        let alphabet = call_alphabet();
        let key = {
            let mut r = rng(seed, "c17-select");
            r.next_u64()
        };
        // ---- (1) exhaustive: arrival sequences x Pending/End placements x call sequences x cancellation points
        let syms: Vec<u8> = (0..u.len() as u8).collect();
        let mut scripts = rx_scripts(&syms, 4, true);
        // 5 frames: every arrangement of {A1, A1 (identical duplicate), B1, C1, S} and {A1, A2, B1, B1, S},
        // every gap in {nothing, Pending}
        let mut five = multiset_perms(&[0, 0, 2, 3, 4]);
        five.extend(multiset_perms(&[0, 1, 2, 2, 4]));
        scripts.extend(with_gaps(&five, false));
        // quick: a seeded slice of the scripts with >= 3 items; thorough: all
        let slice_mod: u64 = if thorough { 1 } else { kv.u64("slice", 8) };
        let rate: u64 = kv.u64("rate", if thorough { 330 } else { 800 });
        let seqs3 = call_seqs(alphabet.len(), 3);
        let seqs4 = call_seqs(alphabet.len(), 4);
        let work: Vec<(usize, &Vec<u8>)> = scripts
            .iter()
            .enumerate()
            .filter(|(i, ev)| {
                let nitems = ev.iter().filter(|e| **e < SYM_P).count();
                nitems <= 2 || mix(key ^ (*i as u64)) % slice_mod == 0
            })
            .collect();
        let a = parallel(&work, |_, (si, ev), acc| {
            let nitems = ev.iter().filter(|e| **e < SYM_P).count();
            let sc = Script { rx: materialise(&u, ev), ..Default::default() };
            // call sequences of length <= 3 everywhere; length 4 on the scripts with <= 3 items (thorough)
            let seqs = if thorough && nitems <= 3 { &seqs4 } else { &seqs3 };
            let mut counter = 0u64;
            for cs in seqs.iter() {
                let calls: Vec<Call> = cs.iter().map(|c| alphabet[*c as usize].clone()).collect();
                let mut plan = Vec::new();
                explore(acc, &global, "exh", &sc, &calls, &mut plan, 1, mix(key ^ ((*si as u64) << 20)), rate, &mut counter);
            }
        });
        kinds.insert("exh".into(), a.n);
        total.merge(a);

        // ---- (2) exhaustive over sink-side behaviour (poll_ready / start_send / poll_flush scripts), incl. k = 0
        let rx_small = rx_scripts(&[0, 2, 4], 2, false);
        let rdys: Vec<Vec<P>> = vec![vec![], vec![P::Pending], vec![P::Err], vec![P::Pending, P::Pending], vec![P::Pending, P::Err]];
        let snds: Vec<Vec<bool>> = vec![vec![], vec![false], vec![true, false]];
        let flss: Vec<Vec<P>> = vec![
            vec![],
            vec![P::Pending],
            vec![P::Err],
            vec![P::Pending, P::Pending],
            vec![P::Ok, P::Pending],
            vec![P::Ok, P::Err],
        ];
        let mut sink_work: Vec<Script> = Vec::new();
        for ev in &rx_small {
            for rd in &rdys {
                for sn in &snds {
                    for fl in &flss {
                        sink_work.push(Script { rx: materialise(&u, ev), rdy: rd.clone(), snd: sn.clone(), fls: fl.clone() });
                    }
                }
            }
        }
        let sink_mod: u64 = if thorough { 1 } else { 3 };
        let sink_rate: u64 = kv.u64("sinkrate", if thorough { 100 } else { 300 });
        let seqs2 = call_seqs(alphabet.len(), 2);
        let sink_sel: Vec<(usize, &Script)> =
            sink_work.iter().enumerate().filter(|(i, _)| mix(key ^ 0x5151 ^ (*i as u64)) % sink_mod == 0).collect();
        let a = parallel(&sink_sel, |_, (si, sc), acc| {
            let mut counter = 0u64;
            for cs in seqs2.iter() {
                let calls: Vec<Call> = cs.iter().map(|c| alphabet[*c as usize].clone()).collect();
                let mut plan = Vec::new();
                explore(acc, &global, "sink", sc, &calls, &mut plan, 0, mix(key ^ 0x77 ^ ((*si as u64) << 20)), sink_rate, &mut counter);
            }
        });
        kinds.insert("sink".into(), a.n);
        total.merge(a);

        // ---- (3) seeded random long runs (all go to the model)
        let n_rand = kv.u64("nrand", if thorough { 5000 } else { 300 });
        let mut r = rng(seed, "c17-random");
        let mut a = Acc::default();
        for _ in 0..n_rand {
            let (sc, steps) = random_case(&mut r);
            process(&mut a, &global, "random", &sc, &steps, true);
        }
        kinds.insert("random".into(), a.n);
        total.merge(a);
    }

    let mut f = std::io::BufWriter::new(std::fs::File::create(format!("{out}/cases.txt")).unwrap());
    for l in &total.lines {
        writeln!(f, "{}", l).unwrap();
    }
    drop(f);
    std::fs::write(format!("{out}/header.v"), format!("Definition T : list (list N) := {}.\n", global.coq())).unwrap();
    let mut f = std::fs::File::create(format!("{out}/oracle.txt")).unwrap();
    writeln!(f, "evaluations {}", total.n).unwrap();
    for (_, l) in &total.fails {
        writeln!(f, "{}", l).unwrap();
    }
    let mut st = String::from("{");
    let _ = write!(st, "\"cases_executed\": {}, \"calls\": {}, \"selected_for_model\": {}, ", total.n, total.calls, total.lines.len());
    let _ = write!(
        st,
        "\"results\": {{\"some\": {}, \"none\": {}, \"cancelled\": {}, \"panic\": {}}}, ",
        total.res[0], total.res[1], total.res[2], total.res[3]
    );
    let _ = write!(
        st,
        "\"calls_answered_from_buffer\": {}, \"cases_with_parked_frames\": {}, \"cases_with_dropped_short_frame\": {}, \"cases_with_cancellation\": {}, ",
        total.from_buffer, total.parked, total.dropped_short, total.cancelled_cases
    );
    let _ = write!(st, "\"kinds\": {{");
    for (i, (k, v)) in kinds.iter().enumerate() {
        let _ = write!(st, "{}\"{}\": {}", if i > 0 { ", " } else { "" }, k, v);
    }
    let _ = write!(st, "}}, \"harness_seconds\": {:.2}}}", t0.elapsed().as_secs_f64());
    std::fs::write(format!("{out}/stats.json"), st).unwrap();
    0
}
