//! C07: Paillier (crates/sl-paillier) -- private-key operations invert public-key operations.
//!
//! Runs the REAL `SK<C,M,P>` / `PK<C,M>` monomorphised at the four limb configurations
//! (8,4,2) (16,8,4) (32,16,8) (64,32,16) = 512/1024/2048/4096-bit ciphertexts and
//!  * checks every result against an implementation-only oracle (closed forms and the property itself,
//!    computed with num-bigint-dig) -> `oracle.txt`;
//!  * writes a sample of (key, operation, operands, implementation result) records -> `cases.txt`,
//!    which checks/c07.py turns into Coq terms for the model (Corr/C07.v).
//! The shared machinery (`PImpl`, key generation, properties) is also used by c08.rs.
use crate::util::*;
use crypto_bigint::{NonZero, Uint};
use num_bigint_dig::prime::probably_prime;
use num_bigint_dig::{BigUint, ModInverse, RandBigInt};
use rand::{Rng, RngCore};
use rand_chacha::ChaCha20Rng;
use sl_paillier::{MinimalPK, MinimalSK, RawCiphertext, PK, PK2048, SK, SK2048};
use std::io::Write;
use std::panic::{catch_unwind, AssertUnwindSafe};
use std::sync::atomic::{AtomicUsize, Ordering};
use std::sync::Mutex;

pub type B = BigUint;

pub fn bu(x: u64) -> B {
    B::from(x)
}
pub fn hx(x: &B) -> String {
    x.to_str_radix(16)
}
pub fn unhx(s: &str) -> B {
    B::parse_bytes(s.as_bytes(), 16).expect("hex number")
}
pub fn pow2(k: u32) -> B {
    bu(1) << (k as usize)
}
pub fn gcd(a: &B, b: &B) -> B {
    let (mut a, mut b) = (a.clone(), b.clone());
    let z = bu(0);
    while b != z {
        let t = &a % &b;
        a = b;
        b = t;
    }
    a
}
pub fn inv_mod(a: &B, m: &B) -> Option<B> {
    a.clone().mod_inverse(m).and_then(|x| x.to_biguint())
}

fn to_uint<const L: usize>(x: &B) -> Uint<L> {
    let bytes = x.to_bytes_le();
    assert!(bytes.len() <= L * 8, "value wider than the Uint");
    let mut w = [0u64; L];
    for (i, byte) in bytes.iter().enumerate() {
        w[i / 8] |= (*byte as u64) << (8 * (i % 8));
    }
    Uint::from_words(w)
}
fn from_uint<const L: usize>(u: &Uint<L>) -> B {
    let mut bytes = Vec::with_capacity(L * 8);
    for w in u.as_words() {
        bytes.extend_from_slice(&w.to_le_bytes());
    }
    B::from_bytes_le(&bytes)
}

/// Result of one call of the implementation.
#[derive(Clone, PartialEq, Debug)]
pub enum R {
    V(B),
    Nothing,
    Panic,
}
impl R {
    pub fn show(&self) -> String {
        match self {
            R::V(x) => hx(x),
            R::Nothing => "none".into(),
            R::Panic => "panic".into(),
        }
    }
    pub fn val(&self) -> Option<&B> {
        match self {
            R::V(x) => Some(x),
            _ => None,
        }
    }
}
fn guard<F: FnOnce() -> R>(f: F) -> R {
    catch_unwind(AssertUnwindSafe(f)).unwrap_or(R::Panic)
}

/// The real implementation at one limb configuration, behind big-integer arguments.
pub trait PImpl: Send + Sync {
    fn wp(&self) -> u32;
    fn n(&self) -> B;
    fn nn(&self) -> B;
    fn phi(&self) -> B;
    fn minimal(&self) -> (B, B, B);
    fn encrypt(&self, m: &B, r: &B) -> R;
    fn decrypt(&self, c: &B) -> R;
    fn decrypt_fast(&self, c: &B) -> R;
    fn nroot_params(&self) -> Option<(B, B, B, B)>;
    fn nroot(&self, z: &B) -> R;
    fn add(&self, c1: &B, c2: &B) -> R;
    fn mul(&self, c: &B, k: &B) -> R;
    fn mul_vartime(&self, c: &B, k: &B) -> R;
    fn message(&self, bytes: &[u8]) -> R;
    fn into_message(&self, m: &B) -> R;
    /// key restored from the minimal forms (generic `From<MinimalSK>` / `From<MinimalPK>`)
    fn restored(&self) -> Option<Box<dyn PImpl>>;
    /// key restored through bincode (SK2048/PK2048 only)
    fn restored_bincode(&self) -> Option<Box<dyn PImpl>>;
}

pub struct Imp<const C: usize, const M: usize, const P: usize> {
    sk: SK<C, M, P>,
    pk: PK<C, M>,
}

macro_rules! imp {
    ($C:expr, $M:expr, $P:expr, |$s:ident| $bin:expr) => {
        impl Imp<$C, $M, $P> {
            pub fn build(p: &B, q: &B) -> Option<Box<dyn PImpl>> {
                let (p, q) = (p.clone(), q.clone());
                catch_unwind(move || {
                    let sk = SK::<$C, $M, $P>::from_pq(&to_uint::<$P>(&p), &to_uint::<$P>(&q));
                    // the public operations go through an independently built PK::from_n
                    let pk = PK::<$C, $M>::from_n(&to_uint::<$M>(&(&p * &q)));
                    Box::new(Imp::<$C, $M, $P> { sk, pk }) as Box<dyn PImpl>
                })
                .ok()
            }
        }
        impl PImpl for Imp<$C, $M, $P> {
            fn wp(&self) -> u32 {
                ($P * 64) as u32
            }
            fn n(&self) -> B {
                from_uint(&**self.sk.get_n())
            }
            fn nn(&self) -> B {
                from_uint(self.sk.get_nn())
            }
            fn phi(&self) -> B {
                from_uint(self.sk.get_phi())
            }
            fn minimal(&self) -> (B, B, B) {
                let m = self.sk.to_minimal();
                let pm = self.pk.to_minimal();
                (from_uint(&m.p), from_uint(&m.q), from_uint(&*pm.n))
            }
            fn encrypt(&self, m: &B, r: &B) -> R {
                guard(|| match self.pk.into_message(&to_uint::<$M>(m)) {
                    None => R::Nothing,
                    Some(pt) => R::V(from_uint(&self.pk.encrypt_with_r(&pt, &to_uint::<$M>(r)).to_uint())),
                })
            }
            fn decrypt(&self, c: &B) -> R {
                guard(|| R::V(from_uint(&self.sk.decrypt(&RawCiphertext::from_uint(to_uint::<$C>(c))).to_uint())))
            }
            fn decrypt_fast(&self, c: &B) -> R {
                guard(|| R::V(from_uint(&self.sk.decrypt_fast(&RawCiphertext::from_uint(to_uint::<$C>(c))).to_uint())))
            }
            fn nroot_params(&self) -> Option<(B, B, B, B)> {
                catch_unwind(AssertUnwindSafe(|| {
                    let ip = self.sk.extract_n_root_init_params();
                    (from_uint(&ip.0), from_uint(&ip.1), from_uint(ip.2.modulus()), from_uint(ip.3.modulus()))
                }))
                .ok()
            }
            fn nroot(&self, z: &B) -> R {
                guard(|| {
                    let ip = self.sk.extract_n_root_init_params();
                    R::V(from_uint(&self.sk.extract_n_root(&to_uint::<$M>(z), &ip)))
                })
            }
            fn add(&self, c1: &B, c2: &B) -> R {
                guard(|| {
                    let a = RawCiphertext::from_uint(to_uint::<$C>(c1));
                    let b = RawCiphertext::from_uint(to_uint::<$C>(c2));
                    R::V(from_uint(&self.pk.add(&a, &b).to_uint()))
                })
            }
            fn mul(&self, c: &B, k: &B) -> R {
                guard(|| match self.pk.into_message(&to_uint::<$M>(k)) {
                    None => R::Nothing,
                    Some(k) => R::V(from_uint(&self.pk.mul(&RawCiphertext::from_uint(to_uint::<$C>(c)), &k).to_uint())),
                })
            }
            fn mul_vartime(&self, c: &B, k: &B) -> R {
                guard(|| match self.pk.into_message(&to_uint::<$M>(k)) {
                    None => R::Nothing,
                    Some(k) => {
                        R::V(from_uint(&self.pk.mul_vartime(&RawCiphertext::from_uint(to_uint::<$C>(c)), &k).to_uint()))
                    }
                })
            }
            fn message(&self, bytes: &[u8]) -> R {
                guard(|| match self.pk.message(bytes) {
                    None => R::Nothing,
                    Some(m) => R::V(from_uint(&m.to_uint())),
                })
            }
            fn into_message(&self, m: &B) -> R {
                guard(|| match self.pk.into_message(&to_uint::<$M>(m)) {
                    None => R::Nothing,
                    Some(m) => R::V(from_uint(&m.to_uint())),
                })
            }
            fn restored(&self) -> Option<Box<dyn PImpl>> {
                catch_unwind(AssertUnwindSafe(|| {
                    let sk: SK<$C, $M, $P> = SK::from(self.sk.to_minimal());
                    let pk: PK<$C, $M> = PK::from(self.pk.to_minimal());
                    Box::new(Imp::<$C, $M, $P> { sk, pk }) as Box<dyn PImpl>
                }))
                .ok()
            }
            fn restored_bincode(&self) -> Option<Box<dyn PImpl>> {
                let $s = self;
                $bin
            }
        }
    };
}
imp!(8, 4, 2, |_s| None);
imp!(16, 8, 4, |_s| None);
imp!(32, 16, 8, |_s| None);
imp!(64, 32, 16, |s| {
    catch_unwind(AssertUnwindSafe(|| {
        let bs = bincode::serialize(&s.sk).ok()?;
        let bp = bincode::serialize(&s.pk).ok()?;
        let sk: SK2048 = bincode::deserialize(&bs).ok()?;
        let pk: PK2048 = bincode::deserialize(&bp).ok()?;
        // serialising again must give the same bytes
        if bincode::serialize(&sk).ok()? != bs || bincode::serialize(&pk).ok()? != bp {
            return None;
        }
        Some(Box::new(Imp::<64, 32, 16> { sk, pk }) as Box<dyn PImpl>)
    }))
    .ok()
    .flatten()
});

pub const CONFIGS: [u32; 4] = [128, 256, 512, 1024];

pub fn make(wp: u32, p: &B, q: &B) -> Option<Box<dyn PImpl>> {
    match wp {
        128 => Imp::<8, 4, 2>::build(p, q),
        256 => Imp::<16, 8, 4>::build(p, q),
        512 => Imp::<32, 16, 8>::build(p, q),
        1024 => Imp::<64, 32, 16>::build(p, q),
        _ => panic!("unknown configuration {wp}"),
    }
}

/// outcome class of `bincode::deserialize::<PK2048>` on the encoding of `n`:
/// 0 = Ok, 1 = error (zero / malformed), 2 = error "must be odd", 10 = panic
pub fn deser_pk_class(n: &B) -> u8 {
    let bytes = bincode::serialize(&to_uint::<32>(n)).unwrap();
    match catch_unwind(|| bincode::deserialize::<PK2048>(&bytes)) {
        Err(_) => 10,
        Ok(Ok(pk)) => {
            if from_uint(&**pk.get_n()) == *n {
                0
            } else {
                9
            }
        }
        Ok(Err(e)) => {
            if e.to_string().contains("must be odd") {
                2
            } else {
                1
            }
        }
    }
}
pub fn deser_sk_class(p: &B, q: &B) -> u8 {
    let bytes = bincode::serialize(&(to_uint::<16>(p), to_uint::<16>(q))).unwrap();
    match catch_unwind(|| bincode::deserialize::<SK2048>(&bytes)) {
        Err(_) => 10,
        Ok(Ok(sk)) => {
            let m = sk.to_minimal();
            if from_uint(&m.p) == *p && from_uint(&m.q) == *q {
                0
            } else {
                9
            }
        }
        Ok(Err(e)) => {
            if e.to_string().contains("must be odd") {
                2
            } else {
                1
            }
        }
    }
}

// ------------------------------------------------------------------------------------------ keys
/// Independent key material (num-bigint-dig arithmetic only).
#[derive(Clone)]
pub struct Key {
    pub wp: u32,
    pub p: B,
    pub q: B,
    pub n: B,
    pub nn: B,
    pub phi: B,
    pub inv_phi: B,
    pub kind: &'static str,
}
impl Key {
    pub fn new(wp: u32, p: &B, q: &B, kind: &'static str) -> Key {
        let n = p * q;
        let nn = &n * &n;
        let phi = (p - bu(1)) * (q - bu(1));
        let inv_phi = inv_mod(&phi, &n).unwrap_or_else(|| bu(0));
        Key { wp, p: p.clone(), q: q.clone(), n, nn, phi, inv_phi, kind }
    }
    pub fn valid(p: &B, q: &B) -> bool {
        if p == q {
            return false;
        }
        let n = p * q;
        let phi = (p - bu(1)) * (q - bu(1));
        gcd(&n, &phi) == bu(1)
    }
    /// independent decryption: L(c^phi mod n^2) * phi^-1 mod n
    pub fn dec(&self, c: &B) -> B {
        let x = c.modpow(&self.phi, &self.nn);
        let l = (x - bu(1)) / &self.n;
        (l * &self.inv_phi) % &self.n
    }
    pub fn enc(&self, m: &B, r: &B) -> B {
        ((bu(1) + m * &self.n) * r.modpow(&self.n, &self.nn)) % &self.nn
    }
    pub fn unit(&self, r: &B) -> bool {
        gcd(r, &self.n) == bu(1)
    }
    pub fn head(&self) -> String {
        format!("{} {} {}", self.wp, hx(&self.p), hx(&self.q))
    }
}

pub const SMALL_PRIMES: [u64; 10] = [3, 5, 7, 11, 13, 17, 19, 23, 29, 31];

/// every ordered pair of distinct odd primes <= 31 with gcd(N, phi) = 1
pub fn toy_pairs() -> Vec<(u64, u64)> {
    let mut v = Vec::new();
    for &p in SMALL_PRIMES.iter() {
        for &q in SMALL_PRIMES.iter() {
            if p != q && Key::valid(&bu(p), &bu(q)) {
                v.push((p, q));
            }
        }
    }
    v
}

fn prime_in(rng: &mut ChaCha20Rng, lo: &B, hi: &B) -> B {
    loop {
        let x = rng.gen_biguint_range(lo, hi) | bu(1);
        if &x < hi && probably_prime(&x, 16) {
            return x;
        }
    }
}

/// Four full-size keys of a configuration: modulus of 2k / 2k-1 bits, each with p<q and p>q.
pub fn big_keys(seed: u64, wp: u32) -> Vec<Key> {
    let mut rng = rng(seed, &format!("paillier-keys-{wp}"));
    let half = pow2(wp - 1);
    let mut out = Vec::new();
    for (lo, hi, kind) in [
        (&half * bu(3) / bu(2), pow2(wp), "big-2k"),
        (half.clone(), &half * bu(5) / bu(4), "big-2k-1"),
    ] {
        for order in 0..2 {
            loop {
                let a = prime_in(&mut rng, &lo, &hi);
                let b = prime_in(&mut rng, &lo, &hi);
                if !Key::valid(&a, &b) {
                    continue;
                }
                let (p, q) = if (a < b) == (order == 0) { (a, b) } else { (b, a) };
                let k = Key::new(wp, &p, &q, kind);
                let nbits = k.n.bits() as u32;
                assert_eq!(nbits, if kind == "big-2k" { 2 * wp } else { 2 * wp - 1 });
                // the first full-width key must admit the plaintext whose product with N ends in 2*wp one bits
                // (the +1 of g^m = 1 + m*N then carries out of the low half of the wide product)
                if kind == "big-2k" && order == 0 && carry_plaintext(&k.n, 2 * wp) >= k.n {
                    continue;
                }
                out.push(k);
                break;
            }
        }
    }
    out
}

/// m = -N^-1 mod 2^w: the plaintext for which the low `w` bits of m*N are all ones
pub fn carry_plaintext(n: &B, w: u32) -> B {
    let md = pow2(w);
    let inv = inv_mod(&(n % &md), &md).expect("N is odd");
    (&md - inv) % &md
}

/// plaintexts at the carry boundaries of 1 + m*N: for every limb boundary w (multiples of 64 up to the plaintext width)
/// the m with m*N = -1 mod 2^w and its two neighbours, as far as they are below N
pub fn carry_plaintexts(key: &Key) -> Vec<B> {
    let mut v = Vec::new();
    let mut w = 64;
    while w <= 2 * key.wp {
        let m = carry_plaintext(&key.n, w);
        for c in [m.clone(), &m + bu(1), if m > bu(0) { &m - bu(1) } else { bu(0) }] {
            if c < key.n && !v.contains(&c) {
                v.push(c);
            }
        }
        w += 64;
    }
    v
}

/// Mid-size keys (primes of 17..62 bits, balanced and very unbalanced, both orders), embedded in `wp`.
pub fn mid_keys(seed: u64, wp: u32, count: usize) -> Vec<Key> {
    let mut rng = rng(seed, &format!("paillier-mid-{wp}"));
    let mut out = Vec::new();
    while out.len() < count {
        let bp = 17 + rng.gen_range(0..46u32);
        let bq = 17 + rng.gen_range(0..46u32);
        let p = prime_in(&mut rng, &pow2(bp - 1), &pow2(bp));
        let q = prime_in(&mut rng, &pow2(bq - 1), &pow2(bq));
        if Key::valid(&p, &q) {
            out.push(Key::new(wp, &p, &q, "mid"));
        }
    }
    out
}

// ------------------------------------------------------------------------------------------ output of one group
#[derive(Default)]
pub struct Out {
    /// operation records for the Coq model ("tag args... result")
    pub lines: Vec<String>,
    /// failures of the implementation-only oracle ("what | replay op")
    pub fails: Vec<String>,
    pub evals: u64,
    pub nontrivial: u64,
}
impl Out {
    fn fail(&mut self, key: &Key, prop: &str, what: &str) {
        if self.fails.len() < 50 {
            self.fails.push(format!("{} {} | {}", key.head(), prop, what));
        }
    }
}

fn expect(out: &mut Out, key: &Key, prop: &str, what: &str, got: &R, want: &R) -> bool {
    out.evals += 1;
    if got != want {
        out.fail(key, prop, &format!("{what}: implementation {} expected {}", got.show(), want.show()));
        false
    } else {
        true
    }
}

// ------------------------------------------------------------------------------------------ properties
/// key construction observables: n, nn, phi, CRT exponents and moduli of the N-th-root parameters
pub fn prop_key(imp: &dyn PImpl, key: &Key, out: &mut Out, coq: bool) {
    let prop = "key";
    let (n, nn, phi) = (imp.n(), imp.nn(), imp.phi());
    expect(out, key, prop, "n", &R::V(n.clone()), &R::V(key.n.clone()));
    expect(out, key, prop, "nn", &R::V(nn.clone()), &R::V(key.nn.clone()));
    expect(out, key, prop, "phi", &R::V(phi.clone()), &R::V(key.phi.clone()));
    let (mp, mq, mn) = imp.minimal();
    expect(out, key, prop, "minimal p", &R::V(mp), &R::V(key.p.clone()));
    expect(out, key, prop, "minimal q", &R::V(mq), &R::V(key.q.clone()));
    expect(out, key, prop, "minimal n", &R::V(mn), &R::V(key.n.clone()));
    match imp.nroot_params() {
        None => {
            out.evals += 1;
            out.fail(key, prop, "extract_n_root_init_params panicked");
            if coq {
                out.lines.push(format!("key {} {} {} panic", hx(&n), hx(&nn), hx(&phi)));
            }
        }
        Some((dp, dq, pm, qm)) => {
            if let Some(dn) = inv_mod(&key.n, &key.phi) {
                expect(out, key, prop, "dk_dp", &R::V(dp.clone()), &R::V(&dn % (&key.p - bu(1))));
                expect(out, key, prop, "dk_dq", &R::V(dq.clone()), &R::V(&dn % (&key.q - bu(1))));
            }
            expect(out, key, prop, "p_params", &R::V(pm.clone()), &R::V(key.p.clone()));
            expect(out, key, prop, "q_params", &R::V(qm.clone()), &R::V(key.q.clone()));
            if coq {
                out.lines.push(format!(
                    "key {} {} {} {} {} {} {}",
                    hx(&n),
                    hx(&nn),
                    hx(&phi),
                    hx(&dp),
                    hx(&dq),
                    hx(&pm),
                    hx(&qm)
                ));
            }
        }
    }
}

/// encrypt = closed form; both decryptions return m (for a unit r)
pub fn prop_encdec(imp: &dyn PImpl, key: &Key, m: &B, r: &B, out: &mut Out, coq: bool) -> Option<B> {
    let prop = format!("encdec {} {}", hx(m), hx(r));
    let c = imp.encrypt(m, r);
    let want = if m < &key.n { R::V(key.enc(m, r)) } else { R::Nothing };
    expect(out, key, &prop, "encrypt_with_r vs (1+mN)r^N mod N^2", &c, &want);
    if coq {
        out.lines.push(format!("enc {} {} {}", hx(m), hx(r), c.show()));
    }
    let cv = c.val()?.clone();
    let d = imp.decrypt(&cv);
    let f = imp.decrypt_fast(&cv);
    if key.unit(r) {
        expect(out, key, &prop, "decrypt(encrypt(m,r))", &d, &R::V(m.clone()));
        expect(out, key, &prop, "decrypt_fast(encrypt(m,r))", &f, &R::V(m.clone()));
        if *m != bu(0) && *r != bu(1) {
            out.nontrivial += 1;
        }
        // the randomiser is recovered from the ciphertext itself (Props/C07.v nroot_of_ciphertext, encrypt_injective)
        if r < &key.n {
            let z = &cv % &key.n;
            expect(out, key, &prop, "extract_n_root(encrypt(m,r) mod N) vs r", &imp.nroot(&z), &R::V(r.clone()));
        }
    }
    if coq {
        out.lines.push(format!("dec {} {}", hx(&cv), d.show()));
        out.lines.push(format!("decf {} {}", hx(&cv), f.show()));
    }
    Some(cv)
}

/// the two decryption paths agree on an arbitrary ciphertext coprime to N (and equal the independent value)
pub fn prop_paths(imp: &dyn PImpl, key: &Key, c: &B, out: &mut Out, coq: bool) {
    let prop = format!("paths {}", hx(c));
    let d = imp.decrypt(c);
    let f = imp.decrypt_fast(c);
    if key.unit(c) {
        let want = R::V(key.dec(c));
        expect(out, key, &prop, "decrypt(c) vs independent L(c^phi)/phi", &d, &want);
        expect(out, key, &prop, "decrypt_fast(c) vs decrypt(c)", &f, &d);
        out.nontrivial += 1;
    }
    if coq {
        out.lines.push(format!("dec {} {}", hx(c), d.show()));
        out.lines.push(format!("decf {} {}", hx(c), f.show()));
    }
}

/// N-th root extraction returns r from r^N mod N
pub fn prop_root(imp: &dyn PImpl, key: &Key, r: &B, out: &mut Out, coq: bool) {
    let prop = format!("root {}", hx(r));
    let z = r.modpow(&key.n, &key.n);
    let x = imp.nroot(&z);
    if key.unit(r) && r < &key.n {
        expect(out, key, &prop, "extract_n_root(r^N mod N)", &x, &R::V(r.clone()));
        if *r != bu(1) {
            out.nontrivial += 1;
        }
    }
    if coq {
        out.lines.push(format!("root {} {}", hx(&z), x.show()));
    }
}

/// a byte string is admitted iff its little-endian value is below N (and then yields that value)
pub fn prop_msg(imp: &dyn PImpl, key: &Key, bytes: &[u8], out: &mut Out, coq: bool) {
    let prop = format!("msg {}", if bytes.is_empty() { "-".to_string() } else { hex(bytes) });
    let v = B::from_bytes_le(bytes);
    let got = imp.message(bytes);
    let want = if v < key.n { R::V(v.clone()) } else { R::Nothing };
    expect(out, key, &prop, "message(bytes) vs value < N", &got, &want);
    if bytes.len() > (key.wp as usize) / 4 || v >= key.n {
        out.nontrivial += 1;
    }
    if coq {
        out.lines.push(format!("msg {} {}", if bytes.is_empty() { "-".to_string() } else { hex(bytes) }, got.show()));
    }
}

pub fn prop_imsg(imp: &dyn PImpl, key: &Key, m: &B, out: &mut Out, coq: bool) {
    let prop = format!("imsg {}", hx(m));
    let got = imp.into_message(m);
    let want = if m < &key.n { R::V(m.clone()) } else { R::Nothing };
    expect(out, key, &prop, "into_message(m) vs m < N", &got, &want);
    if coq {
        out.lines.push(format!("imsg {} {}", hx(m), got.show()));
    }
}

/// a key restored from its minimal / serialised form behaves identically
pub fn prop_restore(imp: &dyn PImpl, key: &Key, samples: &[(B, B)], out: &mut Out) {
    let mut restored: Vec<(&str, Option<Box<dyn PImpl>>)> = vec![("From<Minimal*>", imp.restored())];
    if key.wp == 1024 {
        restored.push(("bincode", imp.restored_bincode()));
    }
    for (how, r) in restored.iter() {
        let prop = format!("restore {}", how);
        match r {
            None => {
                out.evals += 1;
                out.fail(key, &prop, "restoring the key failed or panicked");
            }
            Some(r2) => {
                expect(out, key, &prop, "n", &R::V(r2.n()), &R::V(imp.n()));
                expect(out, key, &prop, "nn", &R::V(r2.nn()), &R::V(imp.nn()));
                expect(out, key, &prop, "phi", &R::V(r2.phi()), &R::V(imp.phi()));
                let (a, b, c) = r2.minimal();
                let (a1, b1, c1) = imp.minimal();
                expect(out, key, &prop, "p", &R::V(a), &R::V(a1));
                expect(out, key, &prop, "q", &R::V(b), &R::V(b1));
                expect(out, key, &prop, "min n", &R::V(c), &R::V(c1));
                for (m, r) in samples {
                    let c1 = imp.encrypt(m, r);
                    let c2 = r2.encrypt(m, r);
                    expect(out, key, &prop, "encrypt", &c2, &c1);
                    if let Some(c) = c1.val() {
                        expect(out, key, &prop, "decrypt", &r2.decrypt(c), &imp.decrypt(c));
                        expect(out, key, &prop, "decrypt_fast", &r2.decrypt_fast(c), &imp.decrypt_fast(c));
                        expect(out, key, &prop, "decrypt on restored = m", &r2.decrypt(c), &R::V(m.clone()));
                    }
                    let z = r.modpow(&key.n, &key.n);
                    expect(out, key, &prop, "extract_n_root", &r2.nroot(&z), &imp.nroot(&z));
                    out.nontrivial += 1;
                }
            }
        }
    }
}

// ------------------------------------------------------------------------------------------ generators
fn rand_unit(rng: &mut ChaCha20Rng, key: &Key) -> B {
    loop {
        let r = rng.gen_biguint_below(&key.n);
        if r != bu(0) && key.unit(&r) {
            return r;
        }
    }
}

/// the ~6 randomisers of the quick tier: 1, 2 (or the first unit >= 2), N-1, three sampled units
fn some_units(rng: &mut ChaCha20Rng, key: &Key) -> Vec<B> {
    let mut v = vec![bu(1)];
    let mut two = bu(2);
    while !key.unit(&two) {
        two += bu(1);
    }
    v.push(two);
    v.push(&key.n - bu(1));
    for _ in 0..3 {
        v.push(rand_unit(rng, key));
    }
    v
}

pub fn all_units(key: &Key) -> Vec<B> {
    let n = key.n.to_str_radix(10).parse::<u64>().unwrap();
    (1..n).map(bu).filter(|r| key.unit(r)).collect()
}

/// byte strings for `message`: lengths 0..=2*BYTES+3, values N-1, N, N+1, 2^(8 BYTES), 0, random,
/// each zero-extended to the length, and with a non-zero last byte.
fn msg_strings(rng: &mut ChaCha20Rng, key: &Key, every: usize) -> Vec<Vec<u8>> {
    let bytes = (key.wp as usize) * 2 / 8;
    let mut v = Vec::new();
    let vals: Vec<B> = vec![
        &key.n - bu(1),
        key.n.clone(),
        &key.n + bu(1),
        pow2(8 * bytes as u32),
        bu(0),
        rng.gen_biguint_below(&key.n),
        &key.n + rng.gen_biguint_below(&key.n),
        pow2(8 * bytes as u32) - bu(1),
    ];
    for len in 0..=(2 * bytes + 3) {
        if len > 12 && len + 12 < bytes && every > 1 && len % every != 0 {
            continue; // thin out the uninteresting middle lengths
        }
        for val in vals.iter() {
            let mut b = val.to_bytes_le();
            if *val == bu(0) {
                b.clear();
            }
            let mut s = b.clone();
            s.resize(len, 0); // zero extension or truncation (the oracle uses the actual bytes)
            v.push(s.clone());
            if len > b.len() {
                // a non-zero byte beyond the value: last position, and first position beyond the value
                let mut t = s.clone();
                t[len - 1] = 1 + (rng.next_u32() % 255) as u8;
                v.push(t);
                let mut t = s.clone();
                t[b.len()] = 0x80;
                v.push(t);
            }
            if len >= bytes + 2 && b.len() <= bytes {
                // several non-zero bytes beyond the plaintext width that cancel under xor / under a wrapping sum
                // (what an accumulate-then-test rewrite of the over-length check would let through)
                for pat in [&[1u8, 1][..], &[5, 0, 5], &[1, 2, 3], &[1, 255], &[0x80, 0x80], &[0xff, 0xff, 0xff, 0xff]] {
                    if bytes + pat.len() <= len {
                        let mut t = s.clone();
                        t[bytes..bytes + pat.len()].copy_from_slice(pat);
                        v.push(t);
                        let mut t = s.clone();
                        t[len - pat.len()..len].copy_from_slice(pat);
                        v.push(t);
                    }
                }
            }
        }
    }
    v.sort();
    v.dedup();
    v
}

pub struct Group {
    pub key: Key,
    pub out: Out,
}

/// run `jobs` on all cores, results in job order
pub fn run_parallel<T: Send, F: Fn(usize) -> T + Sync>(njobs: usize, f: F) -> Vec<T> {
    let next = AtomicUsize::new(0);
    let results: Mutex<Vec<Option<T>>> = Mutex::new((0..njobs).map(|_| None).collect());
    let nthreads = std::thread::available_parallelism().map(|x| x.get()).unwrap_or(4).min(16);
    std::thread::scope(|s| {
        for _ in 0..nthreads {
            s.spawn(|| loop {
                let i = next.fetch_add(1, Ordering::SeqCst);
                if i >= njobs {
                    break;
                }
                let r = f(i);
                results.lock().unwrap()[i] = Some(r);
            });
        }
    });
    results.into_inner().unwrap().into_iter().map(|x| x.unwrap()).collect()
}

pub fn write_outputs(out_dir: &str, groups: &[Group], extra: &[String]) {
    let mut f = std::io::BufWriter::new(std::fs::File::create(format!("{out_dir}/cases.txt")).unwrap());
    let mut evals = 0u64;
    let mut nontrivial = 0u64;
    let mut fails: Vec<&String> = Vec::new();
    for g in groups {
        evals += g.out.evals;
        nontrivial += g.out.nontrivial;
        fails.extend(g.out.fails.iter());
        if g.out.lines.is_empty() {
            continue;
        }
        writeln!(f, "G {} {}", g.key.head(), g.key.kind).unwrap();
        for l in &g.out.lines {
            writeln!(f, "O {}", l).unwrap();
        }
    }
    let mut f = std::fs::File::create(format!("{out_dir}/oracle.txt")).unwrap();
    writeln!(f, "evaluations {}", evals).unwrap();
    writeln!(f, "nontrivial {}", nontrivial).unwrap();
    for l in extra {
        writeln!(f, "{}", l).unwrap();
    }
    for l in fails.iter().take(200) {
        writeln!(f, "FAIL {}", l).unwrap();
    }
}

/// Re-run one property instance (replay): `rp=<wp>:<p>:<q>:<prop>:<arg>:<arg>...`
pub fn replay_one(spec: &str, out_dir: &str, c08: bool) -> i32 {
    let parts: Vec<&str> = spec.split(':').collect();
    let wp: u32 = parts[0].parse().unwrap();
    let (p, q) = (unhx(parts[1]), unhx(parts[2]));
    let key = Key::new(wp, &p, &q, "replay");
    let mut out = Out::default();
    match make(wp, &p, &q) {
        None => out.fail(&key, "key", "from_pq panicked"),
        Some(imp) => {
            let a: Vec<B> = if parts[3] == "msg" || parts[3] == "restore" {
                vec![]
            } else {
                parts[4..].iter().filter(|s| !s.is_empty()).map(|s| unhx(s)).collect()
            };
            match parts[3] {
                "key" => prop_key(&*imp, &key, &mut out, true),
                "encdec" => {
                    prop_encdec(&*imp, &key, &a[0], &a[1], &mut out, true);
                }
                "paths" => prop_paths(&*imp, &key, &a[0], &mut out, true),
                "root" => prop_root(&*imp, &key, &a[0], &mut out, true),
                "imsg" => prop_imsg(&*imp, &key, &a[0], &mut out, true),
                "msg" => {
                    let b = if parts[4] == "-" { vec![] } else { unhex(parts[4]) };
                    prop_msg(&*imp, &key, &b, &mut out, true)
                }
                "restore" => prop_restore(&*imp, &key, &[(bu(1), bu(2)), (&key.n - bu(1), &key.n - bu(1))], &mut out),
                "add" if c08 => crate::c08::prop_add(&*imp, &key, &a[0], &a[1], &a[2], &a[3], &mut out, true),
                "addc" if c08 => crate::c08::prop_add_c(&*imp, &key, "addc", &a[0], &a[1], &a[2], &a[3], &mut out, true),
                "mul" if c08 => crate::c08::prop_mul(&*imp, &key, &a[0], &a[1], &a[2], &mut out, true),
                "mulc" if c08 => crate::c08::prop_mul_c(&*imp, &key, "mulc", &a[0], &a[1], &a[2], &mut out, true),
                other => {
                    eprintln!("unknown replay property {other}");
                    return 2;
                }
            }
        }
    }
    write_outputs(out_dir, &[Group { key, out }], &[]);
    0
}

pub fn quiet_panics() {
    std::panic::set_hook(Box::new(|_| {}));
}

pub fn run(kv: &Args) -> i32 {
    let seed = kv.u64("seed", 1);
    let out_dir = kv.str("out", "/verif/build/run/C07");
    std::fs::create_dir_all(&out_dir).unwrap();
    quiet_panics();
    if let Some(spec) = kv.get("rp") {
        return replay_one(spec, &out_dir, false);
    }
    let thorough = kv.thorough();
    let toys = toy_pairs();

    // ---- job list: (configuration, key, mode)
    #[derive(Clone)]
    enum Mode {
        ToyExhaustive,       // every m x 6 units (quick) / every (m, r) (thorough); sample to Coq
        ToySlice(u32),       // a slice (per mille) of the m x 6 units grid + one Coq group
        Mid,                 // mid-size key: boundary + random, all to Coq
        Big(usize, usize),   // (pairs to Coq, index)
        Msg(usize),
    }
    let mut jobs: Vec<(Key, Mode)> = Vec::new();
    for &(p, q) in &toys {
        jobs.push((Key::new(128, &bu(p), &bu(q), "toy"), Mode::ToyExhaustive));
    }
    for (wp, permille) in [(256u32, 50u32), (512, 20), (1024, 10)] {
        for &(p, q) in &toys {
            let pm = if thorough { 1000 } else { permille };
            jobs.push((Key::new(wp, &bu(p), &bu(q), "toy"), Mode::ToySlice(pm)));
        }
    }
    for wp in CONFIGS {
        for k in mid_keys(seed, wp, if thorough { 12 } else { 4 }) {
            jobs.push((k, Mode::Mid));
        }
        for (i, k) in big_keys(seed, wp).into_iter().enumerate() {
            // number of (m, r) pairs of this key that go to the Coq model
            let ncoq = match (wp, thorough) {
                (1024, false) => if i == 1 || i == 2 { 1 } else { 0 },
                (1024, true) => 4,
                (512, false) => 2,
                (_, false) => 4,
                (_, true) => 16,
            };
            jobs.push((k, Mode::Big(ncoq, i)));
        }
        // byte strings: under a toy modulus, a mid modulus and a full-size modulus
        jobs.push((Key::new(wp, &bu(11), &bu(17), "toy"), Mode::Msg(if thorough { 1 } else { 7 })));
        jobs.push((mid_keys(seed ^ 0x5a5a, wp, 1).pop().unwrap(), Mode::Msg(if thorough { 1 } else { 7 })));
        jobs.push((big_keys(seed ^ 0xa5a5, wp).swap_remove(1), Mode::Msg(if thorough { 1 } else { 7 })));
    }

    let groups: Vec<Group> = run_parallel(jobs.len(), |ji| {
        let (key, mode) = &jobs[ji];
        let mut out = Out::default();
        let mut rng = rng(seed, &format!("c07-job-{ji}"));
        let imp = match make(key.wp, &key.p, &key.q) {
            Some(i) => i,
            None => {
                out.evals += 1;
                out.fail(key, "key", "from_pq panicked on a valid key");
                return Group { key: key.clone(), out };
            }
        };
        let imp = &*imp;
        let n1 = &key.n - bu(1);
        match mode {
            Mode::ToyExhaustive => {
                prop_key(imp, key, &mut out, true);
                let n = key.n.to_str_radix(10).parse::<u64>().unwrap();
                let units = if thorough { all_units(key) } else { some_units(&mut rng, key) };
                // which (m, r) go to the model: boundaries + a few sampled
                let mut coq_pairs: Vec<(u64, usize)> = vec![(0, 0), (n - 1, 2.min(units.len() - 1)), (1, 1)];
                for _ in 0..(if thorough { 12 } else { 3 }) {
                    coq_pairs.push((rng.gen_range(0..n), rng.gen_range(0..units.len())));
                }
                for m in 0..n {
                    for (ri, r) in units.iter().enumerate() {
                        let coq = coq_pairs.contains(&(m, ri));
                        prop_encdec(imp, key, &bu(m), r, &mut out, coq);
                    }
                }
                for (ri, r) in units.iter().enumerate() {
                    prop_root(imp, key, r, &mut out, ri < 6);
                }
                // arbitrary ciphertexts: small, around N^2, full width
                let mut cs = vec![bu(1), bu(2), &key.n + bu(1), &key.nn - bu(1), &key.nn + bu(1), pow2(4 * key.wp) - bu(1)];
                for _ in 0..(if thorough { 200 } else { 20 }) {
                    cs.push(rng.gen_biguint(4 * key.wp as usize));
                    cs.push(rng.gen_biguint_below(&key.nn));
                }
                for (i, c) in cs.iter().enumerate() {
                    prop_paths(imp, key, c, &mut out, i < 10);
                }
                // non-units: no property, correspondence with the model only
                for c in [bu(0), key.p.clone(), key.q.clone(), key.n.clone(), &key.n * &key.p] {
                    prop_paths(imp, key, &c, &mut out, true);
                }
                prop_imsg(imp, key, &n1, &mut out, true);
                prop_imsg(imp, key, &key.n, &mut out, true);
                prop_restore(imp, key, &[(bu(1), bu(2)), (n1.clone(), n1.clone())], &mut out);
            }
            Mode::ToySlice(permille) => {
                prop_key(imp, key, &mut out, true);
                let n = key.n.to_str_radix(10).parse::<u64>().unwrap();
                let units = some_units(&mut rng, key);
                let mut first = true;
                for m in 0..n {
                    for r in units.iter() {
                        let boundary = (m == 0 || m == n - 1) && (*r == bu(1) || *r == n1);
                        if boundary || rng.gen_range(0..1000u32) < *permille {
                            let coq = first || (m == n - 1 && *r == n1);
                            first = false;
                            prop_encdec(imp, key, &bu(m), r, &mut out, coq);
                        }
                    }
                }
                prop_root(imp, key, &units[3], &mut out, true);
                prop_root(imp, key, &n1, &mut out, true);
                let c = rng.gen_biguint(4 * key.wp as usize);
                prop_paths(imp, key, &c, &mut out, true);
                prop_paths(imp, key, &(pow2(4 * key.wp) - bu(1)), &mut out, true);
                prop_restore(imp, key, &[(n1.clone(), units[4].clone())], &mut out);
            }
            Mode::Mid => {
                prop_key(imp, key, &mut out, true);
                let ms = [bu(0), bu(1), n1.clone(), rng.gen_biguint_below(&key.n)];
                let rs = [bu(1), bu(2), n1.clone(), rand_unit(&mut rng, key)];
                for m in ms.iter() {
                    for r in rs.iter() {
                        prop_encdec(imp, key, m, r, &mut out, true);
                    }
                }
                for (i, m) in carry_plaintexts(key).iter().enumerate() {
                    prop_encdec(imp, key, m, &rs[i % 4], &mut out, i < 3);
                }
                for r in rs.iter() {
                    prop_root(imp, key, r, &mut out, true);
                }
                for _ in 0..4 {
                    prop_paths(imp, key, &rng.gen_biguint(4 * key.wp as usize), &mut out, true);
                }
                prop_paths(imp, key, &key.p, &mut out, true);
                prop_restore(imp, key, &[(ms[3].clone(), rs[3].clone())], &mut out);
            }
            Mode::Big(ncoq, _i) => {
                prop_key(imp, key, &mut out, *ncoq > 0);
                let ms = [rng.gen_biguint_below(&key.n), n1.clone(), bu(0), bu(1)];
                let rs = [rand_unit(&mut rng, key), n1.clone(), bu(2), bu(1)];
                let mut k = 0;
                // diagonal first, so that a small ncoq still sees random and boundary operands
                for d in 0..4 {
                    for i in 0..4 {
                        let (m, r) = (&ms[i], &rs[(i + d) % 4]);
                        prop_encdec(imp, key, m, r, &mut out, k < *ncoq);
                        k += 1;
                    }
                }
                // carry boundaries of 1 + m*N; the full-width one (last in the list when it is below N) also goes to the model
                let cp = carry_plaintexts(key);
                let full = carry_plaintext(&key.n, 2 * key.wp);
                for (i, m) in cp.iter().enumerate() {
                    prop_encdec(imp, key, m, &rs[i % 4], &mut out, *ncoq > 0 && *m == full);
                }
                for (i, r) in rs.iter().enumerate() {
                    prop_root(imp, key, r, &mut out, i < (*ncoq + 1) / 2);
                }
                for i in 0..4 {
                    let c = if i % 2 == 0 { rng.gen_biguint(4 * key.wp as usize) } else { rng.gen_biguint_below(&key.nn) };
                    prop_paths(imp, key, &c, &mut out, i < *ncoq / 2);
                }
                prop_imsg(imp, key, &n1, &mut out, *ncoq > 0);
                prop_imsg(imp, key, &key.n, &mut out, *ncoq > 0);
                prop_imsg(imp, key, &(pow2(2 * key.wp) - bu(1)), &mut out, *ncoq > 0);
                prop_restore(imp, key, &[(ms[0].clone(), rs[0].clone()), (n1.clone(), n1.clone())], &mut out);
            }
            Mode::Msg(every) => {
                let strings = msg_strings(&mut rng, key, *every);
                let ncoq = if thorough { 400 } else { 60 };
                let step = (strings.len() / ncoq).max(1);
                for (i, s) in strings.iter().enumerate() {
                    prop_msg(imp, key, s, &mut out, i % step == 0 || s.len() == (key.wp as usize) / 4 + 1);
                }
            }
        }
        Group { key: key.clone(), out }
    });

    // ---- Deserialize validation (SK2048 / PK2048, bincode): even N, even p or q, zero
    let mut extra = Vec::new();
    let mut dg = Group { key: Key::new(1024, &bu(11), &bu(17), "deser"), out: Out::default() };
    let big = &big_keys(seed, 1024)[0];
    for n in [bu(0), bu(10), bu(187), bu(1), bu(2), big.n.clone(), &big.n + bu(1), pow2(2047), pow2(2048) - bu(1)] {
        let cls = deser_pk_class(&n);
        let want = if n == bu(0) { 1 } else if &n % bu(2) == bu(0) { 2 } else { 0 };
        expect(&mut dg.out, &dg.key, &format!("deserpk {}", hx(&n)), "Deserialize for PK2048", &R::V(bu(cls as u64)), &R::V(bu(want)));
        dg.out.lines.push(format!("deserpk {} {}", hx(&n), cls));
    }
    for (p, q) in [(bu(4), bu(6)), (bu(0), bu(0)), (bu(11), bu(17)), (bu(11), bu(16)), (bu(12), bu(17)), (bu(1), bu(1)),
                   (big.p.clone(), big.q.clone()), (big.p.clone(), &big.q + bu(1)), (pow2(1024) - bu(1), pow2(1024) - bu(1))] {
        let cls = deser_sk_class(&p, &q);
        let want = if &p % bu(2) == bu(1) && &q % bu(2) == bu(1) { 0 } else { 2 };
        expect(&mut dg.out, &dg.key, &format!("desersk {} {}", hx(&p), hx(&q)), "Deserialize for SK2048", &R::V(bu(cls as u64)), &R::V(bu(want)));
        dg.out.lines.push(format!("desersk {} {} {}", hx(&p), hx(&q), cls));
    }
    extra.push(format!("toy_keys {}", toys.len()));
    let mut groups = groups;
    groups.push(dg);
    write_outputs(&out_dir, &groups, &extra);
    0
}
