//! C06: all-but-one PPRF (crates/sl-oblivious/src/soft_spoken/all_but_one.rs).
//! The real `build_pprf` / `eval_pprf` vs the extracted model coq/Model/Pprf.v (real merlin behind the
//! model's transcript oracle), on honest runs, corrupted messages and a calibrated adversarial sender,
//! plus an implementation-only oracle: the property itself evaluated on the real outputs.
use crate::oracle::*;
use crate::util::*;
use merlin::Transcript;
use rand::{Rng, RngCore};
use sl_oblivious::constants::*;
use sl_oblivious::endemic_ot::ReceiverOutput;
use sl_oblivious::params::consts::*;
use sl_oblivious::soft_spoken::{build_pprf, eval_pprf, PPRFOutput, ReceiverOTSeed, SenderOTSeed};
use sl_oblivious::verif_hooks::sender_output_from_keys;
use std::io::Write;

const K: usize = SOFT_SPOKEN_K;
const NT: usize = LAMBDA_C / SOFT_SPOKEN_K;
const Q: usize = SOFT_SPOKEN_Q;
const LB: usize = LAMBDA_C_BYTES;
const TREE_MSG: usize = (K - 1) * 2 * LB + 4 * LB; // t, s_tilda, t_tilda
const OFF_S: usize = (K - 1) * 2 * LB;
const OFF_T: usize = OFF_S + 2 * LB;

type Key = [u8; LB];

/// base-OT outputs: sender pairs, packed receiver choice bits, receiver keys (consistent by construction)
#[derive(Clone)]
struct Base {
    sk: Vec<[Key; 2]>,
    cb: [u8; LAMBDA_C_BYTES],
    rk: Vec<Key>,
}

fn bit(cb: &[u8], i: usize) -> bool {
    (cb[i >> 3] >> (i & 7)) & 1 == 1
}

impl Base {
    /// `pattern`: how the choice bits are laid out; `keys`: how the sender keys are chosen
    fn gen(r: &mut impl RngCore, pattern: usize, keys: usize) -> Base {
        let mut sk = vec![[[0u8; LB]; 2]; LAMBDA_C];
        for (i, p) in sk.iter_mut().enumerate() {
            match keys {
                0 => { r.fill_bytes(&mut p[0]); r.fill_bytes(&mut p[1]); }
                1 => { r.fill_bytes(&mut p[0]); p[1] = p[0]; }               // rho_0 = rho_1
                2 => { p[0] = [0u8; LB]; p[1] = [0xffu8; LB]; }               // constant keys
                _ => { p[0] = [(i & 0xff) as u8; LB]; r.fill_bytes(&mut p[1]); }
            }
        }
        let mut cb = [0u8; LAMBDA_C_BYTES];
        match pattern {
            0 => r.fill_bytes(&mut cb),
            _ => {
                // tree j gets the 4-bit pattern (a*j + b) mod 16: all 16 puncture patterns occur
                let (a, b) = [(1usize, 0usize), (7, 3), (5, 9), (11, 15)][(pattern - 1) % 4];
                for j in 0..NT {
                    let v = (a * j + b) % Q;
                    for i in 0..K {
                        if (v >> i) & 1 == 1 {
                            let idx = j * K + i;
                            cb[idx >> 3] |= 1 << (idx & 7);
                        }
                    }
                }
            }
        }
        let rk = (0..LAMBDA_C).map(|i| sk[i][bit(&cb, i) as usize]).collect();
        Base { sk, cb, rk }
    }
    fn sk_bytes(&self) -> Vec<u8> {
        self.sk.iter().flat_map(|p| p[0].iter().chain(p[1].iter()).copied()).collect()
    }
    fn rk_bytes(&self) -> Vec<u8> {
        self.rk.iter().flatten().copied().collect()
    }
    fn tree_bits(&self, j: usize) -> Vec<bool> {
        (0..K).map(|i| bit(&self.cb, j * K + i)).collect()
    }
    /// punctured index as the paper defines it (independent of the code): complement of the choice bits, MSB first
    fn expected_ystar(&self, j: usize) -> usize {
        self.tree_bits(j).iter().fold(0usize, |a, &c| 2 * a + (!c) as usize)
    }
    fn patterns(&self) -> std::collections::BTreeSet<usize> {
        (0..NT).map(|j| self.expected_ystar(j)).collect()
    }
}

fn real_build(sid: &[u8], base: &Base, init_out: &[u8], init_seed: &[u8]) -> (Vec<u8>, Vec<u8>) {
    let arr: [[Key; 2]; LAMBDA_C] = base.sk.clone().try_into().unwrap();
    let so = sender_output_from_keys(&arr);
    let mut seed: SenderOTSeed = bytemuck::pod_read_unaligned(init_seed);
    let mut out: PPRFOutput = bytemuck::pod_read_unaligned(init_out);
    crate::util::note_case(format!("build_pprf sid={} sender_keys={}", hx(sid), hx(&base.sk_bytes())));
    build_pprf(sid, &so, &mut seed, &mut out);
    (bytemuck::bytes_of(&out).to_vec(), bytemuck::bytes_of(&seed).to_vec())
}

fn real_eval(sid: &[u8], base: &Base, msg: &[u8], init_seed: &[u8]) -> (Result<(), String>, Vec<u8>) {
    let keys: [Key; LAMBDA_C] = base.rk.clone().try_into().unwrap();
    let ro = ReceiverOutput::new(base.cb, keys);
    let out: PPRFOutput = bytemuck::pod_read_unaligned(msg);
    let mut seed: ReceiverOTSeed = bytemuck::pod_read_unaligned(init_seed);
    crate::util::note_case(format!("eval_pprf sid={} choice_bits={} receiver_keys={} msg_sha256={}", hx(sid), hx(&base.cb), hx(&base.rk_bytes()),
        hx(&<sha2::Sha256 as sha2::Digest>::digest(msg))));
    let r = eval_pprf(sid, &ro, &out, &mut seed).map_err(|e| e.to_string());
    (r, bytemuck::bytes_of(&seed).to_vec())
}

fn model_build(drv: &mut Driver, sid: &[u8], base: &Base, init_out: &[u8]) -> Result<(Vec<u8>, Vec<u8>), String> {
    let tt: Vec<u8> = (0..NT).flat_map(|j| init_out[j * TREE_MSG + OFF_T..(j + 1) * TREE_MSG].to_vec()).collect();
    let v = drv.run("c06.build", &[hx(sid), hx(&base.sk_bytes()), hx(&tt)])?;
    if v.len() != 2 { return Err(format!("bad result {:?}", v)); }
    Ok((unhx(&v[0]), unhx(&v[1])))
}

/// ("ok", seed bytes) | ("err", code)
fn model_eval(drv: &mut Driver, sid: &[u8], base: &Base, msg: &[u8]) -> Result<(bool, Vec<u8>), String> {
    let v = drv.run("c06.eval", &[hx(sid), hx(&base.cb), hx(&base.rk_bytes()), hx(msg)])?;
    match v.as_slice() {
        [t, s] if t == "ok" => Ok((true, unhx(s))),
        [t, _] if t == "err" => Ok((false, vec![])),
        other => Err(format!("bad result {:?}", other)),
    }
}

// ------------------------------------------------------------------------------------------------
// Independent re-derivation of what a receiver with given choice bits computes for ONE tree
// (used by the harness's own calibrated adversary; written over Option<node>, not after the code).
fn h_ggm(sid: &[u8], seed: &Key) -> (Key, Key) {
    let mut t = Transcript::new(&ALL_BUT_ONE_LABEL);
    t.append_message(b"session-id", sid);
    t.append_message(&ALL_BUT_ONE_PPRF_LABEL, seed);
    let (mut a, mut b) = ([0u8; LB], [0u8; LB]);
    t.challenge_bytes(b"", &mut a);
    t.challenge_bytes(b"", &mut b);
    (a, b)
}
fn h_proof(sid: &[u8], leaf: &Key) -> [u8; 2 * LB] {
    let mut t = Transcript::new(&ALL_BUT_ONE_LABEL);
    t.append_message(b"session-id", sid);
    t.append_message(&ALL_BUT_ONE_PPRF_PROOF_LABEL, leaf);
    let mut a = [0u8; 2 * LB];
    t.challenge_bytes(b"", &mut a);
    a
}
fn h_hash(sid: &[u8], vs: &[[u8; 2 * LB]]) -> [u8; 2 * LB] {
    let mut t = Transcript::new(&ALL_BUT_ONE_LABEL);
    t.append_message(b"session-id", sid);
    for v in vs { t.append_message(b"", v); }
    let mut a = [0u8; 2 * LB];
    t.challenge_bytes(&ALL_BUT_ONE_PPRF_HASH_LABEL, &mut a);
    a
}
fn xor_into(a: &mut [u8], b: &[u8]) {
    for (x, y) in a.iter_mut().zip(b) { *x ^= y; }
}
fn sim_receiver_digest(sid: &[u8], bits: &[bool], keys: &[Key], tmsg: &[u8]) -> [u8; 2 * LB] {
    let mut nodes: Vec<Option<Key>> = vec![None, None];
    nodes[bits[0] as usize] = Some(keys[0]);
    for i in 1..K {
        let side = bits[i] as usize;
        let mut next: Vec<Option<Key>> = vec![None; nodes.len() * 2];
        let mut missing = 0usize;
        let mut acc: Key = tmsg[((i - 1) * 2 + side) * LB..((i - 1) * 2 + side + 1) * LB].try_into().unwrap();
        xor_into(&mut acc, &keys[i]);
        for (y, n) in nodes.iter().enumerate() {
            match n {
                Some(s) => {
                    let (l, r) = h_ggm(sid, s);
                    xor_into(&mut acc, if side == 0 { &l } else { &r });
                    next[2 * y] = Some(l);
                    next[2 * y + 1] = Some(r);
                }
                None => missing = y,
            }
        }
        next[2 * missing + side] = Some(acc);
        nodes = next;
    }
    let mut views = vec![[0u8; 2 * LB]; nodes.len()];
    let mut acc: [u8; 2 * LB] = tmsg[OFF_T..OFF_T + 2 * LB].try_into().unwrap();
    let mut missing = 0;
    for (y, n) in nodes.iter().enumerate() {
        match n {
            Some(s) => { views[y] = h_proof(sid, s); xor_into(&mut acc, &views[y]); }
            None => missing = y,
        }
    }
    views[missing] = acc;
    h_hash(sid, &views)
}

/// the harness's own calibrated adversary: honest message, t[level][side] ^= delta in `tree`, s_tilda
/// re-derived for the guessed choice bits `g`
fn adv_message(sid: &[u8], base: &Base, honest: &[u8], tree: usize, level: usize, side: usize, delta: &Key, g: &[bool]) -> Vec<u8> {
    let mut m = honest.to_vec();
    let o = tree * TREE_MSG;
    xor_into(&mut m[o + (level * 2 + side) * LB..o + (level * 2 + side + 1) * LB], delta);
    let keys: Vec<Key> = (0..K).map(|i| base.sk[tree * K + i][g[i] as usize]).collect();
    let d = sim_receiver_digest(sid, g, &keys, &m[o..o + TREE_MSG]);
    m[o + OFF_S..o + OFF_S + 2 * LB].copy_from_slice(&d);
    m
}

// ------------------------------------------------------------------------------------------------
/// the property on real outputs: per tree 15 learned leaves equal the sender's, y* as expected (< Q),
/// the slot y* differs from the sender's leaf.  Returns the first violated clause.
fn leaves_property(base: &Base, sseed: &[u8], rseed: &[u8]) -> Option<String> {
    for j in 0..NT {
        let y = rseed[j] as usize;
        if y >= Q { return Some(format!("tree {j}: random_choices = {y} >= {Q}")); }
        if y != base.expected_ystar(j) { return Some(format!("tree {j}: y* = {y}, choice bits say {}", base.expected_ystar(j))); }
        for l in 0..Q {
            let s = &sseed[(j * Q + l) * LB..(j * Q + l + 1) * LB];
            let r = &rseed[NT + (j * Q + l) * LB..NT + (j * Q + l + 1) * LB];
            if l != y && s != r { return Some(format!("tree {j}: learned leaf {l} differs from the sender's")); }
            if l == y && s == r { return Some(format!("tree {j}: the punctured slot {l} holds the sender's leaf")); }
        }
    }
    None
}

#[derive(Clone)]
struct Item {
    tag: String,     // kind tag
    base: usize,     // index into the list of honest runs
    sid: Vec<u8>,    // session id used for evaluation
    msg: Vec<u8>,    // message handed to eval_pprf
    /// Some(v): the implementation-only oracle additionally demands this verdict
    expect: Option<bool>,
    /// adversarial items: model call that must reproduce `msg` byte for byte
    adv: Option<(usize, usize, usize, Key, Vec<bool>)>,
    desc: String,
}

struct Outcome {
    evals: u64,
    queries: u64,
    disagree: Vec<String>,
    oracle: Vec<String>,
    sample: String,
}

struct Honest {
    sid: Vec<u8>,
    base: Base,
    msg: Vec<u8>,
    sseed: Vec<u8>,
    zero_init: bool,
}

fn full_input(sid: &[u8], base: &Base, msg: &[u8]) -> String {
    format!("sid={} choice_bits={} sender_keys={} message={}", hx(sid), hx(&base.cb), hx(&base.sk_bytes()), hx(msg))
}

fn run_item(drv: &mut Driver, hs: &[Honest], it: &Item) -> Outcome {
    let h = &hs[it.base];
    let q0 = drv.queries;
    let mut o = Outcome { evals: 0, queries: 0, disagree: vec![], oracle: vec![], sample: String::new() };
    if let Some((tree, level, side, delta, g)) = &it.adv {
        let gs: String = g.iter().map(|&b| if b { '1' } else { '0' }).collect();
        let zero_tt = vec![0u8; NT * 2 * LB];
        let m = drv.run("c06.adv", &[hx(&h.sid), hx(&h.base.sk_bytes()), hx(&zero_tt), tree.to_string(), level.to_string(),
                                      side.to_string(), hx(delta), gs]);
        o.evals += 1;
        match m {
            Ok(v) if v.len() == 2 && unhx(&v[0]) == it.msg && unhx(&v[1]) == h.sseed => {}
            Ok(v) => o.disagree.push(format!("{}: adversarial message of the model differs from the harness's ({}); first differing byte {:?}",
                it.tag, it.desc, unhx(&v[0]).iter().zip(&it.msg).position(|(a, b)| a != b))),
            Err(e) => o.disagree.push(format!("{}: model adv failed: {e}", it.tag)),
        }
    }
    let zero_seed = vec![0u8; std::mem::size_of::<ReceiverOTSeed>()];
    let (verdict, rseed) = real_eval(&it.sid, &h.base, &it.msg, &zero_seed);
    let mv = model_eval(drv, &it.sid, &h.base, &it.msg);
    o.evals += 1;
    match (&verdict, &mv) {
        (Ok(()), Ok((true, ms))) if *ms == rseed => {}
        (Err(_), Ok((false, _))) => {}
        (Ok(()), Ok((true, _))) => o.disagree.push(format!("{} {}: both accept, receiver seeds differ; {}", it.tag, it.desc, full_input(&it.sid, &h.base, &it.msg))),
        _ => o.disagree.push(format!("{} {}: impl verdict {:?}, model {:?}; {}", it.tag, it.desc, verdict,
                                     mv.as_ref().map(|x| x.0), full_input(&it.sid, &h.base, &it.msg))),
    }
    // implementation-only oracle (messages altered in transit): accepted => every learned leaf is the sender's and the
    // punctured slot is not.  (Not demanded of the calibrated adversary: a right guess is accepted WITH wrong leaves.)
    if verdict.is_ok() && it.adv.is_none() {
        if let Some(w) = leaves_property(&h.base, &h.sseed, &rseed) {
            o.oracle.push(format!("{} {}: eval_pprf accepted but {w}; {}", it.tag, it.desc, full_input(&it.sid, &h.base, &it.msg)));
        }
    }
    if let Some(e) = it.expect {
        if verdict.is_ok() != e {
            o.oracle.push(format!("{} {}: eval_pprf {} but the property demands {}; {}", it.tag, it.desc,
                if verdict.is_ok() { "accepted" } else { "rejected" }, if e { "acceptance" } else { "rejection" },
                full_input(&it.sid, &h.base, &it.msg)));
        }
    }
    o.sample = format!("{} {} -> impl {} model {}", it.tag, it.desc, if verdict.is_ok() { "ok" } else { "Err(Invalid proof)" },
                       match &mv { Ok((true, _)) => "ok".to_string(), Ok((false, _)) => "Err".to_string(), Err(e) => e.clone() });
    o.queries = drv.queries - q0;
    o
}

pub fn run(kv: &Args) -> i32 {
    let seed = kv.u64("seed", 1);
    let out = kv.str("out", "/verif/build/run/C06");
    std::fs::create_dir_all(&out).unwrap();
    let thorough = kv.thorough();
    let mut r = rng(seed, "c06");
    let mut drv = Driver::spawn();
    let mut disagreements: Vec<String> = vec![];
    let mut oracle_fail: Vec<String> = vec![];
    let mut samples: Vec<String> = vec![];
    let mut kinds: std::collections::BTreeMap<String, u64> = Default::default();
    let mut n_eval = 0u64;
    let mut n_nontrivial = 0u64;
    let mut log = std::fs::File::create(format!("{out}/cases.txt")).unwrap();

    // constants of the model vs the real ones
    match drv.run("c06.consts", &[]) {
        Ok(v) if v == vec![K.to_string(), NT.to_string(), (2 * LB).to_string()] => {}
        other => disagreements.push(format!("constants: model {:?}, implementation K={K} trees={NT} proof bytes={}", other, 2 * LB)),
    }
    if std::mem::size_of::<PPRFOutput>() != NT * TREE_MSG {
        disagreements.push(format!("layout: size_of PPRFOutput = {} , model layout {}", std::mem::size_of::<PPRFOutput>(), NT * TREE_MSG));
    }

    // ---------------------------------------------------------------- honest runs
    let n_honest = if thorough { 24 } else { 6 };
    let sid_lens = [32usize, 0, 1, 100];
    let mut hs: Vec<Honest> = vec![];
    let mut all_patterns = true;
    for case in 0..n_honest {
        let mut sid = vec![0u8; sid_lens[case % 4]];
        r.fill_bytes(&mut sid);
        // patterned choice bits in the even cases, random ones in the odd cases (re-drawn until all 16 patterns occur)
        let mut base = Base::gen(&mut r, if case % 2 == 0 { 1 + case / 2 } else { 0 }, [0, 0, 0, 1, 2, 3][case % 6]);
        while base.patterns().len() < Q { base = Base::gen(&mut r, 0, 0); }
        all_patterns &= base.patterns().len() == Q;
        // cases 0,1,2 (mod 6): zeroed buffers (what Default provides); others: reused non-zero buffers
        let zero_init = case % 6 < 3;
        let mut init_out = vec![0u8; NT * TREE_MSG];
        let mut init_sseed = vec![0u8; std::mem::size_of::<SenderOTSeed>()];
        let mut init_rseed = vec![0u8; std::mem::size_of::<ReceiverOTSeed>()];
        if !zero_init {
            r.fill_bytes(&mut init_out);
            r.fill_bytes(&mut init_sseed);
            r.fill_bytes(&mut init_rseed);
        }
        let (msg, sseed) = real_build(&sid, &base, &init_out, &init_sseed);
        let tag = if zero_init { "honest" } else { "honest-reused-buffers" };
        *kinds.entry(tag.to_string()).or_default() += 1;
        n_eval += 2;
        match model_build(&mut drv, &sid, &base, &init_out) {
            Ok((mm, ms)) => {
                if mm != msg {
                    disagreements.push(format!("{tag} case {case}: PPRF message differs at byte {:?}; sid={} choice_bits={} sender_keys={}",
                        mm.iter().zip(&msg).position(|(a, b)| a != b), hx(&sid), hx(&base.cb), hx(&base.sk_bytes())));
                }
                if ms != sseed {
                    disagreements.push(format!("{tag} case {case}: SenderOTSeed differs at byte {:?}; sid={} sender_keys={}",
                        ms.iter().zip(&sseed).position(|(a, b)| a != b), hx(&sid), hx(&base.sk_bytes())));
                }
            }
            Err(e) => disagreements.push(format!("{tag} case {case}: model build failed: {e}")),
        }
        let (verdict, rseed) = real_eval(&sid, &base, &msg, &init_rseed);
        match model_eval(&mut drv, &sid, &base, &msg) {
            Ok((true, ms)) if verdict.is_ok() && ms == rseed => {}
            Ok((false, _)) if verdict.is_err() => {}
            other => disagreements.push(format!("{tag} case {case}: eval impl {:?} model {:?}; {}", verdict, other.map(|x| x.0), full_input(&sid, &base, &msg))),
        }
        writeln!(log, "{tag} case={case} sid={} choice_bits={} patterns={} verdict={:?} msg[0..32]={}", hx(&sid), hx(&base.cb),
                 base.patterns().len(), verdict, hx(&msg[..32])).unwrap();
        if zero_init {
            // implementation-only oracle: the first sentence of the property
            if verdict.is_err() {
                oracle_fail.push(format!("honest case {case}: eval_pprf rejected an honest message; {}", full_input(&sid, &base, &msg)));
            } else if let Some(w) = leaves_property(&base, &sseed, &rseed) {
                oracle_fail.push(format!("honest case {case}: {w}; {}", full_input(&sid, &base, &msg)));
            }
            hs.push(Honest { sid, base, msg, sseed, zero_init });
        }
        if samples.len() < 2 {
            samples.push(format!("{tag} sid_len={} -> impl {:?}, message and both seed structures byte-equal to the model", sid_lens[case % 4], verdict));
        }
    }
    // ---- the receiver's seed object was used before: it still holds a full set of leaves of the same sender trees (what a
    //      sweep over choice patterns that reuses the object leaves behind) or junk; eval_pprf must overwrite every slot,
    //      in particular the punctured one must not keep an old leaf
    for (n, h) in hs.iter().enumerate() {
        for kind in 0..2 {
            let mut init = vec![0u8; std::mem::size_of::<ReceiverOTSeed>()];
            if kind == 0 {
                let k = h.sseed.len().min(init.len() - NT);
                init[NT..NT + k].copy_from_slice(&h.sseed[..k]);
                for j in 0..NT { init[j] = 0xff; }
            } else {
                r.fill_bytes(&mut init);
            }
            let (verdict, rseed) = real_eval(&h.sid, &h.base, &h.msg, &init);
            n_eval += 1;
            *kinds.entry("honest-receiver-seed-reused".to_string()).or_default() += 1;
            let what = if kind == 0 { "receiver seed object pre-filled with all 16 sender leaves per tree" } else { "receiver seed object pre-filled with junk" };
            if verdict.is_err() {
                oracle_fail.push(format!("honest run {n}, {what}: eval_pprf rejected an honest message; {}", full_input(&h.sid, &h.base, &h.msg)));
            } else if let Some(w) = leaves_property(&h.base, &h.sseed, &rseed) {
                oracle_fail.push(format!("honest run {n}, {what}: {w}; {}", full_input(&h.sid, &h.base, &h.msg)));
            }
            match model_eval(&mut drv, &h.sid, &h.base, &h.msg) {
                Ok((true, ms)) if verdict.is_ok() && ms == rseed => {}
                other => disagreements.push(format!("honest run {n}, {what}: eval impl {:?} model {:?} (seed bytes equal: {})", verdict, other.as_ref().map(|x| x.0),
                    other.as_ref().map(|x| x.1 == rseed).unwrap_or(false))),
            }
        }
    }
    // ---- the sender's seed object was used before (junk), the message buffer is fresh: the message must be the one built
    //      on a fresh object and the honest receiver must accept it
    for (n, h) in hs.iter().enumerate() {
        let mut init_sseed = vec![0u8; std::mem::size_of::<SenderOTSeed>()];
        r.fill_bytes(&mut init_sseed);
        let (msg2, sseed2) = real_build(&h.sid, &h.base, &vec![0u8; NT * TREE_MSG], &init_sseed);
        n_eval += 1;
        *kinds.entry("honest-sender-seed-reused".to_string()).or_default() += 1;
        let zero_seed = vec![0u8; std::mem::size_of::<ReceiverOTSeed>()];
        let (verdict, rseed) = real_eval(&h.sid, &h.base, &msg2, &zero_seed);
        if verdict.is_err() {
            oracle_fail.push(format!("honest run {n}, sender seed object pre-filled with junk: eval_pprf rejected the honest message; {}", full_input(&h.sid, &h.base, &msg2)));
        } else if let Some(w) = leaves_property(&h.base, &sseed2, &rseed) {
            oracle_fail.push(format!("honest run {n}, sender seed object pre-filled with junk: {w}; {}", full_input(&h.sid, &h.base, &msg2)));
        }
        if msg2 != h.msg || sseed2 != h.sseed {
            disagreements.push(format!("honest run {n}: build_pprf on a used SenderOTSeed object differs from the run on a fresh one (message equal: {}, seed equal: {})",
                msg2 == h.msg, sseed2 == h.sseed));
        }
    }
    if !all_patterns { disagreements.push("case generator: not all 16 puncture patterns occur".into()); }

    // ---------------------------------------------------------------- corrupted messages
    let mut items: Vec<Item> = vec![];
    let nb = hs.len();
    let flip = |h: &Honest, tree: usize, off: usize, bitno: usize| -> Vec<u8> {
        let mut m = h.msg.clone();
        m[tree * TREE_MSG + off] ^= 1 << bitno;
        m
    };
    // which region a byte offset inside a tree's message belongs to, from the receiver's point of view
    let region = |h: &Honest, tree: usize, off: usize| -> (&'static str, Option<bool>) {
        if off >= OFF_T { ("t_tilda", Some(false)) }
        else if off >= OFF_S { ("s_tilda", Some(false)) }
        else {
            let level = off / (2 * LB);
            let side = (off / LB) % 2;
            if bit(&h.base.cb, tree * K + level + 1) as usize == side { ("t_used", Some(false)) } else { ("t_unused", Some(true)) }
        }
    };
    let pick_tree = |r: &mut rand_chacha::ChaCha20Rng, n: usize| -> usize {
        match n % 4 { 0 => 0, 1 => NT - 1, _ => (r.next_u32() as usize) % NT }
    };
    if !thorough {
        // stratified single-bit flips: 30 per region class, plus 30 whole-byte replacements
        for n in 0..150usize {
            let bi = n % nb;
            let h = &hs[bi];
            let tree = pick_tree(&mut r, n / nb);
            let class = n % 5;
            let off = match class {
                0 => OFF_S + (r.next_u32() as usize) % (2 * LB),
                1 => OFF_T + (r.next_u32() as usize) % (2 * LB),
                2 | 3 => {
                    let level = (r.next_u32() as usize) % (K - 1);
                    let c = bit(&h.base.cb, tree * K + level + 1) as usize;
                    let side = if class == 2 { c } else { 1 - c };
                    (level * 2 + side) * LB + (r.next_u32() as usize) % LB
                }
                _ => (r.next_u32() as usize) % TREE_MSG,
            };
            let (reg, expect) = region(h, tree, off);
            let (msg, what) = if class == 4 {
                let mut m = h.msg.clone();
                let old = m[tree * TREE_MSG + off];
                let mut v = (r.next_u32() & 0xff) as u8;
                if v == old { v = old.wrapping_add(1); }
                m[tree * TREE_MSG + off] = v;
                (m, format!("byte {old:02x}->{v:02x}"))
            } else {
                let b = (r.next_u32() as usize) % 8;
                (flip(h, tree, off, b), format!("bit {b}"))
            };
            items.push(Item { tag: format!("flip-{reg}"), base: bi, sid: h.sid.clone(), msg, expect, adv: None,
                              desc: format!("base={bi} tree={tree} offset={off} {what}") });
        }
    } else {
        // every bit of the message region of one tree (first, last and a middle tree rotate over the bases)
        for (n, &tree) in [0usize, NT - 1, 29].iter().enumerate() {
            let bi = n % nb;
            let h = &hs[bi];
            let stride = if n == 0 { 1 } else { 5 };
            for bitpos in (0..TREE_MSG * 8).step_by(stride) {
                let (off, b) = (bitpos / 8, bitpos % 8);
                let (reg, expect) = region(h, tree, off);
                items.push(Item { tag: format!("flip-{reg}"), base: bi, sid: h.sid.clone(), msg: flip(h, tree, off, b), expect, adv: None,
                                  desc: format!("base={bi} tree={tree} offset={off} bit {b}") });
            }
        }
        // strided over all trees
        for tree in 0..NT {
            let bi = tree % nb;
            let h = &hs[bi];
            for k in 0..24usize {
                let bitpos = (tree * 131 + k * 107 + 3) % (TREE_MSG * 8);
                let (off, b) = (bitpos / 8, bitpos % 8);
                let (reg, expect) = region(h, tree, off);
                items.push(Item { tag: format!("flip-{reg}"), base: bi, sid: h.sid.clone(), msg: flip(h, tree, off, b), expect, adv: None,
                                  desc: format!("base={bi} tree={tree} offset={off} bit {b}") });
            }
        }
    }
    // cross-session / cross-tree / cross-base substitution
    let n_cross = if thorough { 60 } else { 9 };
    for n in 0..n_cross {
        let bi = n % nb;
        let h = &hs[bi];
        match n % 3 {
            0 => {
                // the message of another session id (one bit of the sid changed, a byte appended, or truncated)
                let mut sid2 = h.sid.clone();
                let what = if sid2.is_empty() || n % 2 == 1 { sid2.push(0); "sid+00" } else { let l = sid2.len(); sid2[l - 1] ^= 1; "sid bit" };
                items.push(Item { tag: "cross-session".into(), base: bi, sid: sid2, msg: h.msg.clone(), expect: Some(false), adv: None,
                                  desc: format!("base={bi} {what}") });
            }
            1 => {
                // tree messages of two trees exchanged
                let (a, b) = (pick_tree(&mut r, n), (r.next_u32() as usize) % NT);
                let b = if a == b { (b + 1) % NT } else { b };
                let mut m = h.msg.clone();
                let ta = m[a * TREE_MSG..(a + 1) * TREE_MSG].to_vec();
                let tb = m[b * TREE_MSG..(b + 1) * TREE_MSG].to_vec();
                m[a * TREE_MSG..(a + 1) * TREE_MSG].copy_from_slice(&tb);
                m[b * TREE_MSG..(b + 1) * TREE_MSG].copy_from_slice(&ta);
                items.push(Item { tag: "cross-tree".into(), base: bi, sid: h.sid.clone(), msg: m, expect: Some(false), adv: None,
                                  desc: format!("base={bi} trees {a}<->{b}") });
            }
            _ => {
                // the message another sender built for the same session id
                let other = Base::gen(&mut r, 0, 0);
                let (m, _) = real_build(&h.sid, &other, &vec![0u8; NT * TREE_MSG], &vec![0u8; std::mem::size_of::<SenderOTSeed>()]);
                items.push(Item { tag: "cross-base".into(), base: bi, sid: h.sid.clone(), msg: m, expect: Some(false), adv: None,
                                  desc: format!("base={bi} message of unrelated base OTs") });
            }
        }
    }
    // ---------------------------------------------------------------- calibrated adversarial sender
    let n_adv = if thorough { 2000 } else { 42 };
    for n in 0..n_adv {
        let bi = n % nb;
        let h = &hs[bi];
        let tree = pick_tree(&mut r, n / 18);
        let level = (n / 6) % (K - 1);
        let c = h.base.tree_bits(tree);
        let mut delta = [0u8; LB];
        if n % 7 == 3 { delta[(r.next_u32() as usize) % LB] = 1 << (r.next_u32() % 8); } else { r.fill_bytes(&mut delta); }
        // six situations: the receiver uses / does not use the tampered side  x  guess right / wrong at that level / wrong elsewhere
        let uses = n % 2 == 0;
        let side = if uses { c[level + 1] as usize } else { 1 - c[level + 1] as usize };
        let mut g = c.clone();
        let (gk, expect) = match (n / 2) % 3 {
            0 => ("right", true),
            1 => { g[level + 1] = !g[level + 1]; ("wrong-level-bit", false) }
            _ => {
                let mut o = (r.next_u32() as usize) % K;
                if o == level + 1 { o = (o + 1) % K; }
                g[o] = !g[o];
                // neither the receiver nor the guessed receiver reads the tampered word: harmless
                ("wrong-other-bit", !uses)
            }
        };
        let msg = adv_message(&h.sid, &h.base, &h.msg, tree, level, side, &delta, &g);
        items.push(Item { tag: format!("adv-{}-{gk}", if uses { "used" } else { "unused" }), base: bi, sid: h.sid.clone(), msg,
                          expect: Some(expect), adv: Some((tree, level, side, delta, g.clone())),
                          desc: format!("base={bi} tree={tree} level={level} side={side} delta={} guess={:?} path={:?}", hx(&delta), g, c) });
    }

    // ---------------------------------------------------------------- run the items (parallel drivers)
    let nthreads = kv.u64("threads", if thorough { 12 } else { 6 }) as usize;
    let mut total_queries = drv.queries;
    drop(drv);
    let results: Vec<Vec<(usize, Outcome)>> = std::thread::scope(|s| {
        let hs = &hs;
        let items = &items;
        let handles: Vec<_> = (0..nthreads).map(|t| s.spawn(move || {
            let mut d = Driver::spawn();
            let mut v = vec![];
            let mut i = t;
            while i < items.len() {
                v.push((i, run_item(&mut d, hs, &items[i])));
                i += nthreads;
            }
            v
        })).collect();
        handles.into_iter().map(|h| h.join().expect("worker panicked")).collect()
    });
    let mut flat: Vec<(usize, Outcome)> = results.into_iter().flatten().collect();
    flat.sort_by_key(|x| x.0);
    let mut sample_tags = std::collections::BTreeSet::new();
    for (i, o) in flat {
        let it = &items[i];
        n_eval += o.evals;
        n_nontrivial += 1;
        total_queries += o.queries;
        *kinds.entry(it.tag.clone()).or_default() += 1;
        writeln!(log, "{}", o.sample).unwrap();
        if sample_tags.insert(it.tag.clone()) && samples.len() < 12 { samples.push(o.sample.clone()); }
        disagreements.extend(o.disagree);
        oracle_fail.extend(o.oracle);
    }

    // ---------------------------------------------------------------- implementation-only sweep: many single-bit flips
    // against the real eval_pprf only (cheap), so that acceptance bugs that show on a small fraction of corruptions
    // (e.g. a weakened digest comparison) are hit; expectation from the region class as above
    {
        let n_sweep: usize = if thorough { 80_000 } else { 8_000 };
        let mut plan: Vec<(usize, usize, usize, usize)> = Vec::with_capacity(n_sweep);
        for n in 0..n_sweep {
            let bi = n % nb;
            let tree = (r.next_u32() as usize) % NT;
            let off = (r.next_u32() as usize) % TREE_MSG;
            let b = (r.next_u32() as usize) % 8;
            plan.push((bi, tree, off, b));
        }
        let nthreads = 8usize;
        let found: Vec<Vec<String>> = std::thread::scope(|sc| {
            let hs = &hs;
            let plan = &plan;
            let region = &region;
            let handles: Vec<_> = (0..nthreads).map(|t| sc.spawn(move || {
                let zero_seed = vec![0u8; std::mem::size_of::<ReceiverOTSeed>()];
                let mut bad = vec![];
                let mut i = t;
                while i < plan.len() {
                    let (bi, tree, off, b) = plan[i];
                    let h = &hs[bi];
                    let (reg, expect) = region(h, tree, off);
                    let msg = flip(h, tree, off, b);
                    let (verdict, rseed) = real_eval(&h.sid, &h.base, &msg, &zero_seed);
                    if let Some(e) = expect {
                        if verdict.is_ok() != e {
                            bad.push(format!("sweep flip-{reg} base={bi} tree={tree} offset={off} bit {b}: eval_pprf {} but the property demands {}; {}",
                                if verdict.is_ok() { "accepted" } else { "rejected" }, if e { "acceptance" } else { "rejection" },
                                full_input(&h.sid, &h.base, &msg)));
                        }
                    }
                    if verdict.is_ok() {
                        if let Some(w) = leaves_property(&h.base, &h.sseed, &rseed) {
                            bad.push(format!("sweep flip-{reg} base={bi} tree={tree} offset={off} bit {b}: eval_pprf accepted but {w}; {}",
                                full_input(&h.sid, &h.base, &msg)));
                        }
                    }
                    i += nthreads;
                }
                bad
            })).collect();
            handles.into_iter().map(|h| h.join().expect("sweep worker panicked")).collect()
        });
        n_eval += n_sweep as u64;
        *kinds.entry("oracle-only-bitflip-sweep".into()).or_default() += n_sweep as u64;
        for v in found { oracle_fail.extend(v.into_iter().take(5)); }
    }

    let mut f = std::fs::File::create(format!("{out}/result.txt")).unwrap();
    writeln!(f, "evaluations {n_eval}").unwrap();
    writeln!(f, "mutations {n_nontrivial}").unwrap();
    writeln!(f, "oracle_queries {total_queries}").unwrap();
    for (k, v) in &kinds { writeln!(f, "kind {k} {v}").unwrap(); }
    for s in &samples { writeln!(f, "SAMPLE {s}").unwrap(); }
    for d in &disagreements { writeln!(f, "DISAGREE {d}").unwrap(); }
    for d in &oracle_fail { writeln!(f, "ORACLE {d}").unwrap(); }
    0
}
