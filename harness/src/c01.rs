//! C01: random-VOLE shares multiply out (c + d = a*b), both variants.
//! Real RVOLEReceiver::{new,process} / RVOLESender::process of rvole.rs and rvole_ot_variant.rs vs the
//! extracted model (coq/Model/Rvole.v over RvoleCore.v / SoftSpoken.v / Endemic.v) with the real
//! merlin / k256 behind the model's oracles.  Compared: round-one message, receiver state bytes, b,
//! round-two message bytes, c, d.  Implementation-only oracle: c + d == a*b in k256 for every run.
//! The helpers of this module are shared with c02.rs.
use crate::oracle::*;
use crate::util::*;
use elliptic_curve::group::GroupEncoding;
use elliptic_curve::ops::Reduce;
use elliptic_curve::{Field, Group};
use k256::{ProjectivePoint, Scalar, U256};
use rand::{Rng, RngCore};
use sl_oblivious::endemic_ot::{EndemicOTMsg1, EndemicOTMsg2, EndemicOTReceiver, EndemicOTSender};
use sl_oblivious::rvole;
use sl_oblivious::rvole_ot_variant as rvot;
use sl_oblivious::soft_spoken::{
    build_pprf, eval_pprf, generate_all_but_one_seed_ot, PPRFOutput, ReceiverOTSeed, Round1Output, SenderOTSeed,
};
use std::io::Write;
use std::panic::{catch_unwind, AssertUnwindSafe};

pub const XI: usize = 512;
pub const W: usize = 3;
pub const AT_BYTES: usize = XI * W * 32; // 49152
pub const ETA_OFF: usize = AT_BYTES;
pub const MU_OFF: usize = AT_BYTES + 32;
pub const MSG_BYTES: usize = AT_BYTES + 32 + 64; // 49248 = size_of::<RVOLEOutput>()
pub const R1_BYTES: usize = 64 * 80 + 16 + 256 * 16; // Round1Output
pub const EOT_BYTES: usize = 256 * 2 * 33; // EndemicOTMsg1 / EndemicOTMsg2
pub const OT_MSG2_BYTES: usize = 2 * EOT_BYTES + MSG_BYTES;

/// An rng that replays an explicit tape (the model's random tape); zeros after the end.
pub struct TapeRng {
    pub tape: Vec<u8>,
    pub pos: usize,
}
impl RngCore for TapeRng {
    fn next_u32(&mut self) -> u32 {
        let mut b = [0u8; 4];
        self.fill_bytes(&mut b);
        u32::from_le_bytes(b)
    }
    fn next_u64(&mut self) -> u64 {
        let mut b = [0u8; 8];
        self.fill_bytes(&mut b);
        u64::from_le_bytes(b)
    }
    fn fill_bytes(&mut self, dest: &mut [u8]) {
        for d in dest.iter_mut() {
            *d = if self.pos < self.tape.len() { self.tape[self.pos] } else { 0 };
            self.pos += 1;
        }
    }
    fn try_fill_bytes(&mut self, dest: &mut [u8]) -> Result<(), rand::Error> {
        self.fill_bytes(dest);
        Ok(())
    }
}
impl rand::CryptoRng for TapeRng {}

pub fn bit(b: &[u8], i: usize) -> bool {
    (b[i >> 3] >> (i & 7)) & 1 == 1
}
pub fn scalars(l: &[Scalar]) -> String {
    l.iter().map(hex_of_scalar).collect::<Vec<_>>().join(",")
}
pub fn reduce32(b: &[u8]) -> Scalar {
    Scalar::reduce(U256::from_be_slice(b))
}

/// sender inputs: {0, 1, q-1, 2^255 mod q, random}
pub fn input_scalar(kind: usize, r: &mut impl RngCore) -> (Scalar, &'static str) {
    match kind % 5 {
        0 => (Scalar::ZERO, "0"),
        1 => (Scalar::ONE, "1"),
        2 => (-Scalar::ONE, "q-1"),
        3 => {
            let mut b = [0u8; 32];
            b[0] = 0x80;
            (reduce32(&b), "2^255")
        }
        _ => {
            let mut b = [0u8; 32];
            r.fill_bytes(&mut b);
            (reduce32(&b), "rnd")
        }
    }
}

pub fn session_id(kind: usize, r: &mut impl RngCore) -> ([u8; 32], &'static str) {
    match kind % 3 {
        0 => ([0u8; 32], "zero"),
        1 => ([0xff; 32], "ones"),
        _ => {
            let mut s = [0u8; 32];
            r.fill_bytes(&mut s);
            (s, "rnd")
        }
    }
}

/// Seeds of the OT extension: synthetic generator, or the real Endemic -> PPRF pipeline.
pub fn make_seeds(seed: u64, stream: &str, pipeline: bool) -> (Box<SenderOTSeed>, Box<ReceiverOTSeed>) {
    let mut r = rng(seed, stream);
    if !pipeline {
        let (s, rs) = generate_all_but_one_seed_ot(&mut r);
        return (Box::new(s), Box::new(rs));
    }
    let mut sid = [0u8; 32];
    r.fill_bytes(&mut sid);
    let mut msg1 = EndemicOTMsg1::default();
    let recv = EndemicOTReceiver::new(&sid, &mut msg1, &mut r);
    let mut msg2 = EndemicOTMsg2::default();
    let sout = EndemicOTSender::process(&sid, &msg1, &mut msg2, &mut r).expect("base OT sender");
    let rout = recv.process(&msg2).expect("base OT receiver");
    let mut ss = Box::new(SenderOTSeed::default());
    let mut pprf = Box::new(PPRFOutput::default());
    build_pprf(&sid, &sout, &mut ss, &mut pprf);
    let mut rs = Box::new(ReceiverOTSeed::default());
    eval_pprf(&sid, &rout, &pprf, &mut rs).expect("eval_pprf");
    (ss, rs)
}

// ------------------------------------------------------------------------------------------------
// OT-extension variant (rvole.rs)

pub struct ExtSession {
    pub name: String,
    pub sid: [u8; 32],
    pub sseed: Box<SenderOTSeed>,
    pub rseed: Box<ReceiverOTSeed>,
    pub buf: Vec<u8>,       // initial Round1Output bytes
    pub new_tape: Vec<u8>,  // beta (64) ++ SoftSpoken tape (16)
    pub a: [Scalar; 2],
    pub eta_tape: Vec<u8>,  // 64 bytes
    pub state: Box<rvole::RVOLEReceiver>,
    pub b: Scalar,
    pub round1: Vec<u8>,
    pub send: Result<(Vec<u8>, [Scalar; 2]), String>,
}

impl ExtSession {
    pub fn beta(&self) -> &[u8] {
        &self.new_tape[..64]
    }
    pub fn describe(&self) -> String {
        format!(
            "variant=ext case={} sid={} a={} new_tape={} eta_tape={} buf_nonzero={} random_choices={}",
            self.name, hx(&self.sid), scalars(&self.a), hx(&self.new_tape), hx(&self.eta_tape),
            self.buf.iter().any(|x| *x != 0), hx(&self.rseed.random_choices)
        )
    }
}

/// contents of a previously used output buffer: deterministic junk derived from the session id
pub fn dirty_fill(buf: &mut [u8], sid: &[u8; 32]) {
    use rand::{RngCore, SeedableRng};
    let mut r = rand_chacha::ChaCha20Rng::from_seed(*sid);
    r.fill_bytes(buf);
}

pub fn ext_real_recv(state: &rvole::RVOLEReceiver, msg: &[u8]) -> Result<[Scalar; 2], String> {
    let m: Box<rvole::RVOLEOutput> = Box::new(bytemuck::pod_read_unaligned(msg));
    match catch_unwind(AssertUnwindSafe(|| state.process(&m))) {
        Ok(Ok(d)) => Ok(d),
        Ok(Err(_)) => Err("err1".into()),
        Err(_) => Err("panic".into()),
    }
}

/// Run the real `new` and the real sender.
pub fn ext_session(
    name: &str, sid: [u8; 32], seeds: (Box<SenderOTSeed>, Box<ReceiverOTSeed>), buf: Vec<u8>, new_tape: Vec<u8>,
    a: [Scalar; 2], eta_tape: Vec<u8>,
) -> ExtSession {
    let (sseed, rseed) = seeds;
    let mut r1: Box<Round1Output> = Box::new(bytemuck::pod_read_unaligned(&buf));
    let mut rng1 = TapeRng { tape: new_tape.clone(), pos: 0 };
    let (state, b) = rvole::RVOLEReceiver::new(sid, &sseed, &mut r1, &mut rng1);
    let round1 = bytemuck::bytes_of(&*r1).to_vec();
    let mut out = Box::new(rvole::RVOLEOutput::default());
    // half of the sessions hand the sender an output buffer that was used before (the caller owns and may reuse it):
    // `process` must overwrite every field, so the message cannot depend on what the buffer held
    if sid[1] & 1 == 1 {
        dirty_fill(bytemuck::bytes_of_mut(&mut *out), &sid);
    }
    let mut rng2 = TapeRng { tape: eta_tape.clone(), pos: 0 };
    let send = match catch_unwind(AssertUnwindSafe(|| rvole::RVOLESender::process(&sid, &rseed, &a, &r1, &mut out, &mut rng2))) {
        Ok(Ok(c)) => Ok((bytemuck::bytes_of(&*out).to_vec(), c)),
        Ok(Err(_)) => Err("err1".into()),
        Err(_) => Err("panic".into()),
    };
    ExtSession { name: name.to_string(), sid, sseed, rseed, buf, new_tape, a, eta_tape, state, b, round1, send }
}

pub fn model_ext_new(drv: &mut Model, id: &str, s: &ExtSession) -> Result<(String, Vec<u8>, Vec<u8>), String> {
    let r = drv.call("c01.new", &[id.to_string(), hx(&s.sid), hx(bytemuck::bytes_of(&s.sseed.otp_enc_keys)), hx(&s.buf),
        hx(&s.new_tape[..64]), hx(&s.new_tape[64..])])?;
    if r.len() != 3 {
        return Err(format!("c01.new: bad result ({} fields)", r.len()));
    }
    Ok((r[0].clone(), unhx(&r[1]), unhx(&r[2])))
}

/// (verdict, message bytes, c)
pub fn model_ext_send(drv: &mut Model, s: &ExtSession, round1: &[u8]) -> Result<(String, Vec<u8>, String), String> {
    let r = drv.call("c01.send", &[hx(&s.sid), hx(&s.rseed.random_choices), hx(bytemuck::bytes_of(&s.rseed.otp_dec_keys)),
        scalars(&s.a), hx(round1), hx(&s.eta_tape)])?;
    match r.first().map(|x| x.as_str()) {
        Some("ok") if r.len() == 3 => Ok(("ok".into(), unhx(&r[1]), r[2].clone())),
        Some("err") if r.len() == 2 => Ok((format!("err{}", r[1]), vec![], String::new())),
        Some("panic") => Ok(("panic".into(), vec![], String::new())),
        _ => Err(format!("c01.send: bad result {:?}", r.first())),
    }
}

/// "ok <d>" or "err<code>"
pub fn model_recv(drv: &mut Model, fname: &str, args: &[String]) -> Result<String, String> {
    let r = drv.call(fname, args)?;
    match r.first().map(|x| x.as_str()) {
        Some("ok") if r.len() == 2 => Ok(format!("ok {}", r[1])),
        Some("err") if r.len() == 2 => Ok(format!("err{}", r[1])),
        Some("panic") => Ok("panic".into()),
        _ => Err(format!("{fname}: bad result {:?}", r.first())),
    }
}
pub fn real_recv_str(r: &Result<[Scalar; 2], String>) -> String {
    match r {
        Ok(d) => format!("ok {}", scalars(d)),
        Err(e) => e.clone(),
    }
}

/// the property itself, in k256
pub fn relation_holds(a: &[Scalar; 2], b: &Scalar, c: &[Scalar; 2], d: &[Scalar; 2]) -> bool {
    (0..2).all(|i| c[i] + d[i] == a[i] * b)
}

// ------------------------------------------------------------------------------------------------
// base-OT variant (rvole_ot_variant.rs)

/// `decode_point` of endemic_ot.rs (accepts the zero-padded identity, unlike SEC1 parsing)
pub fn real_decode(b: &[u8]) -> Option<ProjectivePoint> {
    if b.len() != 33 {
        return None;
    }
    let mut repr = <ProjectivePoint as GroupEncoding>::Repr::default();
    AsMut::<[u8]>::as_mut(&mut repr).copy_from_slice(b);
    Option::<ProjectivePoint>::from(ProjectivePoint::from_bytes(&repr))
}
/// The extracted model with its oracles.  Besides the standard oracles of oracle.rs:
///  * `kdec`: the model's `g_dec` is the decoding function of the protocol messages;
///  * `HN` / `HX`: the transcript oracle of drv_c01.ml.  `HN <ops>` replays a whole history on a fresh
///    merlin transcript (like `H`) and keeps the transcript; `HX <ops>` applies further operations to
///    the kept transcript -- the driver sends it only when the previous query's history is a prefix
///    of the new one, so the answer is the one a full replay gives.
pub struct Model {
    pub drv: Driver,
    t: Option<merlin::Transcript>,
    labels: std::collections::HashMap<Vec<u8>, &'static [u8]>,
}
impl Model {
    pub fn spawn() -> Self {
        Model { drv: Driver::spawn(), t: None, labels: Default::default() }
    }
    pub fn queries(&self) -> u64 {
        self.drv.queries
    }
    pub fn call(&mut self, name: &str, args: &[String]) -> Result<Vec<String>, String> {
        let Model { drv, t, labels } = self;
        drv.run_with(name, args, &mut |n, a| oracle(t, labels, n, a))
    }
}
fn leak(labels: &mut std::collections::HashMap<Vec<u8>, &'static [u8]>, l: Vec<u8>) -> &'static [u8] {
    if let Some(r) = labels.get(&l) {
        return r;
    }
    let r: &'static [u8] = Box::leak(l.clone().into_boxed_slice());
    labels.insert(l, r);
    r
}
fn apply_ops(t: &mut Option<merlin::Transcript>, labels: &mut std::collections::HashMap<Vec<u8>, &'static [u8]>, ops: &str) -> Vec<u8> {
    let mut last = vec![];
    for op in ops.split(',') {
        let f: Vec<&str> = op.split(':').collect();
        match f[0] {
            "I" => *t = Some(merlin::Transcript::new(leak(labels, unhx(f[1])))),
            "M" => t.as_mut().expect("op before init").append_message(leak(labels, unhx(f[1])), &unhx(f[2])),
            "U" => t.as_mut().expect("op before init").append_u64(leak(labels, unhx(f[1])), u64::from_str_radix(f[2], 16).expect("u64")),
            "C" => {
                let mut buf = vec![0u8; usize::from_str_radix(f[2], 16).expect("len")];
                t.as_mut().expect("op before init").challenge_bytes(leak(labels, unhx(f[1])), &mut buf);
                last = buf;
            }
            _ => panic!("bad transcript op {op}"),
        }
    }
    last
}
fn oracle(t: &mut Option<merlin::Transcript>, labels: &mut std::collections::HashMap<Vec<u8>, &'static [u8]>, name: &str, a: &[&str]) -> Option<Vec<String>> {
    match name {
        "kdec" => Some(match real_decode(&unhx(a[0])) {
            Some(p) => vec!["1".into(), point_hex(&p)],
            None => vec!["0".into()],
        }),
        "HN" => {
            *t = None;
            Some(vec![hx(&apply_ops(t, labels, a[0]))])
        }
        "HX" => Some(vec![hx(&apply_ops(t, labels, a[0]))]),
        _ => None,
    }
}

pub struct EotRecvTape {
    pub bits: [u8; 32],
    pub tas: Vec<Scalar>,
    pub ros: Vec<ProjectivePoint>,
}
/// replay of the rng stream exactly as `EndemicOTReceiver::new` consumes it
pub fn eot_recv_tape(r: &mut impl RngCore) -> EotRecvTape {
    // rvole_ot_variant / endemic_ot require CryptoRng only at the call site; the replica uses the same calls
    struct W<'a, R: RngCore>(&'a mut R);
    impl<'a, R: RngCore> RngCore for W<'a, R> {
        fn next_u32(&mut self) -> u32 { self.0.next_u32() }
        fn next_u64(&mut self) -> u64 { self.0.next_u64() }
        fn fill_bytes(&mut self, d: &mut [u8]) { self.0.fill_bytes(d) }
        fn try_fill_bytes(&mut self, d: &mut [u8]) -> Result<(), rand::Error> { self.0.try_fill_bytes(d) }
    }
    impl<'a, R: RngCore> rand::CryptoRng for W<'a, R> {}
    let mut w = W(r);
    let bits: [u8; 32] = w.gen();
    let tas: Vec<Scalar> = (0..256).map(|_| *k256::NonZeroScalar::random(&mut w)).collect();
    let ros: Vec<ProjectivePoint> = (0..256).map(|_| ProjectivePoint::random(&mut w)).collect();
    EotRecvTape { bits, tas, ros }
}
fn points(l: &[ProjectivePoint]) -> String {
    l.iter().map(point_hex).collect::<Vec<_>>().join(",")
}

pub struct OtSession {
    pub name: String,
    pub seed: u64,
    pub sid: [u8; 32],
    pub a: [Scalar; 2],
    pub tape_a: EotRecvTape,
    pub tape_b: EotRecvTape,
    pub tbs_a: Vec<Scalar>, // t_b_0, t_b_1 per instance
    pub tbs_b: Vec<Scalar>,
    pub eta_tape: Vec<u8>,
    pub state: Box<rvot::RVOLEReceiver>,
    pub b: Scalar,
    pub msg1: Vec<u8>,
    pub send: Result<(Vec<u8>, [Scalar; 2]), String>,
}

impl OtSession {
    pub fn recv_stream(&self) -> String {
        format!("c01-ot-recv-{}", self.name)
    }
    pub fn send_stream(&self) -> String {
        format!("c01-ot-send-{}", self.name)
    }
    pub fn beta(&self) -> Vec<u8> {
        let mut b = self.tape_a.bits.to_vec();
        b.extend_from_slice(&self.tape_b.bits);
        b
    }
    pub fn describe(&self) -> String {
        format!("variant=ot case={} seed={} sid={} a={} recv_stream={} send_stream={}", self.name, self.seed, hx(&self.sid),
            scalars(&self.a), self.recv_stream(), self.send_stream())
    }
    /// fresh copies of the real receiver state and of the two base-OT receivers (`process` consumes them)
    pub fn real_new(&self) -> (Box<rvot::RVOLEReceiver>, Box<EndemicOTReceiver>, Box<EndemicOTReceiver>, Scalar, Vec<u8>) {
        let mut r = rng(self.seed, &self.recv_stream());
        let mut m1 = Box::new(rvot::RVOLEMsg1::default());
        let (st, ra, rb, b) = rvot::RVOLEReceiver::new(self.sid, &mut m1, &mut r);
        (st, ra, rb, b, bytemuck::bytes_of(&*m1).to_vec())
    }
    pub fn real_recv(&self, msg2: &[u8]) -> Result<[Scalar; 2], String> {
        let (st, ra, rb, _, _) = self.real_new();
        let m: Box<rvot::RVOLEMsg2> = Box::new(bytemuck::pod_read_unaligned(msg2));
        match catch_unwind(AssertUnwindSafe(|| st.process(&m, ra, rb))) {
            Ok(Ok(d)) => Ok(d),
            Ok(Err(e)) => Err(if e == "Decode error" { "err2".into() } else { "err1".into() }),
            Err(_) => Err("panic".into()),
        }
    }
}

pub fn ot_session(seed: u64, name: &str, sid: [u8; 32], a: [Scalar; 2]) -> OtSession {
    let recv_stream = format!("c01-ot-recv-{name}");
    let send_stream = format!("c01-ot-send-{name}");
    // replicas of the two rng streams
    let mut rr = rng(seed, &recv_stream);
    let tape_a = eot_recv_tape(&mut rr);
    let tape_b = eot_recv_tape(&mut rr);
    let mut sr = tape_rng(seed, &send_stream);
    let tbs_a: Vec<Scalar> = (0..512).map(|_| *k256::NonZeroScalar::random(&mut sr)).collect();
    let tbs_b: Vec<Scalar> = (0..512).map(|_| *k256::NonZeroScalar::random(&mut sr)).collect();
    let mut eta_tape = vec![0u8; 64];
    sr.fill_bytes(&mut eta_tape);
    // the real run
    let mut r = rng(seed, &recv_stream);
    let mut m1 = Box::new(rvot::RVOLEMsg1::default());
    let (state, _ra, _rb, b) = rvot::RVOLEReceiver::new(sid, &mut m1, &mut r);
    let msg1 = bytemuck::bytes_of(&*m1).to_vec();
    let mut out = Box::new(rvot::RVOLEMsg2::default());
    if sid[1] & 1 == 1 {
        dirty_fill(bytemuck::bytes_of_mut(&mut *out), &sid);
    }
    let mut r2 = tape_rng(seed, &send_stream);
    let send = match catch_unwind(AssertUnwindSafe(|| rvot::RVOLESender::process(&sid, &a, &m1, &mut out, &mut r2))) {
        Ok(Ok(c)) => Ok((bytemuck::bytes_of(&*out).to_vec(), c)),
        Ok(Err(_)) => Err("err3".into()),
        Err(_) => Err("panic".into()),
    };
    OtSession { name: name.to_string(), seed, sid, a, tape_a, tape_b, tbs_a, tbs_b, eta_tape, state, b, msg1, send }
}

/// (b, msg1 bytes, beta)
pub fn model_ot_new(drv: &mut Model, id: &str, s: &OtSession) -> Result<(String, Vec<u8>, Vec<u8>), String> {
    let r = drv.call("c01.ot_new", &[id.to_string(), hx(&s.sid),
        hx(&s.tape_a.bits), scalars(&s.tape_a.tas), points(&s.tape_a.ros),
        hx(&s.tape_b.bits), scalars(&s.tape_b.tas), points(&s.tape_b.ros)])?;
    if r.first().map(|x| x.as_str()) != Some("ok") || r.len() != 5 {
        return Err(format!("c01.ot_new: {:?}", r.first()));
    }
    let mut m1 = unhx(&r[2]);
    m1.extend_from_slice(&unhx(&r[3]));
    Ok((r[1].clone(), m1, unhx(&r[4])))
}

/// (verdict, RVOLEMsg2 bytes, c)
pub fn model_ot_send(drv: &mut Model, s: &OtSession, msg1: &[u8]) -> Result<(String, Vec<u8>, String), String> {
    let r = drv.call("c01.ot_send", &[hx(&s.sid), scalars(&s.a), hx(&msg1[..EOT_BYTES]), hx(&msg1[EOT_BYTES..]),
        scalars(&s.tbs_a), scalars(&s.tbs_b), hx(&s.eta_tape)])?;
    if r.len() != 5 {
        return Err(format!("c01.ot_send: bad result ({} fields)", r.len()));
    }
    let mut m = unhx(&r[1]);
    m.extend_from_slice(&unhx(&r[2]));
    m.extend_from_slice(&unhx(&r[3]));
    Ok((r[0].clone(), m, r[4].clone()))
}

pub fn ot_recv_args(id: &str, msg2: &[u8]) -> Vec<String> {
    vec![id.to_string(), hx(&msg2[..EOT_BYTES]), hx(&msg2[EOT_BYTES..2 * EOT_BYTES]), hx(&msg2[2 * EOT_BYTES..])]
}

fn first_diff(a: &[u8], b: &[u8]) -> String {
    if a.len() != b.len() {
        return format!("lengths {} vs {}", a.len(), b.len());
    }
    match a.iter().zip(b).position(|(x, y)| x != y) {
        Some(i) => format!("first difference at byte {i}: impl {:02x} model {:02x}", a[i], b[i]),
        None => "equal".into(),
    }
}

pub struct Report {
    pub n_eval: u64,
    pub n_nontrivial: u64,
    pub kinds: std::collections::BTreeMap<String, u64>,
    pub disagree: Vec<String>,
    pub oracle: Vec<String>,
    pub samples: Vec<String>,
}
impl Report {
    pub fn new() -> Self {
        Report { n_eval: 0, n_nontrivial: 0, kinds: Default::default(), disagree: vec![], oracle: vec![], samples: vec![] }
    }
    pub fn kind(&mut self, k: &str) {
        *self.kinds.entry(k.to_string()).or_default() += 1;
    }
    pub fn write(&self, out: &str, queries: u64) {
        let mut f = std::fs::File::create(format!("{out}/result.txt")).unwrap();
        writeln!(f, "evaluations {}", self.n_eval).unwrap();
        writeln!(f, "mutations {}", self.n_nontrivial).unwrap();
        writeln!(f, "oracle_queries {queries}").unwrap();
        for (k, v) in &self.kinds {
            writeln!(f, "kind {k} {v}").unwrap();
        }
        for s in &self.samples {
            writeln!(f, "SAMPLE {s}").unwrap();
        }
        for d in &self.disagree {
            writeln!(f, "DISAGREE {d}").unwrap();
        }
        for d in &self.oracle {
            writeln!(f, "ORACLE {d}").unwrap();
        }
    }
}

fn run_ext_case(drv: &mut Model, rep: &mut Report, log: &mut Vec<String>, s: &ExtSession) {
    let id = format!("x-{}", s.name);
    let t0 = std::time::Instant::now();
    // round one
    let rnew = model_ext_new(drv, &id, s);
    match rnew {
        Ok((mb, mr1, mstate)) => {
            rep.n_eval += 1;
            if mb != hex_of_scalar(&s.b) {
                rep.disagree.push(format!("new: b impl {} model {mb} -- {}", hex_of_scalar(&s.b), s.describe()));
            }
            if mr1 != s.round1 {
                rep.disagree.push(format!("new: round-one message, {} -- {}", first_diff(&s.round1, &mr1), s.describe()));
            }
            let st = bytemuck::bytes_of(&*s.state);
            if mstate != st {
                rep.disagree.push(format!("new: receiver state bytes, {} -- {}", first_diff(st, &mstate), s.describe()));
            }
        }
        Err(e) => rep.disagree.push(format!("new: model failed: {e} -- {}", s.describe())),
    }
    // beta is the first field after the session id in the receiver state
    if &bytemuck::bytes_of(&*s.state)[32..96] != s.beta() {
        rep.disagree.push(format!("receiver state bytes 32..96 are not beta -- {}", s.describe()));
    }
    // round two
    let (impl_v, impl_msg, impl_c) = match &s.send {
        Ok((m, c)) => ("ok".to_string(), m.clone(), scalars(c)),
        Err(e) => (e.clone(), vec![], String::new()),
    };
    let rsend = model_ext_send(drv, s, &s.round1);
    match rsend {
        Ok((v, m, c)) => {
            rep.n_eval += 1;
            if v != impl_v {
                rep.disagree.push(format!("send: verdict impl {impl_v} model {v} -- {}", s.describe()));
            } else if v == "ok" {
                if m != impl_msg {
                    rep.disagree.push(format!("send: round-two message, {} -- {}", first_diff(&impl_msg, &m), s.describe()));
                }
                if c != impl_c {
                    rep.disagree.push(format!("send: c impl {impl_c} model {c} -- {}", s.describe()));
                }
            }
        }
        Err(e) => rep.disagree.push(format!("send: model failed: {e} -- {}", s.describe())),
    }
    // receiver, and the property itself
    if let Ok((msg, c)) = &s.send {
        let d = ext_real_recv(&s.state, msg);
            let rrecv = model_recv(drv, "c01.recv", &[id.clone(), hx(msg)]);
        match rrecv {
            Ok(mv) => {
                rep.n_eval += 1;
                if mv != real_recv_str(&d) {
                    rep.disagree.push(format!("process: impl {} model {mv} -- {}", real_recv_str(&d), s.describe()));
                }
            }
            Err(e) => rep.disagree.push(format!("process: model failed: {e} -- {}", s.describe())),
        }
        match &d {
            Ok(d) => {
                if !relation_holds(&s.a, &s.b, c, d) {
                    rep.oracle.push(format!("c + d != a*b: b={} c={} d={} -- {}", hex_of_scalar(&s.b), scalars(c), scalars(d), s.describe()));
                }
                if s.a.iter().any(|x| !bool::from(x.is_zero())) {
                    rep.n_nontrivial += 1;
                }
                if rep.samples.len() < 3 {
                    rep.samples.push(format!("{}: b={} c={} d={} (c+d = a*b holds)", s.describe().chars().take(160).collect::<String>(),
                        hex_of_scalar(&s.b), scalars(c), scalars(d)));
                }
            }
            Err(e) => rep.oracle.push(format!("honest round-two message not accepted ({e}) -- {}", s.describe())),
        }
    } else if s.buf.iter().all(|x| *x == 0) {
        rep.oracle.push(format!("honest round-one message rejected by the sender ({impl_v}) -- {}", s.describe()));
    } else {
        // A caller-supplied Round1Output that is not the Default value: SoftSpokenOTReceiver::process XORs
        // into it, so the message is garbage and the sender aborts.  Not an honest run (every caller in the
        // repository passes Default); these cases only validate the model's accumulate-vs-overwrite reading.
        rep.kind("ext-reused-buffer-sender-aborts");
    }
    let _ = drv.call("c01.drop", &[id]);
    let _ = t0;
    log.push(format!("{} impl_verdict={impl_v} b={}", s.describe(), hex_of_scalar(&s.b)));
}

fn run_ot_case(drv: &mut Model, rep: &mut Report, log: &mut Vec<String>, s: &OtSession) {
    let id = format!("o-{}", s.name);
    let t0 = std::time::Instant::now();
    match model_ot_new(drv, &id, s) {
        Ok((mb, m1, beta)) => {
            rep.n_eval += 1;
            if mb != hex_of_scalar(&s.b) {
                rep.disagree.push(format!("ot new: b impl {} model {mb} -- {}", hex_of_scalar(&s.b), s.describe()));
            }
            if m1 != s.msg1 {
                rep.disagree.push(format!("ot new: message 1, {} -- {}", first_diff(&s.msg1, &m1), s.describe()));
            }
            if beta != &bytemuck::bytes_of(&*s.state)[32..96] {
                rep.disagree.push(format!("ot new: beta differs from receiver state bytes 32..96 -- {}", s.describe()));
            }
        }
        Err(e) => rep.disagree.push(format!("ot new: model failed: {e} -- {}", s.describe())),
    }
    if bytemuck::bytes_of(&*s.state)[32..96] != s.beta()[..] {
        rep.disagree.push(format!("ot: replayed choice bits differ from receiver state bytes 32..96 (rng replay order) -- {}", s.describe()));
    }
    let (impl_v, impl_msg, impl_c) = match &s.send {
        Ok((m, c)) => ("ok".to_string(), m.clone(), scalars(c)),
        Err(e) => (e.clone(), vec![], String::new()),
    };
    match model_ot_send(drv, s, &s.msg1) {
        Ok((v, m, c)) => {
            rep.n_eval += 1;
            if v != impl_v {
                rep.disagree.push(format!("ot send: verdict impl {impl_v} model {v} -- {}", s.describe()));
            } else if v == "ok" {
                if m != impl_msg {
                    rep.disagree.push(format!("ot send: message 2, {} -- {}", first_diff(&impl_msg, &m), s.describe()));
                }
                if c != impl_c {
                    rep.disagree.push(format!("ot send: c impl {impl_c} model {c} -- {}", s.describe()));
                }
            }
        }
        Err(e) => rep.disagree.push(format!("ot send: model failed: {e} -- {}", s.describe())),
    }
    if let Ok((msg, c)) = &s.send {
        let d = s.real_recv(msg);
        match model_recv(drv, "c01.ot_recv", &ot_recv_args(&id, msg)) {
            Ok(mv) => {
                rep.n_eval += 1;
                if mv != real_recv_str(&d) {
                    rep.disagree.push(format!("ot process: impl {} model {mv} -- {}", real_recv_str(&d), s.describe()));
                }
            }
            Err(e) => rep.disagree.push(format!("ot process: model failed: {e} -- {}", s.describe())),
        }
        match &d {
            Ok(d) => {
                if !relation_holds(&s.a, &s.b, c, d) {
                    rep.oracle.push(format!("c + d != a*b: b={} c={} d={} -- {}", hex_of_scalar(&s.b), scalars(c), scalars(d), s.describe()));
                }
                if s.a.iter().any(|x| !bool::from(x.is_zero())) {
                    rep.n_nontrivial += 1;
                }
                if rep.samples.len() < 5 {
                    rep.samples.push(format!("{}: b={} c={} d={} (c+d = a*b holds)", s.describe(), hex_of_scalar(&s.b), scalars(c), scalars(d)));
                }
            }
            Err(e) => rep.oracle.push(format!("honest message 2 not accepted ({e}) -- {}", s.describe())),
        }
    } else {
        rep.oracle.push(format!("honest message 1 rejected by the sender ({impl_v}) -- {}", s.describe()));
    }
    let _ = drv.call("c01.drop", &[id]);
    let _ = t0;
    log.push(format!("{} impl_verdict={impl_v} b={}", s.describe(), hex_of_scalar(&s.b)));
}

/// The session of case `k` of the OT-extension variant (deterministic in (seed, k)).
pub fn ext_case(seed: u64, k: usize) -> ExtSession {
    let mut r = rng(seed, &format!("c01-ext-{k}"));
    let (a0, n0) = input_scalar(k, &mut r);
    let (a1, n1) = input_scalar(k / 5 + k + 1, &mut r);
    let (sid, sn) = session_id(k, &mut r);
    let pipeline = k % 3 == 2;
    let dirty = k % 8 == 3;
    let mut buf = vec![0u8; R1_BYTES];
    if dirty {
        r.fill_bytes(&mut buf);
    }
    let mut new_tape = vec![0u8; 80];
    r.fill_bytes(&mut new_tape);
    match k % 11 {
        5 => new_tape[..64].iter_mut().for_each(|x| *x = 0),
        7 => new_tape[..64].iter_mut().for_each(|x| *x = 0xff),
        _ => {}
    }
    let mut eta_tape = vec![0u8; 64];
    r.fill_bytes(&mut eta_tape);
    // degenerate sender: input (0, 0) together with an all-zero eta tape (the honest check value eta is then 32 zero bytes)
    let (a0, a1, n0, n1) = if k % 6 == 4 { eta_tape = vec![0u8; 64]; (Scalar::ZERO, Scalar::ZERO, "0", "0:eta-tape=0") } else { (a0, a1, n0, n1) };
    let name = format!("{k}:a=({n0},{n1}):sid={sn}:seeds={}:buf={}", if pipeline { "pipeline" } else { "synthetic" }, if dirty { "reused" } else { "default" });
    ext_session(&name, sid, make_seeds(seed, &format!("c01-seeds-{k}"), pipeline), buf, new_tape, [a0, a1], eta_tape)
}

pub fn ot_case(seed: u64, k: usize) -> OtSession {
    let mut r = rng(seed, &format!("c01-ot-{k}"));
    let (a0, n0) = input_scalar(k + 2, &mut r);
    let (a1, n1) = input_scalar(k / 5 + 2 * k, &mut r);
    let (sid, sn) = session_id(k + 1, &mut r);
    // mixed zero / non-zero input vectors: a position-dependent treatment of a zero input (skipping it, filtering it out of a
    // zip) shifts the remaining inputs against theta.  Cases 0 and 3 are (q-1, 0) and (0, 1), 8 is (0, q-1), 14 is (1, 0):
    // the quick tier runs cases 0..5 for that reason.
    if k % 6 == 4 {
        // input (0, 0) and an all-zero eta draw (the sender's stream: 2 x 512 base-OT scalars, then eta)
        return ot_session(seed, &format!("{k}:a=(0,0):sid={sn}#zero64@32768"), sid, [Scalar::ZERO, Scalar::ZERO]);
    }
    ot_session(seed, &format!("{k}:a=({n0},{n1}):sid={sn}"), sid, [a0, a1])
}

impl Report {
    pub fn merge(&mut self, o: Report) {
        self.n_eval += o.n_eval;
        self.n_nontrivial += o.n_nontrivial;
        for (k, v) in o.kinds {
            *self.kinds.entry(k).or_default() += v;
        }
        self.disagree.extend(o.disagree);
        self.oracle.extend(o.oracle);
        self.samples.extend(o.samples);
    }
}

/// Run `jobs` (closures over a private model instance) on `threads` worker threads; results are merged
/// in job order, so the output does not depend on the scheduling.
pub fn run_parallel<J>(jobs: Vec<J>, threads: usize) -> (Report, Vec<String>, u64)
where
    J: Fn(&mut Model, &mut Report, &mut Vec<String>) + Send + Sync,
{
    let n = jobs.len();
    let next = std::sync::atomic::AtomicUsize::new(0);
    let results: std::sync::Mutex<Vec<Option<(Report, Vec<String>)>>> = std::sync::Mutex::new((0..n).map(|_| None).collect());
    let queries = std::sync::atomic::AtomicU64::new(0);
    std::thread::scope(|sc| {
        for _ in 0..threads.max(1).min(n.max(1)) {
            sc.spawn(|| {
                let mut m = Model::spawn();
                loop {
                    let i = next.fetch_add(1, std::sync::atomic::Ordering::SeqCst);
                    if i >= n {
                        break;
                    }
                    let mut rep = Report::new();
                    let mut log = vec![];
                    (jobs[i])(&mut m, &mut rep, &mut log);
                    results.lock().unwrap()[i] = Some((rep, log));
                }
                queries.fetch_add(m.queries(), std::sync::atomic::Ordering::SeqCst);
            });
        }
    });
    let mut rep = Report::new();
    let mut log = vec![];
    for r in results.into_inner().unwrap().into_iter().flatten() {
        rep.merge(r.0);
        log.extend(r.1);
    }
    (rep, log, queries.into_inner())
}

pub fn n_threads(kv: &Args) -> usize {
    kv.u64("threads", 8) as usize
}

pub fn run(kv: &Args) -> i32 {
    let seed = kv.u64("seed", 1);
    let out = kv.str("out", "/verif/build/run/C01");
    std::fs::create_dir_all(&out).unwrap();
    let (n_ext, n_ot) = if kv.thorough() { (150, 60) } else { (kv.u64("n_ext", 9) as usize, kv.u64("n_ot", 5) as usize) };
    // `only=ext<k>` / `only=ot<k>` re-runs one case; `replay=<file>` does the same for the case named in the
    // text of an ORACLE / DISAGREE line ("variant=ext case=<k>:...").
    let mut only = kv.get("only").map(|s| s.to_string());
    if let Some(path) = kv.get("replay") {
        if let Ok(txt) = std::fs::read_to_string(path) {
            for v in ["ext", "ot"] {
                if let Some(pos) = txt.find(&format!("variant={v} case=")) {
                    let rest = &txt[pos + format!("variant={v} case=").len()..];
                    let k: String = rest.chars().take_while(|c| c.is_ascii_digit()).collect();
                    if !k.is_empty() {
                        only = Some(format!("{v}{k}"));
                    }
                }
            }
        }
    }
    let mut jobs: Vec<Box<dyn Fn(&mut Model, &mut Report, &mut Vec<String>) + Send + Sync>> = vec![];
    for k in 0..n_ext {
        if only.as_ref().map_or(false, |o| *o != format!("ext{k}")) {
            continue;
        }
        jobs.push(Box::new(move |m, rep, log| {
            let s = ext_case(seed, k);
            rep.kind(if s.name.contains("pipeline") { "ext-pipeline-seeds" } else { "ext-synthetic-seeds" });
            run_ext_case(m, rep, log, &s);
        }));
    }
    for k in 0..n_ot {
        if only.as_ref().map_or(false, |o| *o != format!("ot{k}")) {
            continue;
        }
        jobs.push(Box::new(move |m, rep, log| {
            let s = ot_case(seed, k);
            rep.kind("base-ot-variant");
            run_ot_case(m, rep, log, &s);
        }));
    }
    let (mut rep, log, queries) = run_parallel(jobs, n_threads(kv));
    rep.samples.truncate(6);
    std::fs::write(format!("{out}/cases.txt"), log.join("\n") + "\n").unwrap();
    rep.write(&out, queries);
    0
}
