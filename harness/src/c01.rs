//! C01 harness module (not implemented yet).
use crate::util::*;

pub fn run(_kv: &Args) -> i32 {
    eprintln!("c01: not implemented");
    2
}
