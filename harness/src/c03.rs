//! C03: SoftSpoken OT extension delivers exactly the chosen message.
//! Real SoftSpokenOTReceiver::process / SoftSpokenOTSender::process / generate_all_but_one_seed_ot vs the
//! extracted model (coq/Model/SoftSpoken.v) with the real merlin behind the model's transcript oracle.
//! The helpers of this module are shared with c04.rs.
use crate::oracle::*;
use crate::util::*;
use merlin::Transcript;
use rand::{Rng, RngCore};
use sl_oblivious::constants::{
    SOFT_SPOKEN_EXPAND_LABEL, SOFT_SPOKEN_LABEL, SOFT_SPOKEN_MATRIX_HASH_LABEL, SOFT_SPOKEN_RANDOMIZE_LABEL,
};
use sl_oblivious::soft_spoken::{
    generate_all_but_one_seed_ot, ReceiverExtendedOutput, ReceiverOTSeed, Round1Output, SenderExtendedOutput,
    SenderOTSeed, SoftSpokenOTError, SoftSpokenOTReceiver, SoftSpokenOTSender,
};
use sl_oblivious::verif_hooks::verif_gf128_mul;
use std::io::Write;

pub const TREES: usize = 64;
pub const Q: usize = 16;
pub const KEYB: usize = 32;
pub const LPB: usize = 80;
pub const LB: usize = 64;
pub const SB: usize = 16;
pub const ROWS: usize = 256;
pub const L: usize = 512;
pub const W: usize = 3;
pub const MSG_BYTES: usize = TREES * LPB + SB + ROWS * SB; // 9232
pub const U_BYTES: usize = TREES * LPB;
pub const OUT_BYTES: usize = L * W * 32;

/// An rng that replays an explicit tape (the model's random tape).
pub struct TapeRng {
    pub tape: Vec<u8>,
    pub pos: usize,
}
impl RngCore for TapeRng {
    fn next_u32(&mut self) -> u32 {
        let mut b = [0u8; 4];
        self.fill_bytes(&mut b);
        u32::from_le_bytes(b)
    }
    fn next_u64(&mut self) -> u64 {
        let mut b = [0u8; 8];
        self.fill_bytes(&mut b);
        u64::from_le_bytes(b)
    }
    fn fill_bytes(&mut self, dest: &mut [u8]) {
        for d in dest.iter_mut() {
            *d = if self.pos < self.tape.len() { self.tape[self.pos] } else { 0 };
            self.pos += 1;
        }
    }
    fn try_fill_bytes(&mut self, dest: &mut [u8]) -> Result<(), rand::Error> {
        self.fill_bytes(dest);
        Ok(())
    }
}
impl rand::CryptoRng for TapeRng {}

pub fn bit(b: &[u8], i: usize) -> bool {
    (b[i >> 3] >> (i & 7)) & 1 == 1
}

/// Seed pair built by hand: random keys, the given punctured indices, the punctured slot of the
/// extension sender's copy holds `junk` (garbage the sender must never read) or zeros.
pub fn hand_seeds(r: &mut impl RngCore, deltas: &[u8; TREES], junk: bool) -> (SenderOTSeed, ReceiverOTSeed) {
    let mut s = SenderOTSeed::default();
    let mut rs = ReceiverOTSeed::default();
    for i in 0..TREES {
        for j in 0..Q {
            r.fill_bytes(&mut s.otp_enc_keys[i][j]);
            rs.otp_dec_keys[i][j] = s.otp_enc_keys[i][j];
        }
        rs.random_choices[i] = deltas[i];
        let d = deltas[i] as usize;
        if d < Q {
            if junk {
                r.fill_bytes(&mut rs.otp_dec_keys[i][d]);
            } else {
                rs.otp_dec_keys[i][d] = [0u8; KEYB];
            }
        }
    }
    (s, rs)
}

/// Real receiver. `buf`: initial Round1Output bytes; `vx_fill`: initial byte of every v_x entry.
/// Returns (message bytes, choices after the call, v_x bytes) or None on panic.
pub fn real_recv(
    sid: &[u8], sseed: &SenderOTSeed, buf: &[u8], choices: &[u8; LB], tape: &[u8], vx_fill: u8,
) -> Option<(Vec<u8>, Vec<u8>, Vec<u8>)> {
    let sid = sid.to_vec();
    let sseed = *sseed;
    let buf = buf.to_vec();
    let choices = *choices;
    let tape = tape.to_vec();
    std::panic::catch_unwind(move || {
        let mut r1: Round1Output = bytemuck::pod_read_unaligned(&buf);
        let mut ext = bytemuck::allocation::zeroed_box::<ReceiverExtendedOutput>();
        ext.choices = choices;
        for a in ext.v_x.iter_mut() {
            for b in a.iter_mut() {
                *b = [vx_fill; 32];
            }
        }
        let mut rng = TapeRng { tape, pos: 0 };
        SoftSpokenOTReceiver::process(&sid, &sseed, &mut r1, &mut ext, &mut rng);
        (bytemuck::bytes_of(&r1).to_vec(), ext.choices.to_vec(), bytemuck::bytes_of(&ext.v_x).to_vec())
    })
    .ok()
}

#[derive(Clone, PartialEq, Eq, Debug)]
pub enum Verdict {
    Ok(Vec<u8>, Vec<u8>),
    Err(u32),
    Panic,
}
impl Verdict {
    pub fn tag(&self) -> String {
        match self {
            Verdict::Ok(..) => "ok".into(),
            Verdict::Err(e) => format!("err{e}"),
            Verdict::Panic => "panic".into(),
        }
    }
}

/// Real sender on a message given as bytes.
pub fn real_send(sid: &[u8], rseed: &ReceiverOTSeed, msg: &[u8]) -> Verdict {
    let sid = sid.to_vec();
    let rseed = *rseed;
    let msg = msg.to_vec();
    match std::panic::catch_unwind(move || {
        let m: Round1Output = bytemuck::pod_read_unaligned(&msg);
        match SoftSpokenOTSender::process(&sid, &rseed, &m) {
            Ok(o) => Verdict::Ok(bytemuck::bytes_of(&o.v_0).to_vec(), bytemuck::bytes_of(&o.v_1).to_vec()),
            Err(SoftSpokenOTError::AbortProtocolAndBanReceiver) => Verdict::Err(1),
        }
    }) {
        Ok(v) => v,
        Err(_) => Verdict::Panic,
    }
}

pub fn model_recv(
    drv: &mut Driver, sid: &[u8], sseed: &SenderOTSeed, buf: &[u8], choices: &[u8], tape: &[u8],
) -> Result<(Vec<u8>, Vec<u8>, Vec<u8>), String> {
    let r = drv.run("c03.recv", &[hx(sid), hx(bytemuck::bytes_of(&sseed.otp_enc_keys)), hx(buf), hx(choices), hx(tape)])?;
    if r.len() != 3 {
        return Err(format!("bad result {:?}", r.iter().map(|s| s.len()).collect::<Vec<_>>()));
    }
    Ok((unhx(&r[0]), unhx(&r[1]), unhx(&r[2])))
}

pub fn model_send(drv: &mut Driver, sid: &[u8], rseed: &ReceiverOTSeed, msg: &[u8]) -> Result<Verdict, String> {
    let r = drv.run("c03.send", &[hx(sid), hx(&rseed.random_choices), hx(bytemuck::bytes_of(&rseed.otp_dec_keys)), hx(msg)])?;
    match r.first().map(|s| s.as_str()) {
        Some("ok") if r.len() == 3 => Ok(Verdict::Ok(unhx(&r[1]), unhx(&r[2]))),
        Some("err") if r.len() == 2 => Ok(Verdict::Err(u32::from_str_radix(&r[1], 16).map_err(|e| e.to_string())?)),
        Some("panic") => Ok(Verdict::Panic),
        _ => Err(format!("bad result {:?}", r.first())),
    }
}

// ------------------------------------------------------------------------------------------------
// Independent re-implementation of round one (merlin + the field multiplication hook): used by the
// calibrated adversary of C04 and as a cross-check of the honest message.
pub fn prg(sid: &[u8], key: &[u8; KEYB]) -> [u8; LPB] {
    let mut ts = Transcript::new(&SOFT_SPOKEN_LABEL);
    ts.append_message(b"", sid);
    ts.append_message(b"", key);
    let mut out = [0u8; LPB];
    ts.challenge_bytes(&SOFT_SPOKEN_EXPAND_LABEL, &mut out);
    out
}

pub fn chis_of(sid: &[u8], u: &[[u8; LPB]]) -> [[u8; SB]; 4] {
    let mut h = Transcript::new(&SOFT_SPOKEN_LABEL);
    h.append_message(b"session-id", sid);
    for row in u {
        h.append_message(b"", row);
    }
    let mut digest = [0u8; 32];
    h.challenge_bytes(&SOFT_SPOKEN_MATRIX_HASH_LABEL, &mut digest);
    std::array::from_fn(|j| {
        let mut ts = Transcript::new(b"");
        ts.append_u64(b"index", j as u64);
        ts.append_message(b"", &digest);
        let mut c = [0u8; SB];
        ts.challenge_bytes(b"", &mut c);
        c
    })
}

/// Phi_chi(row) = sum_j row[16j..] * chi_j  +  row[64..80]
pub fn phi(chis: &[[u8; SB]; 4], row: &[u8; LPB]) -> [u8; SB] {
    let mut acc = [0u8; SB];
    for j in 0..4 {
        let a: [u8; SB] = row[j * SB..(j + 1) * SB].try_into().unwrap();
        let p = verif_gf128_mul(&a, &chis[j]);
        for k in 0..SB {
            acc[k] ^= p[k];
        }
    }
    for k in 0..SB {
        acc[k] ^= row[4 * SB + k];
    }
    acc
}

pub struct RoundOne {
    pub epc: [u8; LPB],
    pub u: Vec<[u8; LPB]>,
    pub v: Vec<[u8; LPB]>,
}

pub fn round_one(sid: &[u8], sseed: &SenderOTSeed, choices: &[u8; LB], tape: &[u8; SB]) -> RoundOne {
    let mut epc = [0u8; LPB];
    epc[..LB].copy_from_slice(choices);
    epc[LB..].copy_from_slice(tape);
    let mut u = vec![[0u8; LPB]; TREES];
    let mut v = vec![[0u8; LPB]; ROWS];
    for i in 0..TREES {
        u[i] = epc;
        for j in 0..Q {
            let r = prg(sid, &sseed.otp_enc_keys[i][j]);
            for k in 0..LPB {
                u[i][k] ^= r[k];
                for b in 0..4 {
                    if (j >> b) & 1 == 1 {
                        v[4 * i + b][k] ^= r[k];
                    }
                }
            }
        }
    }
    RoundOne { epc, u, v }
}

pub fn assemble(u: &[[u8; LPB]], x: &[u8; SB], t: &[[u8; SB]]) -> Vec<u8> {
    let mut m = Vec::with_capacity(MSG_BYTES);
    for r in u {
        m.extend_from_slice(r);
    }
    m.extend_from_slice(x);
    for r in t {
        m.extend_from_slice(r);
    }
    m
}

/// The honest message and the calibrated adversary: deviation e[i] on block i of u, check values re-derived
/// for the new u, rows of t compensated under guess g[i] of the punctured index. e = 0 gives the honest message.
/// Returns (message bytes, the hash images A_i = Phi_chi'(e_i)).
pub fn adversary(
    sid: &[u8], sseed: &SenderOTSeed, choices: &[u8; LB], tape: &[u8; SB], e: &[[u8; LPB]], g: &[u8],
) -> (Vec<u8>, Vec<[u8; SB]>) {
    let r1 = round_one(sid, sseed, choices, tape);
    let mut u = r1.u.clone();
    for i in 0..TREES {
        for k in 0..LPB {
            u[i][k] ^= e[i][k];
        }
    }
    let chis = chis_of(sid, &u);
    let x = phi(&chis, &r1.epc);
    let mut t = vec![[0u8; SB]; ROWS];
    let mut images = vec![];
    for i in 0..TREES {
        let a = phi(&chis, &e[i]);
        images.push(a);
        for b in 0..4 {
            let mut row = phi(&chis, &r1.v[4 * i + b]);
            if (g[i] >> b) & 1 == 1 {
                for k in 0..SB {
                    row[k] ^= a[k];
                }
            }
            t[4 * i + b] = row;
        }
    }
    (assemble(&u, &x, &t), images)
}

/// The property itself on the real outputs: chosen side equal, other side different, choices recorded.
/// `nabla_zero`: every punctured index is 0 (mod 16), the degenerate seed set for which the sender's two
/// messages coincide (packed_nabla = 0; see ss_other_differs) -- the "other side differs" clause is void there.
pub fn property_oracle(choices_in: &[u8; LB], choices_out: &[u8], vx: &[u8], v0: &[u8], v1: &[u8], nabla_zero: bool) -> Option<String> {
    if choices_out != choices_in {
        return Some("choices recorded in the receiver output differ from the requested ones".into());
    }
    if vx.len() != OUT_BYTES || v0.len() != OUT_BYTES || v1.len() != OUT_BYTES {
        return Some("output size".into());
    }
    for j in 0..L {
        let c = bit(choices_in, j);
        for k in 0..W {
            let o = (j * W + k) * 32;
            let (chosen, other) = if c { (&v1[o..o + 32], &v0[o..o + 32]) } else { (&v0[o..o + 32], &v1[o..o + 32]) };
            if &vx[o..o + 32] != chosen {
                return Some(format!("transfer {j} slot {k}: receiver output differs from the sender's message for choice bit {}", c as u8));
            }
            if !nabla_zero && &vx[o..o + 32] == other {
                return Some(format!("transfer {j} slot {k}: receiver output equals the sender's message for the opposite bit"));
            }
        }
    }
    None
}

pub fn choice_vector(kind: usize, r: &mut impl RngCore) -> ([u8; LB], String) {
    let mut c = [0u8; LB];
    let name = match kind % 7 {
        0 => "zero".to_string(),
        1 => {
            c = [0xff; LB];
            "ones".into()
        }
        2 => {
            let b = (r.next_u32() as usize) % L;
            c[b >> 3] = 1 << (b & 7);
            format!("single{b}")
        }
        3 => {
            c = [0x55; LB];
            "alt55".into()
        }
        4 => {
            c = [0xaa; LB];
            "altaa".into()
        }
        5 => {
            c[0] = 1;
            c[LB - 1] = 0x80;
            "ends".into()
        }
        _ => {
            r.fill_bytes(&mut c);
            "random".into()
        }
    };
    (c, name)
}

pub fn seed_set(kind: usize, seed: u64, case: usize, r: &mut impl RngCore) -> (SenderOTSeed, ReceiverOTSeed, String) {
    match kind % 6 {
        0 => {
            let mut g = rng(seed, &format!("c03-genseed-{case}"));
            let (s, rs) = generate_all_but_one_seed_ot(&mut g);
            (s, rs, "generated".into())
        }
        1 => {
            let (s, rs) = hand_seeds(r, &[0u8; TREES], true);
            (s, rs, "delta0".into())
        }
        2 => {
            let (s, rs) = hand_seeds(r, &[15u8; TREES], true);
            (s, rs, "delta15".into())
        }
        3 => {
            let d: [u8; TREES] = std::array::from_fn(|i| if i % 2 == 0 { 0 } else { 15 });
            let (s, rs) = hand_seeds(r, &d, true);
            (s, rs, "delta0-15".into())
        }
        4 => {
            let d: [u8; TREES] = std::array::from_fn(|i| (i % 16) as u8);
            let (s, rs) = hand_seeds(r, &d, false);
            (s, rs, "delta-cycle".into())
        }
        _ => {
            let d: [u8; TREES] = std::array::from_fn(|_| (r.next_u32() % 16) as u8);
            let (s, rs) = hand_seeds(r, &d, true);
            (s, rs, "delta-random".into())
        }
    }
}

fn first_diff(a: &[u8], b: &[u8]) -> String {
    if a.len() != b.len() {
        return format!("lengths {} vs {}", a.len(), b.len());
    }
    match a.iter().zip(b).position(|(x, y)| x != y) {
        Some(p) => format!("first difference at byte {p}: impl {:02x} model {:02x}", a[p], b[p]),
        None => "equal".into(),
    }
}

pub fn run(kv: &Args) -> i32 {
    let seed = kv.u64("seed", 1);
    let out = kv.str("out", "/verif/build/run/C03");
    std::fs::create_dir_all(&out).unwrap();
    let n_cases = kv.u64("cases", if kv.thorough() { 100 } else { 6 }) as usize;
    let mut r = rng(seed, "c03");
    let mut drv = Driver::spawn();
    let mut log = std::fs::File::create(format!("{out}/cases.txt")).unwrap();
    let mut n_eval = 0u64;
    let mut n_nontrivial = 0u64;
    let mut disagreements: Vec<String> = vec![];
    let mut oracle_fail: Vec<String> = vec![];
    let mut samples: Vec<String> = vec![];
    let mut kinds: std::collections::BTreeMap<String, u64> = Default::default();
    let mut distinct: std::collections::BTreeSet<String> = Default::default();

    // ---- generate_all_but_one_seed_ot against the model, tape recovered with a replica rng
    let n_gen = if kv.thorough() { 8 } else { 2 };
    for case in 0..n_gen {
        let mut g1 = rng(seed, &format!("c03-gen-{case}"));
        let mut g2 = rng(seed, &format!("c03-gen-{case}"));
        let (s, rs) = generate_all_but_one_seed_ot(&mut g1);
        let mut keys = vec![];
        for _ in 0..TREES * Q {
            let k: [u8; KEYB] = g2.gen();
            keys.extend_from_slice(&k);
        }
        let picks: Vec<u8> = (0..TREES).map(|_| g2.gen_range(0..=Q - 1) as u8).collect();
        let m = drv.run("c03.genseed", &[hx(&keys), hx(&picks)]);
        n_eval += 1;
        *kinds.entry("genseed".into()).or_default() += 1;
        let imp = (hx(bytemuck::bytes_of(&s.otp_enc_keys)), hx(&rs.random_choices), hx(bytemuck::bytes_of(&rs.otp_dec_keys)));
        match m {
            Ok(v) if v.len() == 3 && v[0] == imp.0 && v[1] == imp.1 && v[2] == imp.2 => {}
            Ok(v) => disagreements.push(format!("genseed case {case}: model differs (enc {}, choices {}, dec {}) rng stream c03-gen-{case}",
                v[0] == imp.0, v[1] == imp.1, v[2] == imp.2)),
            Err(e) => disagreements.push(format!("genseed case {case}: model error {e}")),
        }
        // property of the seed pair: keys agree off the punctured index, index in range
        for i in 0..TREES {
            let d = rs.random_choices[i] as usize;
            if d >= Q || (0..Q).any(|j| j != d && rs.otp_dec_keys[i][j] != s.otp_enc_keys[i][j]) {
                oracle_fail.push(format!("generate_all_but_one_seed_ot: tree {i} violates seeds_ok, rng stream c03-gen-{case} seed {seed}"));
                break;
            }
        }
    }

    // ---- receiver + sender
    let sid_lens = [32usize, 0, 1, 100];
    for case in 0..n_cases {
        let sid_len = sid_lens[case % 4];
        let mut sid = vec![0u8; sid_len];
        r.fill_bytes(&mut sid);
        // quick tier: 6 cases must cover generated + forced 0 / 15 / mixed seeds and all structured choice vectors
        let (sseed, rseed, seed_name) = seed_set(case, seed, case, &mut r);
        let (choices, choice_name) = choice_vector(if case < 7 { [6, 0, 1, 2, 3, 4, 5][case] } else { case / 2 + case }, &mut r);
        let mut tape = [0u8; SB];
        if case % 5 != 4 {
            r.fill_bytes(&mut tape);
        }
        // reused (non-zero) Round1Output buffer in some cases: validates accumulate-vs-overwrite
        let reuse = case % 6 == 5 || (case >= 6 && case % 4 == 3);
        let mut buf = vec![0u8; MSG_BYTES];
        if reuse {
            r.fill_bytes(&mut buf);
        }
        let vx_fill = if case % 2 == 0 { 0 } else { 0xab };
        let desc = format!("case {case}: sid_len={sid_len} seeds={seed_name} choices={choice_name} buffer={} sid={} choices_hex={} tape={}",
            if reuse { "reused" } else { "default" }, hx(&sid), hx(&choices), hx(&tape));
        writeln!(log, "{desc}").unwrap();
        *kinds.entry(format!("seeds-{seed_name}")).or_default() += 1;
        *kinds.entry(format!("choices-{}", choice_name.trim_end_matches(char::is_numeric))).or_default() += 1;
        *kinds.entry(format!("sid{sid_len}")).or_default() += 1;
        *kinds.entry(format!("buffer-{}", if reuse { "reused" } else { "default" })).or_default() += 1;
        distinct.insert(format!("{seed_name}/{}/{sid_len}/{reuse}", choice_name.trim_end_matches(char::is_numeric)));

        let imp = real_recv(&sid, &sseed, &buf, &choices, &tape, vx_fill);
        let mdl = model_recv(&mut drv, &sid, &sseed, &buf, &choices, &tape);
        n_eval += 1;
        let (msg, ch_out, vx) = match imp {
            Some(x) => x,
            None => {
                oracle_fail.push(format!("receiver panicked: {desc}"));
                continue;
            }
        };
        match &mdl {
            Ok((m_msg, m_ch, m_vx)) => {
                if *m_msg != msg {
                    disagreements.push(format!("receiver message: {} -- {desc}", first_diff(&msg, m_msg)));
                }
                if *m_ch != ch_out {
                    disagreements.push(format!("receiver choices: {} -- {desc}", first_diff(&ch_out, m_ch)));
                }
                if *m_vx != vx {
                    disagreements.push(format!("receiver v_x: {} -- {desc}", first_diff(&vx, m_vx)));
                }
            }
            Err(e) => disagreements.push(format!("receiver model error {e} -- {desc}")),
        }
        if !reuse {
            // cross-check of the honest message with the harness's own round one
            let (own, _) = adversary(&sid, &sseed, &choices, &tape, &vec![[0u8; LPB]; TREES], &[0u8; TREES]);
            if own != msg {
                disagreements.push(format!("harness re-implementation of round one differs from the real receiver: {} -- {desc}", first_diff(&msg, &own)));
            }
        }
        let verdict = real_send(&sid, &rseed, &msg);
        let mv = model_send(&mut drv, &sid, &rseed, &msg);
        n_eval += 1;
        match &mv {
            Ok(m) if *m == verdict => {}
            Ok(m) => {
                let detail = match (&verdict, m) {
                    (Verdict::Ok(a0, a1), Verdict::Ok(b0, b1)) => format!("v_0: {}; v_1: {}", first_diff(a0, b0), first_diff(a1, b1)),
                    _ => format!("impl {} model {}", verdict.tag(), m.tag()),
                };
                disagreements.push(format!("sender: {detail} -- {desc}"));
            }
            Err(e) => disagreements.push(format!("sender model error {e} -- {desc}")),
        }
        if samples.len() < 4 {
            samples.push(format!("{} -> message {}.. v_x {}.. sender {}", &desc[..desc.len().min(160)], hx(&msg[..8]), hx(&vx[..8]), verdict.tag()));
        }
        if !reuse {
            n_nontrivial += 1;
            match &verdict {
                Verdict::Ok(v0, v1) => {
                    if let Some(why) = property_oracle(&choices, &ch_out, &vx, v0, v1, rseed.random_choices.iter().all(|d| d & 15 == 0)) {
                        oracle_fail.push(format!("{why} -- {desc} enc_keys={} random_choices={}",
                            hx(bytemuck::bytes_of(&sseed.otp_enc_keys)), hx(&rseed.random_choices)));
                    }
                }
                other => oracle_fail.push(format!("honest first-round message not accepted ({}) -- {desc} enc_keys={} random_choices={}",
                    other.tag(), hx(bytemuck::bytes_of(&sseed.otp_enc_keys)), hx(&rseed.random_choices))),
            }
        } else if choices != ch_out[..] {
            oracle_fail.push(format!("choices recorded in the receiver output differ from the requested ones -- {desc}"));
        }
    }
    // ---- implementation-only sweep (no model run, so it is cheap): more seed patterns x choice vectors x session ids,
    //      checked against the property itself
    let mut known: Vec<String> = vec![];
    let n_sweep = if kv.thorough() { 600 } else { 72 };
    for case in 0..n_sweep {
        let sid_len = [32usize, 0, 1, 33, 64, 100][case % 6];
        let mut sid = vec![0u8; sid_len];
        r.fill_bytes(&mut sid);
        let pat = case % 12;
        let d: [u8; TREES] = std::array::from_fn(|i| match pat {
            0 => 0,
            1 => if i < TREES / 2 { 0 } else { 15 },
            2 => if i < TREES / 2 { 15 } else { 0 },
            3 => if i == TREES - 1 { 1 } else { 0 },
            4 => if i == 0 { 8 } else { 0 },
            5 => if i == (case / 12) % TREES { 1 << ((case / 12) % 4) } else { 0 },
            6 => (i % 2) as u8,
            7 => 15,
            8 => if i % 16 < 8 { 0 } else { (r.next_u32() % 16) as u8 },
            9 => (i % 16) as u8,
            _ => (r.next_u32() % 16) as u8,
        });
        let (mut sseed, mut rseed) = hand_seeds(&mut r, &d, case % 2 == 0);
        // special leaf keys on a non-punctured leaf (the same on both sides): all-zero, all-one, equal neighbours
        if case % 4 == 1 {
            let tree = (case / 4) % TREES;
            let leaf = (d[tree] as usize + 1 + (case / 8) % (Q - 1)) % Q;
            let key = match (case / 4) % 3 { 0 => [0u8; KEYB], 1 => [0xffu8; KEYB], _ => sseed.otp_enc_keys[tree][(leaf + 1) % Q] };
            if (leaf + 1) % Q != d[tree] as usize || (case / 4) % 3 != 2 {
                sseed.otp_enc_keys[tree][leaf] = key;
                rseed.otp_dec_keys[tree][leaf] = key;
            }
        }
        let (choices, choice_name) = choice_vector(case / 3, &mut r);
        let mut choices = choices;
        if case % 9 == 8 {
            // a 16-byte aligned all-zero block inside an otherwise random vector
            r.fill_bytes(&mut choices);
            let blk = (case / 9) % (LB / 16);
            for b in choices[blk * 16..(blk + 1) * 16].iter_mut() { *b = 0; }
        }
        let mut tape = [0u8; SB];
        r.fill_bytes(&mut tape);
        // degenerate honest runs: all-zero / all-one choice vector together with an all-zero / all-one extension tape
        // (the check value x of the first-round message is then 0 resp. a sum of challenges only)
        if case < 8 {
            choices = if case & 1 == 0 { [0u8; LB] } else { [0xffu8; LB] };
            tape = if case & 2 == 0 { [0u8; SB] } else { [0xffu8; SB] };
        }
        let buf = vec![0u8; MSG_BYTES];
        let desc = format!("sweep {case}: sid_len={sid_len} delta={} choices={choice_name} sid={} choices_hex={} tape={}",
            hx(&d), hx(&sid), hx(&choices), hx(&tape));
        n_eval += 1;
        *kinds.entry("oracle-only-sweep".into()).or_default() += 1;
        distinct.insert(format!("sweep/{pat}/{}/{sid_len}", choice_name.trim_end_matches(char::is_numeric)));
        let Some((msg, ch_out, vx)) = real_recv(&sid, &sseed, &buf, &choices, &tape, 0) else {
            oracle_fail.push(format!("receiver panicked: {desc}"));
            continue;
        };
        match real_send(&sid, &rseed, &msg) {
            Verdict::Ok(v0, v1) => {
                let nabla_zero = d.iter().all(|x| *x == 0);
                if let Some(why) = property_oracle(&choices, &ch_out, &vx, &v0, &v1, nabla_zero) {
                    oracle_fail.push(format!("{why} -- {desc} enc_keys={}", hx(bytemuck::bytes_of(&sseed.otp_enc_keys))));
                } else if nabla_zero && v0 == v1 {
                    known.push(format!("key=C03-all-punctured-indices-zero v_0 == v_1 for every transfer when all 64 punctured indices are 0 -- {}", &desc[..desc.len().min(300)]));
                }
            }
            other => oracle_fail.push(format!("honest first-round message not accepted ({}) -- {desc} enc_keys={}", other.tag(),
                hx(bytemuck::bytes_of(&sseed.otp_enc_keys)))),
        }
    }
    let mut f = std::fs::File::create(format!("{out}/result.txt")).unwrap();
    if let Some(k) = known.first() {
        writeln!(f, "KNOWN {k}").unwrap();
    }
    writeln!(f, "evaluations {n_eval}").unwrap();
    writeln!(f, "mutations {}", distinct.len().max(n_nontrivial as usize)).unwrap();
    writeln!(f, "oracle_queries {}", drv.queries).unwrap();
    for (k, v) in &kinds {
        writeln!(f, "kind {k} {v}").unwrap();
    }
    for s in &samples {
        writeln!(f, "SAMPLE {s}").unwrap();
    }
    for d in &disagreements {
        writeln!(f, "DISAGREE {d}").unwrap();
    }
    for d in &oracle_fail {
        writeln!(f, "ORACLE {d}").unwrap();
    }
    0
}
