//! C03 harness module (not implemented yet).
use crate::util::*;

pub fn run(_kv: &Args) -> i32 {
    eprintln!("c03: not implemented");
    2
}
