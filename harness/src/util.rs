//! Shared helpers: arguments, seeded RNG, Coq literal printing.
use rand_chacha::ChaCha20Rng;
use rand::SeedableRng;
use std::collections::HashMap;
use std::fmt::Write as _;

pub struct Args(pub HashMap<String, String>);

impl Args {
    pub fn parse(a: &[String]) -> Self {
        let mut m = HashMap::new();
        for s in a {
            if let Some((k, v)) = s.split_once('=') {
                m.insert(k.to_string(), v.to_string());
            } else {
                m.insert(s.to_string(), String::new());
            }
        }
        Args(m)
    }
    pub fn get(&self, k: &str) -> Option<&str> {
        self.0.get(k).map(|s| s.as_str())
    }
    pub fn u64(&self, k: &str, d: u64) -> u64 {
        self.get(k).and_then(|s| s.parse().ok()).unwrap_or(d)
    }
    pub fn str(&self, k: &str, d: &str) -> String {
        self.get(k).unwrap_or(d).to_string()
    }
    pub fn thorough(&self) -> bool {
        self.get("tier") == Some("thorough")
    }
}

/// All randomness derives from VERIF_SEED (seed=) and a per-stream label.
pub fn rng(seed: u64, stream: &str) -> ChaCha20Rng {
    use sha2::{Digest, Sha256};
    let mut h = Sha256::new();
    h.update(seed.to_be_bytes());
    h.update(stream.as_bytes());
    ChaCha20Rng::from_seed(h.finalize().into())
}

// ---- which case is the real implementation working on?  (for panics that no module catches)
static CASES: std::sync::Mutex<Vec<(std::thread::ThreadId, String)>> = std::sync::Mutex::new(Vec::new());
pub static LAST_PANIC: std::sync::Mutex<Option<String>> = std::sync::Mutex::new(None);
/// Modules that call the real code without `catch_unwind` announce the input first; if the call panics, `main` writes the
/// announced case to `<out>/harness_panic.txt` and the check reports it as the failing input.
pub fn note_case(desc: impl Into<String>) {
    let id = std::thread::current().id();
    let mut g = CASES.lock().unwrap_or_else(|e| e.into_inner());
    let d = desc.into();
    match g.iter_mut().find(|(t, _)| *t == id) {
        Some(e) => e.1 = d,
        None => g.push((id, d)),
    }
}
pub fn current_case() -> String {
    let id = std::thread::current().id();
    let g = CASES.lock().unwrap_or_else(|e| e.into_inner());
    g.iter().find(|(t, _)| *t == id).map(|e| e.1.clone()).unwrap_or_default()
}

/// A seeded stream whose first bytes are fixed (all-zero / all-one prefixes give the degenerate random tapes: zero choice
/// bits, ephemeral scalar 0, a scalar candidate above the group order, ...).  The prefix is chosen by the stream NAME
/// (`...#zero64`, `...#ones32`, `...#zero96`), so that every place that re-creates the stream gets the same bytes.
pub struct PrefixRng {
    /// bytes laid over the stream: (absolute offset, bytes)
    overlays: Vec<(usize, Vec<u8>)>,
    pos: usize,
    inner: ChaCha20Rng,
}
/// the secp256k1 group order, big-endian (a 32-byte draw equal to it is not a canonical scalar, and reduces to 0)
pub const K256_ORDER_BE: [u8; 32] = [
    0xFF, 0xFF, 0xFF, 0xFF, 0xFF, 0xFF, 0xFF, 0xFF, 0xFF, 0xFF, 0xFF, 0xFF, 0xFF, 0xFF, 0xFF, 0xFE, 0xBA, 0xAE, 0xDC, 0xE6, 0xAF, 0x48, 0xA0, 0x3B,
    0xBF, 0xD2, 0x5E, 0x8C, 0xD0, 0x36, 0x41, 0x41,
];
/// Tags after '#' in the stream name, separated by '+': `zeroN` / `onesN` (N bytes at offset 0), `zeroN@OFF`, `onesN@OFF`,
/// `orderK@OFF` (K copies of the group order at byte offset OFF).
pub fn tape_rng(seed: u64, stream: &str) -> PrefixRng {
    let mut overlays = vec![];
    if let Some((_, tags)) = stream.rsplit_once('#') {
        for tag in tags.split('+') {
            let (body, off) = match tag.split_once('@') { Some((b, o)) => (b, o.parse().unwrap_or(0)), None => (tag, 0usize) };
            if let Some(n) = body.strip_prefix("zero") {
                overlays.push((off, vec![0u8; n.parse().unwrap_or(0)]));
            } else if let Some(n) = body.strip_prefix("ones") {
                overlays.push((off, vec![0xffu8; n.parse().unwrap_or(0)]));
            } else if let Some(n) = body.strip_prefix("order") {
                let k: usize = n.parse().unwrap_or(1);
                overlays.push((off, K256_ORDER_BE.iter().cycle().take(32 * k).cloned().collect()));
            }
        }
    }
    PrefixRng { overlays, pos: 0, inner: rng(seed, stream) }
}
impl rand::RngCore for PrefixRng {
    fn next_u32(&mut self) -> u32 {
        let mut b = [0u8; 4];
        self.fill_bytes(&mut b);
        u32::from_le_bytes(b)
    }
    fn next_u64(&mut self) -> u64 {
        let mut b = [0u8; 8];
        self.fill_bytes(&mut b);
        u64::from_le_bytes(b)
    }
    fn fill_bytes(&mut self, dest: &mut [u8]) {
        // the inner generator is always advanced by the full request (its own control flow must not depend on the prefix:
        // the C18 counter comparison sees it), then the prefix bytes are laid over the result
        self.inner.fill_bytes(dest);
        let (a, b) = (self.pos, self.pos + dest.len());
        for (off, bytes) in &self.overlays {
            let (lo, hi) = ((*off).max(a), (off + bytes.len()).min(b));
            if lo < hi {
                dest[lo - a..hi - a].copy_from_slice(&bytes[lo - off..hi - off]);
            }
        }
        self.pos = b;
    }
    fn try_fill_bytes(&mut self, dest: &mut [u8]) -> Result<(), rand::Error> {
        self.fill_bytes(dest);
        Ok(())
    }
}
impl rand::CryptoRng for PrefixRng {}

/// `[1; 2; 255]` (in N_scope) for a byte string.
pub fn coq_bytes(b: &[u8]) -> String {
    let mut s = String::with_capacity(b.len() * 4 + 2);
    s.push('[');
    for (i, x) in b.iter().enumerate() {
        if i > 0 {
            s.push(';');
        }
        let _ = write!(s, "{}", x);
    }
    s.push(']');
    s
}

pub fn hex(b: &[u8]) -> String {
    hex::encode(b)
}

pub fn unhex(s: &str) -> Vec<u8> {
    hex::decode(s).expect("hex")
}
