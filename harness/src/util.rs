//! Shared helpers: arguments, seeded RNG, Coq literal printing.
use rand_chacha::ChaCha20Rng;
use rand::SeedableRng;
use std::collections::HashMap;
use std::fmt::Write as _;

pub struct Args(pub HashMap<String, String>);

impl Args {
    pub fn parse(a: &[String]) -> Self {
        let mut m = HashMap::new();
        for s in a {
            if let Some((k, v)) = s.split_once('=') {
                m.insert(k.to_string(), v.to_string());
            } else {
                m.insert(s.to_string(), String::new());
            }
        }
        Args(m)
    }
    pub fn get(&self, k: &str) -> Option<&str> {
        self.0.get(k).map(|s| s.as_str())
    }
    pub fn u64(&self, k: &str, d: u64) -> u64 {
        self.get(k).and_then(|s| s.parse().ok()).unwrap_or(d)
    }
    pub fn str(&self, k: &str, d: &str) -> String {
        self.get(k).unwrap_or(d).to_string()
    }
    pub fn thorough(&self) -> bool {
        self.get("tier") == Some("thorough")
    }
}

/// All randomness derives from VERIF_SEED (seed=) and a per-stream label.
pub fn rng(seed: u64, stream: &str) -> ChaCha20Rng {
    use sha2::{Digest, Sha256};
    let mut h = Sha256::new();
    h.update(seed.to_be_bytes());
    h.update(stream.as_bytes());
    ChaCha20Rng::from_seed(h.finalize().into())
}

/// `[1; 2; 255]` (in N_scope) for a byte string.
pub fn coq_bytes(b: &[u8]) -> String {
    let mut s = String::with_capacity(b.len() * 4 + 2);
    s.push('[');
    for (i, x) in b.iter().enumerate() {
        if i > 0 {
            s.push(';');
        }
        let _ = write!(s, "{}", x);
    }
    s.push(']');
    s
}

pub fn hex(b: &[u8]) -> String {
    hex::encode(b)
}

pub fn unhex(s: &str) -> Vec<u8> {
    hex::decode(s).expect("hex")
}
