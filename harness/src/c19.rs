//! C19: GF(2^128) multiplication.  Emits (a, b, impl(a,b)) triples; also runs the
//! implementation-only oracle (bit-serial reference) used by the failing-input search.
use crate::util::*;
use rand::RngCore;
use sl_oblivious::verif_hooks::verif_gf128_mul as gf_mul_real;

/// the real function, with the operands announced first (an uncaught panic is then reported with them)
fn gf_mul(a: &[u8; 16], b: &[u8; 16]) -> [u8; 16] {
    crate::util::note_case(format!("binary_field_multiply_gf_2_128 a={} b={}", hex::encode(a), hex::encode(b)));
    gf_mul_real(a, b)
}
use std::io::Write;

/// Independent bit-serial reference: shift-and-add in GF(2)[x]/(x^128+x^7+x^2+x+1).
pub fn gf_ref(a: &[u8; 16], b: &[u8; 16]) -> [u8; 16] {
    let mut acc = 0u128;
    let mut x = u128::from_le_bytes(*a);
    let y = u128::from_le_bytes(*b);
    for i in 0..128 {
        if (y >> i) & 1 == 1 {
            acc ^= x;
        }
        let carry = x >> 127;
        x <<= 1;
        if carry == 1 {
            x ^= 0x87;
        }
    }
    acc.to_le_bytes()
}

fn mono(i: usize) -> [u8; 16] {
    (1u128 << i).to_le_bytes()
}

pub fn run(kv: &Args) -> i32 {
    let seed = kv.u64("seed", 1);
    let out = kv.str("out", "/verif/build/run/C19");
    std::fs::create_dir_all(&out).unwrap();
    let mut cases: Vec<([u8; 16], [u8; 16], &'static str)> = Vec::new();
    // replay mode: a single operand pair
    if let (Some(a), Some(b)) = (kv.get("a"), kv.get("b")) {
        let a: [u8; 16] = unhex(a).try_into().unwrap();
        let b: [u8; 16] = unhex(b).try_into().unwrap();
        cases.push((a, b, "replay"));
    } else {
        // structured operands
        let zero = [0u8; 16];
        let one = mono(0);
        let ones = [0xffu8; 16];
        let specials = [zero, one, ones, mono(127), mono(120), mono(7), mono(8), mono(64),
            [0x80; 16], [0x01; 16], {let mut t=[0u8;16]; t[15]=0xff; t}, {let mut t=[0u8;16]; t[0]=0x87; t}];
        for x in specials.iter() {
            for y in specials.iter() {
                cases.push((*x, *y, "special"));
            }
        }
        // monomial pairs: all 16384 checked against the reference in-process; a sample goes to the model
        let mut r = rng(seed, "c19");
        let nmono = if kv.thorough() { 2048 } else { 256 };
        for _ in 0..nmono {
            let i = (r.next_u32() % 128) as usize;
            let j = (r.next_u32() % 128) as usize;
            cases.push((mono(i), mono(j), "monomial"));
        }
        let nrand = if kv.thorough() { 6000 } else { 700 };
        for _ in 0..nrand {
            let mut a = [0u8; 16];
            let mut b = [0u8; 16];
            r.fill_bytes(&mut a);
            r.fill_bytes(&mut b);
            cases.push((a, b, "random"));
        }
        // sparse operands (few set bits) exercise single carries of the reduction
        for _ in 0..(nrand / 4) {
            let mut a = 0u128;
            let mut b = 0u128;
            for _ in 0..(1 + r.next_u32() % 3) {
                a |= 1u128 << (r.next_u32() % 128);
                b |= 1u128 << (r.next_u32() % 128);
            }
            cases.push((a.to_le_bytes(), b.to_le_bytes(), "sparse"));
        }
    }
    // implementation-only oracle: all monomial pairs + every case against the bit-serial reference
    let mut oracle_fail: Vec<String> = Vec::new();
    let mut oracle_n = 0u64;
    if kv.get("a").is_none() {
        for i in 0..128 {
            for j in 0..128 {
                oracle_n += 1;
                let (a, b) = (mono(i), mono(j));
                if gf_mul(&a, &b) != gf_ref(&a, &b) {
                    oracle_fail.push(format!("{} {}", hex(&a), hex(&b)));
                }
            }
        }
        let mut r = rng(seed, "c19-oracle");
        let n = if kv.thorough() { 2_000_000 } else { 100_000 };
        for _ in 0..n {
            let mut a = [0u8; 16];
            let mut b = [0u8; 16];
            r.fill_bytes(&mut a);
            r.fill_bytes(&mut b);
            oracle_n += 1;
            if gf_mul(&a, &b) != gf_ref(&a, &b) && oracle_fail.len() < 20 {
                oracle_fail.push(format!("{} {}", hex(&a), hex(&b)));
            }
        }
    }
    let mut f = std::fs::File::create(format!("{out}/cases.txt")).unwrap();
    for (a, b, kind) in &cases {
        let r = gf_mul(a, b);
        oracle_n += 1;
        if r != gf_ref(a, b) && oracle_fail.len() < 20 {
            oracle_fail.push(format!("{} {}", hex(a), hex(b)));
        }
        writeln!(f, "{} {} {} {}", kind, hex(a), hex(b), hex(&r)).unwrap();
    }
    let mut f = std::fs::File::create(format!("{out}/oracle.txt")).unwrap();
    writeln!(f, "evaluations {}", oracle_n).unwrap();
    for l in &oracle_fail {
        writeln!(f, "FAIL {}", l).unwrap();
    }
    0
}
