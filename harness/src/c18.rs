//! C18: coverage-counter windows.  Built a second time with
//!   RUSTFLAGS="-C instrument-coverage --cfg sl_crypto_verif --cfg sl_cov"  (nightly, target dir build/cargo-cov)
//! this module runs each constant-time operation inside a window [reset counters .. write profile]
//! for several secret variants; tools (checks/c18.py) compare the per-function counters between
//! variants and with the predictions of the Coq skeletons.  Without cfg(sl_cov) it only lists the plan.
use crate::util::*;
use crypto_bigint::{Encoding, Uint, U128, U256, U512};
use rand::{Rng, RngCore};
use std::io::Write;

#[cfg(sl_cov)]
extern "C" {
    fn __llvm_profile_reset_counters();
    fn __llvm_profile_write_file() -> i32;
    fn __llvm_profile_set_filename(name: *const std::os::raw::c_char);
}

fn window<F: FnOnce()>(out: &str, name: &str, f: F) {
    #[cfg(sl_cov)]
    unsafe {
        let path = std::ffi::CString::new(format!("{out}/cov/{name}.profraw")).unwrap();
        __llvm_profile_set_filename(path.as_ptr());
        __llvm_profile_reset_counters();
        f();
        __llvm_profile_write_file();
        // leak the CString: the runtime keeps the pointer
        std::mem::forget(path);
    }
    #[cfg(not(sl_cov))]
    {
        let _ = (out, name);
        f();
    }
}

type SK = sl_paillier::SK<{ U512::LIMBS }, { U256::LIMBS }, { U128::LIMBS }>;

fn big_prime(r: &mut rand_chacha::ChaCha20Rng) -> U128 {
    loop {
        let p: U128 = crypto_primes_shim(r);
        // top two bits set: p >= 0.75 * 2^128, so p*q has 256 bits and p^2 has 256 bits for every such pair
        if p.bits_vartime() == 128 && bool::from(p.bit(126)) {
            return p;
        }
    }
}

fn crypto_primes_shim(r: &mut rand_chacha::ChaCha20Rng) -> U128 {
    // SK::gen_pq draws two primes; take the first
    let (p, _q) = SK::gen_pq(r);
    p
}

pub fn run(kv: &Args) -> i32 {
    let seed = kv.u64("seed", 1);
    let out = kv.str("out", "/verif/build/run/C18");
    std::fs::create_dir_all(format!("{out}/cov")).unwrap();
    let nvar = kv.u64("variants", 4) as usize;
    let mut plan = std::fs::File::create(format!("{out}/plan.txt")).unwrap();
    let mut r = rng(seed, "c18");

    // ---------------------------------------------------------------- Paillier (256-bit N configuration)
    let mut keys = vec![];
    for _ in 0..2 {
        let p = big_prime(&mut r);
        let q = big_prime(&mut r);
        let (p, q) = if p > q { (q, p) } else { (p, q) };
        keys.push(SK::from_pq(&p, &q));      // p < q
        keys.push(SK::from_pq(&q, &p));      // p > q
    }
    for v in 0..nvar {
        let sk = &keys[v % keys.len()];
        let pk = sk.public_key();
        let n: U256 = **pk.get_n();
        let m_val: U256 = match v % 5 {
            0 => U256::ZERO,
            1 => U256::ONE,
            2 => U256::ONE.shl_vartime(200),
            3 => n.wrapping_sub(&U256::ONE),
            _ => { let mut b = [0u8; 32]; r.fill_bytes(&mut b); U256::from_le_slice(&b).wrapping_rem(&n) }
        };
        let r_val: U256 = match (v / 2) % 4 {
            0 => U256::ONE,
            1 => U256::from_u64(2),
            2 => n.wrapping_sub(&U256::ONE),
            _ => { let mut b = [0u8; 32]; r.fill_bytes(&mut b); U256::from_le_slice(&b).wrapping_rem(&n) }
        };
        let m = pk.into_message(&m_val).unwrap();
        let c = pk.encrypt_with_r(&m, &r_val);
        let c2 = pk.encrypt_with_r(&pk.into_message(&U256::from_u64(77)).unwrap(), &U256::from_u64(3));
        writeln!(plan, "paillier v={v} key={} m={} r={}", v % keys.len(), hex(&m_val.to_be_bytes()), hex(&r_val.to_be_bytes())).unwrap();
        window(&out, &format!("paillier_encrypt_{v}"), || { std::hint::black_box(pk.encrypt_with_r(&m, &r_val)); });
        window(&out, &format!("paillier_decrypt_{v}"), || { std::hint::black_box(sk.decrypt(&c)); });
        window(&out, &format!("paillier_decrypt_fast_{v}"), || { std::hint::black_box(sk.decrypt_fast(&c)); });
        window(&out, &format!("paillier_mul_{v}"), || { std::hint::black_box(pk.mul(&c2, &m)); });
        window(&out, &format!("paillier_add_{v}"), || { std::hint::black_box(pk.add(&c, &c2)); });
        let ip = sk.extract_n_root_init_params();
        let z = c.to_uint().resize::<{ U256::LIMBS }>().wrapping_rem(&n);
        window(&out, &format!("paillier_nroot_{v}"), || { std::hint::black_box(sk.extract_n_root(&z, &ip)); });
        // negative control: the variable-time multiplication must show different counters for different scalars
        window(&out, &format!("paillier_mulvartime_{v}"), || { std::hint::black_box(pk.mul_vartime(&c2, &m)); });
    }

    // ---------------------------------------------------------------- OT stack
    use sl_oblivious::endemic_ot::ReceiverOutput;
    use sl_oblivious::soft_spoken::*;
    for v in 0..nvar {
        let sid: [u8; 32] = r.gen();
        // base-OT outputs: choice bits all-zero / all-one / random
        let mut bkeys = [[[0u8; 32]; 2]; 256];
        for k in bkeys.iter_mut() { r.fill_bytes(&mut k[0]); r.fill_bytes(&mut k[1]); }
        let so = sl_oblivious::verif_hooks::sender_output_from_keys(&bkeys);
        let choice: [u8; 32] = match v % 3 { 0 => [0u8; 32], 1 => [0xff; 32], _ => r.gen() };
        let rkeys: [[u8; 32]; 256] = std::array::from_fn(|i| bkeys[i][((choice[i / 8] >> (i % 8)) & 1) as usize]);
        let ro = ReceiverOutput::new(choice, rkeys);
        let mut sseed = SenderOTSeed::default();
        let mut pprf = PPRFOutput::default();
        build_pprf(&sid, &so, &mut sseed, &mut pprf);
        let mut rseed = ReceiverOTSeed::default();
        writeln!(plan, "ot v={v} choice={}", hex(&choice)).unwrap();
        // results are not unwrapped: a change that makes an operation fail for some secret values must still leave the
        // windows (and their counters) of the other operations comparable
        window(&out, &format!("pprf_eval_{v}"), || { std::hint::black_box(eval_pprf(&sid, &ro, &pprf, &mut rseed).is_ok()); });
        // secret seed VALUES with structure: in variant 2 a known (non-punctured) leaf key of trees 0 and 63 is all-zero,
        // in variant 3 all-one, consistently on both sides; control flow may depend on the punctured INDEX being public
        // to its owner, never on key bytes
        if v % 4 >= 2 {
            for tree in [0usize, 63] {
                let d = rseed.random_choices[tree] as usize;
                let leaf = (d + 1 + tree % 7) % 16;
                let key = if v % 4 == 2 { [0u8; 32] } else { [0xffu8; 32] };
                sseed.otp_enc_keys[tree][leaf] = key;
                rseed.otp_dec_keys[tree][leaf] = key;
            }
        }
        // OT extension + RVOLE
        let mut round1 = Round1Output::default();
        let (rvr, _b) = sl_oblivious::rvole::RVOLEReceiver::new(sid, &sseed, &mut round1, &mut r);
        window(&out, &format!("ss_sender_{v}"), || { std::hint::black_box(SoftSpokenOTSender::process(&sid, &rseed, &round1).is_ok()); });
        use elliptic_curve::Field;
        let a = match v % 4 {
            0 => [k256::Scalar::ZERO, k256::Scalar::ONE],
            1 => [-k256::Scalar::ONE, k256::Scalar::ZERO],
            _ => [k256::Scalar::random(&mut r), k256::Scalar::random(&mut r)],
        };
        let mut out2 = sl_oblivious::rvole::RVOLEOutput::default();
        // secret randomness with structure: the first 32 (64) tape bytes all-one in variant 1 (a scalar candidate above the
        // group order), all-zero in variant 3
        let mut r2 = tape_rng(seed, &format!("c18-rvole-{v}{}", match v % 4 { 1 => "#ones64", 3 => "#zero64", _ => "" }));
        window(&out, &format!("rvole_sender_{v}"), || {
            std::hint::black_box(sl_oblivious::rvole::RVOLESender::process(&sid, &rseed, &a, &round1, &mut out2, &mut r2).is_ok());
        });
        window(&out, &format!("rvole_receiver_{v}"), || { std::hint::black_box(rvr.process(&out2).is_ok()); });
    }
    // the profiler runtime writes once more at exit: point it at a scratch file
    window(&out, "_tail", || {});
    0
}
